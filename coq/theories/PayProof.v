(** Payment proofs (C11): executable model of
      libwallet/src/internal/tx.rs      payment_proof_message, create_payment_proof_signature,
                                        verify_slate_payment_proof, the proof part of update_stored_tx
      libwallet/src/internal/selection.rs   the proof part of lock_tx_context (StoredProofInfo)
      libwallet/src/api_impl/foreign.rs     the proof part of receive_tx
      libwallet/src/api_impl/owner.rs   retrieve_payment_proof, verify_payment_proof
    over ideal ed25519 signatures (Crypto.v [ideal_sig]). No proofs in this file.
    Proto.v plugs these functions into the model of finalize_tx. *)
From GW Require Export Crypto.

Section PayProof.
  Variables sk pk esig : Type.
  Variable pk_eqb : pk -> pk -> bool.
  Variable pub : sk -> pk.
  (** the signed message is amount (8 bytes BE) ‖ excess (33 bytes) ‖ sender address (32 bytes):
      fixed widths, so the byte string determines the triple; the model keeps the triple *)
  Definition emsg : Type := (N * commit * pk)%type.
  Variable sign : sk -> emsg -> esig.
  Variable verify : pk -> emsg -> esig -> bool.
  (** address::address_from_derivation_path keychain parent_key_id index *)
  Variable addr_sk : N -> N -> sk.

  (** slate.payment_proof *)
  Record payinfo := mkPay { pi_sender : pk; pi_receiver : pk; pi_rsig : option esig }.
  (** TxLogEntry.payment_proof *)
  Record sproof := mkSP {
    sp_receiver : pk; sp_rsig : option esig; sp_path : N; sp_sender : pk; sp_ssig : option esig }.

  Definition pp_message (amount : N) (excess : commit) (sender : pk) : emsg :=
    (amount, excess, sender).

  (** foreign::receive_tx: the recipient signs with the address key of its account *)
  Definition receiver_sign (p : payinfo) (amount : N) (excess : commit) (parent : N) : payinfo :=
    mkPay (pi_sender p) (pi_receiver p)
          (Some (sign (addr_sk parent 0) (pp_message amount excess (pi_sender p)))).

  (** owner::init_send_tx: the proof request put on the slate *)
  Definition request (parent : N) (recipient : pk) : payinfo :=
    mkPay (pub (addr_sk parent 0)) recipient None.

  (** selection::lock_tx_context: what is stored in the TxSent entry. [p] is the proof
      field of the slate handed to tx_lock_outputs. *)
  Definition lock_proof (p : option payinfo) (idx : option N) (parent : N)
    : result (option sproof) :=
    match p with
    | None => Ok None
    | Some p =>
      match idx with
      | None => Err EPaymentProof
      | Some i => Ok (Some (mkSP (pi_receiver p) (pi_rsig p) i (pub (addr_sk parent i)) None))
      end
    end.

  (** tx::verify_slate_payment_proof. [entries] are the payment_proof fields of the log
      entries with this slate id under the context's account, oldest first; [idx] and
      [requested] are what the context kept from initiation (derivation index of the sender
      address, recipient address asked for — [requested] is None for contexts written before
      the C11 fix); [amount] and [excess] are slate.amount (restored from the context) and
      slate.calc_excess(). *)
  Definition verify_slate_payment_proof (entries : list (option sproof)) (idx : option N)
             (requested : option pk) (parent : N) (p : option payinfo) (amount : N)
             (excess : commit) : result unit :=
    match entries with
    | [] => Err EPaymentProof
    | orig :: _ =>
      (* what was asked for at initiation: the log entry may have been written from the reply *)
      let* _ := (match idx, p with Some _, None => Err EPaymentProof | _, _ => Ok tt end) in
      let* _ := (match requested, p with
                 | Some a, Some p => if pk_eqb (pi_receiver p) a then Ok tt else Err EPaymentProof
                 | _, _ => Ok tt end) in
      match p with
      | None => match orig with Some _ => Err EPaymentProof | None => Ok tt end
      | Some p =>
        match orig with
        | None => Err EPaymentProof
        | Some o =>
          match idx with
          | None => Err EPaymentProof
          | Some i =>
            let sender := pub (addr_sk parent i) in
            if negb (pk_eqb (pi_sender p) sender) then Err EPaymentProof
            else if negb (pk_eqb (sp_receiver o) (pi_receiver p)) then Err EPaymentProof
            else
              match pi_rsig p with
              | None => Err EPaymentProof
              | Some s =>
                if verify (pi_receiver p) (pp_message amount excess sender) s then Ok tt
                else Err EPaymentProof
              end
          end
        end
      end
    end.

  (** tx::update_stored_tx: the proof written into the log entry at finalization
      ([old] is the entry's previous value, kept when the slate has no proof) *)
  Definition finalize_proof (old : option sproof) (p : option payinfo) (idx : option N)
             (parent : N) (amount : N) (excess : commit) : option sproof :=
    match p with
    | None => old
    | Some p =>
      let i := match idx with Some i => i | None => 0 end in
      let k := addr_sk parent i in
      Some (mkSP (pi_receiver p) (pi_rsig p) i (pub k)
                 (Some (sign k (pp_message amount excess (pi_sender p)))))
    end.

  (** api PaymentProof *)
  Record proof := mkProof {
    pf_amount : N; pf_excess : commit; pf_raddr : pk; pf_rsig : esig; pf_saddr : pk; pf_ssig : esig }.

  (** owner::retrieve_payment_proof on the log entry's fields *)
  Definition retrieve_payment_proof (sp : option sproof) (credited debited : N) (fee : option N)
             (excess : option commit) : result proof :=
    match sp with
    | None => Err EPaymentProof
    | Some sp =>
      let* amount :=
        (if debited <=? credited then Ok (credited - debited)
         else
           let f := match fee with Some f => f | None => 0 end in
           if f <=? debited - credited then Ok (debited - credited - f)
           else Panic PSubOverflow) in
      match excess with
      | None => Err EPaymentProof
      | Some e =>
        match sp_rsig sp with
        | None => Err EPaymentProof
        | Some rs =>
          match sp_ssig sp with
          | None => Err EPaymentProof
          | Some ss => Ok (mkProof amount e (sp_receiver sp) rs (sp_sender sp) ss)
          end
        end
      end
    end.

  (** owner::verify_payment_proof. [kernel] is the node's answer to get_kernel(excess):
      None = the call failed, Some false = no such kernel, Some true = found.
      Returns (sender is this wallet, recipient is this wallet). *)
  Definition verify_payment_proof (p : proof) (kernel : option bool) (parent : N)
    : result (bool * bool) :=
    let m := pp_message (pf_amount p) (pf_excess p) (pf_saddr p) in
    match kernel with
    | None => Err EPaymentProof
    | Some false => Err EPaymentProof
    | Some true =>
      if negb (verify (pf_raddr p) m (pf_rsig p)) then Err EPaymentProof
      else if negb (verify (pf_saddr p) m (pf_ssig p)) then Err EPaymentProof
      else
        let mine := pub (addr_sk parent 0) in
        Ok (pk_eqb mine (pf_saddr p), pk_eqb mine (pf_raddr p))
    end.
End PayProof.

Arguments mkPay {pk esig}.
Arguments pi_sender {pk esig}.
Arguments pi_receiver {pk esig}.
Arguments pi_rsig {pk esig}.
Arguments mkSP {pk esig}.
Arguments sp_receiver {pk esig}.
Arguments sp_rsig {pk esig}.
Arguments sp_path {pk esig}.
Arguments sp_sender {pk esig}.
Arguments sp_ssig {pk esig}.
Arguments mkProof {pk esig}.
Arguments pf_amount {pk esig}.
Arguments pf_excess {pk esig}.
Arguments pf_raddr {pk esig}.
Arguments pf_rsig {pk esig}.
Arguments pf_saddr {pk esig}.
Arguments pf_ssig {pk esig}.

(** A concrete instance used by the correspondence runs (vm_compute): secret keys are
    numbers, a signature is the pair (key, message). PayProofProofs.v shows that this
    instance satisfies [ideal_sig]. *)
Definition cmsg : Type := (N * commit * Z)%type.
Definition c_pub (k : Z) : Z := k.
Definition c_sign (k : Z) (m : cmsg) : Z * cmsg := (k, m).
Definition cmsg_eqb (a b : cmsg) : bool :=
  let '(a1, a2, a3) := a in let '(b1, b2, b3) := b in
  (a1 =? b1) && commit_eqb a2 b2 && (a3 =? b3)%Z.
Definition c_verify (p : Z) (m : cmsg) (s : Z * cmsg) : bool :=
  (p =? fst s)%Z && cmsg_eqb m (snd s).
