(** Proofs for C11 (payment proofs are sound end to end) over ideal ed25519 signatures
    (Crypto.v [ideal_sig]): the finalize side uses the model of finalize_tx (Proto.v) through
    [finalize_core_ok] (ProtoProofs.v); the export/verify side uses PayProof.v. *)
From GW Require Import Proto ProtoProofs SelectProofs.
From Coq Require Import ZifyBool ZifyN ZifyNat.
Ltac Zify.zify_post_hook ::= Z.div_mod_to_equations.

Section PayProofProofs.
  Variable chal : Z -> Z -> kmsg -> Z.
  Variable derive : N -> N -> Z.
  Variables sk pk esig : Type.
  Variable pk_eqb : pk -> pk -> bool.
  Variable pub : sk -> pk.
  Variable sign : sk -> emsg pk -> esig.
  Variable verify : pk -> emsg pk -> esig -> bool.
  Variable addr_sk : N -> N -> sk.

  Hypothesis Hideal : ideal_sig sk pk (emsg pk) esig pub sign verify.
  Hypothesis Heqb : forall a b, pk_eqb a b = true <-> a = b.

  Local Notation slate := (slate pk esig).
  Local Notation wallet := (wallet pk esig).
  Local Notation ctxrec := (ctxrec pk).
  Local Notation finalize_tx := (finalize_tx chal derive sk pk esig pk_eqb pub sign verify addr_sk).
  Local Notation finalize_core := (finalize_core chal derive sk pk esig pk_eqb pub sign verify addr_sk).
  Local Notation verify_slate_payment_proof :=
    (verify_slate_payment_proof sk pk esig pk_eqb pub verify addr_sk).
  Local Notation verify_payment_proof := (verify_payment_proof sk pk esig pk_eqb pub verify addr_sk).
  Local Notation retrieve_payment_proof := (retrieve_payment_proof pk esig).
  Local Notation finalize_proof := (finalize_proof sk pk esig pub sign addr_sk).

  Lemma verify_sign k m : verify (pub k) m (sign k m) = true.
  Proof. destruct Hideal as (H & _). apply H. exists k. split; reflexivity. Qed.

  Lemma verify_inv p m s : verify p m s = true -> exists k, p = pub k /\ s = sign k m.
  Proof. destruct Hideal as (H & _). apply H. Qed.

  Lemma eqb_false a b : pk_eqb a b = false -> a <> b.
  Proof. intros H E. apply Heqb in E. congruence. Qed.

  (** ** what a successful verify_slate_payment_proof has checked *)
  Lemma verify_slate_ok entries i requested parent p amount excess :
    verify_slate_payment_proof entries (Some i) requested parent p amount excess = Ok tt ->
    exists pp o rest s,
      p = Some pp /\ entries = Some o :: rest
      /\ pi_sender pp = pub (addr_sk parent i)
      /\ sp_receiver o = pi_receiver pp
      /\ (forall a, requested = Some a -> pi_receiver pp = a)
      /\ pi_rsig pp = Some s
      /\ verify (pi_receiver pp) (pp_message pk amount excess (pub (addr_sk parent i))) s = true.
  Proof.
    unfold PayProof.verify_slate_payment_proof.
    destruct entries as [|orig rest]; [discriminate|].
    destruct p as [pp|]; cbn [bind]; [|discriminate].
    intros H.
    assert (Hreq : forall a, requested = Some a -> pi_receiver pp = a).
    { intros a ->. destruct (pk_eqb (pi_receiver pp) a) eqn:E; [now apply Heqb|discriminate]. }
    destruct requested as [a|]; [destruct (pk_eqb (pi_receiver pp) a); [|discriminate]|];
      cbn [bind] in H.
    all: destruct orig as [o|]; [|discriminate].
    all: destruct (pk_eqb (pi_sender pp) (pub (addr_sk parent i))) eqn:Es; cbn [negb] in H; [|discriminate].
    all: destruct (pk_eqb (sp_receiver o) (pi_receiver pp)) eqn:Er; cbn [negb] in H; [|discriminate].
    all: destruct (pi_rsig pp) as [s|] eqn:Esig; [|discriminate].
    all: destruct (verify _ _ s) eqn:Ev; [|discriminate].
    all: exists pp, o, rest, s; apply Heqb in Es; apply Heqb in Er; repeat split; try assumption; reflexivity.
  Qed.

  (** ** C11 (i): finalize of a proof-requesting send *)
  Lemma core_requires_proof (w : wallet) (r : slate) (c : ctxrec) i w' t :
    cx_pp_index c = Some i ->
    finalize_core w r c false = Ok (w', t) ->
    exists p s k ks o,
      sl_proof r = Some p
      /\ pi_sender p = pub (addr_sk (cx_parent c) i)
      /\ (forall a, cx_pp_recipient c = Some a -> pi_receiver p = a)
      /\ hd_error (map lg_proof (entries_for pk esig w (sl_id r) (Some (cx_parent c)))) = Some (Some o)
      /\ sp_receiver o = pi_receiver p
      /\ pi_rsig p = Some s
      /\ tx_kerns t = [k]
      /\ pi_receiver p = pub ks
      /\ s = sign ks (pp_message pk (cx_amount c) (kn_excess k) (pub (addr_sk (cx_parent c) i))).
  Proof.
    intros Hi H. apply finalize_core_ok in H as (fee & t0 & k & F).
    destruct F as [_ _ _ _ _ cf_kern0 _ _ _ _ cf_pp0 _].
    specialize (cf_pp0 eq_refl). rewrite Hi in cf_pp0.
    apply verify_slate_ok in cf_pp0 as (pp & o & rest & s & Hp & He & Hs & Hr & Hreq & Hsig & Hv).
    apply verify_inv in Hv as (ks & Hk & Hsg).
    exists pp, s, k, ks, o. rewrite He. cbn [hd_error]. repeat split; try assumption; reflexivity.
  Qed.

  (** whatever state the reply is labelled with: a context for which a proof was requested is
      only ever finalized by a reply in the standard send's state *)
  Theorem finalize_with_proof_only_standard (w : wallet) (r : slate) (c : ctxrec) i w' t :
    lookup_ctx pk esig w (sl_id r) = Some c -> cx_pp_index c = Some i ->
    finalize_tx w r = (w', Ok t) -> sl_state r = StS2.
  Proof.
    intros Hl Hi H. unfold Proto.finalize_tx in H. rewrite Hl in H.
    destruct (check_ttl pk esig w r); try (inversion H; discriminate).
    destruct (sl_state r); try (inversion H; discriminate); [reflexivity|].
    rewrite Hi in H. destruct (cx_late c); inversion H; discriminate.
  Qed.

  Theorem finalize_requires_proof (w : wallet) (r : slate) (c : ctxrec) i w' t :
    lookup_ctx pk esig w (sl_id r) = Some c -> sl_state r = StS2 -> cx_pp_index c = Some i ->
    finalize_tx w r = (w', Ok t) ->
    exists p s k ks,
      sl_proof r = Some p
      /\ pi_sender p = pub (addr_sk (cx_parent c) i)
      /\ (forall a, cx_pp_recipient c = Some a -> pi_receiver p = a)
      /\ pi_rsig p = Some s
      /\ tx_kerns t = [k]
      /\ pi_receiver p = pub ks
      /\ s = sign ks (pp_message pk (cx_amount c) (kn_excess k) (pub (addr_sk (cx_parent c) i))).
  Proof.
    intros Hl Hs Hi H. unfold Proto.finalize_tx in H. rewrite Hl in H.
    destruct (check_ttl pk esig w r); try (inversion H; discriminate).
    rewrite Hs in H. destruct (has_inputs pk esig r); [inversion H; discriminate|].
    destruct (cx_late c) as [la|] eqn:Elate.
    - destruct (late_lock_step derive sk pk esig pub addr_sk w r c la) as [w1 [c'|e|q]] eqn:El;
        try (inversion H; discriminate).
      destruct (finalize_core w1 r c' false) as [[w2 t2]|e|q] eqn:Ec; inversion H; subst; try discriminate.
      (* the completed context keeps account, amount and what was asked for *)
      assert (Hc' : cx_parent c' = cx_parent c /\ cx_amount c' = cx_amount c
                    /\ cx_pp_index c' = cx_pp_index c /\ cx_pp_recipient c' = cx_pp_recipient c).
      { unfold Proto.late_lock_step in El.
        destruct (build_send _ _); try (inversion El; discriminate).
        destruct (negb _); [inversion El; discriminate|].
        match type of El with context [lock_tx_context ?a ?b ?c0 ?d ?e ?f ?g ?h ?i0 ?j ?k0] =>
          destruct (lock_tx_context a b c0 d e f g h i0 j k0); inversion El; subst c' end.
        cbn. repeat split. }
      destruct Hc' as (Hp & Ha & Hi' & Hr).
      rewrite <- Hi' in Hi.
      destruct (core_requires_proof _ _ _ _ _ _ Hi Ec) as (p & s & k & ks & o & H1 & H2 & H3 & _ & _ & H6 & H7 & H8 & H9).
      exists p, s, k, ks. rewrite Hp, Ha, Hr in *. repeat split; assumption.
    - destruct (finalize_core w r c false) as [[w2 t2]|e|q] eqn:Ec; inversion H; subst; try discriminate.
      destruct (core_requires_proof _ _ _ _ _ _ Hi Ec) as (p & s & k & ks & o & H1 & H2 & H3 & _ & _ & H6 & H7 & H8 & H9).
      exists p, s, k, ks. repeat split; assumption.
  Qed.

  (** stripped, signed by another key, signed over other values: refused *)
  Corollary finalize_refuses_forged_proof (w : wallet) (r : slate) (c : ctxrec) i a w' res :
    lookup_ctx pk esig w (sl_id r) = Some c -> sl_state r = StS2 ->
    cx_pp_index c = Some i -> cx_pp_recipient c = Some a ->
    finalize_tx w r = (w', res) ->
    (sl_proof r = None
     \/ (exists p, sl_proof r = Some p /\ pi_rsig p = None)
     \/ (exists p, sl_proof r = Some p /\ pi_receiver p <> a)
     \/ (exists p k', sl_proof r = Some p /\ pub k' <> a /\ exists m', pi_rsig p = Some (sign k' m'))
     \/ (exists p k' m', sl_proof r = Some p /\ pi_rsig p = Some (sign k' m')
                        /\ forall t k, res = Ok t -> tx_kerns t = [k] ->
                           m' <> pp_message pk (cx_amount c) (kn_excess k) (pub (addr_sk (cx_parent c) i)))) ->
    forall t, res <> Ok t.
  Proof.
    intros Hl Hs Hi Ha H Hbad t ->.
    destruct (finalize_requires_proof _ _ _ _ _ _ Hl Hs Hi H) as (p & s & k & ks & H1 & H2 & H3 & H4 & H5 & H6 & H7).
    specialize (H3 a Ha). destruct Hideal as (_ & Hinj & _).
    destruct Hbad as [Hb|[(p' & Hp' & Hb)|[(p' & Hp' & Hb)|[(p' & k' & Hp' & Hb & m' & Hm')|(p' & k' & m' & Hp' & Hm' & Hb)]]]].
    - congruence.
    - rewrite H1 in Hp'. inversion Hp'; subst p'. congruence.
    - rewrite H1 in Hp'. inversion Hp'; subst p'. congruence.
    - rewrite H1 in Hp'. inversion Hp'; subst p'. rewrite H4 in Hm'. inversion Hm' as [Hm2].
      rewrite H7 in Hm2. apply Hinj in Hm2 as [-> _]. congruence.
    - rewrite H1 in Hp'. inversion Hp'; subst p'. rewrite H4 in Hm'. inversion Hm' as [Hm2].
      rewrite H7 in Hm2. apply Hinj in Hm2 as [_ Hm3]. eapply Hb; [reflexivity|exact H5|]. now symmetry.
  Qed.

  (** ** C11 (iii)-(iv): the exported proof *)
  Definition valid_proof (p : proof pk esig) : Prop :=
    exists kr ks,
      pf_raddr p = pub kr /\ pf_saddr p = pub ks
      /\ pf_rsig p = sign kr (pp_message pk (pf_amount p) (pf_excess p) (pf_saddr p))
      /\ pf_ssig p = sign ks (pp_message pk (pf_amount p) (pf_excess p) (pf_saddr p)).

  Theorem verify_ok_inv p kernel parent v :
    verify_payment_proof p kernel parent = Ok v -> kernel = Some true /\ valid_proof p.
  Proof.
    unfold PayProof.verify_payment_proof. destruct kernel as [[|]|]; try discriminate.
    destruct (verify (pf_raddr p) _ (pf_rsig p)) eqn:Er; cbn [negb]; [|discriminate].
    destruct (verify (pf_saddr p) _ (pf_ssig p)) eqn:Es; cbn [negb]; [|discriminate].
    intros _. split; [reflexivity|].
    apply verify_inv in Er as (kr & Hkr & Hr). apply verify_inv in Es as (ks & Hks & Hs).
    exists kr, ks. repeat split; assumption.
  Qed.

  Theorem verify_kernel_absent p parent :
    verify_payment_proof p None parent = Err EPaymentProof
    /\ verify_payment_proof p (Some false) parent = Err EPaymentProof.
  Proof. split; reflexivity. Qed.

  Lemma valid_verifies p parent :
    valid_proof p -> exists v, verify_payment_proof p (Some true) parent = Ok v.
  Proof.
    intros (kr & ks & Hr & Hs & Hrs & Hss). unfold PayProof.verify_payment_proof.
    assert (H1 : verify (pf_raddr p) (pp_message pk (pf_amount p) (pf_excess p) (pf_saddr p)) (pf_rsig p) = true).
    { rewrite Hrs. rewrite Hr at 1. apply verify_sign. }
    assert (H2 : verify (pf_saddr p) (pp_message pk (pf_amount p) (pf_excess p) (pf_saddr p)) (pf_ssig p) = true).
    { rewrite Hss. rewrite Hs at 1. apply verify_sign. }
    rewrite H1, H2. cbn [negb]. eexists. reflexivity.
  Qed.

  (** two accepted proofs with the same recipient signature are the same proof; so are two
      with the same sender signature and the same recipient address *)
  Lemma valid_determined p p' :
    valid_proof p -> valid_proof p' ->
    pf_rsig p = pf_rsig p' \/ (pf_ssig p = pf_ssig p' /\ pf_raddr p = pf_raddr p') ->
    p = p'.
  Proof.
    intros (kr & ks & Hr & Hs & Hrs & Hss) (kr' & ks' & Hr' & Hs' & Hrs' & Hss') Hsh.
    destruct Hideal as (_ & Hinj & Hpinj).
    assert (Hm : kr = kr' /\ pp_message pk (pf_amount p) (pf_excess p) (pf_saddr p)
                            = pp_message pk (pf_amount p') (pf_excess p') (pf_saddr p')).
    { destruct Hsh as [E|[E Era]].
      - rewrite Hrs, Hrs' in E. apply Hinj in E. exact E.
      - rewrite Hss, Hss' in E. apply Hinj in E as [_ E]. split; [|exact E].
        apply Hpinj. congruence. }
    destruct Hm as [-> Hm]. unfold pp_message in Hm. inversion Hm as [[Ha He Hsa]].
    assert (ks = ks') by (apply Hpinj; congruence). subst ks'.
    unfold pp_message in *. rewrite <- Hm in Hrs', Hss'.
    destruct p, p'; cbn in *. congruence.
  Qed.

  (** changing any single field of an accepted proof makes verification fail *)
  Definition one_field_changed (p p' : proof pk esig) : Prop :=
    (pf_amount p' <> pf_amount p /\ p' = mkProof (pf_amount p') (pf_excess p) (pf_raddr p) (pf_rsig p) (pf_saddr p) (pf_ssig p))
    \/ (pf_excess p' <> pf_excess p /\ p' = mkProof (pf_amount p) (pf_excess p') (pf_raddr p) (pf_rsig p) (pf_saddr p) (pf_ssig p))
    \/ (pf_raddr p' <> pf_raddr p /\ p' = mkProof (pf_amount p) (pf_excess p) (pf_raddr p') (pf_rsig p) (pf_saddr p) (pf_ssig p))
    \/ (pf_saddr p' <> pf_saddr p /\ p' = mkProof (pf_amount p) (pf_excess p) (pf_raddr p) (pf_rsig p) (pf_saddr p') (pf_ssig p))
    \/ (pf_rsig p' <> pf_rsig p /\ p' = mkProof (pf_amount p) (pf_excess p) (pf_raddr p) (pf_rsig p') (pf_saddr p) (pf_ssig p))
    \/ (pf_ssig p' <> pf_ssig p /\ p' = mkProof (pf_amount p) (pf_excess p) (pf_raddr p) (pf_rsig p) (pf_saddr p) (pf_ssig p')).

  Theorem altered_proof_refused p p' kernel parent v v' :
    verify_payment_proof p (Some true) parent = Ok v ->
    one_field_changed p p' ->
    verify_payment_proof p' kernel parent <> Ok v'.
  Proof.
    intros Hv Hch Hv'.
    apply verify_ok_inv in Hv as [_ Hp]. apply verify_ok_inv in Hv' as [_ Hp'].
    assert (Heq : p = p').
    { apply valid_determined; try assumption.
      destruct Hch as [[_ ->]|[[_ ->]|[[_ ->]|[[_ ->]|[[_ ->]|[_ ->]]]]]]; cbn; auto. }
    subst p'. destruct Hch as [[H _]|[[H _]|[[H _]|[[H _]|[[H _]|[H _]]]]]]; now apply H.
  Qed.

  (** ** C11 (ii): the proof exported after an honest-or-not but ACCEPTED finalize verifies *)
  Lemma update_first_found (f : logentry pk esig -> bool) g l l' :
    update_first pk esig f g l = Some l' ->
    exists l1 e l2, l = l1 ++ e :: l2 /\ l' = l1 ++ g e :: l2 /\ f e = true
                    /\ forallb (fun x => negb (f x)) l1 = true.
  Proof.
    revert l'. induction l as [|e l IH]; cbn [update_first]; intros l' H; [discriminate|].
    destruct (f e) eqn:Ef.
    - inversion H; subst. exists [], e, l. cbn. repeat split; assumption.
    - destruct (update_first pk esig f g l) as [r|]; [|discriminate]. inversion H; subst.
      destruct (IH r eq_refl) as (l1 & e0 & l2 & -> & -> & Hf & Hall).
      exists (e :: l1), e0, l2. cbn. rewrite Ef. cbn. repeat split; assumption.
  Qed.

  Lemma amount_recomputed (a f ch : N) :
    (if a + f + ch <=? ch then Ok (ch - (a + f + ch))
     else if f <=? a + f + ch - ch then Ok (a + f + ch - ch - f) else Panic PSubOverflow) = Ok a.
  Proof.
    destruct (a + f + ch <=? ch) eqn:E1; [f_equal; lia|].
    destruct (f <=? a + f + ch - ch) eqn:E2; [f_equal; lia|lia].
  Qed.

  (** the TxSent entry as lock_tx_context wrote it for context [c] *)
  Definition entry_matches (e : logentry pk esig) (c : ctxrec) : Prop :=
    lg_debited e = sumN (map snd (cx_inputs c)) /\ lg_credited e = sumN (map snd (cx_outputs c))
    /\ lg_fee e = cx_fee c.

  Theorem exported_proof_verifies (w : wallet) (r : slate) (c : ctxrec) i f w' t vparent :
    cx_pp_index c = Some i -> cx_fee c = Some f -> f < FEE_MOD -> ctx_conserves pk c f ->
    (* the entry that update_stored_tx will update is the one lock_tx_context wrote for c *)
    (forall e, In e (w_log w) -> lg_slate e = Some (sl_id r) -> lg_type e = TxSent -> entry_matches e c) ->
    finalize_core w r c false = Ok (w', t) ->
    exists e k p v,
      In e (w_log w') /\ lg_slate e = Some (sl_id r) /\ lg_type e = TxSent /\ tx_kerns t = [k]
      /\ retrieve_payment_proof (lg_proof e) (lg_credited e) (lg_debited e)
                                (match lg_fee e with Some x => Some (fee_of_fields x) | None => None end)
                                (lg_excess e) = Ok p
      /\ pf_amount p = cx_amount c /\ pf_excess p = kn_excess k
      /\ (forall a, cx_pp_recipient c = Some a -> pf_raddr p = a)
      /\ pf_saddr p = pub (addr_sk (cx_parent c) i)
      /\ verify_payment_proof p (Some true) vparent = Ok v.
  Proof.
    intros Hi Hf Hfs Hcons Hent H.
    pose proof (core_requires_proof _ _ _ _ _ _ Hi H) as (pp & s & k & ks & o & H1 & H2 & H3 & _ & _ & H6 & H7 & H8 & H9).
    apply finalize_core_ok in H as (fee & t0 & k0 & F).
    destruct F as [_ _ _ _ _ cf_kern0 _ _ _ _ _ cf_log0].
    rewrite cf_kern0 in H7. inversion H7; subst k0. clear H7.
    destruct cf_log0 as (want & ff & g & Hu & Hw & Hg & Hff).
    apply update_first_found in Hu as (l1 & e & l2 & Hl & Hl' & Hfe & _).
    rewrite Hff, Hw in Hfe. apply andb_true_iff in Hfe as [Hsl Hty].
    assert (Hsl' : lg_slate e = Some (sl_id r)).
    { destruct (lg_slate e) as [j|]; [|discriminate]. f_equal. lia. }
    assert (Hty' : lg_type e = TxSent) by (destruct (lg_type e); try discriminate; reflexivity).
    assert (Hin : In e (w_log w)) by (rewrite Hl; apply in_app_iff; right; now left).
    destruct (Hent e Hin Hsl' Hty') as (Hdeb & Hcred & Hfee).
    set (sender := pub (addr_sk (cx_parent c) i)) in *.
    assert (Hin' : In (g e) (w_log w')) by (rewrite Hl'; apply in_app_iff; right; now left).
    exists (g e), k. eexists. eexists. split; [exact Hin'|].
    rewrite Hg. cbn [lg_proof lg_credited lg_debited lg_fee lg_excess lg_slate lg_type].
    rewrite H1. unfold PayProof.finalize_proof. rewrite Hi.
    unfold PayProof.retrieve_payment_proof. cbn [sp_rsig sp_ssig sp_receiver sp_sender].
    rewrite Hdeb, Hcred, Hfee, Hf. rewrite (fee_of_fields_small f Hfs).
    unfold ctx_conserves in Hcons. rewrite Hcons.
    rewrite amount_recomputed. cbn [bind]. rewrite H6.
    split; [assumption|]. split; [assumption|]. split; [assumption|]. split; [reflexivity|].
    cbn [pf_amount pf_excess pf_raddr pf_saddr].
    split; [reflexivity|]. split; [reflexivity|]. split; [assumption|].
    split; [reflexivity|].
    unfold PayProof.verify_payment_proof.
    cbn [pf_amount pf_excess pf_raddr pf_saddr pf_rsig pf_ssig].
    rewrite H2. fold sender. rewrite H8, H9. rewrite verify_sign. cbn [negb].
    unfold sender at 1. rewrite verify_sign. cbn [negb]. reflexivity.
  Qed.
End PayProofProofs.

(** ** the concrete signature scheme of the correspondence runs is ideal *)
Lemma cmsg_eqb_eq (a b : cmsg) : cmsg_eqb a b = true <-> a = b.
Proof.
  destruct a as [[a1 a2] a3], b as [[b1 b2] b3]. unfold cmsg_eqb. split.
  - intros H. apply andb_true_iff in H as [H H3]. apply andb_true_iff in H as [H1 H2].
    apply N.eqb_eq in H1. apply commit_eqb_eq in H2. apply Z.eqb_eq in H3. now subst.
  - intros H. inversion H; subst. rewrite N.eqb_refl, Z.eqb_refl, commit_eqb_refl. reflexivity.
Qed.

Lemma c_ideal_sig : ideal_sig Z Z cmsg (Z * cmsg) c_pub c_sign c_verify.
Proof.
  unfold ideal_sig, c_pub, c_sign, c_verify. split; [|split].
  - intros p m [k m']. cbn [fst snd]. split.
    + intros H. apply andb_true_iff in H as [H1 H2]. apply Z.eqb_eq in H1. apply cmsg_eqb_eq in H2.
      exists k. subst. split; reflexivity.
    + intros (k' & -> & H). inversion H; subst. rewrite Z.eqb_refl. cbn [andb]. now apply cmsg_eqb_eq.
  - intros k k' m m' H. inversion H. split; reflexivity.
  - intros k k' H. exact H.
Qed.

(** non-vacuity: an honest proof-carrying exchange finalizes, the exported proof verifies in
    the sender's wallet (sender is mine) and in the recipient's (recipient is mine); a reply
    with the proof stripped, re-signed by another key (with or without its address), or
    signed over another amount / excess / sender is refused; an exported proof with any field
    altered, or whose kernel is not on chain, is refused. *)
Definition pp_a : exch :=
  mkExch 1 0 0 [(0, 60000000000)] [(1, 57977000000)] 2000000000 (Some 23000000)
         (Some (0, c_pub (c_addr_sk 10 0))) None 0 false.
Definition pp_case (m : mutation) : case :=
  mkCase 0 5 5 226 ex_os pp_a None 0 false ex_honest ex_honest 10 m.

Example payment_proof_example :
  run_case (pp_case MNone) = [0; 1; 2; 23000000; 0; 1]%Z
  /\ run_verify (pp_case MNone) PNone (Some true) 0 = [0; 1; 0]%Z
  /\ run_verify (pp_case MNone) PNone (Some true) 10 = [0; 0; 1]%Z
  /\ (forall m, In m [MPPStrip; MPPNoSig; MPPResign 77 false; MPPResign 77 true; MPPOver 1 false false;
                      MPPOver 0 true false; MPPOver 0 false true; MPPSaddr 5; MPPRaddr 77] ->
                run_case (pp_case m) = [1; 16; 0]%Z)
  /\ (forall pm, In pm [PAmount 1; PAmount (-1); PExcess; PRaddr 77; PSaddr 77; PRsig 77; PSsig 77;
                        PSwapSigs; PSwapAddrs] ->
                 run_verify (pp_case MNone) pm (Some true) 0 = [1; 16]%Z)
  /\ run_verify (pp_case MNone) PNone (Some false) 0 = [1; 16]%Z
  /\ run_verify (pp_case MNone) PNone None 0 = [1; 16]%Z.
Proof.
  split; [vm_compute; reflexivity|]. split; [vm_compute; reflexivity|].
  split; [vm_compute; reflexivity|].
  split.
  { intros m Hm. repeat (destruct Hm as [<-|Hm]; [vm_compute; reflexivity|]). destruct Hm. }
  split.
  { intros m Hm. repeat (destruct Hm as [<-|Hm]; [vm_compute; reflexivity|]). destruct Hm. }
  split; vm_compute; reflexivity.
Qed.
