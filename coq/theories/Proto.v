(** Executable model of the finalization step of the two-party slate protocol (C02, and the
    end-to-end half of C11), over the idealised cryptography of Crypto.v:

      libwallet/src/api_impl/foreign.rs   finalize_tx (Standard2 and Invoice2 branches,
                                          late-lock branch), receive_tx (honest reply, for the
                                          correspondence runs and the non-vacuity examples)
      libwallet/src/api_impl/owner.rs     tx_lock_outputs, check_ttl, cancel_tx (verdict only),
                                          process_invoice_tx (honest reply)
      libwallet/src/internal/selection.rs repopulate_tx, lock_tx_context
      libwallet/src/internal/tx.rs        complete_tx, update_stored_tx
      libwallet/src/slate.rs              add_participant_info, adjust_offset, kernel_features,
                                          fill_round_2, verify_part_sigs, finalize_signature,
                                          finalize_transaction, check_fees, calc_excess,
                                          tx_from_slate_v4 (coms -> transaction body)
      grin_core                           Transaction::validate(AsTransaction), tx_fee

    The checks are in the code's order. The reply slate is a value of the record [slate]
    (the wire record SlateV4): the tamper model is "any value of that type".
    No proofs in this file. *)
From GW Require Export Crypto PayProof Select.

(** Kernel features with their fee field: this is what the kernel signature signs. *)
Inductive kmsg := KPlain (fee : N) | KHeight (fee lock : N) | KNrd (fee rel : N).

Definition kmsg_fee_fields (k : kmsg) : N :=
  match k with KPlain f => f | KHeight f _ => f | KNrd f _ => f end.
(** FeeFields::fee(): the low 40 bits *)
Definition FEE_MOD : N := 1099511627776.
Definition fee_of_fields (f : N) : N := f mod FEE_MOD.
Definition WEEK_HEIGHT : N := 10080.

(** Slate::kernel_features *)
Definition kernel_features (feat : N) (args : option N) (fee : N) : result kmsg :=
  if feat =? 0 then Ok (KPlain fee)
  else if feat =? 1 then Err EOther
  else if feat =? 2 then match args with Some l => Ok (KHeight fee l) | None => Err EOther end
  else if feat =? 3 then
    match args with
    | Some l => if (1 <=? l) && (l <=? WEEK_HEIGHT) then Ok (KNrd fee l) else Err EOther
    | None => Err EOther
    end
  else Err EOther.

Record part := mkPart { pt_xs : Z; pt_nonce : Z; pt_sig : option sig }.
(** one entry of the wire field [coms]: without a proof it is an input *)
Record com := mkCom { cm_feat : N; cm_c : commit; cm_p : option rproof }.
Inductive sstate := StUnknown | StS1 | StS2 | StS3 | StI1 | StI2 | StI3.

Record txin := mkIn { ti_feat : N; ti_c : commit }.
Record txout := mkTxOut { to_feat : N; to_c : commit; to_p : rproof }.
Record kernel := mkKern { kn_msg : kmsg; kn_excess : commit; kn_sig : sig }.
Record tx := mkTx { tx_offset : Z; tx_ins : list txin; tx_outs : list txout; tx_kerns : list kernel }.

Inductive txtype := TxSent | TxReceived | TxOtherType.

Fixpoint nodup_commits (l : list commit) : bool :=
  match l with
  | [] => true
  | c :: r => negb (existsb (commit_eqb c) r) && nodup_commits r
  end.

Fixpoint seqN (start : N) (n : nat) : list N :=
  match n with O => [] | S n' => start :: seqN (start + 1) n' end.

Section Proto.
  (** challenge hash of the aggregate signature; keychain derivation (key id, value) -> blind *)
  Variable chal : Z -> Z -> kmsg -> Z.
  Variable derive : N -> N -> Z.
  (** ideal ed25519 and the address derivation, for the payment-proof stage *)
  Variables sk pk esig : Type.
  Variable pk_eqb : pk -> pk -> bool.
  Variable pub : sk -> pk.
  Variable sign : sk -> emsg pk -> esig.
  Variable verify : pk -> emsg pk -> esig -> bool.
  Variable addr_sk : N -> N -> sk.

  Record slate := mkSlate {
    sl_num_parts : N;                 (* u8 on the wire *)
    sl_id : N;
    sl_state : sstate;
    sl_coms : option (list com);
    sl_unsorted : bool;               (* the coms are not in consensus (hash) order *)
    sl_amount : N;
    sl_fee : N;                       (* fee fields, raw u64 *)
    sl_feat : N;
    sl_feat_args : option N;
    sl_ttl : N;
    sl_off : Z;
    sl_sigs : list part;
    sl_proof : option (payinfo pk esig)
  }.

  (** InitTxArgs kept for a late-locked send *)
  Record late_args := mkLate {
    la_minconf : N; la_max_outputs : N; la_change_outputs : N; la_all : bool
  }.

  (** libwallet Context *)
  Record ctxrec := mkCtx {
    cx_parent : N;
    cx_key : Z; cx_nonce : Z; cx_init_key : Z; cx_init_nonce : Z;
    cx_inputs : list (N * N);          (* key id, value *)
    cx_outputs : list (N * N);
    cx_amount : N;
    cx_fee : option N;
    cx_pp_index : option N;
    cx_pp_recipient : option pk;       (* recipient address asked for at initiation (C11 fix) *)
    cx_late : option late_args
  }.

  Record logentry := mkLog {
    lg_parent : N; lg_slate : option N; lg_type : txtype; lg_confirmed : bool;
    lg_excess : option commit; lg_proof : option (sproof pk esig);
    lg_fee : option N; lg_credited : N; lg_debited : N
  }.

  Record wallet := mkW {
    w_parent : N;                      (* active account *)
    w_conf_height : N;                 (* last_confirmed_height *)
    w_tip : N;                         (* node tip (late lock) *)
    w_max_weight : N;                  (* global::max_tx_weight() *)
    w_ctxs : list (N * ctxrec);
    w_outs : list out;
    w_log : list logentry;
    w_stored : list (N * tx)
  }.

  Definition lookup_ctx (w : wallet) (id : N) : option ctxrec :=
    match find (fun e => fst e =? id) (w_ctxs w) with Some e => Some (snd e) | None => None end.
  Definition find_out (w : wallet) (k : N) : option out :=
    find (fun o => o_key o =? k) (w_outs w).

  Definition blind_kv (kv : N * N) : Z := derive (fst kv) (snd kv).
  Definition commit_kv (kv : N * N) : commit := Cm (Z.of_N (snd kv)) (blind_kv kv).

  (** Slate::adjust_offset *)
  Definition adjust_offset (off : Z) (c : ctxrec) : Z :=
    (off - cx_init_key c - sumZ (map blind_kv (cx_inputs c)) + sumZ (map blind_kv (cx_outputs c)))%Z.

  Definition is_mine (key nonce : Z) (p : part) : bool :=
    (pt_nonce p =? nonce)%Z && (pt_xs p =? key)%Z.

  (** Slate::add_participant_info (part_sig argument None) *)
  Definition add_participant_info (sigs : list part) (key nonce : Z) : list part :=
    let psig := first_some (fun p => if is_mine key nonce p then pt_sig p else None) sigs in
    filter (fun p => negb (is_mine key nonce p)) sigs ++ [mkPart key nonce psig].

  (** tx_from_slate_v4: body from the coms (the kernel is replaced later anyway) *)
  Definition coms_ins (cs : list com) : list txin :=
    flat_map (fun c => match cm_p c with None => [mkIn (cm_feat c) (cm_c c)] | Some _ => [] end) cs.
  Definition coms_outs (cs : list com) : list txout :=
    flat_map (fun c => match cm_p c with Some p => [mkTxOut (cm_feat c) (cm_c c) p] | None => [] end) cs.

  (** repopulate_tx: only the context entries that the wallet still has a record for *)
  Definition my_inputs (w : wallet) (c : ctxrec) : list txin :=
    flat_map (fun kv => match find_out w (fst kv) with
                        | Some o => [mkIn (if o_cb o then 1 else 0) (commit_kv kv)]
                        | None => [] end) (cx_inputs c).
  Definition my_outputs (w : wallet) (c : ctxrec) : list txout :=
    flat_map (fun kv => match find_out w (fst kv) with
                        | Some _ => [mkTxOut 0 (commit_kv kv) (rp_create (commit_kv kv))]
                        | None => [] end) (cx_outputs c).

  (** Transaction::with_input / with_output: an element already present (same features and
      commitment) is not inserted again *)
  Definition in_same (a b : txin) : bool := (ti_feat a =? ti_feat b) && commit_eqb (ti_c a) (ti_c b).
  Definition out_same (a b : txout) : bool := (to_feat a =? to_feat b) && commit_eqb (to_c a) (to_c b).
  Definition add_in (l : list txin) (i : txin) : list txin :=
    if existsb (in_same i) l then l else l ++ [i].
  Definition add_out (l : list txout) (o : txout) : list txout :=
    if existsb (out_same o) l then l else l ++ [o].

  (** PublicKey::from_combination: empty list and the point at infinity are errors *)
  Definition pub_sum (l : list Z) : result Z :=
    match l with
    | [] => Err ECrypto
    | _ => if (sumZ l =? 0)%Z then Err ECrypto else Ok (sumZ l)
    end.
  Definition nonce_sum (sigs : list part) : result Z := pub_sum (map pt_nonce sigs).
  Definition blind_sum (sigs : list part) : result Z := pub_sum (map pt_xs sigs).

  (** Slate::verify_part_sigs *)
  Fixpoint vps_loop (all : list part) (m : result kmsg) (l : list part) : result unit :=
    match l with
    | [] => Ok tt
    | p :: r =>
      match pt_sig p with
      | None => vps_loop all m r
      | Some sg =>
        let* rs := nonce_sum all in
        let* ps := blind_sum all in
        let* mm := m in
        if verify_partial kmsg chal sg rs (pt_xs p) ps mm then vps_loop all m r
        else Err ECrypto
      end
    end.
  Definition verify_part_sigs (sigs : list part) (m : result kmsg) : result unit :=
    vps_loop sigs m sigs.

  (** the loop of fill_round_2 over indices 0..num_participants *)
  Fixpoint place (n : nat) (key nonce : Z) (sg : sig) (l : list part) : result (list part) :=
    match n with
    | O => Ok l
    | S n' =>
      match l with
      | [] => Panic PIndexOOB
      | p :: r =>
        if (pt_xs p =? key)%Z && (pt_nonce p =? nonce)%Z
        then Ok (mkPart (pt_xs p) (pt_nonce p) (Some sg) :: r)
        else let* r' := place n' key nonce sg r in Ok (p :: r')
      end
    end.

  Definition num_participants (n : N) : N := if n =? 0 then 2 else n.

  (** Slate::fill_round_2 *)
  Definition fill_round_2 (sigs : list part) (nparts : N) (key nonce : Z) (m : result kmsg)
    : result (list part) :=
    let* _ := verify_part_sigs sigs m in
    let* rs := nonce_sum sigs in
    let* ps := blind_sum sigs in
    let* mm := m in
    place (N.to_nat (num_participants nparts)) key nonce
          (sign_partial kmsg chal key nonce rs ps mm) sigs.

  Definition part_sigs (sigs : list part) : list sig :=
    flat_map (fun p => match pt_sig p with Some s => [s] | None => [] end) sigs.

  (** Slate::finalize_signature *)
  Definition finalize_signature (sigs : list part) (m : result kmsg) : result sig :=
    let* _ := verify_part_sigs sigs m in
    let* rs := nonce_sum sigs in
    let* ps := blind_sum sigs in
    let final := add_signatures (part_sigs sigs) rs in
    let* mm := m in
    if verify_single kmsg chal final ps ps mm then Ok final else Err ECrypto.

  Definition tx_fee_total (t : tx) : N :=
    fold_right (fun k acc => sat_add (fee_of_fields (kmsg_fee_fields (kn_msg k))) acc) 0 (tx_kerns t).

  (** Slate::check_fees *)
  Definition check_fees (t : tx) (amount fee_fields : N) : result unit :=
    let* fmin := tx_fee (lenN (tx_ins t)) (lenN (tx_outs t)) (lenN (tx_kerns t)) in
    if tx_fee_total t <? fmin then Err EFee
    else
      match checked_add amount (fee_of_fields fee_fields) with
      | None => Panic PAddOverflow
      | Some have => if have <? fmin then Err EFee else Ok tt
      end.

  Definition kernel_verify (k : kernel) : bool :=
    verify_single kmsg chal (kn_sig k) (c_b (kn_excess k)) (c_b (kn_excess k)) (kn_msg k)
    && (c_v (kn_excess k) =? 0)%Z.

  Definition in_commits (t : tx) : list commit := map ti_c (tx_ins t).
  Definition out_commits (t : tx) : list commit := map to_c (tx_outs t).

  (** Transaction::validate(Weighting::AsTransaction) *)
  Definition validate (max_weight : N) (unsorted : bool) (t : tx) : result unit :=
    if existsb (fun o => to_feat o =? 1) (tx_outs t) then Err EBadCheck            (* verify_features *)
    else if max_weight <? weight (lenN (tx_ins t)) (lenN (tx_outs t)) (lenN (tx_kerns t))
      then Err EBadCheck                                                          (* verify_weight *)
    else if unsorted then Err EBadCheck                                            (* verify_sorted *)
    else if negb (nodup_commits (in_commits t ++ out_commits t)) then Err EBadCheck (* unique, cut-through *)
    else if negb (forallb (fun o => rp_verify (to_c o) (to_p o)) (tx_outs t)) then Err EBadCheck
    else if negb (forallb kernel_verify (tx_kerns t)) then Err EBadCheck
    else if negb ((sum_v (out_commits t) + Z.of_N (tx_fee_total t) - sum_v (in_commits t)
                     =? sum_v (map kn_excess (tx_kerns t)))%Z
                  && (sum_b (out_commits t) - sum_b (in_commits t)
                     =? sum_b (map kn_excess (tx_kerns t)) + tx_offset t)%Z)
      then Err EBadCheck                                                          (* verify_kernel_sums *)
    else Ok tt.

  (** Slate::finalize_transaction *)
  Definition finalize_transaction (max_weight : N) (unsorted : bool) (t : tx) (sigs : list part)
             (amount fee_fields : N) (m : kmsg) (final : sig) : result tx :=
    let* _ := check_fees t amount fee_fields in
    let* ps := blind_sum sigs in
    let k := mkKern m (commit_of_key ps) final in
    let t' := mkTx (tx_offset t) (tx_ins t) (tx_outs t) [k] in
    if negb (kernel_verify k) then Err EBadCheck
    else let* _ := validate max_weight unsorted t' in Ok t'.

  Definition entries_for (w : wallet) (id : N) (parent : option N) : list logentry :=
    filter (fun e => (match lg_slate e with Some i => i =? id | None => false end)
                     && (match parent with Some p => lg_parent e =? p | None => true end))
           (w_log w).

  Definition type_eqb (a b : txtype) : bool :=
    match a, b with TxSent, TxSent | TxReceived, TxReceived | TxOtherType, TxOtherType => true
    | _, _ => false end.

  (** replace the first entry satisfying [f] *)
  Fixpoint update_first (f : logentry -> bool) (g : logentry -> logentry) (l : list logentry)
    : option (list logentry) :=
    match l with
    | [] => None
    | e :: r => if f e then Some (g e :: r)
                else match update_first f g r with Some r' => Some (e :: r') | None => None end
    end.

  Definition set_stored (st : list (N * tx)) (id : N) (t : tx) : list (N * tx) :=
    (id, t) :: filter (fun e => negb (fst e =? id)) st.
  Definition get_stored (w : wallet) (id : N) : option tx :=
    match find (fun e => fst e =? id) (w_stored w) with Some e => Some (snd e) | None => None end.

  (** tx::update_stored_tx followed by the deletion of the context *)
  Definition update_stored_tx (w : wallet) (c : ctxrec) (id : N) (p : option (payinfo pk esig))
             (amount : N) (excess : commit) (t : tx) (invoiced : bool) : result wallet :=
    let want := if invoiced then TxReceived else TxSent in
    let f e := (match lg_slate e with Some i => i =? id | None => false end)
               && type_eqb (lg_type e) want in
    let g e := mkLog (lg_parent e) (lg_slate e) (lg_type e) (lg_confirmed e) (Some excess)
                     (finalize_proof sk pk esig pub sign addr_sk (lg_proof e) p (cx_pp_index c)
                                     (cx_parent c) amount excess)
                     (lg_fee e) (lg_credited e) (lg_debited e) in
    match update_first f g (w_log w) with
    | None => Err ENotFound
    | Some log' =>
      Ok (mkW (w_parent w) (w_conf_height w) (w_tip w) (w_max_weight w)
              (filter (fun e => negb (fst e =? id)) (w_ctxs w))
              (w_outs w) log' (set_stored (w_stored w) id t))
    end.

  (** selection::lock_tx_context (after the C03 fix: only free outputs can be reserved) *)
  Definition lock_status (keys : list N) (o : out) : out :=
    if existsb (N.eqb (o_key o)) keys
    then mkOut (o_root o) (o_key o) (o_value o) Locked (o_height o) (o_lock o) (o_cb o)
    else o.
  Definition lock_tx_context (w : wallet) (id : N) (c : ctxrec) (sigs : list part)
             (p : option (payinfo pk esig)) (t : tx) : result wallet :=
    let free o := match o_status o with Unspent | Unconfirmed => true | _ => false end in
    if negb (forallb (fun kv => match find_out w (fst kv) with Some o => free o | None => false end)
                     (cx_inputs c)) then Err EGeneric
    else
      let* sp := lock_proof sk pk esig pub addr_sk p (cx_pp_index c) (cx_parent c) in
      let excess := match blind_sum sigs with Ok s => Some (commit_of_key s) | _ => None end in
      let e := mkLog (cx_parent c) (Some id) TxSent false excess sp (cx_fee c)
                     (sumN (map snd (cx_outputs c))) (sumN (map snd (cx_inputs c))) in
      let change := map (fun kv => mkOut (cx_parent c) (fst kv) (snd kv) Unconfirmed (w_tip w) 0 false)
                        (cx_outputs c) in
      Ok (mkW (w_parent w) (w_conf_height w) (w_tip w) (w_max_weight w) (w_ctxs w)
              (map (lock_status (map fst (cx_inputs c))) (w_outs w) ++ change)
              (w_log w ++ [e]) (set_stored (w_stored w) id t)).

  Definition save_ctx (w : wallet) (id : N) (c : ctxrec) : wallet :=
    mkW (w_parent w) (w_conf_height w) (w_tip w) (w_max_weight w)
        ((id, c) :: filter (fun e => negb (fst e =? id)) (w_ctxs w))
        (w_outs w) (w_log w) (w_stored w).

  Definition fresh_key (w : wallet) : N := 1 + fold_right (fun o acc => N.max (o_key o) acc) 0 (w_outs w).

  Definition reply_tx (r : slate) : option tx :=
    match sl_coms r with
    | Some cs => Some (mkTx (sl_off r) (coms_ins cs) (coms_outs cs) [])
    | None => None
    end.

  (** the transaction written to the .grintx file at lock time (overwritten at finalization;
      its kernel is not modelled) *)
  Definition lock_time_tx (w : wallet) (c : ctxrec) (s : slate) : tx :=
    match reply_tx s with
    | Some t => t
    | None => mkTx (sl_off s) (my_inputs w c) (my_outputs w c) []
    end.

  (** foreign::finalize_tx, late-lock part: select now, store the completed context, lock.
      Returns the wallet after the effects that happened and the verdict. *)
  Definition late_lock_step (w : wallet) (r : slate) (c : ctxrec) (la : late_args)
    : wallet * result ctxrec :=
      let p := mkParams (cx_amount c) false (w_tip w) (la_minconf la) (la_max_outputs la)
                        (la_change_outputs la) (la_all la) (cx_parent c) in
      match build_send (w_outs w) p with
      | Err e => (w, Err e) | Panic q => (w, Panic q)
      | Ok b =>
        let f := match cx_fee c with Some f => fee_of_fields f | None => 0 end in
        if negb (b_fee b =? f) then (w, Err EFee)
        else
          let c' := mkCtx (cx_parent c) (cx_key c) (cx_nonce c) (cx_init_key c) (cx_init_nonce c)
                          (map (fun o => (o_key o, o_value o)) (b_inputs b))
                          (combine (seqN (fresh_key w) (length (b_changes b))) (b_changes b))
                          (cx_amount c) (cx_fee c) (cx_pp_index c) (cx_pp_recipient c) None in
          let w1 := save_ctx w (sl_id r) c' in
          match lock_tx_context w1 (sl_id r) c' (sl_sigs r) (sl_proof r) (lock_time_tx w1 c' r) with
          | Err e => (w1, Err e) | Panic q => (w1, Panic q)
          | Ok w2 => (w2, Ok c')
          end
      end.

  (** repopulate_tx + complete_tx (+ verify_slate_payment_proof for a send) + update_stored_tx:
      everything after the offset adjustment, for both branches *)
  Definition finalize_core (w : wallet) (r : slate) (c : ctxrec) (invoice : bool) : result (wallet * tx) :=
    let off := adjust_offset (sl_off r) c in
    (* repopulate_tx: the invoice branch signs with the initiator keys and keeps the reply's fee *)
    let rkey := if invoice then cx_init_key c else cx_key c in
    let rnonce := if invoice then cx_init_nonce c else cx_nonce c in
    let amount := cx_amount c in
    let* fee :=
      (if invoice then Ok (sl_fee r)
       else match cx_fee c with Some f => Ok f | None => Err EFee end) in
    let sigs1 := add_participant_info (sl_sigs r) rkey rnonce in
    let* t0 := opt_to_res (reply_tx r) EOther in
    let m := kernel_features (sl_feat r) (sl_feat_args r) fee in
    let* _ := m in
    let t1 := mkTx off (fold_left add_in (my_inputs w c) (tx_ins t0))
                   (fold_left add_out (my_outputs w c) (tx_outs t0)) [] in
    (* complete_tx *)
    let '(key, nonce) :=
      if negb (cx_init_key c =? cx_key c)%Z && negb (cx_init_nonce c =? cx_nonce c)%Z
      then (cx_init_key c, cx_init_nonce c) else (cx_key c, cx_nonce c) in
    let* sigs2 := fill_round_2 sigs1 (sl_num_parts r) key nonce m in
    let* final := finalize_signature sigs2 m in
    let* mm := m in
    (* the slate's tx holds exactly one (blank) kernel at this point *)
    let t1k := mkTx (tx_offset t1) (tx_ins t1) (tx_outs t1) [mkKern mm (Cm 0 0) (Sig 0 0)] in
    let* t2 := finalize_transaction (w_max_weight w) (sl_unsorted r) t1k sigs2 amount fee mm final in
    let* excess := (let* ps := blind_sum sigs2 in Ok (commit_of_key ps)) in
    let* _ :=
      (if invoice then Ok tt
       else verify_slate_payment_proof sk pk esig pk_eqb pub verify addr_sk
              (map lg_proof (entries_for w (sl_id r) (Some (cx_parent c))))
              (cx_pp_index c) (cx_pp_recipient c) (cx_parent c) (sl_proof r) amount excess) in
    let* w' := update_stored_tx w c (sl_id r) (sl_proof r) amount excess t2 invoice in
    Ok (w', t2).

  (** owner::check_ttl *)
  Definition check_ttl (w : wallet) (r : slate) : result unit :=
    if negb (sl_ttl r =? 0) && (sl_ttl r <=? w_conf_height w) then Err EExpired else Ok tt.

  Definition has_inputs (r : slate) : bool :=
    match sl_coms r with Some cs => negb (lenN (coms_ins cs) =? 0) | None => false end.

  (** foreign::finalize_tx (= owner::finalize_tx). The wallet component of the result is the
      persistent state afterwards, whatever the verdict. *)
  Definition finalize_tx (w : wallet) (r : slate) : wallet * result tx :=
    match lookup_ctx w (sl_id r) with
    | None => (w, Err ENoContext)
    | Some c =>
      match check_ttl w r with
      | Err e => (w, Err e) | Panic q => (w, Panic q)
      | Ok _ =>
        match sl_state r with
        | StI2 =>
          (* the context of a send for which a payment proof was requested is never an invoice
             issuer's: an Invoice2-labelled reply for it is a slate in the wrong state (a [fix:]
             for C11; before it the branch below ran without any proof check) *)
          match cx_pp_index c, cx_late c with
          | None, None =>
            match finalize_core w r c true with
            | Ok (w', t) => (w', Ok t) | Err e => (w, Err e) | Panic q => (w, Panic q)
            end
          | _, _ => (w, Err ESlateState)   (* ... nor is a late-locked send's (a [fix:] for C12) *)
          end
        | StS2 =>
          if has_inputs r then (w, Err EGeneric)
          else
            match cx_late c with
            | None =>
              match finalize_core w r c false with
              | Ok (w', t) => (w', Ok t) | Err e => (w, Err e) | Panic q => (w, Panic q)
              end
            | Some la =>
              match late_lock_step w r c la with
              | (w1, Err e) => (w1, Err e) | (w1, Panic q) => (w1, Panic q)
              | (w1, Ok c') =>
                match finalize_core w1 r c' false with
                | Ok (w', t) => (w', Ok t) | Err e => (w1, Err e) | Panic q => (w1, Panic q)
                end
              end
            end
        | _ => (w, Err ESlateState)
        end
      end
    end.

  (** owner::tx_lock_outputs with a slate [s] (the initial slate or the reply) *)
  Definition tx_lock_outputs (w : wallet) (s : slate) : result wallet :=
    let* c := opt_to_res (lookup_ctx w (sl_id s)) ENoContext in
    let* _ :=
      (match sl_coms s with
       | Some _ => Ok tt
       | None =>    (* compact slate: repopulate_tx (update_fee = true) on an empty transaction *)
         let* f := opt_to_res (cx_fee c) EFee in
         let* _ := kernel_features (sl_feat s) (sl_feat_args s) f in Ok tt
       end) in
    lock_tx_context w (sl_id s) c (sl_sigs s) (sl_proof s) (lock_time_tx w c s).

  (** tx::cancel_tx by slate id: the verdict (the rollback itself belongs to C05) *)
  Definition cancel_verdict (w : wallet) (id : N) : result unit :=
    match entries_for w id (Some (w_parent w)) with
    | [e] =>
      match lg_type e with
      | TxSent | TxReceived => if lg_confirmed e then Err ENotCancellable else Ok tt
      | TxOtherType => Err ENotCancellable
      end
    | _ => Err ENotFound
    end.

  (** ---- vocabulary of the C02 statements ---- *)

  Definition kernel_fee (k : kernel) : N := fee_of_fields (kmsg_fee_fields (kn_msg k)).

  (** valid under the consensus rules, in the idealisation: one kernel whose excess commits
      to zero; values balance with the fee; blinding factors balance with excess and offset;
      the aggregate signature verifies over the kernel message; every output is in range and
      carries a verifying proof; no commitment occurs twice; the fee is at least the minimum
      for the numbers of inputs, outputs and kernels *)
  Definition valid_tx (t : tx) : Prop :=
    exists k, tx_kerns t = [k]
    /\ c_v (kn_excess k) = 0%Z
    /\ (sum_v (out_commits t) + Z.of_N (kernel_fee k) - sum_v (in_commits t) = 0)%Z
    /\ (sum_b (out_commits t) - sum_b (in_commits t) = c_b (kn_excess k) + tx_offset t)%Z
    /\ verify_single kmsg chal (kn_sig k) (c_b (kn_excess k)) (c_b (kn_excess k)) (kn_msg k) = true
    /\ Forall (fun o => (0 <= c_v (to_c o) < RANGE)%Z /\ rp_verify (to_c o) (to_p o) = true) (tx_outs t)
    /\ NoDup (in_commits t ++ out_commits t)
    /\ exists m, tx_fee (lenN (tx_ins t)) (lenN (tx_outs t)) 1 = Ok m /\ m <= kernel_fee k.

  (** what C01 establishes about a sender context (theorem C01_conservation) *)
  Definition ctx_conserves (c : ctxrec) (f : N) : Prop :=
    sumN (map snd (cx_inputs c)) = cx_amount c + f + sumN (map snd (cx_outputs c)).

  (** the wallet holds a record for every input and change output named by the context
      (established by tx_lock_outputs) *)
  Definition wallet_has (w : wallet) (c : ctxrec) : Prop :=
    forall kv, In kv (cx_inputs c ++ cx_outputs c) -> find_out w (fst kv) <> None.

  (** different key ids give different commitments (part of the binding idealisation) *)
  Definition derive_distinct : Prop :=
    forall k v k' v', k <> k' -> derive k v <> derive k' v'.

  Definition change_commits (c : ctxrec) : list commit := map commit_kv (cx_outputs c).
  Definition is_change (c : ctxrec) (x : commit) : bool := existsb (commit_eqb x) (change_commits c).

  (** ---- honest counterparties (used by the examples and by the correspondence runs) ---- *)

  (** foreign::receive_tx: one output for the amount, round 1 + 2, offset, proof signature.
      [s1] is the slate the sender sent, [key]/[xr]/[kr] the recipient's fresh key id, excess
      and nonce. *)
  Definition receive_tx (s1 : slate) (parent key : N) (xr kr : Z) : result slate :=
    let c := commit_kv (key, sl_amount s1) in
    let sigs := add_participant_info (sl_sigs s1) xr kr in
    let m := kernel_features (sl_feat s1) (sl_feat_args s1) (sl_fee s1) in
    let* sigs2 := fill_round_2 sigs (sl_num_parts s1) xr kr m in
    let off := (sl_off s1 - xr + blind_kv (key, sl_amount s1))%Z in
    let* ps := blind_sum sigs2 in
    let proof := match sl_proof s1 with
                 | Some p => Some (receiver_sign sk pk esig sign addr_sk p (sl_amount s1)
                                                 (commit_of_key ps) parent)
                 | None => None end in
    Ok (mkSlate (sl_num_parts s1) (sl_id s1) StS2 (Some [mkCom 0 c (Some (rp_create c))]) false
                0 0 (sl_feat s1) (sl_feat_args s1) (sl_ttl s1) off
                (filter (is_mine xr kr) sigs2) proof).

  (** the slate an honest sender sends for context [c] *)
  Definition init_slate (id : N) (c : ctxrec) (ttl : N) (proof : option (payinfo pk esig)) : slate :=
    mkSlate 2 id StS1 None false (cx_amount c)
            (match cx_fee c with Some f => f | None => 0 end) 0 None ttl 0
            [mkPart (cx_key c) (cx_nonce c) None] proof.
End Proto.

Arguments sl_num_parts {pk esig}.
Arguments sl_id {pk esig}.
Arguments sl_state {pk esig}.
Arguments sl_coms {pk esig}.
Arguments sl_unsorted {pk esig}.
Arguments sl_amount {pk esig}.
Arguments sl_fee {pk esig}.
Arguments sl_feat {pk esig}.
Arguments sl_feat_args {pk esig}.
Arguments sl_ttl {pk esig}.
Arguments sl_off {pk esig}.
Arguments sl_sigs {pk esig}.
Arguments sl_proof {pk esig}.
Arguments mkSlate {pk esig}.
Arguments mkCtx {pk}.
Arguments cx_parent {pk}.
Arguments cx_key {pk}.
Arguments cx_nonce {pk}.
Arguments cx_init_key {pk}.
Arguments cx_init_nonce {pk}.
Arguments cx_inputs {pk}.
Arguments cx_outputs {pk}.
Arguments cx_amount {pk}.
Arguments cx_fee {pk}.
Arguments cx_pp_index {pk}.
Arguments cx_pp_recipient {pk}.
Arguments cx_late {pk}.
Arguments mkLog {pk esig}.
Arguments lg_parent {pk esig}.
Arguments lg_slate {pk esig}.
Arguments lg_type {pk esig}.
Arguments lg_confirmed {pk esig}.
Arguments lg_excess {pk esig}.
Arguments lg_proof {pk esig}.
Arguments lg_fee {pk esig}.
Arguments lg_credited {pk esig}.
Arguments lg_debited {pk esig}.
Arguments mkW {pk esig}.
Arguments w_parent {pk esig}.
Arguments w_conf_height {pk esig}.
Arguments w_tip {pk esig}.
Arguments w_max_weight {pk esig}.
Arguments w_ctxs {pk esig}.
Arguments w_outs {pk esig}.
Arguments w_log {pk esig}.
Arguments w_stored {pk esig}.

(** * Concrete instance and case runner for the correspondence check (checks/c02.py, c11.py)

    The harness describes each case abstractly: the sender's wallet and context as numbers,
    the counterparty's reply as a [forge] specification (which commitments it holds, what it
    signed over) followed by one field mutation. Secrets are "generic" integers: no linear
    relation holds between them unless it holds symbolically, as for real keys. *)
Definition c_code (m : kmsg) : Z :=
  match m with
  | KPlain f => Z.of_N f * 4 + 0
  | KHeight f l => (Z.of_N f * 1000003 + Z.of_N l) * 4 + 2
  | KNrd f l => (Z.of_N f * 1000003 + Z.of_N l) * 4 + 3
  end%Z.
Definition c_chal (r p : Z) (m : kmsg) : Z :=
  (1 + ((r * 1000003 + p) * 998244353 + c_code m * 7919) mod 2305843009213693951)%Z.
(** blinding factor of key [k] for value [v]: the key label sits above 2^100, so that
    different keys never collide ([derive_distinct] holds for this instance) *)
Definition c_derive (k v : N) : Z :=
  ((Z.of_N k + 1) * 1267650600228229401496703205376
   + Z.of_N (v mod 18446744073709551616) * 1299709
   + Z.of_N ((k * k) mod 1099511627776) * 15485863 + 7)%Z.
Definition c_addr_sk (parent idx : N) : Z := (5000000007 + Z.of_N parent * 1000 + Z.of_N idx)%Z.
(** secret number i of the scenario *)
Definition sec (i : Z) : Z := (1000000000000000003 + i * 999983000017 + i * i * 31)%Z.

Definition cpk : Type := Z.
Definition cesig : Type := (Z * cmsg)%type.
Definition cslate := slate cpk cesig.
Definition cwallet := wallet cpk cesig.
Definition cctx := ctxrec cpk.

Definition c_finalize_tx (w : cwallet) (r : cslate) : cwallet * result tx :=
  finalize_tx c_chal c_derive Z cpk cesig Z.eqb c_pub c_sign c_verify c_addr_sk w r.
Definition c_tx_lock_outputs (w : cwallet) (s : cslate) : result cwallet :=
  tx_lock_outputs c_derive Z cpk cesig c_pub c_addr_sk w s.

(** what the counterparty put on the reply and signed *)
Record forge := mkForge {
  fg_outs : list (N * N);       (* outputs: key label, value (with a proper range proof) *)
  fg_ins : list (N * Z);        (* inputs: key label, value (any integer) *)
  fg_fee : option N;            (* None: signed over the fee on the slate it received *)
  fg_feat : N; fg_feat_args : option N;
  fg_state : sstate;
  fg_entries : N                (* participant entries it adds: 1 or 2 *)
}.

Definition set_sig (p : part) (s : option sig) : part := mkPart (pt_xs p) (pt_nonce p) s.

(** a reply built by a counterparty that knows the protocol: keys [sec (base+2i)], nonces
    [sec (base+2i+1)]; every entry signs over the sums and the message it chose; the offset
    makes the blinding factors balance with its commitments. *)
Definition forge_reply (s1 : cslate) (fg : forge) (base : Z) (rparent : N) : cslate :=
  let n := N.to_nat (fg_entries fg) in
  let idx := map Z.of_nat (seq 0 n) in
  let mine := map (fun i => mkPart (sec (base + 2 * i)) (sec (base + 2 * i + 1)) None) idx in
  let all := sl_sigs s1 ++ mine in
  let fee := match fg_fee fg with Some f => f | None => sl_fee s1 end in
  let rs := sumZ (map pt_nonce all) in
  let ps := sumZ (map pt_xs all) in
  let signed :=
    match kernel_features (fg_feat fg) (fg_feat_args fg) fee with
    | Ok m => map (fun p => set_sig p (Some (sign_partial kmsg c_chal (pt_xs p) (pt_nonce p) rs ps m))) mine
    | _ => mine
    end in
  let outs := map (fun kv => let c := Cm (Z.of_N (snd kv)) (c_derive (fst kv) (snd kv)) in
                             mkCom 0 c (Some (rp_create c))) (fg_outs fg) in
  let ins := map (fun kv => mkCom 0 (Cm (snd kv) (c_derive (fst kv) (Z.to_N (Z.abs (snd kv))))) None)
                 (fg_ins fg) in
  let off := (sl_off s1 - sumZ (map pt_xs mine)
              + sumZ (map (fun c => c_b (cm_c c)) outs) - sumZ (map (fun c => c_b (cm_c c)) ins))%Z in
  let proof := match sl_proof s1 with
               | Some p => Some (receiver_sign Z cpk cesig c_sign c_addr_sk p (sl_amount s1)
                                               (commit_of_key ps) rparent)
               | None => None end in
  mkSlate (sl_num_parts s1) (sl_id s1) (fg_state fg) (Some (ins ++ outs)) false
          0 (match fg_fee fg with Some f => f | None => 0 end)
          (fg_feat fg) (fg_feat_args fg) (sl_ttl s1) off signed proof.

(** field mutations of a reply. "Other" values come from a second reply [o] (another
    exchange of the same wallets). *)
Inductive mutation :=
| MNone
| MAmount (n : N) | MFee (n : N) | MTtl (n : N) | MNumParts (n : N)
| MState (s : sstate) | MFeat (f : N) (args : option N)
| MId (id : N)
| MOffAdd (d : Z) | MOffZero | MOffOther | MOffNeg
| MSigsDrop | MSigsDup | MSigXsOther | MSigNonceOther | MSigNone | MSigOther
| MSigSAdd (d : Z) | MSigRAdd (d : Z) | MSigsSwapKeyNonce
| MSigsAddSender (bogus : bool) | MSigsAddStranger
| MComsNone | MComsEmpty | MComsDup | MComsOther | MComsProofOther | MComsProofGarbage
| MComsCoinbase | MComsValueAdd (d : Z) | MComsAddOutput (v : N) | MComsAddInput (v : Z)
| MComsAddChange (good : bool) | MComsAddSenderInput | MComsUnsorted
| MPayProof (p : option (payinfo cpk cesig))
(* payment-proof field of the reply (C11) *)
| MPPStrip | MPPNoSig
| MPPStripRelabel                               (* proof dropped and Standard2 <-> Invoice2 *)
| MPPResign (k : Z) (newaddr : bool)            (* signed by key k over the right message *)
| MPPOver (da : Z) (oexcess osender : bool)     (* right key, other amount / excess / sender *)
| MPPOverAnnounce (da : Z)                      (* the reply ANNOUNCES amount+da and carries the recipient's
                                                  signature over that amount *)
| MPPSaddr (a : Z) | MPPRaddr (a : Z)
| MPPAdd (raddr : Z).                           (* a proof nobody asked for *)

Definition upd_sigs (r : cslate) (f : list part -> list part) : cslate :=
  mkSlate (sl_num_parts r) (sl_id r) (sl_state r) (sl_coms r) (sl_unsorted r) (sl_amount r) (sl_fee r)
          (sl_feat r) (sl_feat_args r) (sl_ttl r) (sl_off r) (f (sl_sigs r)) (sl_proof r).
Definition upd_coms (r : cslate) (f : option (list com) -> option (list com)) (uns : bool) : cslate :=
  mkSlate (sl_num_parts r) (sl_id r) (sl_state r) (f (sl_coms r)) (sl_unsorted r || uns) (sl_amount r)
          (sl_fee r) (sl_feat r) (sl_feat_args r) (sl_ttl r) (sl_off r) (sl_sigs r) (sl_proof r).
Definition upd_off (r : cslate) (z : Z) : cslate :=
  mkSlate (sl_num_parts r) (sl_id r) (sl_state r) (sl_coms r) (sl_unsorted r) (sl_amount r) (sl_fee r)
          (sl_feat r) (sl_feat_args r) (sl_ttl r) z (sl_sigs r) (sl_proof r).
Definition on_first {A} (f : A -> A) (l : list A) : list A :=
  match l with [] => [] | a :: r => f a :: r end.
(** first output entry of the coms *)
Fixpoint on_first_output (f : com -> list com) (l : list com) : list com :=
  match l with
  | [] => []
  | c :: r => match cm_p c with Some _ => f c ++ r | None => c :: on_first_output f r end
  end.
Definition first_output (l : option (list com)) : option com :=
  match l with Some l => find (fun c => match cm_p c with Some _ => true | None => false end) l | None => None end.

Definition set_proof (r : cslate) (p : option (payinfo cpk cesig)) : cslate :=
  mkSlate (sl_num_parts r) (sl_id r) (sl_state r) (sl_coms r) (sl_unsorted r) (sl_amount r)
          (sl_fee r) (sl_feat r) (sl_feat_args r) (sl_ttl r) (sl_off r) (sl_sigs r) p.
(** the kernel excess the finalizing wallet will compute for reply [r]: its own key plus the
    keys on the reply *)
Definition reply_excess (c : cctx) (r : cslate) : commit :=
  commit_of_key (cx_key c + sumZ (map pt_xs (sl_sigs r)))%Z.

(** [c] is the finalizing wallet's context (for the mutations that copy its own data) *)
Definition apply_mut (m : mutation) (c : cctx) (o r : cslate) : cslate :=
  match m with
  | MNone => r
  | MAmount n => mkSlate (sl_num_parts r) (sl_id r) (sl_state r) (sl_coms r) (sl_unsorted r) n (sl_fee r)
                         (sl_feat r) (sl_feat_args r) (sl_ttl r) (sl_off r) (sl_sigs r) (sl_proof r)
  | MFee n => mkSlate (sl_num_parts r) (sl_id r) (sl_state r) (sl_coms r) (sl_unsorted r) (sl_amount r) n
                      (sl_feat r) (sl_feat_args r) (sl_ttl r) (sl_off r) (sl_sigs r) (sl_proof r)
  | MTtl n => mkSlate (sl_num_parts r) (sl_id r) (sl_state r) (sl_coms r) (sl_unsorted r) (sl_amount r)
                      (sl_fee r) (sl_feat r) (sl_feat_args r) n (sl_off r) (sl_sigs r) (sl_proof r)
  | MNumParts n => mkSlate n (sl_id r) (sl_state r) (sl_coms r) (sl_unsorted r) (sl_amount r)
                      (sl_fee r) (sl_feat r) (sl_feat_args r) (sl_ttl r) (sl_off r) (sl_sigs r) (sl_proof r)
  | MState s => mkSlate (sl_num_parts r) (sl_id r) s (sl_coms r) (sl_unsorted r) (sl_amount r)
                      (sl_fee r) (sl_feat r) (sl_feat_args r) (sl_ttl r) (sl_off r) (sl_sigs r) (sl_proof r)
  | MFeat f a => mkSlate (sl_num_parts r) (sl_id r) (sl_state r) (sl_coms r) (sl_unsorted r) (sl_amount r)
                      (sl_fee r) f a (sl_ttl r) (sl_off r) (sl_sigs r) (sl_proof r)
  | MId id => mkSlate (sl_num_parts r) id (sl_state r) (sl_coms r) (sl_unsorted r) (sl_amount r)
                      (sl_fee r) (sl_feat r) (sl_feat_args r) (sl_ttl r) (sl_off r) (sl_sigs r) (sl_proof r)
  | MOffAdd d => upd_off r (sl_off r + d)
  | MOffZero => upd_off r 0
  | MOffOther => upd_off r (sl_off o)
  | MOffNeg => upd_off r (- sl_off r)
  | MSigsDrop => upd_sigs r (fun _ => [])
  | MSigsDup => upd_sigs r (fun l => l ++ l)
  | MSigXsOther => upd_sigs r (on_first (fun p => mkPart (match sl_sigs o with q :: _ => pt_xs q | [] => 1 end)
                                                       (pt_nonce p) (pt_sig p)))
  | MSigNonceOther => upd_sigs r (on_first (fun p => mkPart (pt_xs p)
                                   (match sl_sigs o with q :: _ => pt_nonce q | [] => 1 end) (pt_sig p)))
  | MSigNone => upd_sigs r (on_first (fun p => set_sig p None))
  | MSigOther => upd_sigs r (on_first (fun p => set_sig p (match sl_sigs o with q :: _ => pt_sig q | [] => None end)))
  | MSigSAdd d => upd_sigs r (on_first (fun p => set_sig p
                      (match pt_sig p with Some s => Some (Sig (sg_r s) (sg_s s + d)) | None => None end)))
  | MSigRAdd d => upd_sigs r (on_first (fun p => set_sig p
                      (match pt_sig p with Some s => Some (Sig (sg_r s + d) (sg_s s)) | None => None end)))
  | MSigsSwapKeyNonce => upd_sigs r (on_first (fun p => mkPart (pt_nonce p) (pt_xs p) (pt_sig p)))
  | MSigsAddSender bogus =>
    upd_sigs r (fun l => mkPart (cx_key c) (cx_nonce c)
                                (if bogus then match l with q :: _ => pt_sig q | [] => None end else None) :: l)
  | MSigsAddStranger => upd_sigs r (fun l => l ++ [mkPart (sec 91) (sec 92) None])
  | MComsNone => upd_coms r (fun _ => None) false
  | MComsEmpty => upd_coms r (fun _ => Some []) false
  | MComsDup => upd_coms r (fun l => match l with Some l => Some (on_first_output (fun x => [x; x]) l) | None => None end) false
  | MComsOther => upd_coms r (fun l => match l, first_output (sl_coms o) with
                                       | Some l, Some x => Some (on_first_output (fun _ => [x]) l)
                                       | _, _ => l end) false
  | MComsProofOther => upd_coms r (fun l => match l, first_output (sl_coms o) with
                                       | Some l, Some x => Some (on_first_output (fun y => [mkCom (cm_feat y) (cm_c y) (cm_p x)]) l)
                                       | _, _ => l end) false
  | MComsProofGarbage => upd_coms r (fun l => match l with
                                       | Some l => Some (on_first_output (fun y => [mkCom (cm_feat y) (cm_c y) (Some (RP None))]) l)
                                       | None => None end) false
  | MComsCoinbase => upd_coms r (fun l => match l with
                                       | Some l => Some (on_first_output (fun y => [mkCom 1 (cm_c y) (cm_p y)]) l)
                                       | None => None end) false
  | MComsValueAdd d => upd_coms r (fun l => match l with
                                       | Some l => Some (on_first_output (fun y =>
                                           let c' := Cm (c_v (cm_c y) + d) (c_b (cm_c y)) in
                                           [mkCom (cm_feat y) c' (Some (rp_create c'))]) l)
                                       | None => None end) false
  | MComsAddOutput v => upd_coms r (fun l => match l with
                                       | Some l => let c' := Cm (Z.of_N v) (c_derive 7777 v) in
                                                   Some (l ++ [mkCom 0 c' (Some (rp_create c'))])
                                       | None => None end) false
  | MComsAddInput v => upd_coms r (fun l => match l with
                                       | Some l => Some (mkCom 0 (Cm v (c_derive 7778 0)) None :: l)
                                       | None => None end) false
  | MComsAddChange good =>
    upd_coms r (fun l => match l, cx_outputs c with
                         | Some l, kv :: _ =>
                           let c' := Cm (Z.of_N (snd kv)) (c_derive (fst kv) (snd kv)) in
                           Some (l ++ [mkCom 0 c' (Some (if good then rp_create c' else RP None))])
                         | _, _ => l end) false
  | MComsAddSenderInput =>
    upd_coms r (fun l => match l, cx_inputs c with
                         | Some l, kv :: _ =>
                           let c' := Cm (Z.of_N (snd kv)) (c_derive (fst kv) (snd kv)) in
                           Some (l ++ [mkCom 0 c' (Some (rp_create c'))])
                         | _, _ => l end) false
  | MComsUnsorted => upd_coms r (fun l => l) true
  | MPayProof p => set_proof r p
  | MPPStrip => set_proof r None
  | MPPStripRelabel =>
    let r' := set_proof r None in
    mkSlate (sl_num_parts r') (sl_id r')
            (match sl_state r' with StS2 => StI2 | StI2 => StS2 | s => s end)
            (sl_coms r') (sl_unsorted r') (sl_amount r')
            (match cx_fee c with Some f => f | None => sl_fee r' end)   (* the public fee, restored *)
            (sl_feat r') (sl_feat_args r') (sl_ttl r') (sl_off r') (sl_sigs r') (sl_proof r')
  | MPPNoSig => set_proof r (match sl_proof r with
                             | Some p => Some (mkPay (pi_sender p) (pi_receiver p) None) | None => None end)
  | MPPResign k newaddr =>
    set_proof r (match sl_proof r with
                 | Some p => Some (mkPay (pi_sender p) (if newaddr then c_pub k else pi_receiver p)
                                         (Some (c_sign k (cx_amount c, reply_excess c r, pi_sender p))))
                 | None => None end)
  | MPPOver da oe os =>
    set_proof r (match sl_proof r with
                 | Some p =>
                   let e := reply_excess c r in
                   Some (mkPay (pi_sender p) (pi_receiver p)
                               (Some (c_sign (pi_receiver p)
                                             (Z.to_N (Z.of_N (cx_amount c) + da),
                                              (if oe then Cm (c_v e) (c_b e + 1) else e),
                                              (if os then pi_sender p + 1 else pi_sender p)%Z))))
                 | None => None end)
  | MPPOverAnnounce da =>
    let n := Z.to_N (Z.of_N (cx_amount c) + da) in
    let r1 := mkSlate (sl_num_parts r) (sl_id r) (sl_state r) (sl_coms r) (sl_unsorted r) n (sl_fee r)
                      (sl_feat r) (sl_feat_args r) (sl_ttl r) (sl_off r) (sl_sigs r) (sl_proof r) in
    set_proof r1 (match sl_proof r with
                  | Some p => Some (mkPay (pi_sender p) (pi_receiver p)
                                          (Some (c_sign (pi_receiver p) (n, reply_excess c r, pi_sender p))))
                  | None => None end)
  | MPPSaddr a => set_proof r (match sl_proof r with
                               | Some p => Some (mkPay a (pi_receiver p) (pi_rsig p)) | None => None end)
  | MPPRaddr a => set_proof r (match sl_proof r with
                               | Some p => Some (mkPay (pi_sender p) a (pi_rsig p)) | None => None end)
  | MPPAdd raddr =>
    let sender := c_pub (c_addr_sk (cx_parent c) 0) in
    set_proof r (Some (mkPay sender raddr (Some (c_sign raddr (cx_amount c, reply_excess c r, sender)))))
  end.

(** One exchange as the harness reports it. Keys of the finalizing wallet's outputs are their
    positions in [ex_outs]; change outputs get the keys that follow. *)
Record exch := mkExch {
  ex_id : N;
  ex_sender : Z;                 (* base index of the finalizing party's secrets *)
  ex_parent : N;                 (* account of the context *)
  ex_inputs : list (N * N);      (* context inputs: key, value *)
  ex_outputs : list (N * N);     (* context outputs: key, value *)
  ex_amount : N; ex_fee : option N;
  ex_pp : option (N * Z);        (* payment proof requested: derivation index, recipient address *)
  ex_late : option late_args;
  ex_ttl : N;
  ex_invoice : bool              (* the finalizing party issued an invoice *)
}.

Definition ex_ctx (os : list out) (e : exch) : cctx :=
  mkCtx (ex_parent e) (sec (ex_sender e)) (sec (ex_sender e + 1)) (sec (ex_sender e)) (sec (ex_sender e + 1))
        (ex_inputs e)
        (ex_outputs e) (ex_amount e) (ex_fee e)
        (match ex_pp e with Some (i, _) => Some i | None => None end)
        (match ex_pp e with Some (_, a) => Some a | None => None end) (ex_late e).

(** the slate the finalizing party sent out first (S1 or I1) *)
Definition ex_slate1 (os : list out) (e : exch) : cslate :=
  let c := ex_ctx os e in
  mkSlate 2 (ex_id e) (if ex_invoice e then StI1 else StS1) None false (ex_amount e)
          (match ex_fee e with Some f => f | None => 0 end) 0 None (ex_ttl e) 0
          [mkPart (cx_key c) (cx_nonce c) None]
          (match ex_pp e with
           | Some (i, raddr) => Some (request Z cpk cesig c_pub c_addr_sk (ex_parent e) raddr)
           | None => None end).

Record case := mkCase {
  cs_active : N; cs_conf_height : N; cs_tip : N; cs_max_weight : N;
  cs_outs : list out;            (* the finalizing wallet's outputs BEFORE any lock *)
  cs_a : exch;                   (* the exchange under test *)
  cs_b : option exch;            (* a second pending exchange of the same wallet *)
  cs_lock : N;                   (* 0: locked with the first slate; 1: locked with the (mutated) reply;
                                    2: not locked (late lock, invoice issuer) *)
  cs_self : bool;                (* the counterparty is this same wallet (self-send) *)
  cs_forge_a : forge; cs_forge_b : forge;
  cs_rparent : N;                (* counterparty's account (payment-proof address) *)
  cs_mut : mutation
}.

Definition add_ctx (w : cwallet) (id : N) (c : cctx) : cwallet :=
  mkW (w_parent w) (w_conf_height w) (w_tip w) (w_max_weight w) ((id, c) :: w_ctxs w)
      (w_outs w) (w_log w) (w_stored w).
Definition add_log (w : cwallet) (e : logentry cpk cesig) : cwallet :=
  mkW (w_parent w) (w_conf_height w) (w_tip w) (w_max_weight w) (w_ctxs w)
      (w_outs w) (w_log w ++ [e]) (w_stored w).
Definition add_out_rec (w : cwallet) (o : out) : cwallet :=
  mkW (w_parent w) (w_conf_height w) (w_tip w) (w_max_weight w) (w_ctxs w)
      (w_outs w ++ [o]) (w_log w) (w_stored w).

Definition res_wallet (d : cwallet) (r : result cwallet) : cwallet :=
  match r with Ok w => w | _ => d end.

(** the wallet just before finalize_tx is called with the mutated reply, and that reply *)
Definition case_setup (cs : case) : cwallet * cslate :=
  let os := cs_outs cs in
  let a := cs_a cs in
  let w0 := mkW (cs_active cs) (cs_conf_height cs) (cs_tip cs) (cs_max_weight cs) [] os [] [] in
  let ca := ex_ctx os a in
  let s1a := ex_slate1 os a in
  let w1 := add_ctx w0 (ex_id a) ca in
  (* second exchange: context stored and locked with its first slate *)
  let '(w2, rb) :=
    match cs_b cs with
    | Some b =>
      let cb := ex_ctx os b in
      let s1b := ex_slate1 os b in
      let wb := add_ctx w1 (ex_id b) cb in
      (res_wallet wb (c_tx_lock_outputs wb s1b), forge_reply s1b (cs_forge_b cs) 40 (cs_rparent cs))
    | None => (w1, forge_reply s1a (cs_forge_b cs) 40 (cs_rparent cs))
    end in
  let w3 :=
    if ex_invoice a then
      (* issue_invoice_tx: the output record and the TxReceived entry exist from the start *)
      let w' := fold_left (fun w kv => add_out_rec w (mkOut (ex_parent a) (fst kv) (snd kv) Unconfirmed (cs_tip cs) 0 false))
                          (ex_outputs a) w2 in
      add_log w' (mkLog (ex_parent a) (Some (ex_id a)) TxReceived false None None None (ex_amount a) 0)
    else if cs_lock cs =? 0 then res_wallet w2 (c_tx_lock_outputs w2 s1a) else w2 in
  let r0 := forge_reply s1a (cs_forge_a cs) 20 (cs_rparent cs) in
  let r := apply_mut (cs_mut cs) ca rb r0 in
  (* self-send: receive_tx ran in this wallet (after the lock with the first slate) *)
  let w4 :=
    if cs_self cs then
      add_log (fold_left (fun w kv => add_out_rec w (mkOut (cs_rparent cs) (fst kv) (snd kv) Unconfirmed (cs_tip cs) 0 false))
                         (fg_outs (cs_forge_a cs)) w3)
              (mkLog (cs_rparent cs) (Some (ex_id a)) TxReceived false None None None (ex_amount a) 0)
    else w3 in
  let w5 := if cs_lock cs =? 1 then res_wallet w4 (c_tx_lock_outputs w4 r) else w4 in
  (w5, r).

Definition enc_kind (m : kmsg) : Z :=
  match m with KPlain _ => 0 | KHeight _ _ => 2 | KNrd _ _ => 3 end%Z.

(** canonical verdict, shared with harness/src/bin/c02.rs:
      Ok    : [0; #inputs; #outputs; kernel fee; kernel feature; pending after (0/1)]
      Err   : [1; class; wallet changed (0/1)]
      Panic : [2] *)
Definition run_case (cs : case) : list Z :=
  let '(w, r) := case_setup cs in
  match c_finalize_tx w r with
  | (w', Ok t) =>
    [0%Z; Z.of_N (lenN (tx_ins t)); Z.of_N (lenN (tx_outs t));
     match tx_kerns t with k :: _ => Z.of_N (kernel_fee k) | [] => (-1)%Z end;
     match tx_kerns t with k :: _ => enc_kind (kn_msg k) | [] => (-1)%Z end;
     match get_stored cpk cesig w' (sl_id r) with Some t' => 1%Z | None => 0%Z end]
  | (w', Err e) =>
    [1%Z; err_code e; if (lenN (w_log w') =? lenN (w_log w)) then 0%Z else 1%Z]
  | (_, Panic _) => [2%Z]
  end.

(** ** exported payment proofs (C11) *)
Inductive pmut :=
| PNone | PAmount (d : Z) | PExcess | PRaddr (a : Z) | PSaddr (a : Z)
| PRsig (k : Z) | PSsig (k : Z) | PSwapSigs | PSwapAddrs.

Definition cproof := proof cpk cesig.
Definition apply_pmut (m : pmut) (p : cproof) : cproof :=
  match m with
  | PNone => p
  | PAmount d => mkProof (Z.to_N (Z.of_N (pf_amount p) + d)) (pf_excess p) (pf_raddr p) (pf_rsig p) (pf_saddr p) (pf_ssig p)
  | PExcess => mkProof (pf_amount p) (Cm (c_v (pf_excess p)) (c_b (pf_excess p) + 1)) (pf_raddr p) (pf_rsig p) (pf_saddr p) (pf_ssig p)
  | PRaddr a => mkProof (pf_amount p) (pf_excess p) a (pf_rsig p) (pf_saddr p) (pf_ssig p)
  | PSaddr a => mkProof (pf_amount p) (pf_excess p) (pf_raddr p) (pf_rsig p) a (pf_ssig p)
  | PRsig k => mkProof (pf_amount p) (pf_excess p) (pf_raddr p)
                       (c_sign k (pf_amount p, pf_excess p, pf_saddr p)) (pf_saddr p) (pf_ssig p)
  | PSsig k => mkProof (pf_amount p) (pf_excess p) (pf_raddr p) (pf_rsig p) (pf_saddr p)
                       (c_sign k (pf_amount p, pf_excess p, pf_saddr p))
  | PSwapSigs => mkProof (pf_amount p) (pf_excess p) (pf_raddr p) (pf_ssig p) (pf_saddr p) (pf_rsig p)
  | PSwapAddrs => mkProof (pf_amount p) (pf_excess p) (pf_saddr p) (pf_rsig p) (pf_raddr p) (pf_ssig p)
  end.

(** the TxSent entry of slate [id] *)
Definition sent_entry (w : cwallet) (id : N) : option (logentry cpk cesig) :=
  find (fun e => (match lg_slate e with Some i => i =? id | None => false end)
                 && type_eqb (lg_type e) TxSent) (w_log w).

Definition c_retrieve (e : logentry cpk cesig) : result cproof :=
  retrieve_payment_proof cpk cesig (lg_proof e) (lg_credited e) (lg_debited e)
                         (match lg_fee e with Some f => Some (fee_of_fields f) | None => None end)
                         (lg_excess e).
Definition c_verify_proof (p : cproof) (kernel : option bool) (vparent : N) : result (bool * bool) :=
  verify_payment_proof Z cpk cesig Z.eqb c_pub c_verify c_addr_sk p kernel vparent.

(** finalize the case, export the proof from the sender's log entry, alter it, verify it in a
    wallet whose active account has address label [vparent]:
      [0; sender is mine; recipient is mine] | [1; class] | [2] panic | [3] finalize refused
      | [4; class] retrieve failed *)
Definition run_verify (cs : case) (pm : pmut) (kernel : option bool) (vparent : N) : list Z :=
  let '(w, r) := case_setup cs in
  match c_finalize_tx w r with
  | (w', Ok _) =>
    match sent_entry w' (sl_id r) with
    | None => [4%Z; 0%Z]
    | Some e =>
      match c_retrieve e with
      | Ok p =>
        match c_verify_proof (apply_pmut pm p) kernel vparent with
        | Ok (a, b) => [0%Z; if a then 1%Z else 0%Z; if b then 1%Z else 0%Z]
        | Err e => [1%Z; err_code e]
        | Panic _ => [2%Z]
        end
      | Err e => [4%Z; err_code e]
      | Panic _ => [2%Z]
      end
    end
  | _ => [3%Z]
  end.

Definition run_verify_t (x : case * pmut * option bool * N) : list Z :=
  let '(cs, pm, kernel, vparent) := x in run_verify cs pm kernel vparent.
