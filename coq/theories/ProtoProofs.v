(** Proofs about the finalization model (Proto.v) for C02, and the lemmas PayProofProofs.v
    needs for the end-to-end half of C11. *)
From GW Require Import Proto SelectProofs.
From Coq Require Import Permutation ZifyBool ZifyN ZifyNat.
Ltac Zify.zify_post_hook ::= Z.div_mod_to_equations.

(** ** generic helpers *)
Lemma bindE {A B} (r : result A) (f : A -> result B) b :
  bind r f = Ok b -> exists a, r = Ok a /\ f a = Ok b.
Proof. destruct r; cbn [bind]; intros H; try discriminate. eauto. Qed.

Lemma opt_to_res_ok {A} (o : option A) e a : opt_to_res o e = Ok a -> o = Some a.
Proof. destruct o; cbn; intros H; inversion H; reflexivity. Qed.

Lemma commit_eqb_eq a b : commit_eqb a b = true <-> a = b.
Proof.
  unfold commit_eqb. destruct a as [v1 b1], b as [v2 b2]; cbn [c_v c_b]. split.
  - intros H. apply andb_true_iff in H as [H1 H2].
    apply Z.eqb_eq in H1. apply Z.eqb_eq in H2. now subst.
  - intros H. inversion H; subst. now rewrite !Z.eqb_refl.
Qed.

Lemma commit_eqb_refl a : commit_eqb a a = true.
Proof. now apply commit_eqb_eq. Qed.

Lemma existsb_commit x l : existsb (commit_eqb x) l = true <-> In x l.
Proof.
  rewrite existsb_exists. split.
  - intros (y & Hy & He). apply commit_eqb_eq in He. now subst.
  - intros H. exists x. split; [assumption|apply commit_eqb_refl].
Qed.

Lemma nodup_commits_NoDup l : nodup_commits l = true -> NoDup l.
Proof.
  induction l as [|c r IH]; cbn [nodup_commits]; intros H; [constructor|].
  apply andb_true_iff in H as [H1 H2]. constructor; [|now apply IH].
  intros Hin. apply existsb_commit in Hin. rewrite Hin in H1. discriminate.
Qed.

Lemma sumZ_app l1 l2 : (sumZ (l1 ++ l2) = sumZ l1 + sumZ l2)%Z.
Proof. induction l1 as [|x l1 IH]; cbn [sumZ app]; lia. Qed.

Lemma sum_v_app l1 l2 : (sum_v (l1 ++ l2) = sum_v l1 + sum_v l2)%Z.
Proof. unfold sum_v. now rewrite map_app, sumZ_app. Qed.

Lemma sum_v_perm l1 l2 : Permutation l1 l2 -> sum_v l1 = sum_v l2.
Proof.
  unfold sum_v. induction 1; cbn [map sumZ]; lia.
Qed.

Lemma NoDup_app_intro {A} (l1 l2 : list A) :
  NoDup l1 -> NoDup l2 -> (forall x, In x l1 -> ~ In x l2) -> NoDup (l1 ++ l2).
Proof.
  induction l1 as [|a l1 IH]; cbn [app]; intros H1 H2 Hd; [assumption|].
  inversion H1; subst. constructor.
  - rewrite in_app_iff. intros [H|H]; [contradiction|]. eapply Hd; [left; reflexivity|exact H].
  - apply IH; try assumption. intros x Hx. apply Hd. now right.
Qed.

Lemma NoDup_app_l {A} (l1 l2 : list A) : NoDup (l1 ++ l2) -> NoDup l1.
Proof.
  induction l1 as [|a l1 IH]; cbn [app]; intros H; [constructor|].
  inversion H; subst. constructor; [|now apply IH].
  intros Hin. apply H2. apply in_app_iff. now left.
Qed.

Lemma NoDup_app_r {A} (l1 l2 : list A) : NoDup (l1 ++ l2) -> NoDup l2.
Proof.
  induction l1 as [|a l1 IH]; cbn [app]; intros H; [assumption|].
  inversion H; subst. now apply IH.
Qed.

(** the part of [L] outside [M] carries the value of [L] minus that of [M] *)
Lemma sum_v_filter_out (L M : list commit) :
  NoDup L -> NoDup M -> incl M L ->
  (sum_v (filter (fun x => negb (existsb (commit_eqb x) M)) L) = sum_v L - sum_v M)%Z.
Proof.
  intros HL HM Hinc.
  assert (HP : Permutation L (M ++ filter (fun x => negb (existsb (commit_eqb x) M)) L)).
  { apply NoDup_Permutation; [assumption| |].
    - apply NoDup_app_intro; [assumption|now apply NoDup_filter|].
      intros x Hx Hf. apply filter_In in Hf as [_ Hf].
      apply existsb_commit in Hx. rewrite Hx in Hf. discriminate.
    - intros x. rewrite in_app_iff, filter_In. split.
      + intros Hx. destruct (existsb (commit_eqb x) M) eqn:E.
        * left. now apply existsb_commit.
        * right. split; [assumption|reflexivity].
      + intros [Hx|[Hx _]]; [now apply Hinc|assumption]. }
  apply sum_v_perm in HP. rewrite sum_v_app in HP. lia.
Qed.

Lemma fee_of_fields_small f : f < FEE_MOD -> fee_of_fields f = f.
Proof. unfold fee_of_fields. intros H. now apply N.mod_small. Qed.

Lemma fee_of_fields_bound f : fee_of_fields f < FEE_MOD.
Proof. unfold fee_of_fields. apply N.mod_lt. unfold FEE_MOD. lia. Qed.

Lemma sat_add_0 x : x < FEE_MOD -> sat_add x 0 = x.
Proof. unfold sat_add, FEE_MOD, U64MAX. lia. Qed.

Section ProtoProofs.
  Variable chal : Z -> Z -> kmsg -> Z.
  Variable derive : N -> N -> Z.
  Variables sk pk esig : Type.
  Variable pk_eqb : pk -> pk -> bool.
  Variable pub : sk -> pk.
  Variable sign : sk -> emsg pk -> esig.
  Variable verify : pk -> emsg pk -> esig -> bool.
  Variable addr_sk : N -> N -> sk.

  Local Notation slate := (slate pk esig).
  Local Notation wallet := (wallet pk esig).
  Local Notation ctxrec := (ctxrec pk).
  Local Notation finalize_tx := (finalize_tx chal derive sk pk esig pk_eqb pub sign verify addr_sk).
  Local Notation finalize_core := (finalize_core chal derive sk pk esig pk_eqb pub sign verify addr_sk).
  Local Notation late_lock_step := (late_lock_step derive sk pk esig pub addr_sk).
  Local Notation lock_tx_context := (lock_tx_context sk pk esig pub addr_sk).
  Local Notation update_stored_tx := (update_stored_tx sk pk esig pub sign addr_sk).
  Local Notation commit_kv := (commit_kv derive).
  Local Notation my_inputs := (my_inputs derive pk esig).
  Local Notation my_outputs := (my_outputs derive pk esig).
  Local Notation valid_tx := (valid_tx chal).
  Local Notation validate := (validate chal).
  Local Notation kernel_verify := (kernel_verify chal).
  Local Notation wallet_has := (wallet_has pk esig).
  Local Notation change_commits := (change_commits derive pk).
  Local Notation is_change := (is_change derive pk).
  Local Notation derive_distinct := (derive_distinct derive).

  (** ** with_input / with_output as set insertion *)
  Lemma add_in_commits l i :
    map ti_c (add_in l i) = map ti_c l \/ map ti_c (add_in l i) = map ti_c l ++ [ti_c i].
  Proof.
    unfold add_in. destruct (existsb _ l); [now left|right]. now rewrite map_app.
  Qed.

  Lemma fold_add_in_fresh l : forall acc,
    NoDup (map ti_c acc ++ map ti_c l) ->
    fold_left add_in l acc = acc ++ l.
  Proof.
    induction l as [|i l IH]; intros acc H; cbn [fold_left]; [now rewrite app_nil_r|].
    assert (Hn : existsb (in_same i) acc = false).
    { destruct (existsb (in_same i) acc) eqn:E; [|reflexivity]. exfalso.
      apply existsb_exists in E as (j & Hj & Hs). unfold in_same in Hs.
      apply andb_true_iff in Hs as [_ Hs]. apply commit_eqb_eq in Hs.
      cbn [map] in H. apply NoDup_remove_2 in H. apply H.
      apply in_app_iff. left. rewrite Hs. now apply in_map. }
    unfold add_in at 2. rewrite Hn. rewrite IH.
    - now rewrite <- app_assoc.
    - rewrite map_app. cbn [map]. rewrite <- app_assoc. exact H.
  Qed.

  Lemma fold_add_out_keeps l : forall acc o,
    In o acc -> In o (fold_left add_out l acc).
  Proof.
    induction l as [|x l IH]; intros acc o H; cbn [fold_left]; [assumption|].
    apply IH. unfold add_out. destruct (existsb _ acc); [assumption|]. apply in_app_iff. now left.
  Qed.

  Lemma fold_add_out_has l : forall acc o,
    In o l -> In (to_c o) (map to_c (fold_left add_out l acc)).
  Proof.
    induction l as [|x l IH]; intros acc o H; [contradiction|]. cbn [fold_left].
    destruct H as [->|H]; [|now apply IH].
    unfold add_out. destruct (existsb (out_same o) acc) eqn:E.
    - apply existsb_exists in E as (j & Hj & Hs). unfold out_same in Hs.
      apply andb_true_iff in Hs as [_ Hs]. apply commit_eqb_eq in Hs. rewrite Hs.
      apply in_map. now apply fold_add_out_keeps.
    - apply in_map. apply fold_add_out_keeps. apply in_app_iff. right. now left.
  Qed.

  (** ** the wallet's own parts of the transaction *)
  Lemma my_inputs_commits (w : wallet) (c : ctxrec) :
    (forall kv, In kv (cx_inputs c) -> find_out pk esig w (fst kv) <> None) ->
    map ti_c (my_inputs w c) = map commit_kv (cx_inputs c).
  Proof.
    unfold Proto.my_inputs. induction (cx_inputs c) as [|kv l IH]; intros H; [reflexivity|].
    cbn [flat_map map]. destruct (find_out pk esig w (fst kv)) eqn:E.
    - cbn [app map ti_c]. f_equal. apply IH. intros kv' Hk. apply H. now right.
    - exfalso. apply (H kv); [now left|assumption].
  Qed.

  Lemma my_outputs_commits (w : wallet) (c : ctxrec) :
    (forall kv, In kv (cx_outputs c) -> find_out pk esig w (fst kv) <> None) ->
    map to_c (my_outputs w c) = map commit_kv (cx_outputs c).
  Proof.
    unfold Proto.my_outputs. induction (cx_outputs c) as [|kv l IH]; intros H; [reflexivity|].
    cbn [flat_map map]. destruct (find_out pk esig w (fst kv)) eqn:E.
    - cbn [app map to_c]. f_equal. apply IH. intros kv' Hk. apply H. now right.
    - exfalso. apply (H kv); [now left|assumption].
  Qed.

  (** ** Transaction::validate gives validity *)
  Lemma validate_valid mw uns t k m :
    tx_kerns t = [k] ->
    validate mw uns t = Ok tt ->
    tx_fee (lenN (tx_ins t)) (lenN (tx_outs t)) 1 = Ok m -> m <= kernel_fee k ->
    valid_tx t.
  Proof.
    intros Hk Hv Hm Hle. unfold Proto.validate in Hv.
    destruct (existsb _ (tx_outs t)); [discriminate|].
    destruct (mw <? _); [discriminate|].
    destruct uns; [discriminate|].
    destruct (nodup_commits _) eqn:End; cbn [negb] in Hv; [|discriminate].
    destruct (forallb (fun o => rp_verify _ _) _) eqn:Erp; cbn [negb] in Hv; [|discriminate].
    destruct (forallb kernel_verify _) eqn:Ekv; cbn [negb] in Hv; [|discriminate].
    destruct (_ && _) eqn:Esum; cbn [negb] in Hv; [|discriminate].
    rewrite Hk in Ekv, Esum. cbn [forallb] in Ekv. rewrite andb_true_r in Ekv.
    unfold Proto.kernel_verify in Ekv. apply andb_true_iff in Ekv as [Eks Ekz].
    apply Z.eqb_eq in Ekz.
    apply andb_true_iff in Esum as [Ev Eb].
    apply Z.eqb_eq in Ev. apply Z.eqb_eq in Eb.
    unfold Proto.tx_fee_total in Ev. rewrite Hk in Ev. cbn [fold_right] in Ev.
    rewrite sat_add_0 in Ev by apply fee_of_fields_bound.
    unfold sum_v in Ev at 3. unfold sum_b in Eb at 3. cbn [map sumZ] in Ev, Eb.
    exists k. split; [assumption|]. split; [assumption|].
    split; [unfold kernel_fee; lia|]. split; [lia|]. split; [assumption|].
    split.
    { apply Forall_forall. intros o Ho. rewrite forallb_forall in Erp. specialize (Erp o Ho).
      split; [|assumption]. unfold rp_verify in Erp. destruct (rp_for (to_p o)); [|discriminate].
      apply andb_true_iff in Erp as [Erp E3]. apply andb_true_iff in Erp as [_ E2]. lia. }
    split; [now apply nodup_commits_NoDup|].
    exists m. split; assumption.
  Qed.

  (** ** update_stored_tx stores the transaction it is given *)
  Lemma update_stored_get w c id p amount excess t inv w' :
    update_stored_tx w c id p amount excess t inv = Ok w' -> get_stored pk esig w' id = Some t.
  Proof.
    unfold Proto.update_stored_tx. destruct (update_first _ _ _); [|discriminate].
    intros H. inversion H; subst. unfold get_stored, set_stored. cbn [w_stored find fst snd].
    now rewrite N.eqb_refl.
  Qed.

  (** ** what a successful finalize_core went through *)
  Record core_facts (w : wallet) (r : slate) (c : ctxrec) (inv : bool) (w' : wallet) (t : tx)
         (cf_fee : N) (cf_t0 : tx) (cf_k : kernel) : Prop := {
    cf_fee_src : if inv then cf_fee = sl_fee r else cx_fee c = Some cf_fee;
    cf_reply : reply_tx pk esig r = Some cf_t0;
    cf_ins : tx_ins t = fold_left add_in (my_inputs w c) (tx_ins cf_t0);
    cf_outs : tx_outs t = fold_left add_out (my_outputs w c) (tx_outs cf_t0);
    cf_off : tx_offset t = adjust_offset derive pk (sl_off r) c;
    cf_kern : tx_kerns t = [cf_k];
    cf_msg : kernel_features (sl_feat r) (sl_feat_args r) cf_fee = Ok (kn_msg cf_k);
    cf_valid : validate (w_max_weight w) (sl_unsorted r) t = Ok tt;
    cf_minfee : exists m, tx_fee (lenN (tx_ins t)) (lenN (tx_outs t)) 1 = Ok m /\ m <= kernel_fee cf_k;
    cf_stored : get_stored pk esig w' (sl_id r) = Some t;
    cf_pp : inv = false ->
            verify_slate_payment_proof sk pk esig pk_eqb pub verify addr_sk
              (map lg_proof (entries_for pk esig w (sl_id r) (Some (cx_parent c))))
              (cx_pp_index c) (cx_pp_recipient c) (cx_parent c) (sl_proof r) (cx_amount c) (kn_excess cf_k) = Ok tt;
    cf_log : exists want f g,
        update_first pk esig f g (w_log w) = Some (w_log w')
        /\ want = (if inv then TxReceived else TxSent)
        /\ (forall e, g e = mkLog (lg_parent e) (lg_slate e) (lg_type e) (lg_confirmed e)
                                  (Some (kn_excess cf_k))
                                  (finalize_proof sk pk esig pub sign addr_sk (lg_proof e) (sl_proof r)
                                                  (cx_pp_index c) (cx_parent c) (cx_amount c) (kn_excess cf_k))
                                  (lg_fee e) (lg_credited e) (lg_debited e))
        /\ (forall e, f e = (match lg_slate e with Some i => i =? sl_id r | None => false end)
                            && type_eqb (lg_type e) want)
  }.

  Lemma kernel_features_fee feat args fee m :
    kernel_features feat args fee = Ok m -> kmsg_fee_fields m = fee.
  Proof.
    unfold kernel_features.
    destruct (feat =? 0); [intros H; inversion H; reflexivity|].
    destruct (feat =? 1); [discriminate|].
    destruct (feat =? 2); [destruct args; intros H; inversion H; reflexivity|].
    destruct (feat =? 3); [|discriminate].
    destruct args; [|discriminate]. destruct (_ && _); intros H; inversion H; reflexivity.
  Qed.

  Lemma finalize_core_ok w r c inv w' t :
    finalize_core w r c inv = Ok (w', t) -> exists fee t0 k, core_facts w r c inv w' t fee t0 k.
  Proof.
    unfold Proto.finalize_core. intros H.
    apply bindE in H as (fee & Hfee & H).
    apply bindE in H as (t0 & Ht0 & H).
    apply bindE in H as (mm0 & Hm & H).
    destruct (negb (cx_init_key c =? cx_key c)%Z && negb (cx_init_nonce c =? cx_nonce c)%Z).
    all: apply bindE in H as (sigs2 & Hs2 & H);
      apply bindE in H as (final & Hfin & H);
      apply bindE in H as (mm & Hmm & H);
      apply bindE in H as (t2 & Ht2 & H);
      apply bindE in H as (excess & Hex & H);
      apply bindE in H as (u & Hpp & H);
      apply bindE in H as (w2 & Hw2 & H);
      inversion H; subst w2 t2; clear H.
    all: rewrite Hm in Hmm; inversion Hmm; subst mm0; clear Hmm.
    all: unfold finalize_transaction in Ht2;
      apply bindE in Ht2 as (u1 & Hcf & Ht2);
      apply bindE in Ht2 as (ps & Hps & Ht2);
      destruct (negb (kernel_verify _)) eqn:Ekv; [discriminate|];
      apply bindE in Ht2 as (u2 & Hval & Ht2); inversion Ht2; subst t; clear Ht2.
    all: rewrite Hps in Hex; cbn [bind] in Hex; inversion Hex; subst excess; clear Hex.
    all: destruct u2.
    all: unfold check_fees in Hcf; cbn [tx_ins tx_outs tx_kerns length] in Hcf;
      apply bindE in Hcf as (fmin & Hfmin & Hcf);
      destruct (Proto.tx_fee_total _ <? fmin) eqn:Elt; [discriminate|].
    all: exists fee, t0, (mkKern mm (commit_of_key ps) final); constructor.
    all: cbn [tx_ins tx_outs tx_offset tx_kerns kn_msg kn_excess].
    all: try reflexivity.
    all: try exact Hm.
    all: try exact Hval.
    all: try (destruct inv; [inversion Hfee; reflexivity|
                             destruct (cx_fee c); inversion Hfee; reflexivity]).
    all: try (apply opt_to_res_ok in Ht0; exact Ht0).
    all: try (eapply update_stored_get; exact Hw2).
    all: try (intros ->; destruct u; exact Hpp).
    all: try (exists fmin; split; [exact Hfmin|];
              unfold Proto.tx_fee_total in Elt; cbn [tx_kerns fold_right kn_msg] in Elt;
              rewrite sat_add_0 in Elt by apply fee_of_fields_bound;
              unfold kernel_fee; cbn [kn_msg]; lia).
    all: unfold Proto.update_stored_tx in Hw2;
      match type of Hw2 with context [update_first _ _ ?f ?g _] =>
        destruct (update_first pk esig f g (w_log w)) as [log'|] eqn:Eu; [|discriminate];
        inversion Hw2; subst w'; cbn [w_log];
        eexists _, f, g; split; [exact Eu|]; split; [reflexivity|]; split; intros e; reflexivity
      end.
  Qed.

  (** ** keys, commitments, sums *)
  Lemma nodup_commit_kv (l : list (N * N)) :
    derive_distinct -> NoDup (map fst l) -> NoDup (map commit_kv l).
  Proof.
    intros Hd. induction l as [|kv l IH]; cbn [map]; intros H; [constructor|].
    inversion H; subst. constructor; [|now apply IH].
    intros Hin. apply in_map_iff in Hin as (kv' & He & Hin').
    destruct (N.eq_dec (fst kv') (fst kv)) as [Ek|Ek].
    - apply H2. rewrite <- Ek. now apply in_map.
    - unfold Proto.commit_kv, blind_kv in He. inversion He.
      eapply Hd; [exact Ek|eassumption].
  Qed.

  Lemma sum_v_commit_kv (l : list (N * N)) :
    sum_v (map commit_kv l) = Z.of_N (sumN (map snd l)).
  Proof.
    unfold sum_v. induction l as [|kv l IH]; cbn [map sumZ sumN]; [reflexivity|].
    rewrite IH. unfold Proto.commit_kv. cbn [c_v]. lia.
  Qed.

  Lemma my_outputs_in (w : wallet) (c : ctxrec) kv :
    In kv (cx_outputs c) -> find_out pk esig w (fst kv) <> None ->
    In (mkTxOut 0 (commit_kv kv) (rp_create (commit_kv kv))) (my_outputs w c).
  Proof.
    unfold Proto.my_outputs. intros Hin Hf. apply in_flat_map. exists kv. split; [assumption|].
    destruct (find_out pk esig w (fst kv)); [now left|contradiction].
  Qed.

  Lemma has_inputs_false (r : slate) t0 :
    has_inputs pk esig r = false -> reply_tx pk esig r = Some t0 -> tx_ins t0 = [].
  Proof.
    unfold has_inputs, reply_tx. destruct (sl_coms r) as [cs|]; [|discriminate].
    intros H E. inversion E; subst. cbn [tx_ins].
    destruct (coms_ins cs); [reflexivity|]. unfold lenN in H. cbn [length] in H.
    exfalso. destruct (N.of_nat (S (length l)) =? 0) eqn:E0; [|discriminate]. lia.
  Qed.

  (** ** C02, the core: a send context and ANY reply without inputs *)
  Lemma send_core_exact (w : wallet) (r : slate) (c : ctxrec) f w' t :
    has_inputs pk esig r = false -> cx_fee c = Some f -> f < FEE_MOD ->
    ctx_conserves pk c f -> wallet_has w c ->
    NoDup (map fst (cx_inputs c)) -> NoDup (map fst (cx_outputs c)) -> derive_distinct ->
    finalize_core w r c false = Ok (w', t) ->
    valid_tx t
    /\ in_commits t = map commit_kv (cx_inputs c)
    /\ (exists k, tx_kerns t = [k] /\ kernel_fee k = f)
    /\ incl (change_commits c) (out_commits t)
    /\ sum_v (filter (fun x => negb (is_change c x)) (out_commits t)) = Z.of_N (cx_amount c)
    /\ get_stored pk esig w' (sl_id r) = Some t.
  Proof.
    intros Hni Hf Hfs Hcons Hhas Hni_k Hno_k Hd H.
    apply finalize_core_ok in H as (fee & t0 & k & F). destruct F.
    rewrite Hf in cf_fee_src0. inversion cf_fee_src0; subst fee. clear cf_fee_src0.
    assert (Hin0 : tx_ins t0 = []) by (eapply has_inputs_false; eassumption).
    assert (Hmyin : map ti_c (my_inputs w c) = map commit_kv (cx_inputs c)).
    { apply my_inputs_commits. intros kv Hkv. apply Hhas. apply in_app_iff. now left. }
    assert (Hins : in_commits t = map commit_kv (cx_inputs c)).
    { unfold in_commits. rewrite cf_ins0, Hin0. rewrite fold_add_in_fresh.
      - cbn [app]. exact Hmyin.
      - cbn [map app]. rewrite Hmyin. now apply nodup_commit_kv. }
    assert (Hval : valid_tx t).
    { destruct cf_minfee0 as (m & Hm & Hle). eapply validate_valid; eassumption. }
    assert (Hkf : kernel_fee k = f).
    { unfold kernel_fee. rewrite (kernel_features_fee _ _ _ _ cf_msg0). now apply fee_of_fields_small. }
    assert (Hincl : incl (change_commits c) (out_commits t)).
    { intros x Hx. unfold Proto.change_commits in Hx. apply in_map_iff in Hx as (kv & <- & Hkv).
      unfold out_commits. rewrite cf_outs0.
      apply (fold_add_out_has (my_outputs w c) (tx_outs t0)
                              (mkTxOut 0 (commit_kv kv) (rp_create (commit_kv kv)))).
      apply my_outputs_in; [assumption|]. apply Hhas. apply in_app_iff. now right. }
    split; [assumption|]. split; [assumption|]. split; [exists k; split; assumption|].
    split; [assumption|]. split; [|assumption].
    destruct Hval as (k' & Hk' & _ & Hv & _ & _ & _ & Hnd & _).
    rewrite cf_kern0 in Hk'. inversion Hk'; subst k'. rewrite Hkf in Hv.
    unfold Proto.is_change.
    rewrite sum_v_filter_out.
    - rewrite Hins in Hv. unfold Proto.change_commits. rewrite !sum_v_commit_kv in *.
      unfold ctx_conserves in Hcons. lia.
    - eapply NoDup_app_r; exact Hnd.
    - unfold Proto.change_commits. now apply nodup_commit_kv.
    - exact Hincl.
  Qed.

  (** ** C02 for finalize_tx, ordinary (already locked) send *)
  Theorem finalize_send_exact (w : wallet) (r : slate) (c : ctxrec) f w' t :
    lookup_ctx pk esig w (sl_id r) = Some c -> sl_state r = StS2 -> cx_late c = None ->
    cx_fee c = Some f -> f < FEE_MOD ->
    ctx_conserves pk c f -> wallet_has w c ->
    NoDup (map fst (cx_inputs c)) -> NoDup (map fst (cx_outputs c)) -> derive_distinct ->
    finalize_tx w r = (w', Ok t) ->
    valid_tx t
    /\ in_commits t = map commit_kv (cx_inputs c)
    /\ (exists k, tx_kerns t = [k] /\ kernel_fee k = f)
    /\ incl (change_commits c) (out_commits t)
    /\ sum_v (filter (fun x => negb (is_change c x)) (out_commits t)) = Z.of_N (cx_amount c)
    /\ get_stored pk esig w' (sl_id r) = Some t.
  Proof.
    intros Hl Hs Hlate Hf Hfs Hcons Hhas Hn1 Hn2 Hd H.
    unfold Proto.finalize_tx in H. rewrite Hl in H.
    destruct (check_ttl pk esig w r); try (inversion H; discriminate).
    rewrite Hs in H. destruct (has_inputs pk esig r) eqn:Ehi; [inversion H; discriminate|].
    rewrite Hlate in H.
    destruct (finalize_core w r c false) as [[w2 t2]|e|q] eqn:Ec; inversion H; subst; try discriminate.
    eapply send_core_exact; eassumption.
  Qed.

  (** ** the invoice branch: the issuer finalizes the payer's reply *)
  Theorem finalize_invoice_facts (w : wallet) (r : slate) (c : ctxrec) w' t :
    lookup_ctx pk esig w (sl_id r) = Some c -> sl_state r = StI2 -> wallet_has w c ->
    finalize_tx w r = (w', Ok t) ->
    valid_tx t
    /\ incl (change_commits c) (out_commits t)
    /\ (exists k, tx_kerns t = [k] /\ kernel_fee k = fee_of_fields (sl_fee r))
    /\ get_stored pk esig w' (sl_id r) = Some t.
  Proof.
    intros Hl Hs Hhas H.
    unfold Proto.finalize_tx in H. rewrite Hl in H.
    destruct (check_ttl pk esig w r); try (inversion H; discriminate).
    rewrite Hs in H.
    destruct (cx_pp_index c); [inversion H|]. destruct (cx_late c); [inversion H|].
    destruct (finalize_core w r c true) as [[w2 t2]|e|q] eqn:Ec; inversion H; subst; try discriminate.
    clear H.
    apply finalize_core_ok in Ec as (fee & t0 & k & F). destruct F. subst fee.
    split.
    { destruct cf_minfee0 as (m & Hm & Hle). eapply validate_valid; eassumption. }
    split.
    { intros x Hx. unfold Proto.change_commits in Hx. apply in_map_iff in Hx as (kv & <- & Hkv).
      unfold out_commits. rewrite cf_outs0.
      apply (fold_add_out_has (my_outputs w c) (tx_outs t0)
                              (mkTxOut 0 (commit_kv kv) (rp_create (commit_kv kv)))).
      apply my_outputs_in; [assumption|]. apply Hhas. apply in_app_iff. now right. }
    split; [|assumption].
    exists k. split; [assumption|]. unfold kernel_fee.
    now rewrite (kernel_features_fee _ _ _ _ cf_msg0).
  Qed.

  (** ** a refused reply changes nothing (ordinary send, invoice) *)
  Theorem finalize_fail_no_effect (w : wallet) (r : slate) w' res :
    (forall c, lookup_ctx pk esig w (sl_id r) = Some c -> sl_state r = StS2 -> cx_late c = None) ->
    finalize_tx w r = (w', res) -> (forall t, res <> Ok t) -> w' = w.
  Proof.
    intros Hl H Hne. unfold Proto.finalize_tx in H.
    destruct (lookup_ctx pk esig w (sl_id r)) as [c|] eqn:El; [|now inversion H].
    destruct (check_ttl pk esig w r); try now inversion H.
    destruct (sl_state r) eqn:Es; try now inversion H.
    - destruct (has_inputs pk esig r); [now inversion H|].
      rewrite (Hl c eq_refl eq_refl) in H.
      destruct (finalize_core w r c false) as [[w2 t2]|e|q]; inversion H; subst; try reflexivity.
      exfalso. eapply Hne. reflexivity.
    - destruct (cx_pp_index c); [now inversion H|]. destruct (cx_late c); [now inversion H|].
      destruct (finalize_core w r c true) as [[w2 t2]|e|q]; inversion H; subst; try reflexivity.
      exfalso. eapply Hne. reflexivity.
  Qed.

  (** ** late-locked send: selection, storing the context and locking happen inside finalize *)
  Lemma find_key_iff (l : list out) k :
    find (fun o => o_key o =? k) l <> None <-> In k (map o_key l).
  Proof.
    induction l as [|o l IH]; cbn [find map In]; [split; [congruence|contradiction]|].
    destruct (o_key o =? k) eqn:E.
    - split; [intros _; left; lia|intros _; discriminate].
    - rewrite IH. split; [now right|]. intros [H|H]; [lia|assumption].
  Qed.

  Lemma seqN_length s n : length (seqN s n) = n.
  Proof. revert s. induction n as [|n IH]; intros s; cbn [seqN length]; [reflexivity|now rewrite IH]. Qed.

  Lemma seqN_ge s n x : In x (seqN s n) -> s <= x.
  Proof.
    revert s. induction n as [|n IH]; intros s; cbn [seqN In]; [contradiction|].
    intros [<-|H]; [lia|]. apply IH in H. lia.
  Qed.

  Lemma seqN_nodup s n : NoDup (seqN s n).
  Proof.
    revert s. induction n as [|n IH]; intros s; cbn [seqN]; constructor; [|apply IH].
    intros H. apply seqN_ge in H. lia.
  Qed.

  Lemma map_fst_combine {A B} (l1 : list A) (l2 : list B) :
    length l1 = length l2 -> map fst (combine l1 l2) = l1.
  Proof.
    revert l2. induction l1 as [|a l1 IH]; intros [|b l2]; cbn [length combine map]; try discriminate;
      [reflexivity|]. intros H. f_equal. apply IH. lia.
  Qed.

  Lemma map_snd_combine {A B} (l1 : list A) (l2 : list B) :
    length l1 = length l2 -> map snd (combine l1 l2) = l2.
  Proof.
    revert l2. induction l1 as [|a l1 IH]; intros [|b l2]; cbn [length combine map]; try discriminate;
      [reflexivity|]. intros H. f_equal. apply IH. lia.
  Qed.

  Lemma lock_status_key keys o : o_key (lock_status keys o) = o_key o.
  Proof. unfold lock_status. destruct (existsb _ keys); reflexivity. Qed.

  Lemma lock_outs (w : wallet) id (c : ctxrec) sigs p t0 w2 :
    lock_tx_context w id c sigs p t0 = Ok w2 ->
    map o_key (w_outs w2) = map o_key (w_outs w) ++ map fst (cx_outputs c)
    /\ w_parent w2 = w_parent w /\ w_max_weight w2 = w_max_weight w
    /\ w_ctxs w2 = w_ctxs w
    /\ exists e, w_log w2 = w_log w ++ [e] /\ lg_type e = TxSent /\ lg_confirmed e = false
                  /\ lg_slate e = Some id /\ lg_parent e = cx_parent c.
  Proof.
    unfold Proto.lock_tx_context. destruct (negb _); [discriminate|].
    intros H. apply bindE in H as (sp & _ & H). inversion H; subst w2. clear H.
    cbn [w_outs w_parent w_max_weight w_ctxs w_log].
    split.
    { rewrite map_app, !map_map. f_equal.
      apply map_ext. intros o. apply lock_status_key. }
    repeat split. eexists. split; [reflexivity|]. cbn. repeat split.
  Qed.

  Theorem finalize_late_exact (w : wallet) (r : slate) (c : ctxrec) la f w' t :
    lookup_ctx pk esig w (sl_id r) = Some c -> sl_state r = StS2 -> cx_late c = Some la ->
    cx_fee c = Some f -> f < FEE_MOD ->
    NoDup (map o_key (w_outs w)) -> derive_distinct ->
    finalize_tx w r = (w', Ok t) ->
    exists c' : ctxrec,
      cx_amount c' = cx_amount c /\ ctx_conserves pk c' f
      /\ (forall kv, In kv (cx_inputs c') ->
            exists o, In o (w_outs w) /\ o_key o = fst kv /\ o_value o = snd kv
                      /\ o_root o = cx_parent c /\ eligible o (w_tip w) (la_minconf la) = true)
      /\ valid_tx t
      /\ in_commits t = map commit_kv (cx_inputs c')
      /\ (exists k, tx_kerns t = [k] /\ kernel_fee k = f)
      /\ incl (change_commits c') (out_commits t)
      /\ sum_v (filter (fun x => negb (is_change c' x)) (out_commits t)) = Z.of_N (cx_amount c)
      /\ get_stored pk esig w' (sl_id r) = Some t.
  Proof.
    intros Hl Hs Hlate Hf Hfs Hnd Hd H.
    unfold Proto.finalize_tx in H. rewrite Hl in H.
    destruct (check_ttl pk esig w r); try (inversion H; discriminate).
    rewrite Hs in H. destruct (has_inputs pk esig r) eqn:Ehi; [inversion H; discriminate|].
    rewrite Hlate in H.
    destruct (late_lock_step w r c la) as [w1 [c'|e|q]] eqn:El; try (inversion H; discriminate).
    destruct (finalize_core w1 r c' false) as [[w2 t2]|e|q] eqn:Ec; inversion H; subst; try discriminate.
    clear H.
    unfold Proto.late_lock_step in El.
    match type of El with context [build_send ?os ?p] =>
      destruct (build_send os p) as [b|e|q] eqn:Eb; try (inversion El; discriminate);
      pose proof (build_send_conserves os p b Eb) as (Hsel & Hndk & Hsum & _ & _ & Haif & _)
    end.
    cbn [p_aif p_amount p_parent p_h p_minconf] in Hsel, Haif.
    rewrite Hf in El.
    destruct (negb (b_fee b =? fee_of_fields f)) eqn:Efee; [inversion El; discriminate|].
    rewrite (fee_of_fields_small f Hfs) in Efee.
    assert (Hbf : b_fee b = f) by lia.
    match type of El with context [lock_tx_context ?w1' ?id ?cc ?sg ?pp ?tt] =>
      destruct (lock_tx_context w1' id cc sg pp tt) as [w2|e|q] eqn:Elk; try (inversion El; discriminate);
      set (cnew := cc) in *
    end.
    inversion El; subst w1 c'. clear El.
    apply lock_outs in Elk as (Hkeys & _ & _ & _ & _).
    cbn [save_ctx w_outs] in Hkeys.
    assert (Hlen : length (seqN (fresh_key pk esig w) (length (b_changes b))) = length (b_changes b))
      by apply seqN_length.
    assert (Hcons : ctx_conserves pk cnew f).
    { unfold ctx_conserves. subst cnew. cbn [cx_inputs cx_outputs cx_amount].
      rewrite map_map. cbn [snd]. rewrite (map_snd_combine _ _ Hlen).
      unfold values in Hsum. change (map (fun x : out => o_value x) (b_inputs b)) with (map o_value (b_inputs b)).
      rewrite Hsum, Haif, Hbf. reflexivity. }
    exists cnew.
    split; [reflexivity|].
    split; [exact Hcons|].
    split.
    { intros kv Hkv. subst cnew. cbn [cx_inputs] in Hkv.
      apply in_map_iff in Hkv as (o & <- & Ho). cbn [fst snd].
      destruct (Hsel o Ho) as (Hi & Hr & He). exists o. repeat split; assumption. }
    apply (send_core_exact w2 r cnew f w' t Ehi); try assumption.
    - reflexivity.
    - (* wallet_has *)
      intros kv Hkv. unfold find_out. apply find_key_iff. rewrite Hkeys.
      subst cnew. cbn [cx_inputs cx_outputs] in *. apply in_app_iff in Hkv as [Hkv|Hkv].
      + apply in_app_iff. left. apply in_map_iff in Hkv as (o & <- & Ho). cbn [fst].
        apply in_map. now apply Hsel.
      + apply in_app_iff. right. now apply in_map.
    - subst cnew. cbn [cx_inputs]. rewrite map_map. cbn [fst]. now apply Hndk.
    - subst cnew. cbn [cx_outputs]. rewrite (map_fst_combine _ _ Hlen). apply seqN_nodup.
  Qed.

  (** a late-locked send that fails leaves either nothing behind or a pending, cancellable
      TxSent entry together with its context *)
  Theorem finalize_late_fail (w : wallet) (r : slate) (c : ctxrec) la w' res :
    lookup_ctx pk esig w (sl_id r) = Some c -> cx_late c = Some la ->
    finalize_tx w r = (w', res) -> (forall t, res <> Ok t) ->
    w' = w
    \/ (exists c', w' = save_ctx pk esig w (sl_id r) c')
    \/ (exists c' e,
          lookup_ctx pk esig w' (sl_id r) = Some c'
          /\ w_log w' = w_log w ++ [e] /\ lg_type e = TxSent /\ lg_confirmed e = false
          /\ lg_slate e = Some (sl_id r) /\ lg_parent e = cx_parent c
          /\ (entries_for pk esig w (sl_id r) (Some (w_parent w)) = [] -> cx_parent c = w_parent w ->
              cancel_verdict pk esig w' (sl_id r) = Ok tt)).
  Proof.
    intros Hl Hlate H Hne. unfold Proto.finalize_tx in H. rewrite Hl in H.
    destruct (check_ttl pk esig w r); try (left; now inversion H).
    destruct (sl_state r) eqn:Es; try (left; now inversion H).
    - destruct (has_inputs pk esig r); [left; now inversion H|].
      rewrite Hlate in H.
      destruct (late_lock_step w r c la) as [w1 res1] eqn:El.
      assert (Hw' : w' = w1).
      { destruct res1 as [c'|e|q]; [|now inversion H|now inversion H].
        destruct (finalize_core w1 r c' false) as [[w2 t2]|e|q]; inversion H; subst; try reflexivity.
        exfalso. eapply Hne. reflexivity. }
      subst w1. clear H.
      unfold Proto.late_lock_step in El.
      match type of El with context [build_send ?os ?p] =>
        destruct (build_send os p) as [b|e|q]; try (left; now inversion El) end.
      destruct (negb _); [left; now inversion El|].
      match type of El with context [lock_tx_context ?w1' ?id ?cc ?sg ?pp ?tt] =>
        destruct (lock_tx_context w1' id cc sg pp tt) as [w2|e|q] eqn:Elk;
        [|right; left; exists cc; now inversion El|right; left; exists cc; now inversion El];
        set (cnew := cc) in *
      end.
      inversion El; subst w2. clear El. right. right.
      apply lock_outs in Elk as (_ & Hpar & _ & Hctx & e & Hlog & Ht & Hc & Hsl & Hp).
      exists cnew, e.
      split.
      { unfold lookup_ctx. rewrite Hctx. cbn [save_ctx w_ctxs find fst]. now rewrite N.eqb_refl. }
      cbn [save_ctx w_log w_parent] in Hlog, Hpar.
      repeat split; try assumption.
      intros Hnone Hpc. unfold cancel_verdict, entries_for in *.
      rewrite Hlog, Hpar, filter_app, Hnone. cbn [app filter].
      rewrite Hsl, Hp. subst cnew. cbn [cx_parent]. rewrite Hpc, !N.eqb_refl. cbn [andb].
      now rewrite Ht, Hc.
    - (* a reply claiming the invoice state: the context is left alone *)
      rewrite Hlate in H. destruct (cx_pp_index c); inversion H; subst; now left.
  Qed.
End ProtoProofs.

(** ** the hypotheses of the C02 theorems are met by what C01's model builds *)
Lemma build_send_ctx_conserves (os : list out) (p : params) (b : built) (pk : Type)
      parent (x k : Z) (keys : list N) idx :
  build_send os p = Ok b -> length keys = length (b_changes b) ->
  b_fee b < FEE_MOD
  /\ ctx_conserves pk
       (mkCtx parent x k x k (map (fun o => (o_key o, o_value o)) (b_inputs b))
              (combine keys (b_changes b)) (b_amount b) (Some (b_fee b)) idx None None) (b_fee b)
  /\ (NoDup (map o_key os) ->
      NoDup (map fst (map (fun o => (o_key o, o_value o)) (b_inputs b)))).
Proof.
  intros Hb Hlen.
  pose proof (build_send_conserves os p b Hb) as (_ & Hnd & Hsum & _ & _ & _ & _ & Hfee & _).
  split; [unfold FEE_MOD, FEE_MASK in *; lia|]. split.
  - unfold ctx_conserves. cbn [cx_inputs cx_outputs cx_amount].
    rewrite map_map. cbn [snd]. rewrite (map_snd_combine _ _ Hlen). exact Hsum.
  - intros H. rewrite map_map. cbn [fst]. now apply Hnd.
Qed.

(** ** the concrete instance of the correspondence runs *)
Lemma c_derive_distinct : derive_distinct c_derive.
Proof.
  unfold derive_distinct, c_derive. intros k v k' v' Hk.
  assert (H1 : v mod 18446744073709551616 < 18446744073709551616) by (apply N.mod_lt; lia).
  assert (H2 : v' mod 18446744073709551616 < 18446744073709551616) by (apply N.mod_lt; lia).
  assert (H3 : (k * k) mod 1099511627776 < 1099511627776) by (apply N.mod_lt; lia).
  assert (H4 : (k' * k') mod 1099511627776 < 1099511627776) by (apply N.mod_lt; lia).
  remember (v mod 18446744073709551616) as a. remember (v' mod 18446744073709551616) as a'.
  remember ((k * k) mod 1099511627776) as q. remember ((k' * k') mod 1099511627776) as q'.
  clear Heqa Heqa' Heqq Heqq'. lia.
Qed.

(** non-vacuity: an honest exchange (one 60-grin coinbase, 2 grin sent, one change output)
    meets every hypothesis of [finalize_send_exact] and finalizes; the same reply with the
    offset changed by one, without its partial signature, or carrying a foreign input that
    commits to minus the amount is refused and leaves the wallet as it was. *)
Definition ex_os : list out := [mkOut 0 0 60000000000 Unspent 1 0 true].
Definition ex_a : exch :=
  mkExch 1 0 0 [(0, 60000000000)] [(1, 57977000000)] 2000000000 (Some 23000000) None None 0 false.
Definition ex_honest : forge := mkForge [(100, 2000000000)] [] None 0 None StS2 1.
Definition ex_case (m : mutation) : case :=
  mkCase 0 5 5 226 ex_os ex_a None 0 false ex_honest ex_honest 0 m.

Example finalize_example :
  let '(w, r) := case_setup (ex_case MNone) in
  let c := ex_ctx ex_os ex_a in
  lookup_ctx cpk cesig w (sl_id r) = Some c /\ sl_state r = StS2 /\ cx_late c = None
  /\ cx_fee c = Some 23000000 /\ ctx_conserves cpk c 23000000 /\ wallet_has cpk cesig w c
  /\ NoDup (map fst (cx_inputs c)) /\ NoDup (map fst (cx_outputs c))
  /\ exists w' t, c_finalize_tx w r = (w', Ok t) /\ lenN (tx_outs t) = 2.
Proof.
  cbv zeta. destruct (case_setup (ex_case MNone)) as [w r] eqn:E.
  vm_compute in E. inversion E; subst w r. clear E.
  split; [reflexivity|]. split; [reflexivity|]. split; [reflexivity|]. split; [reflexivity|].
  split; [vm_compute; reflexivity|].
  split.
  { intros kv [<-|[<-|[]]]; vm_compute; discriminate. }
  split; [repeat constructor; intros []|]. split; [repeat constructor; intros []|].
  eexists _, _. split; vm_compute; reflexivity.
Qed.

Example tampered_examples :
  forall m, In m [MOffAdd 1; MSigNone; MComsAddInput (-2000000000); MComsValueAdd 1; MComsEmpty;
                  MComsProofGarbage; MNumParts 1] ->
  let '(w, r) := case_setup (ex_case m) in
  exists e, c_finalize_tx w r = (w, Err e).
Proof.
  intros m Hm. repeat (destruct Hm as [<-|Hm]; [vm_compute; eexists; reflexivity|]). destruct Hm.
Qed.

(** non-vacuity of the late-lock, refused-late-lock and invoice theorems: a late-locked send
    whose coins are selected inside finalize_tx finalizes; the same send with the reply's
    offset altered is refused after the lock, leaving one more (cancellable) log entry; an
    invoice paid by the counterparty (one 60-grin input, change, fee) finalizes on the
    issuer's side. *)
Definition ex_late_a : exch :=
  mkExch 1 0 0 [] [] 2000000000 (Some 23000000) None (Some (mkLate 1 500 1 false)) 0 false.
Definition ex_late_case (m : mutation) : case :=
  mkCase 0 5 5 226 ex_os ex_late_a None 2 false ex_honest ex_honest 10 m.
Definition ex_inv_a : exch :=
  mkExch 1 0 0 [] [(1, 2000000000)] 2000000000 None None None 0 true.
Definition ex_payer : forge :=
  mkForge [(100, 57977000000)] [(200, 60000000000%Z)] (Some 23000000) 0 None StI2 1.
Definition ex_inv_case (m : mutation) : case :=
  mkCase 0 5 5 226 [] ex_inv_a None 2 false ex_payer ex_payer 10 m.

Example late_and_invoice_examples :
  run_case (ex_late_case MNone) = [0; 1; 2; 23000000; 0; 1]%Z
  /\ run_case (ex_late_case (MOffAdd 1)) = [1; 15; 1]%Z
  /\ run_case (ex_inv_case MNone) = [0; 1; 2; 23000000; 0; 1]%Z
  /\ run_case (ex_inv_case (MOffAdd 1)) = [1; 15; 0]%Z.
Proof. repeat split; vm_compute; reflexivity. Qed.
