(** Executable model of the transaction-log queries of libwallet:
    [apply_advanced_tx_list_filtering] and [retrieve_txs]
    (libwallet/src/internal/updater.rs, as they stand in /repo after the C19 [fix:]
    commits 44e2488 and fb2be1e), [RetrieveTxQueryArgs] and its sort enums
    (libwallet/src/api_impl/types.rs), the part of [TxLogEntry] the filters read
    (libwallet/src/types.rs) and the caller [owner::retrieve_txs]
    (libwallet/src/api_impl/owner.rs), which passes the wallet's active account.

    The log is the sequence produced by [WalletBackend::tx_log_iter] (for the LMDB backend:
    ordered by account, then id). None of the functions can fail or panic: there is no
    unchecked arithmetic (amount differences are computed in BigInt) and no unwrap on
    data, so they return [Ok] always ([retrieve_txs_r]).

    This file also contains the *specification* side ([matches], [Satisfies], [spec_query],
    [legacy_matches]); no proofs here: this file must keep evaluating when a proof breaks.
    The correspondence harness (harness/src/bin/c19.rs) runs [run_case] against the real
    functions on the same logs and calls. *)
From GW Require Export Base.
From Coq Require Import Sorting.Sorted Sorting.Permutation.

(** * Data *)

Inductive txtype :=
| ConfirmedCoinbase | TxReceived | TxSent | TxReceivedCancelled | TxSentCancelled | TxReverted.

Definition txtype_eqb (a b : txtype) : bool :=
  match a, b with
  | ConfirmedCoinbase, ConfirmedCoinbase | TxReceived, TxReceived | TxSent, TxSent
  | TxReceivedCancelled, TxReceivedCancelled | TxSentCancelled, TxSentCancelled
  | TxReverted, TxReverted => true
  | _, _ => false
  end.

(** The part of TxLogEntry that the queries read. Timestamps are instants on the integer
    line (any strictly monotone image of DateTime<Utc>); ids are u32, amounts u64 — the
    theorems need no bound on them. (parent, id) is the key of the record in the store. *)
Record entry := mkEntry {
  e_parent : N;             (* parent_key_id: the account *)
  e_id : N;                 (* id *)
  e_type : txtype;          (* tx_type *)
  e_confirmed : bool;       (* confirmed *)
  e_credited : N;           (* amount_credited *)
  e_debited : N;            (* amount_debited *)
  e_cts : Z;                (* creation_ts *)
  e_conf : option Z;        (* confirmation_ts *)
  e_slate : option N        (* tx_slate_id *)
}.

Inductive sort_field :=
| SId | SCreationTimestamp | SConfirmationTimestamp | STotalAmount | SAmountCredited | SAmountDebited.
Inductive sort_order := Asc | Desc.

(** RetrieveTxQueryArgs, field by field. *)
Record query := mkQuery {
  q_min_id : option N;
  q_max_id : option N;
  q_limit : option N;
  q_exclude_cancelled : option bool;
  q_outstanding_only : option bool;
  q_confirmed_only : option bool;
  q_sent_only : option bool;
  q_received_only : option bool;
  q_coinbase_only : option bool;
  q_reverted_only : option bool;
  q_min_amount : option N;
  q_max_amount : option N;
  q_min_creation : option Z;
  q_max_creation : option Z;
  q_min_confirmed : option Z;
  q_max_confirmed : option Z;
  q_sort_field : option sort_field;
  q_sort_order : option sort_order
}.

(** * The code *)

Definition is_sent (e : entry) : bool :=
  txtype_eqb (e_type e) TxSent || txtype_eqb (e_type e) TxSentCancelled.

(** BigInt::from(debited) - BigInt::from(credited) for sent entries, credited - debited
    otherwise (used by min_amount, max_amount and the TotalAmount sort key). *)
Definition net_amount (e : entry) : Z :=
  if is_sent e then Z.of_N (e_debited e) - Z.of_N (e_credited e)
  else Z.of_N (e_credited e) - Z.of_N (e_debited e).

(** `if let Some(v) = flag { if v { test } else { true } } else { true }` *)
Definition flag (o : option bool) (test : bool) : bool :=
  match o with Some v => if v then test else true | None => true end.
(** `if let Some(v) = bound { test v } else { true }` *)
Definition bound {A} (o : option A) (test : A -> bool) : bool :=
  match o with Some v => test v | None => true end.

(** The closures of apply_advanced_tx_list_filtering, in the order of the source. *)
Definition f_parent (parent : option N) (e : entry) : bool :=
  match parent with Some k => e_parent e =? k | None => true end.
Definition f_exclude_cancelled (q : query) (e : entry) : bool :=
  flag (q_exclude_cancelled q)
       (negb (txtype_eqb (e_type e) TxReceivedCancelled) && negb (txtype_eqb (e_type e) TxSentCancelled)).
Definition f_outstanding_only (q : query) (e : entry) : bool :=
  flag (q_outstanding_only q) (negb (e_confirmed e)).
Definition f_confirmed_only (q : query) (e : entry) : bool :=
  flag (q_confirmed_only q) (e_confirmed e).
Definition f_sent_only (q : query) (e : entry) : bool :=
  flag (q_sent_only q) (txtype_eqb (e_type e) TxSent || txtype_eqb (e_type e) TxSentCancelled).
Definition f_received_only (q : query) (e : entry) : bool :=
  flag (q_received_only q) (txtype_eqb (e_type e) TxReceived || txtype_eqb (e_type e) TxReceivedCancelled).
Definition f_coinbase_only (q : query) (e : entry) : bool :=
  flag (q_coinbase_only q) (txtype_eqb (e_type e) ConfirmedCoinbase).
Definition f_reverted_only (q : query) (e : entry) : bool :=
  flag (q_reverted_only q) (txtype_eqb (e_type e) TxReverted).
Definition f_min_id (q : query) (e : entry) : bool :=
  bound (q_min_id q) (fun v => v <=? e_id e).
Definition f_max_id (q : query) (e : entry) : bool :=
  bound (q_max_id q) (fun v => e_id e <=? v).
Definition f_min_amount (q : query) (e : entry) : bool :=
  bound (q_min_amount q) (fun v => (Z.of_N v <=? net_amount e)%Z).
Definition f_max_amount (q : query) (e : entry) : bool :=
  bound (q_max_amount q) (fun v => (net_amount e <=? Z.of_N v)%Z).
Definition f_min_creation (q : query) (e : entry) : bool :=
  bound (q_min_creation q) (fun v => (v <=? e_cts e)%Z).
Definition f_max_creation (q : query) (e : entry) : bool :=
  bound (q_max_creation q) (fun v => (e_cts e <=? v)%Z).
Definition f_min_confirmed (q : query) (e : entry) : bool :=
  bound (q_min_confirmed q) (fun v => match e_conf e with Some t => (v <=? t)%Z | None => true end).
Definition f_max_confirmed (q : query) (e : entry) : bool :=
  bound (q_max_confirmed q) (fun v => match e_conf e with Some t => (t <=? v)%Z | None => true end).

(** Sort keys. The code sorts by keys of five types (u32, u64, DateTime, Option<DateTime>,
    BigInt); all are embedded, order-preservingly, into [option Z] ordered as Rust orders
    [Option]: [None] first, then [Some] by value. *)
Definition skey := option Z.
Definition skey_leb (a b : skey) : bool :=
  match a, b with
  | None, _ => true
  | Some _, None => false
  | Some x, Some y => (x <=? y)%Z
  end.
Definition sort_key (f : sort_field) (e : entry) : skey :=
  match f with
  | SId => Some (Z.of_N (e_id e))
  | SCreationTimestamp => Some (e_cts e)
  | SConfirmationTimestamp => e_conf e
  | STotalAmount => Some (net_amount e)
  | SAmountCredited => Some (Z.of_N (e_credited e))
  | SAmountDebited => Some (Z.of_N (e_debited e))
  end.

(** slice::sort_by_key is a stable sort: insertion keeps an earlier element before later
    ones of equal key. *)
Fixpoint insert_by (key : entry -> skey) (x : entry) (l : list entry) : list entry :=
  match l with
  | [] => [x]
  | y :: r => if skey_leb (key x) (key y) then x :: y :: r else y :: insert_by key x r
  end.
Definition sort_by (key : entry -> skey) (l : list entry) : list entry :=
  fold_right (insert_by key) [] l.

(** `into_iter().take(l as usize)` with a binary counter (so that limit = u32::MAX evaluates) *)
Fixpoint takeN {A} (n : N) (l : list A) : list A :=
  match l with
  | [] => []
  | x :: r => if n =? 0 then [] else x :: takeN (N.pred n) r
  end.

Definition apply_advanced_tx_list_filtering (q : query) (parent : option N) (log : list entry)
  : list entry :=
  let txs :=
    filter (f_max_confirmed q) (filter (f_min_confirmed q)
    (filter (f_max_creation q) (filter (f_min_creation q)
    (filter (f_max_amount q) (filter (f_min_amount q)
    (filter (f_max_id q) (filter (f_min_id q)
    (filter (f_reverted_only q) (filter (f_coinbase_only q)
    (filter (f_received_only q) (filter (f_sent_only q)
    (filter (f_confirmed_only q) (filter (f_outstanding_only q)
    (filter (f_exclude_cancelled q) (filter (f_parent parent) log))))))))))))))) in
  let sorted :=
    match q_sort_field q with
    | Some s => sort_by (sort_key s) txs
    | None => sort_by (sort_key SId) txs
    end in
  let ordered :=
    match q_sort_order q with
    | Some Desc => rev sorted
    | _ => sorted
    end in
  match q_limit q with
  | Some l => takeN l ordered
  | None => ordered
  end.

(** The closure of the legacy branch of retrieve_txs. *)
Definition opt_N_eqb (a b : option N) : bool :=
  match a, b with
  | Some x, Some y => x =? y
  | None, None => true
  | _, _ => false
  end.
Definition legacy_filter (tx_id slate parent : option N) (outstanding_only : bool) (e : entry) : bool :=
  let f_pk := match parent with Some k => e_parent e =? k | None => true end in
  let f_tx_id := match tx_id with Some i => e_id e =? i | None => true end in
  let f_txs := match slate with Some t => opt_N_eqb (e_slate e) (Some t) | None => true end in
  let f_outstanding :=
    if outstanding_only then
      negb (e_confirmed e)
      && (txtype_eqb (e_type e) TxReceived || txtype_eqb (e_type e) TxSent
          || txtype_eqb (e_type e) TxReverted)
    else true in
  f_pk && f_tx_id && f_txs && f_outstanding.

Definition is_some {A} (o : option A) : bool := match o with Some _ => true | None => false end.

(** updater::retrieve_txs *)
Definition retrieve_txs (tx_id slate : option N) (qa : option query) (parent : option N)
           (outstanding_only : bool) (log : list entry) : list entry :=
  match qa with
  | Some q =>
      if negb (is_some tx_id) && negb (is_some slate)
      then apply_advanced_tx_list_filtering q parent log
      else sort_by (sort_key SCreationTimestamp)
                   (filter (legacy_filter tx_id slate parent outstanding_only) log)
  | None => sort_by (sort_key SCreationTimestamp)
                    (filter (legacy_filter tx_id slate parent outstanding_only) log)
  end.

Definition retrieve_txs_r (tx_id slate : option N) (qa : option query) (parent : option N)
           (outstanding_only : bool) (log : list entry) : result (list entry) :=
  Ok (retrieve_txs tx_id slate qa parent outstanding_only log).

(** owner::retrieve_txs (refresh_from_node = false): the active account, all entries *)
Definition owner_retrieve_txs (active : N) (tx_id slate : option N) (qa : option query)
           (log : list entry) : result (list entry) :=
  retrieve_txs_r tx_id slate qa (Some active) false log.

(** The advanced query of the active account, as a function account -> query -> log -> result *)
Definition query_txs (acct : N) (q : query) (log : list entry) : list entry :=
  retrieve_txs None None (Some q) (Some acct) false log.

(** * The specification *)

(** Decidable conjunction of the criteria a query supplies. *)
Definition matches (parent : option N) (q : query) (e : entry) : bool :=
  f_parent parent e
  && f_exclude_cancelled q e && f_outstanding_only q e && f_confirmed_only q e
  && f_sent_only q e && f_received_only q e && f_coinbase_only q e && f_reverted_only q e
  && f_min_id q e && f_max_id q e && f_min_amount q e && f_max_amount q e
  && f_min_creation q e && f_max_creation q e && f_min_confirmed q e && f_max_confirmed q e.

(** The same, written out as the documentation of RetrieveTxQueryArgs reads (every clause
    is conditional on its field being supplied). Bounds are inclusive. An entry that
    carries no confirmation time is not constrained by the confirmation-time bounds, and
    the amount of an entry is what left the wallet for sent entries and what arrived for
    the others (both as in the code; see design.d/C19.md). *)
Definition Satisfies (parent : option N) (q : query) (e : entry) : Prop :=
  (forall k, parent = Some k -> e_parent e = k)
  /\ (q_exclude_cancelled q = Some true ->
        e_type e <> TxReceivedCancelled /\ e_type e <> TxSentCancelled)
  /\ (q_outstanding_only q = Some true -> e_confirmed e = false)
  /\ (q_confirmed_only q = Some true -> e_confirmed e = true)
  /\ (q_sent_only q = Some true -> e_type e = TxSent \/ e_type e = TxSentCancelled)
  /\ (q_received_only q = Some true -> e_type e = TxReceived \/ e_type e = TxReceivedCancelled)
  /\ (q_coinbase_only q = Some true -> e_type e = ConfirmedCoinbase)
  /\ (q_reverted_only q = Some true -> e_type e = TxReverted)
  /\ (forall v, q_min_id q = Some v -> v <= e_id e)
  /\ (forall v, q_max_id q = Some v -> e_id e <= v)
  /\ (forall v, q_min_amount q = Some v -> (Z.of_N v <= net_amount e)%Z)
  /\ (forall v, q_max_amount q = Some v -> (net_amount e <= Z.of_N v)%Z)
  /\ (forall v, q_min_creation q = Some v -> (v <= e_cts e)%Z)
  /\ (forall v, q_max_creation q = Some v -> (e_cts e <= v)%Z)
  /\ (forall v t, q_min_confirmed q = Some v -> e_conf e = Some t -> (v <= t)%Z)
  /\ (forall v t, q_max_confirmed q = Some v -> e_conf e = Some t -> (t <= v)%Z).

Definition field_of (q : query) : sort_field :=
  match q_sort_field q with Some s => s | None => SId end.
Definition order_of (q : query) : sort_order :=
  match q_sort_order q with Some o => o | None => Asc end.

(** Order on entries requested by a query: non-decreasing key for Asc, non-increasing for Desc. *)
Definition key_le (f : sort_field) (a b : entry) : Prop :=
  skey_leb (sort_key f a) (sort_key f b) = true.
Definition in_order (f : sort_field) (o : sort_order) (a b : entry) : Prop :=
  match o with Asc => key_le f a b | Desc => key_le f b a end.

Definition direction (o : sort_order) (l : list entry) : list entry :=
  match o with Asc => l | Desc => rev l end.
Definition limit_to (lim : option N) (l : list entry) : list entry :=
  match lim with Some n => firstn (N.to_nat n) l | None => l end.

(** take limit (direction (stable sort by key (filter (all supplied criteria)))) *)
Definition spec_query (parent : option N) (q : query) (log : list entry) : list entry :=
  limit_to (q_limit q)
    (direction (order_of q)
       (sort_by (sort_key (field_of q)) (filter (matches parent q) log))).

(** The unlimited answer: the same query with the limit removed. *)
Definition unlimited (q : query) : query :=
  mkQuery (q_min_id q) (q_max_id q) None (q_exclude_cancelled q) (q_outstanding_only q)
          (q_confirmed_only q) (q_sent_only q) (q_received_only q) (q_coinbase_only q)
          (q_reverted_only q) (q_min_amount q) (q_max_amount q) (q_min_creation q)
          (q_max_creation q) (q_min_confirmed q) (q_max_confirmed q) (q_sort_field q)
          (q_sort_order q).

(** A flag that is omitted or false, a bound that is omitted. *)
Definition flag_off (o : option bool) : Prop := o = None \/ o = Some false.
Definition no_criteria (q : query) : Prop :=
  flag_off (q_exclude_cancelled q) /\ flag_off (q_outstanding_only q)
  /\ flag_off (q_confirmed_only q) /\ flag_off (q_sent_only q) /\ flag_off (q_received_only q)
  /\ flag_off (q_coinbase_only q) /\ flag_off (q_reverted_only q)
  /\ q_min_id q = None /\ q_max_id q = None /\ q_min_amount q = None /\ q_max_amount q = None
  /\ q_min_creation q = None /\ q_max_creation q = None
  /\ q_min_confirmed q = None /\ q_max_confirmed q = None.

(** Legacy look-up: what is asked for. *)
Definition LegacySatisfies (tx_id slate parent : option N) (outstanding_only : bool) (e : entry) : Prop :=
  (forall k, parent = Some k -> e_parent e = k)
  /\ (forall i, tx_id = Some i -> e_id e = i)
  /\ (forall s, slate = Some s -> e_slate e = Some s)
  /\ (outstanding_only = true ->
        e_confirmed e = false
        /\ (e_type e = TxReceived \/ e_type e = TxSent \/ e_type e = TxReverted)).

(** * Wire format of the correspondence harness *)

Definition entry_key (e : entry) : Z := Z.of_N (e_parent e * 4294967296 + e_id e).

Definition enc_result (r : result (list entry)) : list Z :=
  match r with
  | Ok l => 0%Z :: map entry_key l
  | Err e => [1%Z; err_code e]
  | Panic _ => [2%Z]
  end.

Inductive call :=
| COwner (active : N) (tx_id slate : option N) (qa : option query)
| CUpdater (tx_id slate : option N) (qa : option query) (parent : option N) (outstanding_only : bool).

Definition run_call (log : list entry) (c : call) : list Z :=
  enc_result
    match c with
    | COwner a i s qa => owner_retrieve_txs a i s qa log
    | CUpdater i s qa p o => retrieve_txs_r i s qa p o log
    end.

(** one case = one log and the calls made against it *)
Definition run_case (c : list entry * list call) : list (list Z) :=
  map (run_call (fst c)) (snd c).
