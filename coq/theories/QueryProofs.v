(** Proofs about the transaction-log query model (theories/Query.v) for property C19. *)
From GW Require Import Base Query.
From Coq Require Import Sorting.Sorted Sorting.Permutation.

(** * Keys *)

Lemma skey_leb_refl a : skey_leb a a = true.
Proof. destruct a as [x|]; cbn; [apply Z.leb_refl | reflexivity]. Qed.

Lemma skey_leb_total a b : skey_leb a b = false -> skey_leb b a = true.
Proof.
  destruct a as [x|], b as [y|]; cbn; intros H; try reflexivity; try discriminate.
  apply Z.leb_gt in H. apply Z.leb_le. lia.
Qed.

Lemma skey_leb_trans a b c : skey_leb a b = true -> skey_leb b c = true -> skey_leb a c = true.
Proof.
  destruct a as [x|], b as [y|], c as [z|]; cbn; intros H1 H2; try reflexivity; try discriminate.
  apply Z.leb_le in H1. apply Z.leb_le in H2. apply Z.leb_le. lia.
Qed.

Definition skey_eqb (a b : skey) : bool :=
  match a, b with
  | Some x, Some y => (x =? y)%Z
  | None, None => true
  | _, _ => false
  end.

Lemma skey_eqb_eq a b : skey_eqb a b = true <-> a = b.
Proof.
  destruct a as [x|], b as [y|]; cbn; split; intros H; try discriminate; try reflexivity.
  - apply Z.eqb_eq in H. now subst.
  - inversion H. apply Z.eqb_refl.
Qed.

Lemma key_le_trans f a b c : key_le f a b -> key_le f b c -> key_le f a c.
Proof. unfold key_le. apply skey_leb_trans. Qed.

(** * Lists *)

Lemma filter_filter {A} (f g : A -> bool) l :
  filter f (filter g l) = filter (fun x => g x && f x) l.
Proof.
  induction l as [|x l IH]; cbn [filter]; [reflexivity|].
  destruct (g x); cbn [filter andb]; [destruct (f x)|]; now rewrite IH.
Qed.

Lemma filter_rev' {A} (f : A -> bool) l : filter f (rev l) = rev (filter f l).
Proof.
  induction l as [|x l IH]; cbn [rev filter]; [reflexivity|].
  rewrite filter_app, IH. cbn [filter]. destruct (f x); cbn [rev]; [reflexivity|apply app_nil_r].
Qed.

Lemma takeN_firstn {A} (l : list A) : forall n, takeN n l = firstn (N.to_nat n) l.
Proof.
  induction l as [|x l IH]; intros n; cbn [takeN].
  - now rewrite firstn_nil.
  - destruct (N.eqb_spec n 0) as [->|Hn]; [reflexivity|].
    rewrite IH, N2Nat.inj_pred.
    destruct (N.to_nat n) as [|m] eqn:E; [lia|]. reflexivity.
Qed.

Lemma Forall_firstn' {A} (P : A -> Prop) n : forall l, Forall P l -> Forall P (firstn n l).
Proof.
  induction n as [|n IH]; intros l H; [constructor|].
  destruct H; cbn [firstn]; constructor; auto.
Qed.

Lemma In_firstn {A} (x : A) n : forall l, In x (firstn n l) -> In x l.
Proof.
  induction n as [|n IH]; intros l H; [destruct H|].
  destruct l as [|y l]; [destruct H|]. cbn [firstn] in H. destruct H as [H|H]; [now left|right; auto].
Qed.

Lemma SSorted_firstn {A} (R : A -> A -> Prop) n : forall l,
  StronglySorted R l -> StronglySorted R (firstn n l).
Proof.
  induction n as [|n IH]; intros l H; [constructor|].
  destruct H as [|x l Hs Hf]; cbn [firstn]; constructor; auto using Forall_firstn'.
Qed.

Lemma SSorted_snoc {A} (R : A -> A -> Prop) l x :
  StronglySorted R l -> Forall (fun y => R y x) l -> StronglySorted R (l ++ [x]).
Proof.
  induction l as [|y l IH]; intros Hs Hf; cbn [app].
  - constructor; constructor.
  - inversion Hs as [|? ? Hs' Hy]; subst. inversion Hf as [|? ? Hyx Hf']; subst.
    constructor; [auto|]. apply Forall_app. split; [assumption|]. constructor; [assumption|constructor].
Qed.

Lemma SSorted_rev {A} (R : A -> A -> Prop) l :
  StronglySorted R l -> StronglySorted (fun a b => R b a) (rev l).
Proof.
  induction l as [|x l IH]; intros Hs; cbn [rev]; [constructor|].
  inversion Hs as [|? ? Hs' Hx]; subst.
  apply SSorted_snoc; [auto|]. apply Forall_rev. exact Hx.
Qed.

(** * The stable sort *)

Lemma insert_by_perm key x l : Permutation (insert_by key x l) (x :: l).
Proof.
  induction l as [|y l IH]; cbn [insert_by]; [reflexivity|].
  destruct (skey_leb (key x) (key y)); [reflexivity|].
  rewrite IH. apply perm_swap.
Qed.

Lemma sort_by_perm key l : Permutation (sort_by key l) l.
Proof.
  induction l as [|x l IH]; cbn [sort_by fold_right]; [reflexivity|].
  fold (sort_by key l). rewrite insert_by_perm. now constructor.
Qed.

Definition le_by (key : entry -> skey) (a b : entry) : Prop :=
  skey_leb (key a) (key b) = true.

Lemma insert_by_sorted key x l :
  StronglySorted (le_by key) l -> StronglySorted (le_by key) (insert_by key x l).
Proof.
  induction l as [|y l IH]; intros Hs; cbn [insert_by].
  - constructor; constructor.
  - inversion Hs as [|? ? Hs' Hy]; subst.
    destruct (skey_leb (key x) (key y)) eqn:E.
    + constructor; [assumption|]. constructor; [exact E|].
      eapply Forall_impl; [|exact Hy]. intros z Hz. unfold le_by in *.
      eapply skey_leb_trans; eassumption.
    + constructor; [auto|].
      eapply Permutation_Forall; [symmetry; apply insert_by_perm|].
      constructor; [|assumption]. unfold le_by. now apply skey_leb_total.
Qed.

Lemma sort_by_sorted key l : StronglySorted (le_by key) (sort_by key l).
Proof.
  induction l as [|x l IH]; cbn [sort_by fold_right]; [constructor|].
  apply insert_by_sorted. exact IH.
Qed.

(** Stability: among entries of one key the order of the input is kept. *)
Lemma insert_by_stable key k x l :
  filter (fun e => skey_eqb (key e) k) (insert_by key x l)
  = filter (fun e => skey_eqb (key e) k) (x :: l).
Proof.
  induction l as [|y l IH]; cbn [insert_by]; [reflexivity|].
  destruct (skey_leb (key x) (key y)) eqn:E; [reflexivity|].
  cbn [filter] in *. rewrite IH.
  destruct (skey_eqb (key x) k) eqn:Ex, (skey_eqb (key y) k) eqn:Ey; try reflexivity.
  apply skey_eqb_eq in Ex. apply skey_eqb_eq in Ey.
  rewrite Ex, Ey, skey_leb_refl in E. discriminate.
Qed.

Lemma sort_by_stable key k l :
  filter (fun e => skey_eqb (key e) k) (sort_by key l) = filter (fun e => skey_eqb (key e) k) l.
Proof.
  induction l as [|x l IH]; cbn [sort_by fold_right]; [reflexivity|].
  fold (sort_by key l). rewrite insert_by_stable. cbn [filter]. now rewrite IH.
Qed.

(** * Criteria: boolean filter vs. documented reading *)

Lemma flag_iff o t : flag o t = true <-> (o = Some true -> t = true).
Proof.
  unfold flag. destruct o as [[|]|]; split; intros H; auto; try (intros; discriminate).
Qed.

Lemma bound_iff {A} (o : option A) t : bound o t = true <-> (forall v, o = Some v -> t v = true).
Proof.
  unfold bound. destruct o as [v|]; split; intros H; auto.
  - intros w E. inversion E; subst. exact H.
  - intros w E. discriminate.
Qed.

Lemma txtype_eqb_eq a b : txtype_eqb a b = true <-> a = b.
Proof. destruct a, b; cbn; split; intros H; try reflexivity; discriminate. Qed.

Lemma txtype_eqb_neq a b : negb (txtype_eqb a b) = true <-> a <> b.
Proof. destruct a, b; cbn; split; intros H; try reflexivity; try discriminate; try congruence. Qed.

Lemma f_parent_iff parent e :
  f_parent parent e = true <-> (forall k, parent = Some k -> e_parent e = k).
Proof.
  unfold f_parent. destruct parent as [k|]; split; intros H; auto.
  - intros k' E. inversion E; subst. now apply N.eqb_eq.
  - apply N.eqb_eq. now apply H.
  - intros k' E. discriminate.
Qed.

Lemma opt_N_eqb_eq a b : opt_N_eqb a b = true <-> a = b.
Proof.
  destruct a as [x|], b as [y|]; cbn; split; intros H; try reflexivity; try discriminate.
  - apply N.eqb_eq in H. now subst.
  - inversion H. apply N.eqb_refl.
Qed.

Theorem matches_iff parent q e : matches parent q e = true <-> Satisfies parent q e.
Proof.
  unfold matches, Satisfies.
  rewrite !andb_true_iff.
  rewrite f_parent_iff.
  unfold f_exclude_cancelled, f_outstanding_only, f_confirmed_only, f_sent_only, f_received_only,
    f_coinbase_only, f_reverted_only, f_min_id, f_max_id, f_min_amount, f_max_amount,
    f_min_creation, f_max_creation, f_min_confirmed, f_max_confirmed.
  rewrite !flag_iff, !bound_iff.
  rewrite !andb_true_iff, !orb_true_iff, !txtype_eqb_neq, !txtype_eqb_eq, negb_true_iff.
  assert (Hmin : (forall v, q_min_confirmed q = Some v ->
                    match e_conf e with Some t => (v <=? t)%Z | None => true end = true)
                 <-> (forall v t, q_min_confirmed q = Some v -> e_conf e = Some t -> (v <= t)%Z)).
  { split.
    - intros H v t Hq He. specialize (H v Hq). rewrite He in H. now apply Z.leb_le.
    - intros H v Hq. destruct (e_conf e) as [t|] eqn:He; [|reflexivity].
      apply Z.leb_le. eauto. }
  assert (Hmax : (forall v, q_max_confirmed q = Some v ->
                    match e_conf e with Some t => (t <=? v)%Z | None => true end = true)
                 <-> (forall v t, q_max_confirmed q = Some v -> e_conf e = Some t -> (t <= v)%Z)).
  { split.
    - intros H v t Hq He. specialize (H v Hq). rewrite He in H. now apply Z.leb_le.
    - intros H v Hq. destruct (e_conf e) as [t|] eqn:He; [|reflexivity].
      apply Z.leb_le. eauto. }
  rewrite Hmin, Hmax.
  assert (Hl : forall (o : option N) (g : N -> bool) (P : N -> Prop),
             (forall v, g v = true <-> P v) ->
             ((forall v, o = Some v -> g v = true) <-> (forall v, o = Some v -> P v))).
  { intros o g P Hg. split; intros H v E; apply Hg; auto. }
  assert (Hz : forall (o : option Z) (g : Z -> bool) (P : Z -> Prop),
             (forall v, g v = true <-> P v) ->
             ((forall v, o = Some v -> g v = true) <-> (forall v, o = Some v -> P v))).
  { intros o g P Hg. split; intros H v E; apply Hg; auto. }
  rewrite (Hl (q_min_id q) _ (fun v => v <= e_id e)) by (intros; apply N.leb_le).
  rewrite (Hl (q_max_id q) _ (fun v => e_id e <= v)) by (intros; apply N.leb_le).
  rewrite (Hl (q_min_amount q) _ (fun v => (Z.of_N v <= net_amount e)%Z)) by (intros; apply Z.leb_le).
  rewrite (Hl (q_max_amount q) _ (fun v => (net_amount e <= Z.of_N v)%Z)) by (intros; apply Z.leb_le).
  rewrite (Hz (q_min_creation q) _ (fun v => (v <= e_cts e)%Z)) by (intros; apply Z.leb_le).
  rewrite (Hz (q_max_creation q) _ (fun v => (e_cts e <= v)%Z)) by (intros; apply Z.leb_le).
  tauto.
Qed.

(** * The advanced query *)

Lemma advanced_filters parent q log :
  filter (f_max_confirmed q) (filter (f_min_confirmed q)
  (filter (f_max_creation q) (filter (f_min_creation q)
  (filter (f_max_amount q) (filter (f_min_amount q)
  (filter (f_max_id q) (filter (f_min_id q)
  (filter (f_reverted_only q) (filter (f_coinbase_only q)
  (filter (f_received_only q) (filter (f_sent_only q)
  (filter (f_confirmed_only q) (filter (f_outstanding_only q)
  (filter (f_exclude_cancelled q) (filter (f_parent parent) log)))))))))))))))
  = filter (matches parent q) log.
Proof.
  rewrite !filter_filter. apply filter_ext. intros e. unfold matches.
  rewrite <- !andb_assoc. reflexivity.
Qed.

Theorem advanced_eq_spec parent q log :
  apply_advanced_tx_list_filtering q parent log = spec_query parent q log.
Proof.
  unfold apply_advanced_tx_list_filtering, spec_query. cbv zeta.
  rewrite advanced_filters.
  set (txs := filter (matches parent q) log).
  assert (Hs : match q_sort_field q with
               | Some s => sort_by (sort_key s) txs
               | None => sort_by (sort_key SId) txs
               end = sort_by (sort_key (field_of q)) txs).
  { unfold field_of. destruct (q_sort_field q); reflexivity. }
  rewrite Hs. set (sorted := sort_by (sort_key (field_of q)) txs).
  assert (Ho : match q_sort_order q with Some Desc => rev sorted | _ => sorted end
               = direction (order_of q) sorted).
  { unfold order_of, direction. destruct (q_sort_order q) as [[|]|]; reflexivity. }
  rewrite Ho. unfold limit_to. destruct (q_limit q); [apply takeN_firstn|reflexivity].
Qed.

Theorem retrieve_txs_eq_spec parent q o log :
  retrieve_txs None None (Some q) parent o log = spec_query parent q log.
Proof. unfold retrieve_txs. cbn [is_some negb andb]. apply advanced_eq_spec. Qed.

Theorem query_eq_spec acct q log : query_txs acct q log = spec_query (Some acct) q log.
Proof. apply retrieve_txs_eq_spec. Qed.

Lemma In_direction o e l : In e (direction o l) <-> In e l.
Proof. destruct o; cbn [direction]; [reflexivity|]. symmetry. apply in_rev. Qed.

Lemma In_limit_to lim e l : In e (limit_to lim l) -> In e l.
Proof. destruct lim; cbn [limit_to]; [apply In_firstn|auto]. Qed.

(** soundness: everything returned is in the log and satisfies every supplied criterion *)
Theorem spec_query_sound parent q log e :
  In e (spec_query parent q log) -> In e log /\ Satisfies parent q e.
Proof.
  unfold spec_query. intros H. apply In_limit_to in H. apply In_direction in H.
  eapply Permutation_in in H; [|apply sort_by_perm].
  apply filter_In in H. destruct H as [Hin Hm]. split; [assumption|now apply matches_iff].
Qed.

(** the unlimited answer, with multiplicities *)
Theorem spec_query_unlimited_perm parent q log :
  q_limit q = None -> Permutation (spec_query parent q log) (filter (matches parent q) log).
Proof.
  unfold spec_query. intros ->. cbn [limit_to].
  destruct (order_of q); cbn [direction].
  - apply sort_by_perm.
  - rewrite <- Permutation_rev. apply sort_by_perm.
Qed.

(** completeness: nothing that was asked for is left out of the unlimited answer *)
Theorem spec_query_complete parent q log e :
  q_limit q = None -> In e log -> Satisfies parent q e -> In e (spec_query parent q log).
Proof.
  intros Hl Hin Hs. eapply Permutation_in; [symmetry; now apply spec_query_unlimited_perm|].
  apply filter_In. split; [assumption|now apply matches_iff].
Qed.

Lemma matches_unlimited parent q e : matches parent (unlimited q) e = matches parent q e.
Proof. reflexivity. Qed.

(** a limited answer is the leading segment of the unlimited one *)
Theorem spec_query_limit_prefix parent q log n :
  q_limit q = Some n ->
  spec_query parent q log = firstn (N.to_nat n) (spec_query parent (unlimited q) log).
Proof. unfold spec_query. intros ->. reflexivity. Qed.

Theorem spec_query_length parent q log n :
  q_limit q = Some n ->
  length (spec_query parent q log) = Nat.min (N.to_nat n) (length (filter (matches parent q) log)).
Proof.
  intros Hl. rewrite (spec_query_limit_prefix _ _ _ _ Hl), firstn_length.
  f_equal. apply Permutation_length.
  rewrite (spec_query_unlimited_perm parent (unlimited q) log) by reflexivity.
  reflexivity.
Qed.

Theorem spec_query_length_le parent q log n :
  q_limit q = Some n -> lenN (spec_query parent q log) <= n.
Proof.
  intros Hl. unfold lenN. rewrite (spec_query_length _ _ _ _ Hl). lia.
Qed.

(** sortedness *)
Theorem spec_query_sorted parent q log :
  StronglySorted (in_order (field_of q) (order_of q)) (spec_query parent q log).
Proof.
  unfold spec_query.
  assert (H : StronglySorted (in_order (field_of q) (order_of q))
                (direction (order_of q)
                   (sort_by (sort_key (field_of q)) (filter (matches parent q) log)))).
  { pose proof (sort_by_sorted (sort_key (field_of q)) (filter (matches parent q) log)) as Hs.
    destruct (order_of q); cbn [direction in_order].
    - exact Hs.
    - apply SSorted_rev in Hs. exact Hs. }
  destruct (q_limit q); cbn [limit_to]; [now apply SSorted_firstn|exact H].
Qed.

(** stability: entries of equal key come in log order (Asc) / reverse log order (Desc);
    stated on the unlimited answer *)
Theorem spec_query_stable parent q log k :
  q_limit q = None ->
  filter (fun e => skey_eqb (sort_key (field_of q) e) k) (spec_query parent q log)
  = direction (order_of q)
      (filter (fun e => skey_eqb (sort_key (field_of q) e) k) (filter (matches parent q) log)).
Proof.
  unfold spec_query. intros ->. cbn [limit_to].
  destruct (order_of q); cbn [direction].
  - apply sort_by_stable.
  - rewrite filter_rev'. f_equal. apply sort_by_stable.
Qed.

(** omitted criteria do not filter *)
Theorem no_criteria_matches parent q e :
  no_criteria q -> matches parent q e = f_parent parent e.
Proof.
  unfold no_criteria, flag_off, matches.
  intros (H1 & H2 & H3 & H4 & H5 & H6 & H7 & H8 & H9 & H10 & H11 & H12 & H13 & H14 & H15).
  unfold f_exclude_cancelled, f_outstanding_only, f_confirmed_only, f_sent_only, f_received_only,
    f_coinbase_only, f_reverted_only, f_min_id, f_max_id, f_min_amount, f_max_amount,
    f_min_creation, f_max_creation, f_min_confirmed, f_max_confirmed.
  rewrite H8, H9, H10, H11, H12, H13, H14, H15. cbn [bound].
  destruct H1 as [-> | ->], H2 as [-> | ->], H3 as [-> | ->], H4 as [-> | ->], H5 as [-> | ->],
    H6 as [-> | ->], H7 as [-> | ->]; cbn [flag]; now rewrite !andb_true_r.
Qed.

Theorem no_criteria_all parent q log e :
  no_criteria q -> q_limit q = None ->
  (In e (spec_query parent q log) <-> In e log /\ (forall k, parent = Some k -> e_parent e = k)).
Proof.
  intros Hn Hl. split.
  - intros H. apply spec_query_sound in H. destruct H as [Hin Hs]. split; [assumption|apply Hs].
  - intros [Hin Hp]. eapply Permutation_in; [symmetry; now apply spec_query_unlimited_perm|].
    apply filter_In. split; [assumption|]. rewrite no_criteria_matches by assumption.
    now apply f_parent_iff.
Qed.

(** omitting criteria can only enlarge the answer *)
Definition opt_weaker {A} (a' a : option A) : Prop := a' = None \/ a' = a.
Definition flag_weaker (a' a : option bool) : Prop := a' = None \/ a' = Some false \/ a' = a.
Definition weaker (q' q : query) : Prop :=
  flag_weaker (q_exclude_cancelled q') (q_exclude_cancelled q)
  /\ flag_weaker (q_outstanding_only q') (q_outstanding_only q)
  /\ flag_weaker (q_confirmed_only q') (q_confirmed_only q)
  /\ flag_weaker (q_sent_only q') (q_sent_only q)
  /\ flag_weaker (q_received_only q') (q_received_only q)
  /\ flag_weaker (q_coinbase_only q') (q_coinbase_only q)
  /\ flag_weaker (q_reverted_only q') (q_reverted_only q)
  /\ opt_weaker (q_min_id q') (q_min_id q) /\ opt_weaker (q_max_id q') (q_max_id q)
  /\ opt_weaker (q_min_amount q') (q_min_amount q) /\ opt_weaker (q_max_amount q') (q_max_amount q)
  /\ opt_weaker (q_min_creation q') (q_min_creation q) /\ opt_weaker (q_max_creation q') (q_max_creation q)
  /\ opt_weaker (q_min_confirmed q') (q_min_confirmed q) /\ opt_weaker (q_max_confirmed q') (q_max_confirmed q).

Lemma flag_weaker_use (a' a : option bool) (P : Prop) :
  flag_weaker a' a -> (a = Some true -> P) -> (a' = Some true -> P).
Proof. intros [->| [->| ->]] H E; try discriminate. auto. Qed.

Lemma opt_weaker_use {A} (a' a : option A) (P : A -> Prop) :
  opt_weaker a' a -> (forall v, a = Some v -> P v) -> (forall v, a' = Some v -> P v).
Proof. intros [->| ->] H v E; [discriminate|auto]. Qed.

Lemma opt_weaker_use2 {A B} (a' a : option A) (P : A -> B -> Prop) :
  opt_weaker a' a -> (forall v t, a = Some v -> P v t) -> (forall v t, a' = Some v -> P v t).
Proof. intros [->| ->] H v t E; [discriminate|auto]. Qed.

Theorem weaker_satisfies parent q' q e :
  weaker q' q -> Satisfies parent q e -> Satisfies parent q' e.
Proof.
  unfold weaker, Satisfies.
  intros (W1 & W2 & W3 & W4 & W5 & W6 & W7 & W8 & W9 & W10 & W11 & W12 & W13 & W14 & W15)
         (S0 & S1 & S2 & S3 & S4 & S5 & S6 & S7 & S8 & S9 & S10 & S11 & S12 & S13 & S14 & S15).
  split; [exact S0|].
  split; [exact (flag_weaker_use _ _ _ W1 S1)|].
  split; [exact (flag_weaker_use _ _ _ W2 S2)|].
  split; [exact (flag_weaker_use _ _ _ W3 S3)|].
  split; [exact (flag_weaker_use _ _ _ W4 S4)|].
  split; [exact (flag_weaker_use _ _ _ W5 S5)|].
  split; [exact (flag_weaker_use _ _ _ W6 S6)|].
  split; [exact (flag_weaker_use _ _ _ W7 S7)|].
  split; [exact (opt_weaker_use _ _ _ W8 S8)|].
  split; [exact (opt_weaker_use _ _ _ W9 S9)|].
  split; [exact (opt_weaker_use _ _ _ W10 S10)|].
  split; [exact (opt_weaker_use _ _ _ W11 S11)|].
  split; [exact (opt_weaker_use _ _ _ W12 S12)|].
  split; [exact (opt_weaker_use _ _ _ W13 S13)|].
  split.
  - intros v t Hq He. revert v Hq t He.
    apply (opt_weaker_use _ _ (fun v => forall t, e_conf e = Some t -> (v <= t)%Z) W14).
    intros v Hq t He. eauto.
  - intros v t Hq He. revert v Hq t He.
    apply (opt_weaker_use _ _ (fun v => forall t, e_conf e = Some t -> (t <= v)%Z) W15).
    intros v Hq t He. eauto.
Qed.

(** * Legacy look-ups *)

Lemma legacy_filter_iff tx_id slate parent o e :
  legacy_filter tx_id slate parent o e = true <-> LegacySatisfies tx_id slate parent o e.
Proof.
  unfold legacy_filter, LegacySatisfies. cbv zeta. rewrite !andb_true_iff.
  fold (f_parent parent e). rewrite f_parent_iff.
  assert (H1 : match tx_id with Some i => e_id e =? i | None => true end = true
               <-> (forall i, tx_id = Some i -> e_id e = i)).
  { destruct tx_id as [i|]; split; intros H; auto.
    - intros j E. inversion E; subst. now apply N.eqb_eq.
    - apply N.eqb_eq. auto.
    - intros j E. discriminate. }
  assert (H2 : match slate with Some t => opt_N_eqb (e_slate e) (Some t) | None => true end = true
               <-> (forall s, slate = Some s -> e_slate e = Some s)).
  { destruct slate as [s|]; split; intros H; auto.
    - intros j E. inversion E; subst. now apply opt_N_eqb_eq.
    - apply opt_N_eqb_eq. auto.
    - intros j E. discriminate. }
  assert (H3 : (if o then negb (e_confirmed e)
                          && (txtype_eqb (e_type e) TxReceived || txtype_eqb (e_type e) TxSent
                              || txtype_eqb (e_type e) TxReverted) else true) = true
               <-> (o = true -> e_confirmed e = false
                                /\ (e_type e = TxReceived \/ e_type e = TxSent \/ e_type e = TxReverted))).
  { destruct o.
    - rewrite andb_true_iff, !orb_true_iff, !txtype_eqb_eq, negb_true_iff. tauto.
    - split; auto. intros _ E. discriminate. }
  rewrite H1, H2, H3. tauto.
Qed.

Definition legacy_path (tx_id slate : option N) (qa : option query) : Prop :=
  qa = None \/ tx_id <> None \/ slate <> None.

Lemma retrieve_txs_legacy tx_id slate qa parent o log :
  legacy_path tx_id slate qa ->
  retrieve_txs tx_id slate qa parent o log
  = sort_by (sort_key SCreationTimestamp) (filter (legacy_filter tx_id slate parent o) log).
Proof.
  unfold legacy_path, retrieve_txs. intros H. destruct qa as [q|]; [|reflexivity].
  destruct tx_id, slate; cbn [is_some negb andb]; try reflexivity.
  destruct H as [H|[H|H]]; congruence.
Qed.

Theorem legacy_perm tx_id slate qa parent o log :
  legacy_path tx_id slate qa ->
  Permutation (retrieve_txs tx_id slate qa parent o log)
              (filter (legacy_filter tx_id slate parent o) log).
Proof. intros H. rewrite retrieve_txs_legacy by assumption. apply sort_by_perm. Qed.

Theorem legacy_exact tx_id slate qa parent o log e :
  legacy_path tx_id slate qa ->
  (In e (retrieve_txs tx_id slate qa parent o log)
   <-> In e log /\ LegacySatisfies tx_id slate parent o e).
Proof.
  intros H. rewrite <- legacy_filter_iff, <- filter_In.
  split; apply Permutation_in; [|symmetry]; now apply legacy_perm.
Qed.

Theorem legacy_sorted tx_id slate qa parent o log :
  legacy_path tx_id slate qa ->
  StronglySorted (key_le SCreationTimestamp) (retrieve_txs tx_id slate qa parent o log).
Proof. intros H. rewrite retrieve_txs_legacy by assumption. apply sort_by_sorted. Qed.

(** look-up by log id / by slate id on the active account *)
Theorem lookup_by_id acct i qa log e :
  In e (retrieve_txs (Some i) None qa (Some acct) false log)
  <-> In e log /\ e_parent e = acct /\ e_id e = i.
Proof.
  rewrite legacy_exact by (right; left; discriminate).
  unfold LegacySatisfies. split.
  - intros (Hin & Hp & Hi & _ & _). auto.
  - intros (Hin & Hp & Hi). split; [assumption|]. repeat split; intros; try congruence; discriminate.
Qed.

Theorem lookup_by_slate acct s qa log e :
  In e (retrieve_txs None (Some s) qa (Some acct) false log)
  <-> In e log /\ e_parent e = acct /\ e_slate e = Some s.
Proof.
  rewrite legacy_exact by (right; right; discriminate).
  unfold LegacySatisfies. split.
  - intros (Hin & Hp & _ & Hs & _). auto.
  - intros (Hin & Hp & Hs). split; [assumption|]. repeat split; intros; try congruence; discriminate.
Qed.

Theorem lookup_by_id_count acct i qa log :
  Permutation (retrieve_txs (Some i) None qa (Some acct) false log)
              (filter (fun e => (e_parent e =? acct) && (e_id e =? i)) log).
Proof.
  rewrite legacy_perm by (right; left; discriminate).
  erewrite filter_ext; [reflexivity|]. intros e. unfold legacy_filter. cbv zeta.
  now rewrite !andb_true_r.
Qed.

Theorem lookup_by_slate_count acct s qa log :
  Permutation (retrieve_txs None (Some s) qa (Some acct) false log)
              (filter (fun e => (e_parent e =? acct) && opt_N_eqb (e_slate e) (Some s)) log).
Proof.
  rewrite legacy_perm by (right; right; discriminate).
  erewrite filter_ext; [reflexivity|]. intros e. unfold legacy_filter. cbv zeta.
  now rewrite !andb_true_r.
Qed.

(** * Totality, and the owner API *)

Theorem retrieve_txs_total tx_id slate qa parent o log :
  exists l, retrieve_txs_r tx_id slate qa parent o log = Ok l.
Proof. eexists. reflexivity. Qed.

Theorem owner_is_active_account active tx_id slate qa log :
  owner_retrieve_txs active tx_id slate qa log
  = Ok (retrieve_txs tx_id slate qa (Some active) false log).
Proof. reflexivity. Qed.

(** * The same facts stated on the code model [retrieve_txs] (advanced path) *)

Section OnTheModel.
  Variables (parent : option N) (q : query) (o : bool) (log : list entry).
  Let res := retrieve_txs None None (Some q) parent o log.

  Lemma adv_sound e : In e res -> In e log /\ Satisfies parent q e.
  Proof. unfold res. rewrite retrieve_txs_eq_spec. apply spec_query_sound. Qed.

  Lemma adv_complete e :
    q_limit q = None -> In e log -> Satisfies parent q e -> In e res.
  Proof. unfold res. rewrite retrieve_txs_eq_spec. apply spec_query_complete. Qed.

  Lemma adv_exact_unlimited :
    q_limit q = None -> Permutation res (filter (matches parent q) log).
  Proof. unfold res. rewrite retrieve_txs_eq_spec. apply spec_query_unlimited_perm. Qed.

  Lemma adv_limit n :
    q_limit q = Some n ->
    res = firstn (N.to_nat n) (retrieve_txs None None (Some (unlimited q)) parent o log)
    /\ lenN res <= n
    /\ length res = Nat.min (N.to_nat n) (length (filter (matches parent q) log)).
  Proof.
    unfold res. rewrite !retrieve_txs_eq_spec. intros H.
    split; [now apply spec_query_limit_prefix|].
    split; [now apply spec_query_length_le|now apply spec_query_length].
  Qed.

  Lemma adv_sorted : StronglySorted (in_order (field_of q) (order_of q)) res.
  Proof. unfold res. rewrite retrieve_txs_eq_spec. apply spec_query_sorted. Qed.

  Lemma adv_stable k :
    q_limit q = None ->
    filter (fun e => skey_eqb (sort_key (field_of q) e) k) res
    = direction (order_of q)
        (filter (fun e => skey_eqb (sort_key (field_of q) e) k) (filter (matches parent q) log)).
  Proof. unfold res. rewrite retrieve_txs_eq_spec. apply spec_query_stable. Qed.

  Lemma adv_no_criteria e :
    no_criteria q -> q_limit q = None ->
    (In e res <-> In e log /\ (forall k, parent = Some k -> e_parent e = k)).
  Proof. unfold res. rewrite retrieve_txs_eq_spec. apply no_criteria_all. Qed.

  Lemma adv_weaker q' e :
    weaker q' q -> q_limit q' = None -> In e res ->
    In e (retrieve_txs None None (Some q') parent o log).
  Proof.
    intros Hw Hl H. apply adv_sound in H. destruct H as [Hin Hs].
    rewrite retrieve_txs_eq_spec. apply spec_query_complete; [assumption..|].
    eapply weaker_satisfies; eassumption.
  Qed.
End OnTheModel.

Lemma lookup_counts acct i s qa log :
  Permutation (retrieve_txs (Some i) None qa (Some acct) false log)
              (filter (fun e => (e_parent e =? acct) && (e_id e =? i)) log)
  /\ Permutation (retrieve_txs None (Some s) qa (Some acct) false log)
                 (filter (fun e => (e_parent e =? acct) && opt_N_eqb (e_slate e) (Some s)) log).
Proof. split; [apply lookup_by_id_count|apply lookup_by_slate_count]. Qed.

Lemma legacy_all tx_id slate qa parent o log e :
  legacy_path tx_id slate qa ->
  (In e (retrieve_txs tx_id slate qa parent o log)
   <-> In e log /\ LegacySatisfies tx_id slate parent o e)
  /\ Permutation (retrieve_txs tx_id slate qa parent o log)
                 (filter (legacy_filter tx_id slate parent o) log)
  /\ StronglySorted (key_le SCreationTimestamp) (retrieve_txs tx_id slate qa parent o log).
Proof.
  intros. split; [now apply legacy_exact|]. split; [now apply legacy_perm|now apply legacy_sorted].
Qed.
