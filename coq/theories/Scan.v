(** Executable model of libwallet/src/internal/scan.rs: the PMMR paging loop of
    collect_chain_outputs and the repair logic of [scan] (missing outputs restored,
    accidentally-spent outputs un-spent, with delete_unconfirmed: locked outputs released
    and unconfirmed ones dropped, account paths and child indices restored). Range-proof
    rewinding ("this chain output is ours: key id, value") is an oracle: the list of the
    seed's outputs found on chain is an argument. No proofs here. *)
From GW Require Export Ledger.

(* ------------------------------------------------------------------ PMMR paging *)
(** The node's view: [data pos] is the unspent leaf at 1-based PMMR position [pos], if any.
    elements_from_pmmr_index: visit positions from [start] while fewer than [max] leaves were
    collected and the position is within [size]; returns the last position visited. *)
Section Paging.
  Local Open Scope nat_scope.
  Variable A : Type.
  Variable data : nat -> option A.

  Fixpoint visit (fuel pos size max : nat) (acc : list A) : nat * list A :=
    match fuel with
    | O => (pos - 1, rev acc)
    | S f =>
      if Nat.ltb (length acc) max && Nat.leb pos size then
        visit f (pos + 1) size max (match data pos with Some a => a :: acc | None => acc end)
      else (pos - 1, rev acc)
    end.

  (** one node call: (last_retrieved_index, leaves); [start] is clamped to 1 by the client *)
  Definition page (start size max : nat) : nat * list A :=
    visit (S size) (Nat.max start 1) size max [].

  (** collect_chain_outputs: call, append, stop when highest_index <= last_retrieved_index,
      else continue at last_retrieved_index + 1 *)
  Fixpoint collect (fuel start size max : nat) (acc : list A) : option (list A) :=
    match fuel with
    | O => None                      (* out of fuel: the loop did not terminate in time *)
    | S f =>
      let '(last, outs) := page start size max in
      if Nat.leb size last then Some (acc ++ outs)
      else collect f (last + 1) size max (acc ++ outs)
    end.

  (** specification: the leaves at positions start..size, in order *)
  Fixpoint leaves_from (n pos : nat) : list A :=
    match n with
    | O => []
    | S n' => (match data pos with Some a => [a] | None => [] end) ++ leaves_from n' (pos + 1)
    end.
End Paging.
Arguments visit {A}. Arguments page {A}. Arguments collect {A}. Arguments leaves_from {A}.

(* ------------------------------------------------------------------ repair *)
(** an output of this seed found in the UTXO set (OutputResult) *)
Record cout := mkCO {
  co_key : kid; co_value : N; co_height : N; co_lock : N; co_cb : bool; co_mmr : N
}.

(** wallet records are matched with chain outputs by commitment = (key id, value) *)
Definition same_commit (o : orec) (d : cout) : bool :=
  kid_eqb (r_key o) (co_key d) && (r_value o =? co_value d).
Definition find_match (outs : list orec) (d : cout) : option orec := find (fun o => same_commit o d) outs.

(** cancel_tx_log_entry: the entry linked to the output, in the account of the KEY's path *)
Definition cancel_entry_of (w : wallet) (o : orec) : wallet :=
  match r_tx o with
  | None => w
  | Some id =>
    match find (fun t => (t_parent t =? fst (r_key o)) && (t_id t =? id)) (w_log w) with
    | Some t =>
      let ty := match t_type t with TSent => TSentCancelled | TReceived => TReceivedCancelled | x => x end in
      with_log w (save_tx (w_log w) (set_ttype t ty))
    | None => w
    end
  end.

(** restore_missing_output (scan passes no tx_stats): one confirmed entry per output *)
Definition restore_missing (w : wallet) (d : cout) : wallet :=
  let parent := fst (co_key d) in
  let '(w1, id) := next_log_id w parent in
  let t := mkT parent id None (if co_cb d then TCoinbase else TReceived) true (co_value d) 0 None None
               0 1 false false in
  let o := mkO parent (co_key d) (Some (co_mmr d)) (co_value d) Unspent (co_height d) (co_lock d)
               (co_cb d) (Some id) in
  with_log (with_outs w1 (save_out (w_outs w1) o)) (save_tx (w_log w1) t).

(** the record a repair writes back: Unspent, at the height (and, for a coinbase, with the lock
    height) of the chain output it matches — since the [fix:] of scan.rs; before it the record
    kept the height it had, e.g. that of a block since reorganised away *)
Definition repaired (chain : list cout) (o : orec) : orec :=
  match find (fun d => same_commit o d) chain with
  | Some d => mkO (r_root o) (r_key o) (r_mmr o) (r_value o) Unspent (co_height d)
                  (if r_cb o then co_lock d else r_lock o) (r_cb o) (r_tx o)
  | None => set_status o Unspent
  end.
Definition unspend (chain : list cout) (w : wallet) (o : orec) : wallet :=
  let w1 := cancel_entry_of w o in
  with_outs w1 (save_out (w_outs w1) (repaired chain o)).

(** classification against the snapshot of the wallet's records taken before any repair *)
Definition accidental (snap : list orec) (chain : list cout) : list orec :=
  flat_map (fun d => match find_match snap d with
                     | Some o => if status_eqb (r_status o) Spent then [o] else []
                     | None => [] end) chain.
Definition locked_on_chain (snap : list orec) (chain : list cout) : list orec :=
  flat_map (fun d => match find_match snap d with
                     | Some o => if status_eqb (r_status o) Locked then [o] else []
                     | None => [] end) chain.
Definition missing (snap : list orec) (chain : list cout) : list cout :=
  filter (fun d => match find_match snap d with Some _ => false | None => true end) chain.

(** highest child index found per account among the seed's outputs on chain (all of them,
    whether or not the wallet already records them: after the [fix:] of the interrupted-restore
    defect; before it, only the outputs restored by this very scan were counted) *)
Fixpoint found_max (ms : list cout) (acc : list (N * N)) : list (N * N) :=
  match ms with
  | [] => acc
  | d :: r =>
    let a := fst (co_key d) in
    found_max r (update acc a (N.max (lookup acc a) (snd (co_key d))))
  end.

Definition restore_indices (w : wallet) (found : list (N * N)) : wallet :=
  fold_left (fun w kv =>
    if lookup (w_child w) (fst kv) <=? snd kv
    then with_child w (update (w_child w) (fst kv) (snd kv + 1)) else w) found w.

(** scan::scan given the seed's outputs found on chain (in PMMR order) *)
Definition scan_repair (w : wallet) (chain : list cout) (delete_unconfirmed : bool) : wallet :=
  let snap := w_outs w in
  let w1 := fold_left (unspend chain) (accidental snap chain) w in
  let ms := missing snap chain in
  let w2 := fold_left restore_missing ms w1 in
  let w3 :=
    if delete_unconfirmed then
      let wa := fold_left (unspend chain) (locked_on_chain snap chain) w2 in
      fold_left (fun w o => let w' := cancel_entry_of w o in
                            with_outs w' (del_out (w_outs w') (r_key o) (r_mmr o)))
                (filter (fun o => status_eqb (r_status o) Unconfirmed) snap) wa
    else w2 in
  restore_indices w3 (found_max chain []).

(** wallet state from literal components (used by the correspondence run to start the
    model from a real wallet's snapshot) *)
Definition wallet_of (outs : list orec) (log : list trec) (child logid confh : list (N * N)) (active : N)
  : wallet := mkW outs log [] child logid confh active [].

Definition run_scan (c : wallet * list cout * bool) : list (list (list Z)) :=
  let '(w, chain, del) := c in
  let w' := scan_repair w chain del in
  [map enc_out (w_outs w'); map enc_tx (w_log w'); enc_pairs (w_child w')].
