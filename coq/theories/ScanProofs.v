(** Proofs about the scan model (Scan.v): the paging loop collects exactly the leaves in
    range for every batch size; restoring a fresh wallet yields exactly the seed's outputs
    found on chain with their attributes and a next-child index beyond all of them; a wallet
    with nothing to repair is left unchanged by a scan (idempotence of a completed repair). *)
From GW Require Import Scan LedgerProofs.
From Coq Require Import ZifyBool ZifyN ZifyNat.

(* ------------------------------------------------------------------ paging *)
Section PagingProofs.
  Local Open Scope nat_scope.
  Variable A : Type.
  Variable data : nat -> option A.

  Lemma leaves_from_app n m pos :
    leaves_from data (n + m) pos = leaves_from data n pos ++ leaves_from data m (pos + n).
  Proof.
    revert pos; induction n as [|n IH]; intros pos; cbn [leaves_from Nat.add].
    - now rewrite Nat.add_0_r.
    - rewrite IH, <- app_assoc. replace (pos + 1 + n) with (pos + S n) by lia. reflexivity.
  Qed.

  (** one node call visits positions pos, pos+1, ... and stops at [size] or when [max] leaves
      were collected; what it returns is exactly the leaves of the visited positions *)
  Lemma visit_spec : forall fuel pos size max acc,
    1 <= pos -> size + 1 - pos < fuel ->
    exists k, visit data fuel pos size max acc
              = (pos + k - 1, rev acc ++ leaves_from data k pos)
           /\ pos + k - 1 <= Nat.max size (pos - 1)
           /\ (pos + k - 1 < size -> max <= length acc + length (leaves_from data k pos))
           /\ (length acc < max -> pos <= size -> 1 <= k).
  Proof.
    induction fuel as [|fuel IH]; intros pos size max acc Hp Hf; [lia|].
    cbn [visit]. destruct (Nat.ltb (length acc) max && Nat.leb pos size) eqn:E.
    - apply andb_true_iff in E as [E1 E2]. apply Nat.ltb_lt in E1. apply Nat.leb_le in E2.
      destruct (IH (pos + 1) size max (match data pos with Some a => a :: acc | None => acc end))
        as (k & Hv & Hle & Hfull & _); [lia|lia|].
      exists (S k). rewrite Hv. split; [|split; [|split]].
      + f_equal; [lia|]. cbn [leaves_from]. destruct (data pos); cbn [rev]; rewrite <- ?app_assoc; reflexivity.
      + lia.
      + intros Hlt. cbn [leaves_from]. rewrite app_length.
        assert (pos + 1 + k - 1 < size) by lia. specialize (Hfull H).
        destruct (data pos); cbn [length] in *; lia.
      + lia.
    - exists 0. cbn [leaves_from]. rewrite app_nil_r. split; [f_equal; lia|]. split; [lia|]. split.
      + intros Hlt. apply andb_false_iff in E as [E|E].
        * apply Nat.ltb_ge in E. cbn; lia.
        * apply Nat.leb_gt in E. lia.
      + intros H1 H2. apply andb_false_iff in E as [E|E]; [apply Nat.ltb_ge in E|apply Nat.leb_gt in E]; lia.
  Qed.

  (** C16 (paging): for every batch size [max] >= 1 and every start, the client loop
      terminates (given fuel for one call per position) and returns exactly the unspent
      leaves at positions start..size, in order, each once. *)
  Theorem collect_exact : forall fuel start size max acc,
    1 <= max -> 1 <= start -> 1 <= fuel -> size + 2 - start <= fuel ->
    collect data fuel start size max acc
    = Some (acc ++ leaves_from data (size + 1 - start) start).
  Proof.
    induction fuel as [|fuel IH]; intros start size max acc Hm Hs Hf1 Hf; [lia|].
    cbn [collect]. unfold page. replace (Nat.max start 1) with start by lia.
    destruct (visit_spec (S size) start size max [] Hs ltac:(lia)) as (k & Hv & Hle & Hfull & Hprog).
    rewrite Hv. cbn [rev app].
    destruct (Nat.leb size (start + k - 1)) eqn:E.
    - apply Nat.leb_le in E. f_equal. f_equal.
      destruct (Nat.le_gt_cases start size) as [Hss|Hss].
      + replace (size + 1 - start) with k by lia. reflexivity.
      + replace (size + 1 - start) with 0 by lia. assert (k = 0) by lia. subst. reflexivity.
    - apply Nat.leb_gt in E.
      assert (Hk : 1 <= k) by (apply Hprog; cbn; lia).
      rewrite IH; [|lia|lia|lia|lia].
      rewrite <- app_assoc. f_equal. f_equal.
      replace (size + 1 - start) with (k + (size + 1 - (start + k - 1 + 1))) by lia.
      rewrite leaves_from_app. f_equal. f_equal. lia.
  Qed.
End PagingProofs.

(* ------------------------------------------------------------------ nothing to repair *)

Lemma found_max_nil acc : found_max [] acc = acc.
Proof. reflexivity. Qed.

(* ------------------------------------------------------------------ restoring a fresh wallet *)

Definition restored_rec (d : cout) (id : N) : orec :=
  mkO (fst (co_key d)) (co_key d) (Some (co_mmr d)) (co_value d) Unspent (co_height d) (co_lock d)
      (co_cb d) (Some id).

Definition ckey (d : cout) : kid * option N := (co_key d, Some (co_mmr d)).

Lemma restore_missing_outs w d :
  exists id, w_outs (restore_missing w d) = save_out (w_outs w) (restored_rec d id)
             /\ w_child (restore_missing w d) = w_child w.
Proof.
  unfold restore_missing, next_log_id. cbn zeta. eexists. split; reflexivity.
Qed.

Lemma fold_restore_get : forall l w k m,
  NoDup (map ckey l) ->
  (exists d id, In d l /\ ckey d = (k, m)
                /\ get_out (w_outs (fold_left restore_missing l w)) k m = Some (restored_rec d id))
  \/ ((forall d, In d l -> ckey d <> (k, m))
      /\ get_out (w_outs (fold_left restore_missing l w)) k m = get_out (w_outs w) k m).
Proof.
  induction l as [|d r IH]; intros w k m Hn; cbn [fold_left].
  - right. split; [intros d []|reflexivity].
  - inversion Hn as [|? ? Hd Hr]; subst.
    destruct (restore_missing_outs w d) as (id & Ho & _).
    destruct (IH (restore_missing w d) k m Hr) as [(d' & id' & Hin & Hk & Hg)|(Hnone & Hg)].
    + left. exists d', id'. split; [now right|]. auto.
    + rewrite Hg, Ho, get_save.
      destruct (okey_eqb (restored_rec d id) k m) eqn:E.
      * left. exists d, id. split; [now left|]. apply okey_eqb_iff in E as [E1 E2]. cbn in E1, E2.
        split; [unfold ckey; congruence|reflexivity].
      * right. split; [|reflexivity]. intros d0 [<-|Hin]; [|auto].
        intros Hc. apply okey_eqb_false in E. apply E. unfold ckey in Hc. inversion Hc. split; reflexivity.
Qed.

Lemma fold_unspend_nil ch w : fold_left (unspend ch) [] w = w. Proof. reflexivity. Qed.

Lemma restore_indices_outs : forall found w, w_outs (restore_indices w found) = w_outs w.
Proof.
  induction found as [|kv r IH]; intros w; cbn [restore_indices fold_left]; [reflexivity|].
  unfold restore_indices in IH. rewrite IH. destruct (_ <=? _); reflexivity.
Qed.

(** C16 (restore is exact): scanning a wallet without output records (a fresh wallet created
    from the recovery phrase) yields, for every output of the seed found in the UTXO set, one
    Unspent record with its value, height, lock height, coinbase flag, PMMR index, filed under
    the account of its derivation path — and nothing else. *)
Lemma scan_fresh_outs w chain del :
  w_outs w = [] ->
  w_outs (scan_repair w chain del) = w_outs (fold_left restore_missing chain w).
Proof.
  intros Hempty. unfold scan_repair. rewrite Hempty.
  assert (Hacc : accidental [] chain = []).
  { unfold accidental. clear. induction chain as [|d r IH]; cbn; [reflexivity|]. exact IH. }
  assert (Hloc : locked_on_chain [] chain = []).
  { unfold locked_on_chain. clear. induction chain as [|d r IH]; cbn; [reflexivity|]. exact IH. }
  assert (Hmis : missing [] chain = chain).
  { unfold missing. clear. induction chain as [|d r IH]; cbn; [reflexivity|]. now f_equal. }
  rewrite Hacc, Hloc, Hmis. cbn [fold_left filter]. rewrite restore_indices_outs.
  destruct del; reflexivity.
Qed.


Theorem scan_fresh_exact w chain del :
  w_outs w = [] -> NoDup (map ckey chain) ->
  let w' := scan_repair w chain del in
  (forall d, In d chain ->
     exists id, get_out (w_outs w') (co_key d) (Some (co_mmr d)) = Some (restored_rec d id))
  /\ (forall k m o, get_out (w_outs w') k m = Some o ->
        exists d id, In d chain /\ o = restored_rec d id).
Proof.
  intros Hempty Hn. cbn zeta. rewrite (scan_fresh_outs w chain del Hempty).
  set (w2 := fold_left restore_missing chain w). split.
  - intros d Hin.
    destruct (fold_restore_get chain w (co_key d) (Some (co_mmr d)) Hn) as [(d' & id & Hin' & Hk & Hg)|(Hnone & _)].
    + assert (d' = d).
      { clear - Hn Hin Hin' Hk. induction chain as [|x r IH]; [contradiction|].
        inversion Hn as [|? ? Hx Hr]; subst.
        destruct Hin as [->|Hin], Hin' as [->|Hin']; auto.
        - exfalso. apply Hx. apply in_map_iff. exists d'. split; [exact Hk|exact Hin'].
        - exfalso. apply Hx. apply in_map_iff. exists d. split; [symmetry; exact Hk|exact Hin]. }
      subst d'. exists id. exact Hg.
    + exfalso. apply (Hnone d Hin). reflexivity.
  - intros k m o Hg.
    destruct (fold_restore_get chain w k m Hn) as [(d & id & Hin & Hk & Hg')|(_ & Hg')].
    + fold w2 in Hg'. rewrite Hg' in Hg. inversion Hg; subst. eauto.
    + fold w2 in Hg'. rewrite Hg', Hempty in Hg. discriminate.
Qed.

(** ... and the next child index of every account lies beyond every restored path. *)
Lemma found_max_mono : forall ms acc a, lookup acc a <= lookup (found_max ms acc) a.
Proof.
  induction ms as [|d r IH]; intros acc a; cbn [found_max]; [lia|].
  etransitivity; [|apply IH]. rewrite lookup_update. destruct (_ =? a) eqn:E; [|lia].
  assert (fst (co_key d) = a) by lia. subst. lia.
Qed.

Lemma found_max_covers : forall ms acc d,
  In d ms -> snd (co_key d) <= lookup (found_max ms acc) (fst (co_key d)).
Proof.
  induction ms as [|x r IH]; intros acc d Hin; [contradiction|]. cbn [found_max].
  destruct Hin as [->|Hin]; [|now apply IH].
  etransitivity; [|apply found_max_mono]. rewrite lookup_update, N.eqb_refl. lia.
Qed.

Definition has_key (l : list (N * N)) (a : N) : Prop := exists v, In (a, v) l.

Lemma update_has_key l k v a : has_key (update l k v) a <-> a = k \/ has_key l a.
Proof.
  unfold has_key. induction l as [|[k' v'] r IH]; cbn [update].
  - split.
    + intros (x & [H|[]]). inversion H; auto.
    + intros [->|(x & [])]. exists v. now left.
  - destruct (k' =? k) eqn:E.
    + assert (k' = k) by lia. subst. split.
      * intros (x & [H|H]); [inversion H; auto|right; exists x; now right].
      * intros [->|(x & [H|H])]; [exists v; now left|inversion H; subst; exists v; now left|exists x; now right].
    + split.
      * intros (x & [H|H]); [inversion H; subst; right; exists x; now left|].
        destruct (proj1 IH (ex_intro _ x H)) as [->|(y & Hy)]; [now left|right; exists y; now right].
      * intros [->|(x & [H|H])].
        -- destruct (proj2 IH (or_introl eq_refl)) as (y & Hy). exists y; now right.
        -- inversion H; subst. exists x; now left.
        -- destruct (proj2 IH (or_intror (ex_intro _ x H))) as (y & Hy). exists y; now right.
Qed.

Lemma found_max_has_key : forall ms acc d, In d ms -> has_key (found_max ms acc) (fst (co_key d)).
Proof.
  assert (Hkeep : forall ms acc a, has_key acc a -> has_key (found_max ms acc) a).
  { induction ms as [|x r IH]; intros acc a Hk; cbn [found_max]; [exact Hk|].
    apply IH. apply update_has_key. now right. }
  induction ms as [|x r IH]; intros acc d Hin; [contradiction|]. cbn [found_max].
  destruct Hin as [->|Hin]; [|now apply IH].
  apply Hkeep. apply update_has_key. now left.
Qed.

Lemma lookup_in l a : has_key l a -> In (a, lookup l a) l.
Proof.
  intros (v & Hin). induction l as [|[k x] r IH]; [contradiction|]. cbn [lookup].
  destruct (k =? a) eqn:E.
  - assert (k = a) by lia. subst. now left.
  - destruct Hin as [H|H]; [inversion H; subst; lia|]. right. now apply IH.
Qed.

Lemma restore_indices_mono : forall found w a,
  lookup (w_child w) a <= lookup (w_child (restore_indices w found)) a.
Proof.
  induction found as [|[k m] r IH]; intros w a; cbn [restore_indices fold_left]; [lia|].
  unfold restore_indices in IH. etransitivity; [|apply IH]. cbn [fst snd].
  destruct (lookup (w_child w) k <=? m) eqn:E; [|lia].
  cbn [w_child with_child]. rewrite lookup_update. destruct (k =? a) eqn:E2; [|lia].
  assert (k = a) by lia. subst. lia.
Qed.

Lemma restore_indices_above : forall found w a m,
  In (a, m) found -> m < lookup (w_child (restore_indices w found)) a.
Proof.
  induction found as [|[k x] r IH]; intros w a m Hin; [contradiction|].
  cbn [restore_indices fold_left]. unfold restore_indices in IH.
  destruct Hin as [H|H].
  - inversion H; subst. cbn [fst snd].
    eapply N.lt_le_trans; [|apply (restore_indices_mono r)].
    destruct (lookup (w_child w) a <=? m) eqn:E; [|lia].
    cbn [w_child with_child]. rewrite lookup_update, N.eqb_refl. lia.
  - now apply IH.
Qed.

(** every entry of [found_max] is the child index of one of the listed outputs (or was in the
    accumulator) *)
Lemma in_update l k v a m : In (a, m) (update l k v) -> (a = k /\ m = v) \/ In (a, m) l.
Proof.
  induction l as [|[k' v'] r IH]; cbn [update].
  - intros [H|[]]. inversion H; auto.
  - destruct (k' =? k) eqn:E.
    + intros [H|H]; [inversion H; auto|right; now right].
    + intros [H|H]; [right; now left|]. destruct (IH H) as [?|?]; [now left|right; now right].
Qed.

Lemma lookup_bound l a (C : N -> N) :
  (forall k m, In (k, m) l -> m < C k) -> has_key l a -> lookup l a < C a.
Proof. intros H Hk. apply H. now apply lookup_in. Qed.

Lemma found_max_bound (C : N -> N) : forall ms acc,
  (forall a m, In (a, m) acc -> m < C a) ->
  (forall d, In d ms -> snd (co_key d) < C (fst (co_key d))) ->
  forall a m, In (a, m) (found_max ms acc) -> m < C a.
Proof.
  induction ms as [|d r IH]; intros acc Ha Hm a m Hin; cbn [found_max] in Hin; [now apply Ha|].
  eapply IH; [| |exact Hin].
  - intros a0 m0 H0. apply in_update in H0 as [[-> ->]|H0]; [|now apply Ha].
    assert (Hd : snd (co_key d) < C (fst (co_key d))) by (apply Hm; now left).
    assert (Hl : lookup acc (fst (co_key d)) = 0 \/ lookup acc (fst (co_key d)) < C (fst (co_key d))).
    { clear -Ha. induction acc as [|[k x] r' IH']; cbn [lookup]; [now left|].
      destruct (k =? fst (co_key d)) eqn:E.
      - right. assert (k = fst (co_key d)) by lia. subst. apply Ha. now left.
      - apply IH'. intros a m H. apply Ha. now right. }
    lia.
  - intros d0 H0. apply Hm. now right.
Qed.

Lemma restore_indices_noop : forall found w,
  (forall a m, In (a, m) found -> m < lookup (w_child w) a) -> restore_indices w found = w.
Proof.
  induction found as [|[k m] r IH]; intros w H; [reflexivity|].
  cbn [restore_indices fold_left fst snd].
  assert (Hk : m < lookup (w_child w) k) by (apply H; now left).
  destruct (lookup (w_child w) k <=? m) eqn:E; [lia|].
  apply IH. intros a m0 H0. apply H. now right.
Qed.

(** C16 (idempotence of a completed repair): a wallet in which every one of the seed's chain
    outputs is already recorded and not marked Spent, whose next-child counters lie beyond
    every path on chain — and, when pending transactions are to be dropped, none is Locked
    and no record is Unconfirmed — is left exactly as it is. *)
Theorem scan_noop w chain del :
  accidental (w_outs w) chain = [] -> missing (w_outs w) chain = [] ->
  (forall d, In d chain -> snd (co_key d) < lookup (w_child w) (fst (co_key d))) ->
  (del = true -> locked_on_chain (w_outs w) chain = []
                 /\ filter (fun o => status_eqb (r_status o) Unconfirmed) (w_outs w) = []) ->
  scan_repair w chain del = w.
Proof.
  intros Ha Hm Hidx Hd. unfold scan_repair. rewrite Ha, Hm. cbn [fold_left].
  assert (Hb : forall a m, In (a, m) (found_max chain []) -> m < lookup (w_child w) a).
  { apply (found_max_bound (fun a => lookup (w_child w) a)); [intros a m []|exact Hidx]. }
  destruct del.
  - destruct (Hd eq_refl) as [Hl Hu]. rewrite Hl, Hu. cbn [fold_left]. now apply restore_indices_noop.
  - now apply restore_indices_noop.
Qed.

(** after a scan from ANY wallet state — an interrupted restore, a damaged index — the next
    path of every account lies beyond every path of the seed found on chain *)
Theorem scan_child_beyond_any w chain del d :
  In d chain -> snd (co_key d) < lookup (w_child (scan_repair w chain del)) (fst (co_key d)).
Proof.
  intros Hin. unfold scan_repair.
  eapply N.le_lt_trans; [apply (found_max_covers chain [] d Hin)|].
  apply restore_indices_above. apply lookup_in. now apply found_max_has_key.
Qed.

Theorem scan_fresh_child_beyond w chain del d :
  w_outs w = [] -> NoDup (map ckey chain) -> In d chain ->
  snd (co_key d) < lookup (w_child (scan_repair w chain del)) (fst (co_key d)).
Proof. intros _ _ Hin. now apply scan_child_beyond_any. Qed.

Lemma fold_restore_nodup : forall l w, NoDup (map okey (w_outs w)) ->
  NoDup (map okey (w_outs (fold_left restore_missing l w))).
Proof.
  induction l as [|d r IH]; intros w Hn; cbn [fold_left]; [exact Hn|].
  apply IH. destruct (restore_missing_outs w d) as (id & -> & _). now apply nodup_save.
Qed.

Lemma accidental_nil outs l :
  (forall d, In d l -> exists o, find_match outs d = Some o /\ r_status o = Unspent) ->
  accidental outs l = [].
Proof.
  unfold accidental. induction l as [|d r IH]; intros H; [reflexivity|]. cbn [flat_map].
  destruct (H d (or_introl eq_refl)) as (o & -> & ->). cbn. apply IH. intros x Hx. apply H. now right.
Qed.

Lemma locked_nil outs l :
  (forall d, In d l -> exists o, find_match outs d = Some o /\ r_status o = Unspent) ->
  locked_on_chain outs l = [].
Proof.
  unfold locked_on_chain. induction l as [|d r IH]; intros H; [reflexivity|]. cbn [flat_map].
  destruct (H d (or_introl eq_refl)) as (o & -> & ->). cbn. apply IH. intros x Hx. apply H. now right.
Qed.

Lemma missing_nil outs l :
  (forall d, In d l -> find_match outs d <> None) -> missing outs l = [].
Proof.
  unfold missing. induction l as [|d r IH]; intros H; [reflexivity|]. cbn [filter].
  destruct (find_match outs d) eqn:E; [|exfalso; apply (H d (or_introl eq_refl)); exact E].
  apply IH. intros x Hx. apply H. now right.
Qed.

Lemma no_unconfirmed (l : list orec) :
  (forall o, In o l -> r_status o = Unspent) ->
  filter (fun o => status_eqb (r_status o) Unconfirmed) l = [].
Proof.
  induction l as [|o r IH]; intros H; [reflexivity|]. cbn [filter].
  rewrite (H o (or_introl eq_refl)). cbn. apply IH. intros x Hx. apply H. now right.
Qed.

(** a second scan of a freshly restored wallet finds nothing to repair *)
Theorem scan_fresh_idempotent w chain del :
  w_outs w = [] -> NoDup (map ckey chain) ->
  let w' := scan_repair w chain del in
  scan_repair w' chain del = w'.
Proof.
  intros Hempty Hn. cbn zeta.
  destruct (scan_fresh_exact w chain del Hempty Hn) as [Hall Honly]. cbn zeta in Hall, Honly.
  set (w' := scan_repair w chain del) in *.
  assert (Hwf : NoDup (map okey (w_outs w'))).
  { unfold w'. rewrite scan_fresh_outs by exact Hempty. apply fold_restore_nodup. rewrite Hempty. constructor. }
  assert (Hunspent : forall o, In o (w_outs w') -> r_status o = Unspent).
  { intros o Hin. pose proof (get_out_of_in _ _ Hwf Hin) as Hg.
    destruct (Honly _ _ _ Hg) as (d & id & Hd & ->). reflexivity. }
  assert (Hmatch : forall d, In d chain -> exists o, find_match (w_outs w') d = Some o /\ In o (w_outs w')).
  { intros d Hd. destruct (Hall d Hd) as (id & Hg).
    apply get_out_in in Hg as [Hin _].
    destruct (find_match (w_outs w') d) as [o|] eqn:Ef.
    - exists o. split; [reflexivity|]. unfold find_match in Ef. apply find_some in Ef as [H _]. exact H.
    - exfalso. unfold find_match in Ef. pose proof (find_none _ _ Ef _ Hin) as Hf.
      unfold same_commit, restored_rec in Hf. cbn in Hf. rewrite kid_eqb_refl, N.eqb_refl in Hf. discriminate. }
  assert (Hm2 : forall d, In d chain -> exists o, find_match (w_outs w') d = Some o /\ r_status o = Unspent).
  { intros d Hd. destruct (Hmatch d Hd) as (o & Hf & Hin). exists o. split; [exact Hf|now apply Hunspent]. }
  apply scan_noop.
  - now apply accidental_nil.
  - apply missing_nil. intros d Hd. destruct (Hm2 d Hd) as (o & -> & _). discriminate.
  - intros d Hd. unfold w'. now apply scan_child_beyond_any.
  - intros _. split; [now apply locked_nil|]. apply no_unconfirmed. exact Hunspent.
Qed.
