(** C16, repair from ANY wallet state: a scan that keeps pending transactions
    (delete_unconfirmed = false) brings every wallet whose table has distinct DB keys to a state
    a second scan leaves exactly as it is — every one of the seed's chain outputs has a record
    and the record a scan looks at for it is not marked Spent — provided no derivation path
    occurs twice among the chain outputs (C15). *)
From GW Require Import Ledger LedgerProofs Scan ScanProofs.
From Coq Require Import ZifyBool ZifyN ZifyNat.

(* ------------------------------------------------------------------ find over a saved table *)
Section FindSave.
  Variable p : orec -> bool.

  Lemma find_map_same (f : orec -> orec) l :
    (forall o, In o l -> p (f o) = p o) -> find p (map f l) = option_map f (find p l).
  Proof.
    induction l as [|o r IH]; intros H; cbn [map find]; [reflexivity|].
    rewrite (H o (or_introl eq_refl)). destruct (p o); [reflexivity|].
    apply IH. intros o' Ho'. apply H. now right.
  Qed.

  Lemma find_replace_match l x :
    p x = true ->
    find p (replace_out l x) = Some x
    \/ (exists o, find p (replace_out l x) = Some o /\ find p l = Some o)
    \/ (find p (replace_out l x) = None /\ find p l = None).
  Proof.
    intros Hx. induction l as [|o r IH]; cbn [replace_out find]; [right; right; auto|].
    destruct (okey_eqb o (r_key x) (r_mmr x)); cbn [find].
    - rewrite Hx. now left.
    - destruct (p o); [right; left; eauto|exact IH].
  Qed.

  Lemma find_insert_match l x :
    p x = true ->
    find p (insert_out l x) = Some x \/ (exists o, find p (insert_out l x) = Some o /\ find p l = Some o).
  Proof.
    intros Hx. induction l as [|o r IH]; cbn [insert_out find]; [rewrite Hx; now left|].
    destruct (okey_ltb _ _ _ _); cbn [find].
    - rewrite Hx. now left.
    - destruct (p o); [right; eauto|exact IH].
  Qed.

  (** a record matching [p] is saved: the first match afterwards is it, or the one before *)
  Lemma find_save_match l x :
    p x = true ->
    find p (save_out l x) = Some x \/ (exists o, find p (save_out l x) = Some o /\ find p l = Some o).
  Proof.
    intros Hx. unfold save_out. destruct (get_out l (r_key x) (r_mmr x)) as [y|] eqn:Eg.
    - destruct (find_replace_match l x Hx) as [H|[H|[H1 H2]]]; [now left|now right|].
      (* replace_out did replace something, so x is in the result: the search cannot fail *)
      exfalso. apply get_out_in in Eg as [Hin [Hk Hm]].
      assert (Hinx : In x (replace_out l x)).
      { clear - Hin Hk Hm. induction l as [|o r IH]; [contradiction|]. cbn [replace_out].
        destruct (okey_eqb o (r_key x) (r_mmr x)) eqn:E; [now left|].
        destruct Hin as [->|Hin]; [|right; now apply IH].
        exfalso. apply okey_eqb_false in E. apply E. split; assumption. }
      pose proof (find_none _ _ H1 _ Hinx). congruence.
    - apply find_insert_match. exact Hx.
  Qed.

  Lemma find_insert_nomatch l x : p x = false -> find p (insert_out l x) = find p l.
  Proof.
    intros Hx. induction l as [|o r IH]; cbn [insert_out find]; [now rewrite Hx|].
    destruct (okey_ltb _ _ _ _); cbn [find]; [now rewrite Hx|]. destruct (p o); [reflexivity|exact IH].
  Qed.

  Lemma find_replace_nomatch l x :
    p x = false -> (forall y, In y l -> okey_eqb y (r_key x) (r_mmr x) = true -> p y = false) ->
    find p (replace_out l x) = find p l.
  Proof.
    intros Hx. induction l as [|o r IH]; intros Hy; cbn [replace_out find]; [reflexivity|].
    destruct (okey_eqb o (r_key x) (r_mmr x)) eqn:E; cbn [find].
    - rewrite Hx, (Hy o (or_introl eq_refl) E). reflexivity.
    - destruct (p o); [reflexivity|]. apply IH. intros y Hin. apply Hy. now right.
  Qed.

  (** a record not matching [p] is saved over nothing, or over a record not matching either *)
  Lemma find_save_nomatch l x :
    p x = false -> (forall y, get_out l (r_key x) (r_mmr x) = Some y -> p y = false) ->
    NoDup (map okey l) ->
    find p (save_out l x) = find p l.
  Proof.
    intros Hx Hy Hn. unfold save_out. destruct (get_out l (r_key x) (r_mmr x)) as [y|] eqn:Eg.
    - apply find_replace_nomatch; [exact Hx|]. intros y' Hin E.
      assert (y' = y).
      { pose proof (get_out_of_in _ _ Hn Hin) as Hg. apply okey_eqb_iff in E as [E1 E2].
        rewrite E1, E2, Eg in Hg. congruence. }
      subst y'. apply Hy. reflexivity.
    - apply find_insert_nomatch. exact Hx.
  Qed.
End FindSave.

(** saving over an existing DB key replaces exactly that record *)
Lemma save_as_map l x y :
  NoDup (map okey l) -> get_out l (r_key x) (r_mmr x) = Some y ->
  save_out l x = map (fun o => if okey_eqb o (r_key x) (r_mmr x) then x else o) l.
Proof.
  intros Hn Hg. unfold save_out. rewrite Hg. clear y Hg.
  induction l as [|o r IH]; cbn [replace_out map]; [reflexivity|].
  inversion Hn as [|? ? Ho Hr]; subst.
  destruct (okey_eqb o (r_key x) (r_mmr x)) eqn:E.
  - f_equal. (* no other record has that key *)
    rewrite <- (map_id r) at 1. apply map_ext_in. intros o' Hin.
    destruct (okey_eqb o' (r_key x) (r_mmr x)) eqn:E2; [|reflexivity].
    exfalso. apply Ho. apply in_map_iff. exists o'. split; [|exact Hin].
    apply okey_eqb_iff in E as [A B]. apply okey_eqb_iff in E2 as [C D]. unfold okey. congruence.
  - f_equal. apply IH. exact Hr.
Qed.

(* ------------------------------------------------------------------ the un-spend pass *)
Lemma repaired_fields ch o :
  r_key (repaired ch o) = r_key o /\ r_mmr (repaired ch o) = r_mmr o /\ r_value (repaired ch o) = r_value o
  /\ r_root (repaired ch o) = r_root o /\ r_tx (repaired ch o) = r_tx o /\ r_cb (repaired ch o) = r_cb o
  /\ r_status (repaired ch o) = Unspent.
Proof. unfold repaired. destruct (find _ ch); destruct o; cbn; repeat split; reflexivity. Qed.

Definition flipped (ch : list cout) (acc : list orec) (o : orec) : orec :=
  if existsb (fun a => okey_eqb a (r_key o) (r_mmr o)) acc then repaired ch o else o.

Lemma unspend_outs ch w o : w_outs (unspend ch w o) = save_out (w_outs w) (repaired ch o).
Proof.
  unfold unspend, cancel_entry_of. destruct (r_tx o); [|reflexivity].
  destruct (find _ _); reflexivity.
Qed.

Lemma flipped_key ch acc o : r_key (flipped ch acc o) = r_key o /\ r_mmr (flipped ch acc o) = r_mmr o.
Proof.
  unfold flipped. destruct (existsb _ _); [|auto].
  destruct (repaired_fields ch o) as (A & B & _). auto.
Qed.

(** after the pass the table is the snapshot with exactly the listed records repaired *)
Lemma fold_unspend_outs ch snap : forall acc done w,
  NoDup (map okey snap) -> (forall a, In a acc -> In a snap) ->
  w_outs w = map (flipped ch done) snap ->
  w_outs (fold_left (unspend ch) acc w) = map (flipped ch (rev acc ++ done)) snap.
Proof.
  induction acc as [|a r IH]; intros done w Hn Hin Hw; cbn [fold_left rev app]; [exact Hw|].
  rewrite <- app_assoc. cbn [app]. apply IH; [exact Hn|intros a' Ha'; apply Hin; now right|].
  rewrite unspend_outs, Hw.
  assert (Ha : In a snap) by (apply Hin; now left).
  assert (Hn' : NoDup (map okey (map (flipped ch done) snap))).
  { rewrite map_map. erewrite map_ext; [exact Hn|]. intros o. unfold okey.
    destruct (flipped_key ch done o) as [-> ->]. reflexivity. }
  destruct (repaired_fields ch a) as (K1 & K2 & _).
  assert (Hg : get_out (map (flipped ch done) snap) (r_key (repaired ch a)) (r_mmr (repaired ch a))
               = Some (flipped ch done a)).
  { rewrite K1, K2.
    replace (r_key a) with (r_key (flipped ch done a)) by (destruct (flipped_key ch done a) as [-> _]; reflexivity).
    replace (r_mmr a) with (r_mmr (flipped ch done a)) by (destruct (flipped_key ch done a) as [_ ->]; reflexivity).
    apply get_out_of_in; [exact Hn'|]. apply in_map. exact Ha. }
  rewrite (save_as_map _ _ _ Hn' Hg), map_map. apply map_ext_in. intros o Ho.
  rewrite K1, K2.
  destruct (flipped_key ch done o) as [F1 F2].
  destruct (okey_eqb (flipped ch done o) (r_key a) (r_mmr a)) eqn:E.
  - (* the record with a's DB key is a itself *)
    apply okey_eqb_iff in E as [E1 E2]. rewrite F1 in E1. rewrite F2 in E2.
    assert (o = a).
    { pose proof (get_out_of_in _ _ Hn Ho) as G1. pose proof (get_out_of_in _ _ Hn Ha) as G2.
      rewrite E1, E2, G2 in G1. congruence. }
    subst o. unfold flipped. cbn [existsb].
    assert (Eaa : okey_eqb a (r_key a) (r_mmr a) = true) by (apply okey_eqb_iff; split; reflexivity).
    rewrite Eaa. reflexivity.
  - unfold flipped at 2. cbn [existsb].
    assert (Eao : okey_eqb a (r_key o) (r_mmr o) = false).
    { apply okey_eqb_false. intros [A B]. apply okey_eqb_false in E. apply E. split; congruence. }
    rewrite Eao. cbn [orb]. reflexivity.
Qed.

(* ------------------------------------------------------------------ the invariant of the restore pass *)
Definition pd (d : cout) : orec -> bool := fun o => same_commit o d.

(** whatever record a scan looks at for a chain output is not marked Spent *)
Definition NoSpentMatch (chain : list cout) (l : list orec) : Prop :=
  forall d o, In d chain -> find_match l d = Some o -> r_status o <> Spent.

Lemma restored_matches d id : pd d (restored_rec d id) = true.
Proof. unfold pd, same_commit, restored_rec. cbn. now rewrite kid_eqb_refl, N.eqb_refl. Qed.

Lemma match_same_key d d' id : pd d (restored_rec d' id) = true -> co_key d = co_key d'.
Proof.
  unfold pd, same_commit, restored_rec. cbn. intros H. apply andb_true_iff in H as [H _].
  apply kid_eqb_eq in H. congruence.
Qed.

Lemma nodup_key_eq chain d d' :
  NoDup (map co_key chain) -> In d chain -> In d' chain -> co_key d = co_key d' -> d = d'.
Proof.
  induction chain as [|x r IH]; intros Hn H1 H2 Hk; [contradiction|].
  inversion Hn as [|? ? Hx Hr]; subst.
  destruct H1 as [->|H1], H2 as [->|H2]; auto.
  - exfalso. apply Hx. apply in_map_iff. exists d'. auto.
  - exfalso. apply Hx. apply in_map_iff. exists d. auto.
Qed.

(** one restored record: matches found before are still found, nothing a scan looks at is Spent *)
Lemma restore_step chain l d0 id :
  NoDup (map okey l) -> NoDup (map co_key chain) -> In d0 chain ->
  NoSpentMatch chain l ->
  let l' := save_out l (restored_rec d0 id) in
  NoSpentMatch chain l'
  /\ (forall d, In d chain -> find_match l d <> None -> find_match l' d <> None)
  /\ find_match l' d0 <> None.
Proof.
  intros Hn Hc Hd0 Hns. cbn zeta. set (x := restored_rec d0 id).
  assert (Hcase : forall d, In d chain ->
            (d = d0 /\ (find (pd d) (save_out l x) = Some x
                        \/ exists o, find (pd d) (save_out l x) = Some o /\ find (pd d) l = Some o))
            \/ (d <> d0 /\ find (pd d) (save_out l x) = find (pd d) l)).
  { intros d Hd. destruct (pd d x) eqn:E.
    - left. assert (d = d0) by (eapply nodup_key_eq; eauto; eapply match_same_key; exact E).
      split; [assumption|]. apply find_save_match. exact E.
    - right. split; [intros ->; unfold x in E; rewrite restored_matches in E; discriminate|].
      apply find_save_nomatch; [exact E| |exact Hn].
      intros y Hg. destruct (pd d y) eqn:Ey; [|reflexivity]. exfalso.
      (* y sits under d0's DB key and matches d: then d = d0, but x does not match d *)
      apply get_out_in in Hg as [_ [Hk _]]. unfold pd, same_commit in Ey.
      apply andb_true_iff in Ey as [Ey _]. apply kid_eqb_eq in Ey.
      assert (d = d0) by (eapply nodup_key_eq; eauto; unfold x, restored_rec in Hk; cbn in Hk; congruence).
      subst d. unfold x in E. rewrite restored_matches in E. discriminate. }
  split; [|split].
  - intros d o Hd Hf. unfold find_match in Hf. fold (pd d) in Hf.
    destruct (Hcase d Hd) as [(-> & [H|(o' & H1 & H2)])|(_ & H)].
    + rewrite H in Hf. inversion Hf; subst o. cbn. discriminate.
    + rewrite H1 in Hf. inversion Hf; subst o'. eapply Hns; eauto.
    + rewrite H in Hf. eapply Hns; eauto.
  - intros d Hd Hf. unfold find_match in *. fold (pd d) in *.
    destruct (Hcase d Hd) as [(-> & [H|(o' & H1 & H2)])|(_ & H)]; congruence.
  - unfold find_match. fold (pd d0).
    destruct (Hcase d0 Hd0) as [(_ & [H|(o' & H1 & H2)])|(Hne & _)]; congruence.
Qed.

Lemma fold_restore_inv chain : forall ms w,
  NoDup (map okey (w_outs w)) -> NoDup (map co_key chain) -> (forall d, In d ms -> In d chain) ->
  NoSpentMatch chain (w_outs w) ->
  let w' := fold_left restore_missing ms w in
  NoSpentMatch chain (w_outs w')
  /\ (forall d, In d chain -> find_match (w_outs w) d <> None -> find_match (w_outs w') d <> None)
  /\ (forall d, In d ms -> find_match (w_outs w') d <> None).
Proof.
  induction ms as [|d0 r IH]; intros w Hn Hc Hsub Hns; cbn [fold_left]; [repeat split; auto; intros d []|].
  destruct (restore_missing_outs w d0) as (id & Ho & _).
  destruct (restore_step chain (w_outs w) d0 id Hn Hc (Hsub d0 (or_introl eq_refl)) Hns) as (A1 & A2 & A3).
  rewrite <- Ho in A1, A2, A3.
  assert (Hn1 : NoDup (map okey (w_outs (restore_missing w d0)))) by (rewrite Ho; now apply nodup_save).
  destruct (IH (restore_missing w d0) Hn1 Hc (fun d H => Hsub d (or_intror H)) A1) as (B1 & B2 & B3).
  split; [exact B1|]. split.
  - intros d Hd Hf. apply B2; [exact Hd|]. apply A2; assumption.
  - intros d [<-|Hd]; [|now apply B3]. apply B2; [apply Hsub; now left|exact A3].
Qed.

(* ------------------------------------------------------------------ the theorem *)
Lemma accidental_nil_ns outs l :
  (forall d o, In d l -> find_match outs d = Some o -> r_status o <> Spent) -> accidental outs l = [].
Proof.
  unfold accidental. induction l as [|d r IH]; intros H; [reflexivity|]. cbn [flat_map].
  rewrite IH by (intros d' o Hd; apply H; now right).
  destruct (find_match outs d) as [o|] eqn:E; [|reflexivity].
  pose proof (H d o (or_introl eq_refl) E) as Hs. destruct (r_status o); try reflexivity. contradiction.
Qed.

Lemma in_accidental snap chain a : In a (accidental snap chain) -> In a snap.
Proof.
  unfold accidental. intros H. apply in_flat_map in H as (d & _ & H).
  destruct (find_match snap d) as [o|] eqn:E; [|contradiction].
  destruct (status_eqb (r_status o) Spent); [|contradiction]. destruct H as [<-|[]].
  unfold find_match in E. apply find_some in E as [E _]. exact E.
Qed.

Theorem scan_repairs_any_wallet w chain :
  WF w -> NoDup (map co_key chain) ->
  let w' := scan_repair w chain false in
  (forall d, In d chain -> exists o, find_match (w_outs w') d = Some o /\ r_status o <> Spent)
  /\ scan_repair w' chain false = w'.
Proof.
  intros Hwf Hc. cbn zeta.
  set (snap := w_outs w). set (acc := accidental snap chain). set (ms := missing snap chain).
  set (w1 := fold_left (unspend chain) acc w). set (w2 := fold_left restore_missing ms w1).
  assert (Houts : w_outs (scan_repair w chain false) = w_outs w2).
  { unfold scan_repair. fold snap acc ms w1 w2. apply restore_indices_outs. }
  (* the un-spend pass *)
  assert (H1 : w_outs w1 = map (flipped chain (rev acc ++ [])) snap).
  { apply fold_unspend_outs; [exact Hwf|intros a Ha; eapply in_accidental; exact Ha|].
    unfold snap. rewrite <- (map_id (w_outs w)) at 1. apply map_ext. intros o. reflexivity. }
  rewrite app_nil_r in H1.
  assert (Hn1 : NoDup (map okey (w_outs w1))).
  { rewrite H1, map_map. erewrite map_ext; [exact Hwf|]. intros o. unfold okey.
    destruct (flipped_key chain (rev acc) o) as [-> ->]. reflexivity. }
  assert (Hfind1 : forall d, find_match (w_outs w1) d = option_map (flipped chain (rev acc)) (find_match snap d)).
  { intros d. rewrite H1. unfold find_match. apply find_map_same. intros o _.
    unfold same_commit. destruct (flipped_key chain (rev acc) o) as [-> _].
    unfold flipped. destruct (existsb _ _); [|reflexivity].
    destruct (repaired_fields chain o) as (_ & _ & -> & _). reflexivity. }
  assert (Hns1 : NoSpentMatch chain (w_outs w1)).
  { intros d o Hd Hf. rewrite Hfind1 in Hf. destruct (find_match snap d) as [y|] eqn:Ey; [|discriminate].
    cbn in Hf. inversion Hf; subst o. unfold flipped.
    destruct (existsb (fun a => okey_eqb a (r_key y) (r_mmr y)) (rev acc)) eqn:Ee;
      [destruct (repaired_fields chain y) as (_ & _ & _ & _ & _ & _ & ->); discriminate|].
    intros Hsp.
    (* a Spent first match is in the accidental list *)
    assert (Hin : In y acc).
    { unfold acc, accidental. apply in_flat_map. exists d. split; [exact Hd|]. rewrite Ey, Hsp. now left. }
    assert (existsb (fun a => okey_eqb a (r_key y) (r_mmr y)) (rev acc) = true).
    { apply existsb_exists. exists y. split; [apply in_rev in Hin; exact Hin|].
      apply okey_eqb_iff. split; reflexivity. }
    congruence. }
  (* the restore pass *)
  assert (Hsub : forall d, In d ms -> In d chain).
  { intros d Hd. unfold ms, missing in Hd. apply filter_In in Hd as [Hd _]. exact Hd. }
  destruct (fold_restore_inv chain ms w1 Hn1 Hc Hsub Hns1) as (B1 & B2 & B3). fold w2 in B1, B2, B3.
  assert (Hall : forall d, In d chain -> find_match (w_outs w2) d <> None).
  { intros d Hd. destruct (find_match snap d) as [y|] eqn:Ey.
    - apply B2; [exact Hd|]. rewrite Hfind1, Ey. discriminate.
    - apply B3. unfold ms, missing. apply filter_In. split; [exact Hd|]. now rewrite Ey. }
  split.
  - intros d Hd. rewrite Houts. destruct (find_match (w_outs w2) d) as [o|] eqn:E.
    + exists o. split; [reflexivity|]. eapply B1; eauto.
    + exfalso. exact (Hall d Hd E).
  - apply scan_noop.
    + rewrite Houts. apply accidental_nil_ns. intros d o Hd Hf. eapply B1; eauto.
    + rewrite Houts. apply missing_nil. exact Hall.
    + intros d Hd. now apply scan_child_beyond_any.
    + discriminate.
Qed.

(* ------------------------------------------------------------------ scans keep the table well-formed *)
Lemma fold_unspend_wf ch : forall acc w, WF w -> WF (fold_left (unspend ch) acc w).
Proof.
  induction acc as [|a r IH]; intros w Hw; cbn [fold_left]; [exact Hw|].
  apply IH. unfold WF. rewrite unspend_outs. now apply nodup_save.
Qed.

Lemma fold_restore_wf : forall ms w, WF w -> WF (fold_left restore_missing ms w).
Proof. intros ms w Hw. unfold WF. apply fold_restore_nodup. exact Hw. Qed.

Lemma cancel_entry_outs w o : w_outs (cancel_entry_of w o) = w_outs w.
Proof. unfold cancel_entry_of. destruct (r_tx o); [|reflexivity]. destruct (find _ _); reflexivity. Qed.

Theorem scan_repair_wf w chain del : WF w -> WF (scan_repair w chain del).
Proof.
  intros Hw. unfold scan_repair, WF. rewrite restore_indices_outs.
  set (w2 := fold_left restore_missing _ (fold_left (unspend chain) _ w)).
  assert (H2 : WF w2) by (apply fold_restore_wf; apply fold_unspend_wf; exact Hw).
  destruct del; [|exact H2].
  set (wa := fold_left (unspend chain) _ w2).
  assert (Ha : WF wa) by (apply fold_unspend_wf; exact H2).
  generalize (filter (fun o => status_eqb (r_status o) Unconfirmed) (w_outs w)).
  intros l. revert Ha. generalize wa. clear.
  induction l as [|o r IH]; intros w0 Hw0; cbn [fold_left]; [exact Hw0|].
  apply IH. unfold WF. cbn [w_outs with_outs]. rewrite cancel_entry_outs. now apply nodup_del.
Qed.

(* ------------------------------------------------------------------ scans keep keys below the counters *)
(** where the records of a scanned wallet come from: the table before, or a restored chain output *)
Definition key_origin (w : wallet) (ms : list cout) (o : orec) : Prop :=
  (exists o0, In o0 (w_outs w) /\ r_key o0 = r_key o) \/ (exists d, In d ms /\ r_key o = co_key d).

Lemma unspend_frame ch w o : w_ctxs (unspend ch w o) = w_ctxs w /\ w_child (unspend ch w o) = w_child w.
Proof. unfold unspend, cancel_entry_of. destruct (r_tx o); [destruct (find _ _)|]; cbn; auto. Qed.

Lemma fold_unspend_origin ch w0 ms : forall acc w,
  (forall a, In a acc -> exists o0, In o0 (w_outs w0) /\ r_key o0 = r_key a) ->
  (forall o, In o (w_outs w) -> key_origin w0 ms o) -> w_ctxs w = w_ctxs w0 -> w_child w = w_child w0 ->
  let w' := fold_left (unspend ch) acc w in
  (forall o, In o (w_outs w') -> key_origin w0 ms o) /\ w_ctxs w' = w_ctxs w0 /\ w_child w' = w_child w0.
Proof.
  induction acc as [|a r IH]; intros w Hacc Ho Hc Hch; cbn [fold_left]; [auto|].
  destruct (unspend_frame ch w a) as [F1 F2].
  apply IH; [intros x Hx; apply Hacc; now right| |congruence|congruence].
  intros o Hin. rewrite unspend_outs in Hin. apply in_save_out in Hin as [->|Hin]; [|auto].
  left. destruct (Hacc a (or_introl eq_refl)) as (o0 & A & B). exists o0. split; [exact A|].
  destruct (repaired_fields ch a) as (-> & _). exact B.
Qed.

Lemma restore_missing_frame w d :
  w_ctxs (restore_missing w d) = w_ctxs w /\ w_child (restore_missing w d) = w_child w.
Proof. unfold restore_missing, next_log_id. cbn. auto. Qed.

Lemma fold_restore_origin w0 ms0 : forall ms w,
  (forall d, In d ms -> In d ms0) ->
  (forall o, In o (w_outs w) -> key_origin w0 ms0 o) -> w_ctxs w = w_ctxs w0 -> w_child w = w_child w0 ->
  let w' := fold_left restore_missing ms w in
  (forall o, In o (w_outs w') -> key_origin w0 ms0 o) /\ w_ctxs w' = w_ctxs w0 /\ w_child w' = w_child w0.
Proof.
  induction ms as [|d r IH]; intros w Hsub Ho Hc Hch; cbn [fold_left]; [auto|].
  destruct (restore_missing_frame w d) as [F1 F2]. destruct (restore_missing_outs w d) as (id & E & _).
  apply IH; [intros x Hx; apply Hsub; now right| |congruence|congruence].
  intros o Hin. rewrite E in Hin. apply in_save_out in Hin as [->|Hin]; [|auto].
  right. exists d. split; [apply Hsub; now left|reflexivity].
Qed.

Lemma restore_indices_ctxs : forall found w, w_ctxs (restore_indices w found) = w_ctxs w.
Proof.
  induction found as [|kv r IH]; intros w; cbn [restore_indices fold_left]; [reflexivity|].
  unfold restore_indices in IH. rewrite IH. destruct (_ <=? _); reflexivity.
Qed.

Theorem scan_repair_fresh w chain del : Fresh w -> Fresh (scan_repair w chain del).
Proof.
  intros [Hfo Hfc]. unfold scan_repair.
  set (snap := w_outs w). set (acc := accidental snap chain). set (ms := missing snap chain).
  set (w1 := fold_left (unspend chain) acc w). set (w2 := fold_left restore_missing ms w1).
  assert (Hsnap : forall (l : list orec), (forall a, In a l -> In a snap) ->
            forall a, In a l -> exists o0, In o0 (w_outs w) /\ r_key o0 = r_key a).
  { intros l Hl a Ha. exists a. split; [apply Hl; exact Ha|reflexivity]. }
  assert (H0 : forall o, In o (w_outs w) -> key_origin w ms o) by (intros o Ho; left; eauto).
  destruct (fold_unspend_origin chain w ms acc w (Hsnap acc (fun a Ha => in_accidental snap chain a Ha)) H0 eq_refl eq_refl)
    as (A1 & A2 & A3). fold w1 in A1, A2, A3.
  destruct (fold_restore_origin w ms ms w1 (fun d H => H) A1 A2 A3) as (B1 & B2 & B3). fold w2 in B1, B2, B3.
  (* the optional third stage only un-spends snapshot records and deletes *)
  set (w3 := if del then _ else w2).
  assert (H3 : (forall o, In o (w_outs w3) -> key_origin w ms o) /\ w_ctxs w3 = w_ctxs w /\ w_child w3 = w_child w).
  { unfold w3. destruct del; [|auto].
    assert (Hloc : forall a, In a (locked_on_chain snap chain) -> In a snap).
    { unfold locked_on_chain. intros a Ha. apply in_flat_map in Ha as (d & _ & Ha).
      destruct (find_match snap d) as [o|] eqn:E; [|contradiction].
      destruct (status_eqb (r_status o) Locked); [|contradiction]. destruct Ha as [<-|[]].
      unfold find_match in E. apply find_some in E as [E _]. exact E. }
    destruct (fold_unspend_origin chain w ms (locked_on_chain snap chain) w2 (Hsnap _ Hloc) B1 B2 B3) as (C1 & C2 & C3).
    set (wa := fold_left (unspend chain) (locked_on_chain snap chain) w2) in *.
    generalize (filter (fun o => status_eqb (r_status o) Unconfirmed) snap). intros l.
    revert C1 C2 C3. generalize wa. clear -w.
    induction l as [|o r IH]; intros w0 C1 C2 C3; cbn [fold_left]; [auto|].
    apply IH.
    - intros x Hx. cbn [w_outs with_outs] in Hx. apply in_del_out in Hx. rewrite cancel_entry_outs in Hx. auto.
    - cbn. unfold cancel_entry_of. destruct (r_tx o); [destruct (find _ _)|]; cbn; exact C2.
    - cbn. unfold cancel_entry_of. destruct (r_tx o); [destruct (find _ _)|]; cbn; exact C3. }
  destruct H3 as (D1 & D2 & D3).
  set (found := found_max chain []).
  assert (Hmono : forall a, lookup (w_child w) a <= lookup (w_child (restore_indices w3 found)) a).
  { intros a. rewrite <- D3. apply restore_indices_mono. }
  split.
  - intros o Hin. rewrite restore_indices_outs in Hin. unfold key_below.
    destruct (D1 o Hin) as [(o0 & A & B)|(d & A & B)].
    + specialize (Hfo o0 A). unfold key_below in Hfo. rewrite B in Hfo.
      eapply N.lt_le_trans; [exact Hfo|apply Hmono].
    + rewrite B. assert (A' : In d chain) by (unfold ms, missing in A; apply filter_In in A as [A _]; exact A).
      eapply N.le_lt_trans; [apply (found_max_covers chain [] d A')|].
      apply restore_indices_above. apply lookup_in. now apply found_max_has_key.
  - intros c k m v Hc Hk.
    assert (Hc' : In c (w_ctxs w)) by (rewrite restore_indices_ctxs, D2 in Hc; exact Hc).
    specialize (Hfc c k m v Hc' Hk). unfold key_below in *. eapply N.lt_le_trans; [exact Hfc|apply Hmono].
Qed.
