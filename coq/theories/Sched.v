(** C20 — lock-granular model of the background refresh and of the operations that run
    concurrently with it (DESIGN.md section 6 / Appendix A.7).

    A logical thread is a state machine over a thread-local record [local] (program
    counter + the snapshot variables the Rust code keeps across lock releases). One
    [step] = one critical section ([wallet_lock!] acquisition, or the single section of an
    api::Owner / api::Foreign call) followed by the code that runs up to the next
    acquisition (node calls outside the lock). The shared state is the wallet (what the
    property names: outputs with status / tx link, log entries with type / confirmed /
    excess / proof, key index, contexts, plus confirmed / scanned heights), the node
    (height, which wallet outputs are unspent on chain, which kernels are on chain, pool,
    reachability) and the slate exchange state of the payments in flight.

    Sections follow /repo as of the C20 [fix:] commit (libwallet/src/api_impl/owner.rs
    update_wallet_state / update_txs_via_kernel / cancel_tx / scan,
    libwallet/src/internal/scan.rs scan, internal/updater.rs refresh_outputs,
    internal/tx.rs cancel_tx). The write-back section of update_txs_via_kernel exists in
    two variants: [Fresh] (the code after the fix: the entry is re-read inside the
    section) and [Stale] (the code before: the snapshot copy is saved).

    No proofs here: this file must keep evaluating when a proof breaks. The harness
    (harness/src/bin/c20.rs) runs the real code under a cooperative scheduler on the same
    schedules; checks/c20.py compares. *)
From GW Require Export Base.
From GW Require Import Select.

(** * Wallet, node, slate exchange *)

Record wout := mkWout {
  wo_child : N;          (* key derivation index: identity of the commitment *)
  wo_mmr : bool;         (* record keyed with an mmr index (restored by scan) *)
  wo_value : N;
  wo_status : status;    (* Select.status: Unconfirmed | Unspent | Locked | Spent | Reverted *)
  wo_height : N;
  wo_lock : N;
  wo_cb : bool;
  wo_tx : option N       (* tx_log_entry *)
}.

Inductive ttype := TCoinbase | TReceived | TSent | TRecvCancelled | TSentCancelled | TReverted.

Definition ttype_code (t : ttype) : N :=
  match t with TCoinbase => 0 | TReceived => 1 | TSent => 2 | TRecvCancelled => 3
             | TSentCancelled => 4 | TReverted => 5 end.

(** Kernel excess labels: [0] = an excess that is no payment's final kernel (coinbase
    kernel, partial excess stored by tx_lock_outputs); [k+1] = the kernel of slot [k]. *)
Record entry := mkEntry {
  e_id : N;
  e_slate : option N;    (* slot number of the slate *)
  e_type : ttype;
  e_conf : bool;
  e_credited : N;
  e_debited : N;
  e_fee : option N;
  e_ttl : option N;
  e_nin : N;
  e_nout : N;
  e_excess : option N;
  e_minh : option N;     (* kernel_lookup_min_height *)
  e_proof : option bool; (* payment proof stored; [Some true] = with sender signature *)
  e_stored : bool        (* stored_tx file name recorded *)
}.

Record ctx := mkCtx {
  c_slate : N;
  c_inputs : list (N * bool);   (* (child, mmr) of the inputs *)
  c_changes : list (N * N);     (* (child, value) of the change outputs *)
  c_fee : N;
  c_amount : N;
  c_proof : bool
}.

Record wallet := mkWallet {
  w_outs : list wout;
  w_log : list entry;
  w_nextid : N;          (* next tx log id *)
  w_child : N;           (* next child index of the account *)
  w_ctxs : list ctx;
  w_confh : N;           (* last confirmed height *)
  w_scanned : N;         (* last scanned block height *)
  w_init : N             (* 0 needs scanning, 1 no scanning, 2 complete *)
}.

(** What a transaction does to the wallet's outputs when it is mined. *)
Record txd := mkTxd {
  t_kernel : N;                 (* excess label *)
  t_spends : list N;            (* children of wallet outputs it spends *)
  t_creates : list (N * N)      (* (child, value) of wallet outputs it creates *)
}.

(** chain output of the wallet: child, height, value, coinbase *)
Definition chainout := (N * N * N * bool)%type.
Definition co_child (c : chainout) : N := fst (fst (fst c)).
Definition co_height (c : chainout) : N := snd (fst (fst c)).
Definition co_value (c : chainout) : N := snd (fst c).
Definition co_cb (c : chainout) : bool := snd c.

Record node := mkNode {
  n_height : N;
  n_utxo : list chainout;       (* in chain (PMMR) order *)
  n_kernels : list (N * N);     (* (label, height) *)
  n_down : bool;
  n_pool : list txd
}.

Record slot := mkSlot {
  s_has0 : bool;                (* slate after init_send exists *)
  s_has1 : bool;                (* slate after receive exists *)
  s_fin : bool;                 (* finalized transaction exists *)
  s_posted : bool;
  s_proof : bool;
  s_amount : N;
  s_fee : N;
  s_ttl : N;                    (* 0 = none *)
  s_txd : txd                   (* effect of the finalized transaction, once known *)
}.

Record state := mkState {
  st_outs : list wout;
  st_log : list entry;
  st_nextid : N;
  st_child : N;
  st_ctxs : list ctx;
  st_confh : N;
  st_scanned : N;
  st_init : N;
  st_node : node;
  st_slots : list slot
}.

(** * Helpers *)

Definition opt_eqb (a b : option N) : bool :=
  match a, b with
  | None, None => true
  | Some x, Some y => x =? y
  | _, _ => false
  end.

Definition outstanding (e : entry) : bool :=
  negb (e_conf e) &&
  match e_type e with TReceived | TSent | TReverted => true | _ => false end.

Definition find_entry (id : N) (l : list entry) : option entry :=
  find (fun e => e_id e =? id) l.

(** save_tx_log_entry: overwrite the record with the same id, else append *)
Fixpoint upsert_entry (e : entry) (l : list entry) : list entry :=
  match l with
  | [] => [e]
  | x :: r => if e_id x =? e_id e then e :: r else x :: upsert_entry e r
  end.

Definition same_out (a b : wout) : bool :=
  (wo_child a =? wo_child b) && Bool.eqb (wo_mmr a) (wo_mmr b).

Fixpoint upsert_out (o : wout) (l : list wout) : list wout :=
  match l with
  | [] => [o]
  | x :: r => if same_out x o then o :: r else x :: upsert_out o r
  end.

Definition delete_out (child : N) (mmr : bool) (l : list wout) : list wout :=
  filter (fun x => negb ((wo_child x =? child) && Bool.eqb (wo_mmr x) mmr)) l.

Definition set_status (o : wout) (s : status) : wout :=
  mkWout (wo_child o) (wo_mmr o) (wo_value o) s (wo_height o) (wo_lock o) (wo_cb o) (wo_tx o).
Definition set_height (o : wout) (h : N) : wout :=
  mkWout (wo_child o) (wo_mmr o) (wo_value o) (wo_status o) h (wo_lock o) (wo_cb o) (wo_tx o).
Definition set_tx (o : wout) (t : option N) : wout :=
  mkWout (wo_child o) (wo_mmr o) (wo_value o) (wo_status o) (wo_height o) (wo_lock o) (wo_cb o) t.

Definition set_type (e : entry) (t : ttype) : entry :=
  mkEntry (e_id e) (e_slate e) t (e_conf e) (e_credited e) (e_debited e) (e_fee e) (e_ttl e)
          (e_nin e) (e_nout e) (e_excess e) (e_minh e) (e_proof e) (e_stored e).
Definition set_conf (e : entry) (b : bool) : entry :=
  mkEntry (e_id e) (e_slate e) (e_type e) b (e_credited e) (e_debited e) (e_fee e) (e_ttl e)
          (e_nin e) (e_nout e) (e_excess e) (e_minh e) (e_proof e) (e_stored e).
Definition set_excess_proof (e : entry) (x : option N) (p : option bool) : entry :=
  mkEntry (e_id e) (e_slate e) (e_type e) (e_conf e) (e_credited e) (e_debited e) (e_fee e)
          (e_ttl e) (e_nin e) (e_nout e) x (e_minh e) p (e_stored e).

(** OutputData::{mark_unspent, mark_spent, mark_reverted} *)
Definition mark_unspent (o : wout) : wout :=
  match wo_status o with Unconfirmed | Reverted => set_status o Unspent | _ => o end.
Definition mark_spent (o : wout) : wout :=
  match wo_status o with Unspent | Locked => set_status o Spent | _ => o end.
Definition mark_reverted (o : wout) : wout :=
  match wo_status o with Unspent => set_status o Reverted | _ => o end.

Definition memN (x : N) (l : list N) : bool := existsb (N.eqb x) l.

Definition on_chain (nd : node) (child : N) : option chainout :=
  find (fun c => co_child c =? child) (n_utxo nd).

(** NodeClient::get_kernel(excess, min_height, max_height) *)
Definition kernel_found (nd : node) (lbl : option N) (minh maxh : option N) : bool :=
  match lbl with
  | None => false
  | Some 0 => false
  | Some k =>
    existsb (fun kh => (fst kh =? k)
                       && (match minh with Some m => m <=? snd kh | None => true end)
                       && (match maxh with Some m => snd kh <=? m | None => true end))
            (n_kernels nd)
  end.

Definition COINBASE_MATURITY : N := 3.   (* AutomatedTesting *)

(** * updater::refresh_outputs (the body of update_outputs and of init_send_tx's refresh) *)

Definition wstate := (list wout * list entry * N * N)%type.  (* outs, log, nextid, confh *)

(** apply_api_outputs on one selected output *)
Definition apply_one (nd : node) (height : N) (reverted : list N) (acc : list wout * list entry * N)
           (o0 : wout) : list wout * list entry * N :=
  let '(outs, log, nextid) := acc in
  (* batch.get(id, mmr_index): the record as it is now *)
  match find (same_out o0) outs with
  | None => acc
  | Some o =>
    match on_chain nd (wo_child o) with
    | Some c =>
      let '(o1, log1, nextid1) :=
        if wo_cb o && status_eqb (wo_status o) Unconfirmed then
          let t := mkEntry nextid None TCoinbase true (wo_value o) 0 None None 0 1
                           (Some 0) (Some height) None false in
          (set_tx o (Some nextid), log ++ [t], nextid + 1)
        else (o, log, nextid) in
      let log2 :=
        if negb (wo_cb o1) && (status_eqb (wo_status o1) Unconfirmed
                               || status_eqb (wo_status o1) Reverted) then
          match wo_tx o1 with
          | Some id =>
            match find_entry id log1 with
            | Some t =>
              let t1 := match e_type t with TReverted => set_type t TReceived | _ => t end in
              upsert_entry (set_conf t1 true) log1
            | None => log1
            end
          | None => log1
          end
        else log1 in
      (upsert_out (mark_unspent (set_height o1 (co_height c))) outs, log2, nextid1)
    | None =>
      let o1 :=
        if negb (wo_cb o) && (match wo_tx o with Some i => memN i reverted | None => false end)
        then mark_reverted o else mark_spent o in
      (upsert_out o1 outs, log, nextid)
    end
  end.

Definition refresh_outputs (nd : node) (update_all : bool) (ws : wstate) : option wstate :=
  let '(outs, log, nextid, confh) := ws in
  if n_down nd then None
  else
    let height := n_height nd in
    let outst := map e_id (filter outstanding log) in
    let sel := filter (fun o => negb (status_eqb (wo_status o) Spent)
                                && (update_all
                                    || match wo_tx o with Some t => memN t outst | None => true end))
                      outs in
    let cand := flat_map (fun o => match wo_tx o with
                                   | Some t => if status_eqb (wo_status o) Unspent
                                                  && (match on_chain nd (wo_child o) with
                                                      | None => true | Some _ => false end)
                                               then [t] else []
                                   | None => [] end) sel in
    let reverted :=
      map e_id (filter (fun t => memN (e_id t) cand
                                 && (match e_type t with TReceived => true | _ => false end)
                                 && (match e_excess t with Some _ => true | None => false end)
                                 && negb (kernel_found nd (e_excess t) (e_minh t) None)) log) in
    let '(outs1, log1, nextid1, confh1) :=
      if height <? confh then (outs, log, nextid, confh)
      else
        let '(o1, l1, n1) := fold_left (apply_one nd height reverted) sel (outs, log, nextid) in
        let l2 := map (fun t => if memN (e_id t) reverted
                                then set_conf (set_type t TReverted) false else t) l1 in
        (o1, l2, n1, height) in
    (* clean_old_unconfirmed *)
    let outs2 :=
      if height <? 50 then outs1
      else filter (fun o => negb (status_eqb (wo_status o) Unconfirmed
                                  && (0 <? wo_height o) && (wo_height o <? height - 50)
                                  && wo_cb o && negb (wo_mmr o))) outs1 in
    Some (outs2, log1, nextid1, confh1).

(** * tx::cancel_tx *)

Inductive sel := ById (id : N) | BySlate (s : N).

Definition sel_match (q : sel) (e : entry) : bool :=
  match q with
  | ById i => e_id e =? i
  | BySlate s => opt_eqb (e_slate e) (Some s)
  end.

(** returns the result code (0 ok, 109 does not exist, 110 not cancellable) *)
Definition cancel_tx (q : sel) (outs : list wout) (log : list entry)
  : N * list wout * list entry :=
  match filter (sel_match q) log with
  | [t] =>
    match e_type t with
    | TSent | TReceived | TReverted =>
      if e_conf t then (110, outs, log)
      else
        let mine := filter (fun o => negb (status_eqb (wo_status o) Spent)
                                     && opt_eqb (wo_tx o) (Some (e_id t))) outs in
        let outs1 :=
          fold_left (fun acc o =>
                       match wo_status o with
                       | Unconfirmed | Reverted => delete_out (wo_child o) (wo_mmr o) acc
                       | Locked => upsert_out (set_status o Unspent) acc
                       | _ => acc
                       end) mine outs in
        let t1 := match e_type t with
                  | TSent => set_type t TSentCancelled
                  | _ => set_type t TRecvCancelled
                  end in
        (0, outs1, upsert_entry t1 log)
    | _ => (110, outs, log)
    end
  | _ => (109, outs, log)
  end.

(** scan::cancel_tx_log_entry *)
Definition cancel_log_entry (o : wout) (log : list entry) : list entry :=
  match wo_tx o with
  | Some id =>
    match find_entry id log with
    | Some t =>
      let t1 := match e_type t with
                | TSent => set_type t TSentCancelled
                | TReceived => set_type t TRecvCancelled
                | _ => t
                end in
      upsert_entry t1 log
    | None => log
    end
  | None => log
  end.

(** * Threads *)

Inductive kind :=
| KRefresh                                   (* owner::update_wallet_state(update_all = false) *)
| KScan (del : bool)                         (* owner::scan(start_height = None, delete_unconfirmed) *)
| KCancel (slot : N)                         (* owner::cancel_tx by slate id *)
| KTxs                                       (* owner::retrieve_txs(refresh_from_node = true) *)
| KInit (slot amount : N) (aif proof all : bool)  (* owner::init_send_tx *)
| KReceive (slot : N)                        (* foreign::receive_tx *)
| KLock (slot : N)                           (* owner::tx_lock_outputs *)
| KFinalize (slot : N)                       (* owner::finalize_tx *)
| KCpfin (slot : N)                          (* counterparty finalizes + posts; block mined *)
| KPostmine                                  (* finalized txs posted; block mined *)
| KMine                                      (* empty block *)
| KDown | KUp.                               (* node unreachable / reachable *)

Inductive pc :=
| P_U1 | P_U2 | P_U3 | P_U4 | P_U6 | P_U7 | P_U8
| P_ST | P_S1 | P_S2 | P_S3 | P_S4 | P_S5 | P_S6 | P_S7 | P_S8 | P_S9 | P_S10
| P_U9 | P_U10 | P_SF | P_CF | P_TF | P_OP | P_DONE.

Inductive wbmode := Fresh | Stale.

Record local := mkLocal {
  l_kind : kind;
  l_pc : pc;
  l_txs : list entry;       (* update_wallet_state: txs (snapshot of the outstanding entries) *)
  l_todo : list entry;      (* update_txs_via_kernel: rest of the loop, head = entry being confirmed *)
  l_ktip : N;               (* update_txs_via_kernel: height *)
  l_tip : N;                (* update_wallet_state / owner::scan: tip *)
  l_start : N;              (* scan start height *)
  l_chain : list chainout;  (* scan: chain outputs of this wallet *)
  l_acc : list wout;        (* scan: accidental_spend_outs still to do *)
  l_missing : list chainout;
  l_locked : list wout;
  l_unconf : list wout;
  l_found : option N;       (* scan: found_parents[account 0] *)
  l_ttl : list entry;       (* update_wallet_state step 5: rest of the loop *)
  l_res : N;                (* result code once done *)
  l_steps : N               (* sections executed (for the correspondence) *)
}.

Definition init_local (k : kind) : local :=
  mkLocal k
          (match k with
           | KRefresh | KCancel _ | KTxs => P_U1
           | KScan _ => P_U3
           | _ => P_OP
           end)
          [] [] 0 0 0 [] [] [] [] [] None [] 999 0.

Definition with_pc (l : local) (p : pc) : local :=
  mkLocal (l_kind l) p (l_txs l) (l_todo l) (l_ktip l) (l_tip l) (l_start l) (l_chain l)
          (l_acc l) (l_missing l) (l_locked l) (l_unconf l) (l_found l) (l_ttl l) (l_res l)
          (l_steps l).
Definition finish (l : local) (code : N) : local :=
  mkLocal (l_kind l) P_DONE (l_txs l) (l_todo l) (l_ktip l) (l_tip l) (l_start l) (l_chain l)
          (l_acc l) (l_missing l) (l_locked l) (l_unconf l) (l_found l) (l_ttl l) code
          (l_steps l).
Definition set_txs (l : local) (t : list entry) : local :=
  mkLocal (l_kind l) (l_pc l) t (l_todo l) (l_ktip l) (l_tip l) (l_start l) (l_chain l)
          (l_acc l) (l_missing l) (l_locked l) (l_unconf l) (l_found l) (l_ttl l) (l_res l)
          (l_steps l).
Definition set_todo (l : local) (t : list entry) : local :=
  mkLocal (l_kind l) (l_pc l) (l_txs l) t (l_ktip l) (l_tip l) (l_start l) (l_chain l)
          (l_acc l) (l_missing l) (l_locked l) (l_unconf l) (l_found l) (l_ttl l) (l_res l)
          (l_steps l).
Definition set_ktip (l : local) (h : N) : local :=
  mkLocal (l_kind l) (l_pc l) (l_txs l) (l_todo l) h (l_tip l) (l_start l) (l_chain l)
          (l_acc l) (l_missing l) (l_locked l) (l_unconf l) (l_found l) (l_ttl l) (l_res l)
          (l_steps l).
Definition set_tip (l : local) (h : N) : local :=
  mkLocal (l_kind l) (l_pc l) (l_txs l) (l_todo l) (l_ktip l) h (l_start l) (l_chain l)
          (l_acc l) (l_missing l) (l_locked l) (l_unconf l) (l_found l) (l_ttl l) (l_res l)
          (l_steps l).
Definition set_start (l : local) (h : N) : local :=
  mkLocal (l_kind l) (l_pc l) (l_txs l) (l_todo l) (l_ktip l) (l_tip l) h (l_chain l)
          (l_acc l) (l_missing l) (l_locked l) (l_unconf l) (l_found l) (l_ttl l) (l_res l)
          (l_steps l).
Definition set_chain (l : local) (c : list chainout) : local :=
  mkLocal (l_kind l) (l_pc l) (l_txs l) (l_todo l) (l_ktip l) (l_tip l) (l_start l) c
          (l_acc l) (l_missing l) (l_locked l) (l_unconf l) (l_found l) (l_ttl l) (l_res l)
          (l_steps l).
Definition set_queues (l : local) (a : list wout) (m : list chainout) (k u : list wout) : local :=
  mkLocal (l_kind l) (l_pc l) (l_txs l) (l_todo l) (l_ktip l) (l_tip l) (l_start l) (l_chain l)
          a m k u (l_found l) (l_ttl l) (l_res l) (l_steps l).
Definition set_found (l : local) (f : option N) : local :=
  mkLocal (l_kind l) (l_pc l) (l_txs l) (l_todo l) (l_ktip l) (l_tip l) (l_start l) (l_chain l)
          (l_acc l) (l_missing l) (l_locked l) (l_unconf l) f (l_ttl l) (l_res l) (l_steps l).
Definition set_ttl (l : local) (t : list entry) : local :=
  mkLocal (l_kind l) (l_pc l) (l_txs l) (l_todo l) (l_ktip l) (l_tip l) (l_start l) (l_chain l)
          (l_acc l) (l_missing l) (l_locked l) (l_unconf l) (l_found l) t (l_res l) (l_steps l).
Definition tick (l : local) : local :=
  mkLocal (l_kind l) (l_pc l) (l_txs l) (l_todo l) (l_ktip l) (l_tip l) (l_start l) (l_chain l)
          (l_acc l) (l_missing l) (l_locked l) (l_unconf l) (l_found l) (l_ttl l) (l_res l)
          (l_steps l + 1).

(** ** Control flow between sections (code outside the lock; reads the node only) *)

(** update_wallet_state has returned [r]: 0 = Ok(true), 50 = Ok(false), else Err *)
Definition after_refresh (l : local) (r : N) : local :=
  match l_kind l with
  | KCancel _ =>
    if r =? 0 then with_pc l P_CF
    else if r =? 50 then finish l 121    (* TransactionCancellationError *)
    else finish l r
  | KTxs =>
    if (r =? 0) || (r =? 50) then with_pc l P_TF else finish l r
  | _ => finish l r
  end.

(** update_wallet_state step 5: next snapshot entry whose TTL has expired *)
Fixpoint next_ttl (tip : N) (txs : list entry) : option (entry * list entry) :=
  match txs with
  | [] => None
  | t :: r =>
    match e_ttl t with
    | Some e => if e <=? tip then Some (t, r) else next_ttl tip r
    | None => next_ttl tip r
    end
  end.

Definition ttl_loop (l : local) (txs : list entry) : local :=
  match next_ttl (l_tip l) txs with
  | Some (t, r) => with_pc (set_ttl l (t :: r)) P_U10
  | None => after_refresh l 0
  end.

(** update_txs_via_kernel: the loop over the snapshot, up to the next kernel found *)
Fixpoint kernel_loop (nd : node) (l : local) (txs : list entry) : local :=
  match txs with
  | [] =>
    (* back in update_wallet_state, step 3: client.get_chain_tip() *)
    if n_down nd then after_refresh l 50
    else with_pc (set_tip l (n_height nd)) P_U8
  | t :: r =>
    if e_conf t then kernel_loop nd l r
    else if negb (e_debited t =? 0) && negb (e_credited t =? 0) then kernel_loop nd l r
    else
      match e_excess t with
      | None => kernel_loop nd l r
      | Some _ =>
        if n_down nd then after_refresh l 50
        else if kernel_found nd (e_excess t) (e_minh t) (Some (l_ktip l))
             then with_pc (set_todo l (t :: r)) P_U7
             else kernel_loop nd l r
      end
  end.

(** scan: after the wallet snapshot, the queues of repairs; then the next section *)
Definition scan_del (l : local) : bool :=
  match l_kind l with KScan d => d | _ => false end.

Definition after_scan_body (l : local) : local :=
  (* scan::scan returned; owner::scan saves the block, update_wallet_state goes to U9 *)
  match l_kind l with
  | KScan _ => with_pc l P_SF
  | _ => with_pc l P_U9
  end.

Definition scan_next (l : local) : local :=
  match l_acc l with
  | _ :: _ => with_pc l P_S3
  | [] =>
    match l_missing l with
    | _ :: _ => with_pc l P_S5
    | [] =>
      if scan_del l then
        match l_locked l with
        | _ :: _ => with_pc l P_S6
        | [] =>
          match l_unconf l with
          | _ :: _ => with_pc l P_S8
          | [] => with_pc l P_S10
          end
        end
      else with_pc l P_S10
    end
  end.

(** * One step of a thread *)

Definition ok_code := 0.

Definition set_node (s : state) (nd : node) : state :=
  mkState (st_outs s) (st_log s) (st_nextid s) (st_child s) (st_ctxs s) (st_confh s)
          (st_scanned s) (st_init s) nd (st_slots s).
Definition set_ws (s : state) (ws : wstate) : state :=
  let '(o, lg, n, c) := ws in
  mkState o lg n (st_child s) (st_ctxs s) c (st_scanned s) (st_init s) (st_node s) (st_slots s).
Definition set_outs_log (s : state) (o : list wout) (lg : list entry) : state :=
  mkState o lg (st_nextid s) (st_child s) (st_ctxs s) (st_confh s) (st_scanned s) (st_init s)
          (st_node s) (st_slots s).
Definition set_log (s : state) (lg : list entry) : state :=
  mkState (st_outs s) lg (st_nextid s) (st_child s) (st_ctxs s) (st_confh s) (st_scanned s)
          (st_init s) (st_node s) (st_slots s).
Definition set_outs (s : state) (o : list wout) : state :=
  mkState o (st_log s) (st_nextid s) (st_child s) (st_ctxs s) (st_confh s) (st_scanned s)
          (st_init s) (st_node s) (st_slots s).
Definition set_slots (s : state) (sl : list slot) : state :=
  mkState (st_outs s) (st_log s) (st_nextid s) (st_child s) (st_ctxs s) (st_confh s)
          (st_scanned s) (st_init s) (st_node s) sl.

Definition nth_slot (s : state) (k : N) : option slot := nth_error (st_slots s) (N.to_nat k).
Fixpoint update_nth {A} (n : nat) (x : A) (l : list A) : list A :=
  match l, n with
  | [], _ => []
  | _ :: r, O => x :: r
  | y :: r, S n' => y :: update_nth n' x r
  end.

(** mine one block with the pool's transactions (or none) *)
Definition mine_block (nd : node) (txs : list txd) (keep_pool : bool) : node :=
  let h := n_height nd + 1 in
  let spent := flat_map t_spends txs in
  let utxo1 := filter (fun c => negb (memN (co_child c) spent)) (n_utxo nd) in
  let created := flat_map (fun t => map (fun cv => (fst cv, h, snd cv, false)) (t_creates t)) txs in
  mkNode h (utxo1 ++ created) (n_kernels nd ++ map (fun t => (t_kernel t, h)) txs)
         (n_down nd) (if keep_pool then n_pool nd else []).

(** wallet outputs as Select.out records (for init_send's coin selection); [o_key] is the
    position in the list *)
Fixpoint to_sel (i : N) (l : list wout) : list out :=
  match l with
  | [] => []
  | o :: r => mkOut 0 i (wo_value o) (wo_status o) (wo_height o) (wo_lock o) (wo_cb o)
              :: to_sel (i + 1) r
  end.

Definition err_res (e : err) : N := 100 + Z.to_N (err_code e).

Fixpoint alloc_children (next : N) (vals : list N) : list (N * N) :=
  match vals with
  | [] => []
  | v :: r => (next, v) :: alloc_children (next + 1) r
  end.

(** the single section of an owner / foreign operation or an environment event *)
Definition op_step (l : local) (s : state) : local * state :=
  let nd := st_node s in
  match l_kind l with
  | KReceive k =>
    match nth_slot s k with
    | Some sl =>
      if negb (s_has0 sl) then (finish l 99, s)
      else if negb (s_ttl sl =? 0) && (s_ttl sl <=? st_confh s) then (finish l 107, s)
      else if existsb (fun e => opt_eqb (e_slate e) (Some k)
                                && match e_type e with TReceived => true | _ => false end)
                      (st_log s)
           then (finish l 105, s)
      else
        let child := st_child s in
        let id := st_nextid s in
        let o := mkWout child false (s_amount sl) Unconfirmed (st_confh s) 0 false (Some id) in
        let t := mkEntry id (Some k) TReceived false (s_amount sl) 0 None
                         (if s_ttl sl =? 0 then None else Some (s_ttl sl)) 0 1
                         (Some (k + 1)) (Some (st_confh s)) None false in
        let sl1 := mkSlot true true (s_fin sl) (s_posted sl) (s_proof sl) (s_amount sl)
                          (s_fee sl) (s_ttl sl) (mkTxd (k + 1) [] [(child, s_amount sl)]) in
        (finish l 0,
         mkState (st_outs s ++ [o]) (st_log s ++ [t]) (id + 1) (child + 1) (st_ctxs s)
                 (st_confh s) (st_scanned s) (st_init s) nd (update_nth (N.to_nat k) sl1 (st_slots s)))
    | None => (finish l 99, s)
    end
  | KLock k =>
    match nth_slot s k with
    | Some sl =>
      if negb (s_has1 sl) then (finish l 99, s)
      else
        match find (fun c => c_slate c =? k) (st_ctxs s) with
        | None => (finish l 121, s)
        | Some c =>
          if n_down nd then (finish l 119, s)
          else
            let h := n_height nd in
            let id := st_nextid s in
            let ins := flat_map (fun cm => filter (fun o => (wo_child o =? fst cm)
                                                           && Bool.eqb (wo_mmr o) (snd cm))
                                                  (st_outs s)) (c_inputs c) in
            if negb (length ins =? length (c_inputs c))%nat then (finish l 200, s)
            else
              let debited := sumN (map wo_value ins) in
              let outs1 := fold_left (fun acc o => upsert_out (set_status (set_tx o (Some id)) Locked) acc)
                                     ins (st_outs s) in
              let changes := map (fun cv => mkWout (fst cv) false (snd cv) Unconfirmed h 0 false (Some id))
                                 (c_changes c) in
              let outs2 := fold_left (fun acc o => upsert_out o acc) changes outs1 in
              let t := mkEntry id (Some k) TSent false (sumN (map snd (c_changes c))) debited
                               (Some (c_fee c))
                               (if s_ttl sl =? 0 then None else Some (s_ttl sl))
                               (lenN (c_inputs c)) (lenN (c_changes c)) (Some 0) (Some h)
                               (if c_proof c then Some false else None) true in
              (finish l 0,
               mkState outs2 (st_log s ++ [t]) (id + 1) (st_child s) (st_ctxs s) (st_confh s)
                       (st_scanned s) (st_init s) nd (st_slots s))
        end
    | None => (finish l 99, s)
    end
  | KFinalize k =>
    match nth_slot s k with
    | Some sl =>
      if negb (s_has1 sl) then (finish l 99, s)
      else
        match find (fun c => c_slate c =? k) (st_ctxs s) with
        | None => (finish l 121, s)
        | Some c =>
          if negb (s_ttl sl =? 0) && (s_ttl sl <=? st_confh s) then (finish l 107, s)
          else
            (* repopulate_tx silently skips inputs / change outputs it does not find in the
               wallet (by key id); the incomplete transaction then fails to finalize
               (KernelSumMismatch) *)
            let have := fun ch => existsb (fun o => wo_child o =? ch) (st_outs s) in
            if negb (forallb (fun cm => have (fst cm)) (c_inputs c)
                     && forallb (fun cv => have (fst cv)) (c_changes c))
            then (finish l 117, s)
            else
              (* verify_slate_payment_proof: first entry with this slate id *)
              let mine := filter (fun e => opt_eqb (e_slate e) (Some k)) (st_log s) in
              match mine with
              | [] => (finish l 116, s)
              | t0 :: _ =>
                if c_proof c && (match e_proof t0 with None => true | Some _ => false end)
                then (finish l 116, s)
                else
                  (* update_stored_tx: first TxSent entry with this slate id *)
                  match find (fun e => match e_type e with TSent => true | _ => false end) mine with
                  | None => (finish l 109, s)
                  | Some t =>
                    let t1 := set_excess_proof t (Some (k + 1))
                                               (if c_proof c then Some true else e_proof t) in
                    let sl1 := mkSlot (s_has0 sl) (s_has1 sl) true (s_posted sl) (s_proof sl)
                                      (s_amount sl) (s_fee sl) (s_ttl sl)
                                      (mkTxd (k + 1) (map fst (c_inputs c)) (c_changes c)) in
                    (finish l 0,
                     mkState (st_outs s) (upsert_entry t1 (st_log s)) (st_nextid s) (st_child s)
                             (filter (fun x => negb (c_slate x =? k)) (st_ctxs s)) (st_confh s)
                             (st_scanned s) (st_init s) nd
                             (update_nth (N.to_nat k) sl1 (st_slots s)))
                  end
              end
        end
    | None => (finish l 99, s)
    end
  | KInit k amount aif proof all =>
    if n_down nd then (finish l 119, s)
    else
      match refresh_outputs nd false (st_outs s, st_log s, st_nextid s, st_confh s) with
      | None => (finish l 119, s)
      | Some ws =>
        let s1 := set_ws s ws in
        let p := mkParams amount aif (n_height nd) 1 500 1 all 0 in
        match build_send (to_sel 0 (st_outs s1)) p with
        | Ok b =>
          let changes := alloc_children (st_child s1) (b_changes b) in
          let ins := map (fun o => match nth_error (st_outs s1) (N.to_nat (o_key o)) with
                                   | Some w => (wo_child w, wo_mmr w)
                                   | None => (0, false) end) (b_inputs b) in
          let c := mkCtx k ins changes (b_fee b) (b_amount b) proof in
          let sl1 := mkSlot true false false false proof (b_amount b) (b_fee b) 0 (mkTxd (k + 1) [] []) in
          (finish l 0,
           mkState (st_outs s1) (st_log s1) (st_nextid s1) (st_child s1 + lenN (b_changes b))
                   (st_ctxs s1 ++ [c]) (st_confh s1) (st_scanned s1) (st_init s1) nd
                   (update_nth (N.to_nat k) sl1 (st_slots s1)))
        | Err e => (finish l (err_res e), s1)
        | Panic _ => (finish l 200, s1)
        end
      end
  | KCpfin k =>
    let nd1 :=
      match nth_slot s k with
      | Some sl =>
        if s_has1 sl && negb (s_fin sl)
        then (mkNode (n_height nd) (n_utxo nd) (n_kernels nd) (n_down nd)
                     (if n_down nd then n_pool nd else n_pool nd ++ [s_txd sl]), true)
        else (nd, false)
      | None => (nd, false)
      end in
    let slots1 :=
      match nth_slot s k with
      | Some sl =>
        if snd nd1 then update_nth (N.to_nat k)
                                   (mkSlot (s_has0 sl) (s_has1 sl) true true (s_proof sl) (s_amount sl)
                                           (s_fee sl) (s_ttl sl) (s_txd sl)) (st_slots s)
        else st_slots s
      | None => st_slots s
      end in
    (finish l (if snd nd1 then 0 else 99),
     set_slots (set_node s (mine_block (fst nd1) (n_pool (fst nd1)) false)) slots1)
  | KPostmine =>
    let to_post := filter (fun sl => s_fin sl && negb (s_posted sl)) (st_slots s) in
    let pool1 := if n_down nd then n_pool nd else n_pool nd ++ map s_txd to_post in
    let slots1 := map (fun sl => if s_fin sl && negb (s_posted sl)
                                 then mkSlot (s_has0 sl) (s_has1 sl) true true (s_proof sl)
                                             (s_amount sl) (s_fee sl) (s_ttl sl) (s_txd sl)
                                 else sl) (st_slots s) in
    let nd1 := mkNode (n_height nd) (n_utxo nd) (n_kernels nd) (n_down nd) pool1 in
    (finish l 0, set_slots (set_node s (mine_block nd1 pool1 false)) slots1)
  | KMine => (finish l 0, set_node s (mine_block nd [] true))
  | KDown => (finish l 0, set_node s (mkNode (n_height nd) (n_utxo nd) (n_kernels nd) true (n_pool nd)))
  | KUp => (finish l 0, set_node s (mkNode (n_height nd) (n_utxo nd) (n_kernels nd) false (n_pool nd)))
  | _ => (finish l 200, s)
  end.

(** scan: classification of the chain outputs against the wallet snapshot *)
Definition classify (chain : list chainout) (wouts : list wout)
  : list wout * list chainout * list wout :=
  fold_left (fun acc c =>
               let '(a, m, k) := acc in
               match find (fun o => wo_child o =? co_child c) wouts with
               | Some o =>
                 (if status_eqb (wo_status o) Spent then a ++ [o] else a, m,
                  if status_eqb (wo_status o) Locked then k ++ [o] else k)
               | None => (a, m ++ [c], k)
               end) chain ([], [], []).

Definition step (m : wbmode) (l0 : local) (s : state) : local * state :=
  let nd := st_node s in
  let l := tick l0 in
  match l_pc l0 with
  | P_DONE => (l0, s)
  | P_OP => op_step l s
  | P_U1 => (with_pc l P_U2, s)
  | P_U2 => (with_pc l P_U3, s)
  | P_U3 =>
    let upd_all := match l_kind l with KScan _ => true | _ => false end in
    match refresh_outputs nd upd_all (st_outs s, st_log s, st_nextid s, st_confh s) with
    | Some ws =>
      (match l_kind l with KScan _ => with_pc l P_ST | _ => with_pc l P_U4 end, set_ws s ws)
    | None =>
      (match l_kind l with KScan _ => with_pc l P_ST | _ => after_refresh l 50 end, s)
    end
  | P_U4 => (with_pc (set_txs l (filter outstanding (st_log s))) P_U6, s)
  | P_U6 =>
    if n_down nd then (after_refresh l 50, s)
    else
      let l1 := set_ktip l (n_height nd) in
      (kernel_loop nd l1 (l_txs l1), s)
  | P_U7 =>
    match l_todo l with
    | [] => (finish l 200, s)
    | t :: r =>
      let log1 :=
        match m with
        | Stale => upsert_entry (set_conf t true) (st_log s)
        | Fresh =>
          match find_entry (e_id t) (st_log s) with
          | Some cur =>
            if outstanding cur && opt_eqb (e_excess cur) (e_excess t)
            then upsert_entry (set_conf cur true) (st_log s)
            else st_log s
          | None => st_log s
          end
        end in
      (kernel_loop nd l r, set_log s log1)
    end
  | P_U8 =>
    let last := if st_init s =? 0 then 0 else if st_init s =? 1 then l_tip l else st_scanned s in
    (with_pc (set_start l (last - 100)) P_S1, s)
  | P_ST =>
    if n_down nd then (finish l 119, s)
    else (with_pc (set_start (set_tip l (n_height nd)) 1) P_S1, s)
  | P_S1 =>
    if n_down nd then (after_refresh l 119, s)
    else
      let chain := filter (fun c => (l_start l <=? co_height c) && (co_height c <=? l_tip l))
                          (n_utxo nd) in
      (with_pc (set_chain l chain) P_S2, s)
  | P_S2 =>
    let '(a, mi, k) := classify (l_chain l) (st_outs s) in
    let u := filter (fun o => status_eqb (wo_status o) Unconfirmed) (st_outs s) in
    (scan_next (set_queues l a mi k u), s)
  | P_S3 =>
    match l_acc l with
    | o :: _ => (with_pc l P_S4, set_log s (cancel_log_entry o (st_log s)))
    | [] => (finish l 200, s)
    end
  | P_S4 =>
    match l_acc l with
    | o :: r => (scan_next (set_queues l r (l_missing l) (l_locked l) (l_unconf l)),
                 set_outs s (upsert_out (set_status o Unspent) (st_outs s)))
    | [] => (finish l 200, s)
    end
  | P_S5 =>
    match l_missing l with
    | c :: r =>
      let id := st_nextid s in
      let t := mkEntry id None (if co_cb c then TCoinbase else TReceived) true (co_value c) 0
                       None None 0 1 None None None false in
      let o := mkWout (co_child c) true (co_value c) Unspent (co_height c)
                      (if co_cb c then co_height c + COINBASE_MATURITY else co_height c)
                      (co_cb c) (Some id) in
      let f := match l_found l with
               | None => Some (co_child c)   (* inserted as 0, then n_child >= 0 *)
               | Some mx => if mx <=? co_child c then Some (co_child c) else Some mx
               end in
      (scan_next (set_found (set_queues l (l_acc l) r (l_locked l) (l_unconf l)) f),
       mkState (upsert_out o (st_outs s)) (st_log s ++ [t]) (id + 1) (st_child s) (st_ctxs s)
               (st_confh s) (st_scanned s) (st_init s) nd (st_slots s))
    | [] => (finish l 200, s)
    end
  | P_S6 =>
    match l_locked l with
    | o :: _ => (with_pc l P_S7, set_log s (cancel_log_entry o (st_log s)))
    | [] => (finish l 200, s)
    end
  | P_S7 =>
    match l_locked l with
    | o :: r => (scan_next (set_queues l (l_acc l) (l_missing l) r (l_unconf l)),
                 set_outs s (upsert_out (set_status o Unspent) (st_outs s)))
    | [] => (finish l 200, s)
    end
  | P_S8 =>
    match l_unconf l with
    | o :: _ => (with_pc l P_S9, set_log s (cancel_log_entry o (st_log s)))
    | [] => (finish l 200, s)
    end
  | P_S9 =>
    match l_unconf l with
    | o :: r => (scan_next (set_queues l (l_acc l) (l_missing l) (l_locked l) r),
                 set_outs s (delete_out (wo_child o) (wo_mmr o) (st_outs s)))
    | [] => (finish l 200, s)
    end
  | P_S10 =>
    let child1 := match l_found l with
                  | Some mx => if st_child s <=? mx then mx + 1 else st_child s
                  | None => st_child s
                  end in
    (after_scan_body l,
     mkState (st_outs s) (st_log s) (st_nextid s) child1 (st_ctxs s) (st_confh s)
             (st_scanned s) (st_init s) nd (st_slots s))
  | P_U9 =>
    (ttl_loop l (l_txs l),
     mkState (st_outs s) (st_log s) (st_nextid s) (st_child s) (st_ctxs s) (st_confh s)
             (l_tip l) 2 nd (st_slots s))
  | P_U10 =>
    match l_ttl l with
    | t :: r =>
      let '(code, o1, lg1) := cancel_tx (ById (e_id t)) (st_outs s) (st_log s) in
      if code =? 0 then (ttl_loop l r, set_outs_log s o1 lg1)
      else (after_refresh l code, s)
    | [] => (finish l 200, s)
    end
  | P_SF =>
    (finish l 0,
     mkState (st_outs s) (st_log s) (st_nextid s) (st_child s) (st_ctxs s) (st_confh s)
             (l_tip l) (st_init s) nd (st_slots s))
  | P_CF =>
    match l_kind l with
    | KCancel k =>
      let '(code, o1, lg1) := cancel_tx (BySlate k) (st_outs s) (st_log s) in
      (finish l code, if code =? 0 then set_outs_log s o1 lg1 else s)
    | _ => (finish l 200, s)
    end
  | P_TF => (finish l 0, s)
  end.

Definition done (l : local) : bool :=
  match l_pc l with P_DONE => true | _ => false end.

(** * Schedules *)

Definition config := (list local * state)%type.

Definition step_thread (m : wbmode) (t : N) (c : config) : config :=
  match nth_error (fst c) (N.to_nat t) with
  | Some l =>
    let '(l', s') := step m l (snd c) in
    (update_nth (N.to_nat t) l' (fst c), s')
  | None => c
  end.

Definition run (m : wbmode) (sched : list N) (c : config) : config :=
  fold_left (fun c t => step_thread m t c) sched c.

Definition all_done (c : config) : bool := forallb done (fst c).

(** environment threads (node and counterparty events) may land anywhere also in a serial
    execution of the wallet's operations *)
Definition is_env (k : kind) : bool :=
  match k with KCpfin _ | KPostmine | KMine | KDown | KUp => true | _ => false end.

(** the observation the property compares: the wallet state it names and the result of
    every owner / foreign operation (the refresh's own return value is not compared) *)
Definition obs_result (l : local) : N :=
  match l_kind l with
  | KRefresh | KScan _ => 0
  | k => if is_env k then 0 else l_res l
  end.

(** * Canonical encoding (shared with checks/c20.py) *)

Definition zN (n : N) : Z := Z.of_N n.
Definition zO (o : option N) : Z := match o with Some n => Z.of_N n | None => (-1)%Z end.
Definition zB (b : bool) : Z := if b then 1%Z else 0%Z.
Definition status_code (s : status) : Z :=
  match s with Unconfirmed => 0 | Unspent => 1 | Locked => 2 | Spent => 3 | Reverted => 4 end%Z.

Definition enc_out (o : wout) : list Z :=
  [1%Z; zN (wo_child o); zB (wo_mmr o); zN (wo_value o); status_code (wo_status o);
   zN (wo_height o); zN (wo_lock o); zB (wo_cb o); zO (wo_tx o)].
Definition enc_entry (e : entry) : list Z :=
  [2%Z; zN (e_id e); zO (e_slate e); zN (ttype_code (e_type e)); zB (e_conf e);
   zN (e_credited e); zN (e_debited e); zO (e_fee e); zO (e_ttl e); zN (e_nin e); zN (e_nout e);
   zO (e_excess e); zO (e_minh e);
   match e_proof e with None => 0 | Some false => 1 | Some true => 2 end%Z; zB (e_stored e)].
Definition enc_slot (sl : slot) : list Z :=
  [3%Z; zB (s_has0 sl); zB (s_has1 sl); zB (s_fin sl); zB (s_posted sl)].

Definition enc_config (c : config) : list (list Z) :=
  let s := snd c in
  [map (fun l => zN (l_steps l)) (fst c);
   map (fun l => zN (l_res l)) (fst c);
   [zN (st_child s); zN (st_nextid s); zN (st_confh s); zN (st_scanned s); zN (st_init s);
    zN (n_height (st_node s)); zB (all_done c)];
   map (fun x => zN (c_slate x)) (st_ctxs s)]
  ++ map enc_out (st_outs s) ++ map enc_entry (st_log s) ++ map enc_slot (st_slots s).

(** * Trace of a schedule: which section each step executed *)

Definition pc_code (p : pc) : N :=
  match p with
  | P_U1 => 1 | P_U2 => 2 | P_U3 => 3 | P_U4 => 4 | P_U6 => 6 | P_U7 => 7 | P_U8 => 8
  | P_ST => 20 | P_S1 => 21 | P_S2 => 22 | P_S3 => 23 | P_S4 => 24 | P_S5 => 25 | P_S6 => 26
  | P_S7 => 27 | P_S8 => 28 | P_S9 => 29 | P_S10 => 30
  | P_U9 => 9 | P_U10 => 10 | P_SF => 31 | P_CF => 40 | P_TF => 41 | P_OP => 50 | P_DONE => 0
  end.

(** label of a step: thread, section, and whether the step mines a block *)
Record label := mkLabel { lb_tid : N; lb_pc : pc; lb_block : bool }.

Definition mines (k : kind) : bool :=
  match k with KCpfin _ | KPostmine | KMine => true | _ => false end.

Fixpoint trace (m : wbmode) (sched : list N) (c : config) : list label :=
  match sched with
  | [] => []
  | t :: r =>
    match nth_error (fst c) (N.to_nat t) with
    | Some l => mkLabel t (l_pc l) (mines (l_kind l) && negb (done l))
                :: trace m r (step_thread m t c)
    | None => trace m r c
    end
  end.

(** * The recorded open findings, as shapes of the trace

    All three need two overlapping runs of the refresh body (update_wallet_state / scan:
    the updater thread against cancel_tx, retrieve_* with refresh or scan).
    - [K1] stale chain view: a scan's wallet snapshot (S2) is taken after another run's
      update_outputs (U3) saw a block that is newer than the chain outputs the scan collected
      (after S1); the scan then "repairs" an output the newer view had rightly marked spent.
    - [K2] cancel_tx checks (its own refresh; the kernel lookup follows U6) and cancels (final section) in two phases;
      another run's update_outputs that saw a newer block lands in between.
    - [K3] double restore: two scans both took their wallet snapshot (S2) before either
      restored (S5) the same missing output. *)

Definition pc_eqb (a b : pc) : bool := pc_code a =? pc_code b.

(** [a] at [pa], then a block, then [b] (<> a) at [pb], then [a] at [pc'] *)
Fixpoint after3 (a : N) (pend : pc) (tr : list label) : bool :=
  match tr with
  | [] => false
  | x :: r => ((lb_tid x =? a) && pc_eqb (lb_pc x) pend) || after3 a pend r
  end.
Fixpoint after2 (a : N) (pb pend : pc) (tr : list label) : bool :=
  match tr with
  | [] => false
  | x :: r => (negb (lb_tid x =? a) && pc_eqb (lb_pc x) pb && after3 a pend r)
              || after2 a pb pend r
  end.
Fixpoint after1 (a : N) (pb pend : pc) (tr : list label) : bool :=
  match tr with
  | [] => false
  | x :: r => (lb_block x && after2 a pb pend r) || after1 a pb pend r
  end.
Fixpoint shape_block (pa pb pend : pc) (tr : list label) : bool :=
  match tr with
  | [] => false
  | x :: r => (pc_eqb (lb_pc x) pa && after1 (lb_tid x) pb pend r) || shape_block pa pb pend r
  end.

Definition known_K1 (tr : list label) : bool := shape_block P_S1 P_U3 P_S2 tr.
Definition known_K2 (tr : list label) : bool := shape_block P_U6 P_U3 P_CF tr.

(** two threads a <> b: S2(a) and S2(b) both occur before S5(a) and before S5(b) *)
Fixpoint first_pos (a : N) (p : pc) (i : N) (tr : list label) : option N :=
  match tr with
  | [] => None
  | x :: r => if (lb_tid x =? a) && pc_eqb (lb_pc x) p then Some i else first_pos a p (i + 1) r
  end.
Definition known_K3_pair (tr : list label) (a b : N) : bool :=
  match first_pos a P_S2 0 tr, first_pos b P_S2 0 tr,
        first_pos a P_S5 0 tr, first_pos b P_S5 0 tr with
  | Some sa, Some sb, Some ra, Some rb => (sa <? rb) && (sb <? ra)
  | _, _, _, _ => false
  end.
Definition tids (tr : list label) : list N := nodup N.eq_dec (map lb_tid tr).
Definition known_K3 (tr : list label) : bool :=
  existsb (fun a => existsb (fun b => negb (a =? b) && known_K3_pair tr a b) (tids tr)) (tids tr).

Definition known (tr : list label) : bool := known_K1 tr || known_K2 tr || known_K3 tr.

(** * Footprints (for the commutation theorem)

    The shared state is split into nine locations; [fp l] over-approximates what the next
    step of a thread with local state [l] reads (including the node calls that follow the
    section) and writes. SchedProofs.v proves the approximation sound ([step_frame],
    [step_det]). *)

Inductive loc := LOut | LLog | LChild | LCtx | LConfH | LScanned | LInit | LNode | LSlots.

Definition loc_eqb (a b : loc) : bool :=
  match a, b with
  | LOut, LOut | LLog, LLog | LChild, LChild | LCtx, LCtx | LConfH, LConfH
  | LScanned, LScanned | LInit, LInit | LNode, LNode | LSlots, LSlots => true
  | _, _ => false
  end.

Definition eq_on (x : loc) (s s' : state) : Prop :=
  match x with
  | LOut => st_outs s = st_outs s'
  | LLog => st_log s = st_log s' /\ st_nextid s = st_nextid s'
  | LChild => st_child s = st_child s'
  | LCtx => st_ctxs s = st_ctxs s'
  | LConfH => st_confh s = st_confh s'
  | LScanned => st_scanned s = st_scanned s'
  | LInit => st_init s = st_init s'
  | LNode => st_node s = st_node s'
  | LSlots => st_slots s = st_slots s'
  end.

Definition footprint := (list loc * list loc)%type.   (* reads, writes *)

Definition fp (l : local) : footprint :=
  match l_pc l with
  | P_DONE | P_U1 | P_U2 | P_TF => ([], [])
  | P_U3 => ([LOut; LLog; LConfH; LNode], [LOut; LLog; LConfH])
  | P_U4 => ([LLog], [])
  | P_U6 | P_ST | P_S1 => ([LNode], [])
  | P_U7 => ([LLog; LNode], [LLog])
  | P_U8 => ([LScanned; LInit], [])
  | P_S2 => ([LOut], [])
  | P_S3 | P_S6 | P_S8 => ([LLog], [LLog])
  | P_S4 | P_S7 | P_S9 => ([LOut], [LOut])
  | P_S5 | P_U10 | P_CF => ([LOut; LLog], [LOut; LLog])
  | P_S10 => ([LChild], [LChild])
  | P_U9 => ([], [LScanned; LInit])
  | P_SF => ([], [LScanned])
  | P_OP =>
    match l_kind l with
    | KReceive _ => ([LOut; LLog; LChild; LConfH; LSlots], [LOut; LLog; LChild; LSlots])
    | KLock _ => ([LOut; LLog; LCtx; LNode; LSlots], [LOut; LLog])
    | KFinalize _ => ([LOut; LLog; LCtx; LConfH; LSlots], [LLog; LCtx; LSlots])
    | KInit _ _ _ _ _ => ([LOut; LLog; LChild; LCtx; LConfH; LNode; LSlots],
                          [LOut; LLog; LChild; LCtx; LConfH; LSlots])
    | KCpfin _ | KPostmine => ([LNode; LSlots], [LNode; LSlots])
    | KMine | KDown | KUp => ([LNode], [LNode])
    | _ => ([], [])
    end
  end.

Definition memL (x : loc) (l : list loc) : bool := existsb (loc_eqb x) l.
Definition disjointL (a b : list loc) : bool := forallb (fun x => negb (memL x b)) a.

(** two steps conflict unless neither writes what the other reads or writes *)
Definition independent (f g : footprint) : bool :=
  disjointL (snd f) (fst g) && disjointL (snd f) (snd g) && disjointL (snd g) (fst f).

(** the footprints of the steps a schedule executes, in order *)
Fixpoint trace_fp (m : wbmode) (sched : list N) (c : config) : list (N * footprint) :=
  match sched with
  | [] => []
  | t :: r =>
    (t, match nth_error (fst c) (N.to_nat t) with Some l => fp l | None => ([], []) end)
    :: trace_fp m r (step_thread m t c)
  end.

(** stable sort of a schedule by the rank of the thread (the serial order [rank]) *)
Fixpoint insert_by (rank : N -> N) (x : N) (l : list N) : list N :=
  match l with
  | [] => [x]
  | y :: r => if rank y <? rank x then y :: insert_by rank x r else x :: y :: r
  end.
Fixpoint sort_by (rank : N -> N) (l : list N) : list N :=
  match l with
  | [] => []
  | x :: r => insert_by rank x (sort_by rank r)
  end.

(** every pair of steps that is not in the serial order [rank] (the thread that should
    come later runs first) is independent: conflicting sections keep their serial order *)
Fixpoint ordered (rank : N -> N) (T : list (N * footprint)) : Prop :=
  match T with
  | [] => True
  | af :: T' =>
    Forall (fun bf => rank (fst bf) < rank (fst af) -> independent (snd af) (snd bf) = true) T'
    /\ ordered rank T'
  end.

(** a schedule is serial when a thread never runs again after another one took over *)
Fixpoint serialb (l : list N) : bool :=
  match l with
  | [] => true
  | x :: r =>
    match r with
    | [] => true
    | y :: _ => ((x =? y) || negb (memN x r)) && serialb r
    end
  end.

(** * The lock: explicit acquire / release semantics (for the no-deadlock theorem)

    [wallet_lock!] takes the single non-re-entrant wallet mutex, the section runs, the mutex
    is released at the end of the scope. A section is a function of the thread-local and
    shared state: it has no way to acquire the mutex again while holding it. *)

Record lconfig := mkL { lk_holder : option N; lk_cfg : config }.

Definition thread_done (c : config) (t : N) : bool :=
  match nth_error (fst c) (N.to_nat t) with Some l => done l | None => true end.

Inductive lstep (m : wbmode) : lconfig -> lconfig -> Prop :=
| Acquire : forall t c, thread_done c t = false -> lstep m (mkL None c) (mkL (Some t) c)
| Release : forall t c, lstep m (mkL (Some t) c) (mkL None (step_thread m t c)).

Inductive lreach (m : wbmode) (c0 : config) : lconfig -> Prop :=
| lreach0 : lreach m c0 (mkL None c0)
| lreachS : forall a b, lreach m c0 a -> lstep m a b -> lreach m c0 b.

(** * Exploration: the schedules of a scenario

    As the harness enumerates them: at every point any thread that has not finished may
    run; leaving a wallet thread that has not finished for another wallet thread costs one
    preemption, at most [bound] of them; environment steps are free and never count as the
    thread that is left. [bound = 0] gives exactly the serial executions of the wallet
    operations with the environment events landing anywhere. *)

Definition kind_of (c : config) (t : N) : option kind :=
  match nth_error (fst c) (N.to_nat t) with Some l => Some (l_kind l) | None => None end.
Definition env_thread (c : config) (t : N) : bool :=
  match kind_of c t with Some k => is_env k | None => false end.

Fixpoint seqN (n : nat) (from : N) : list N :=
  match n with O => [] | S n' => from :: seqN n' (from + 1) end.
Definition alive (c : config) : list N :=
  filter (fun t => negb (thread_done c t)) (seqN (length (fst c)) 0).

(** does running [t] after [last] cost a preemption? *)
Definition costs (c : config) (last : option N) (t : N) : bool :=
  match last with
  | Some u => negb (thread_done c u) && negb (u =? t) && negb (env_thread c t)
  | None => false
  end.

Definition next_last (c : config) (last : option N) (t : N) : option N :=
  if env_thread c t then last else Some t.

(** declaratively: [sched] is a complete schedule from [c] within the preemption budget *)
Inductive valid_sched (m : wbmode) : N -> option N -> config -> list N -> Prop :=
| vs_nil : forall b last c, alive c = [] -> valid_sched m b last c []
| vs_cons : forall b last c t r,
    In t (alive c) ->
    (if costs c last t then 1 <=? b else true) = true ->
    valid_sched m (if costs c last t then b - 1 else b) (next_last c last t)
                (step_thread m t c) r ->
    valid_sched m b last c (t :: r).

Fixpoint explore (m : wbmode) (fuel : nat) (b : N) (last : option N) (c : config) (path : list N)
  : list (list N * config) :=
  match alive c with
  | [] => [(rev path, c)]
  | al =>
    match fuel with
    | O => []
    | S fuel' =>
      flat_map (fun t =>
                  if costs c last t then
                    if 1 <=? b then explore m fuel' (b - 1) (next_last c last t)
                                            (step_thread m t c) (t :: path)
                    else []
                  else explore m fuel' b (next_last c last t) (step_thread m t c) (t :: path))
               al
    end
  end.

(** * Observation compared by the property *)

Fixpoint lex_leb (a b : list Z) : bool :=
  match a, b with
  | [], _ => true
  | _ :: _, [] => false
  | x :: a', y :: b' => if (x <? y)%Z then true else if (y <? x)%Z then false else lex_leb a' b'
  end.
Fixpoint insert_row (x : list Z) (l : list (list Z)) : list (list Z) :=
  match l with
  | [] => [x]
  | y :: r => if lex_leb x y then x :: y :: r else y :: insert_row x r
  end.
Definition sort_rows (l : list (list Z)) : list (list Z) := fold_right insert_row [] l.

(** the excess label as the harness can name it: the kernel of slot k only once the
    finalized transaction exists *)
Definition obs_excess (s : state) (x : option N) : Z :=
  match x with
  | None => (-1)%Z
  | Some 0 => 0%Z
  | Some k => match nth_error (st_slots s) (N.to_nat (k - 1)) with
              | Some sl => if s_fin sl then Z.of_N k else 0%Z
              | None => 0%Z
              end
  end.

(** entry without its id and lookup height: [content ++ [id]] sorts by content, then id *)
Definition entry_row (s : state) (e : entry) : list Z :=
  [zO (e_slate e); zN (ttype_code (e_type e)); zB (e_conf e); zN (e_credited e); zN (e_debited e);
   zO (e_fee e); zO (e_ttl e); zN (e_nin e); zN (e_nout e); obs_excess s (e_excess e);
   match e_proof e with None => 0 | Some false => 1 | Some true => 2 end%Z; zB (e_stored e);
   zN (e_id e)].

Fixpoint index_of (id : Z) (rows : list (list Z)) (i : Z) : Z :=
  match rows with
  | [] => (-2)%Z
  | r :: rest => if (last r (-3) =? id)%Z then i else index_of id rest (i + 1)%Z
  end.

Definition obs (c : config) : list (list Z) :=
  let s := snd c in
  let erows := sort_rows (map (entry_row s) (st_log s)) in
  let ren := fun t => match t with Some id => index_of (zN id) erows 0 | None => (-1)%Z end in
  let orows := sort_rows (map (fun o => [zN (wo_child o); zB (wo_mmr o); zN (wo_value o);
                                          status_code (wo_status o); zN (wo_height o);
                                          zN (wo_lock o); zB (wo_cb o); ren (wo_tx o)])
                              (st_outs s)) in
  [map (fun l => zN (obs_result l)) (fst c); [zN (st_child s)];
   concat (sort_rows (map (fun x => [zN (c_slate x)]) (st_ctxs s)))]
  ++ [[7%Z]] ++ orows ++ [[8%Z]] ++ map (fun r => removelast r) erows.

Definition list_Z_eqb (a b : list Z) : bool :=
  (length a =? length b)%nat && forallb (fun xy => (fst xy =? snd xy)%Z) (combine a b).
Definition obs_eqb (a b : list (list Z)) : bool :=
  (length a =? length b)%nat && forallb (fun xy => list_Z_eqb (fst xy) (snd xy)) (combine a b).

Definition finals (m : wbmode) (b : N) (c0 : config) : list (list N * config) :=
  explore m 200 b None c0 [].

(** every schedule within [b] preemptions ends in the observation of some serial execution,
    or has one of the recorded shapes *)
Definition serializable_or_known (m : wbmode) (b : N) (c0 : config) : bool :=
  let ser := map (fun x => obs (snd x)) (finals m 0 c0) in
  forallb (fun x => known (trace m (fst x) c0) || existsb (obs_eqb (obs (snd x))) ser)
          (finals m b c0).

(** one correspondence case: initial state, thread kinds, schedule *)
Definition run_case (x : state * list kind * list N) : list (list Z) :=
  let '(s, ks, sched) := x in
  let c0 := (map init_local ks, s) in
  let tr := trace Fresh sched c0 in
  [zB (known_K1 tr); zB (known_K2 tr); zB (known_K3 tr)]
  :: map (fun x => zN (pc_code (lb_pc x))) tr
  :: enc_config (run Fresh sched c0).

(** * Scenario instances (initial states captured from the harness's setup phase) *)

(** receiver, received in setup; refresh || cancel_tx || counterparty finalizes+posts+block *)
Definition scen_recv_cancel_state : state :=
  (mkState [mkWout 0%N false 5000000000%N Unconfirmed 6%N 0%N false (Some 0%N)] [mkEntry 0%N (Some 0%N) TReceived false 5000000000%N 0%N None None 0%N 1%N (Some 1%N) (Some 6%N) None false] 1%N 1%N [] 6%N 6%N 2%N (mkNode 6%N [] [] false []) [mkSlot true true false false false 5000000000%N 23000000%N 0%N (mkTxd 1%N [] [(0%N, 5000000000%N)])]).
Definition scen_recv_cancel_threads : list kind := [KRefresh; (KCancel 0%N); (KCpfin 0%N)].

(** sender, no change, finalized in setup; refresh || cancel_tx || post+mine *)
Definition scen_send_nochange_cancel_state : state :=
  (mkState [mkWout 0%N false 60000000000%N Locked 1%N 4%N true (Some 1%N)] [mkEntry 0%N None TCoinbase true 60000000000%N 0%N None None 0%N 1%N (Some 0%N) (Some 5%N) None false; mkEntry 1%N (Some 0%N) TSent false 0%N 60000000000%N (Some 12500000%N) None 1%N 0%N (Some 1%N) (Some 5%N) None true] 2%N 1%N [] 5%N 5%N 2%N (mkNode 5%N [(0%N, 1%N, 60000000000%N, true)] [] false []) [mkSlot true true true false false 59987500000%N 12500000%N 0%N (mkTxd 1%N [0%N] [])]).
Definition scen_send_nochange_cancel_threads : list kind := [KRefresh; (KCancel 0%N); KPostmine].

(** an output of the wallet is on chain but not in it; refresh || retrieve_txs(refresh) || block mined *)
Definition scen_restore_two_refresh_state : state :=
  (mkState [] [mkEntry 0%N (Some 0%N) TRecvCancelled false 5000000000%N 0%N None None 0%N 1%N (Some 1%N) (Some 7%N) None false] 1%N 1%N [] 7%N 7%N 2%N (mkNode 8%N [(0%N, 8%N, 5000000000%N, false)] [(1%N, 8%N)] false []) [mkSlot true true true true false 5000000000%N 23000000%N 0%N (mkTxd 1%N [] [])]).
Definition scen_restore_two_refresh_threads : list kind := [KRefresh; KTxs; KMine].

(** sender, no change output, payment proof; locked in setup; refresh || finalize || post+mine *)
Definition scen_send_nochange_finalize_state : state :=
  (mkState [mkWout 0%N false 60000000000%N Locked 1%N 4%N true (Some 1%N)] [mkEntry 0%N None TCoinbase true 60000000000%N 0%N None None 0%N 1%N (Some 0%N) (Some 5%N) None false; mkEntry 1%N (Some 0%N) TSent false 0%N 60000000000%N (Some 12500000%N) None 1%N 0%N (Some 0%N) (Some 5%N) (Some false) true] 2%N 1%N [mkCtx 0%N [(0%N, false)] [] 12500000%N 59987500000%N true] 5%N 5%N 2%N (mkNode 5%N [(0%N, 1%N, 60000000000%N, true)] [] false []) [mkSlot true true false false true 59987500000%N 12500000%N 0%N (mkTxd 1%N [0%N] [])]).
Definition scen_send_nochange_finalize_threads : list kind := [KRefresh; (KFinalize 0%N); KPostmine].

(** receiver; refresh || receive || counterparty finalizes+posts+block *)
Definition scen_recv_cpfin_state : state :=
  (mkState [] [] 0%N 0%N [] 6%N 6%N 2%N (mkNode 6%N [] [] false []) [mkSlot true false false false false 5000000000%N 23000000%N 0%N (mkTxd 1%N [] [])]).
Definition scen_recv_cpfin_threads : list kind := [KRefresh; (KReceive 0%N); (KCpfin 0%N)].

(** sender, locked in setup, TTL one block ahead; refresh (expires it) || finalize || block mined *)
Definition scen_ttl_expire_state : state :=
  (mkState [mkWout 0%N false 60000000000%N Locked 1%N 4%N true (Some 2%N); mkWout 1%N false 60000000000%N Unspent 2%N 5%N true (Some 0%N); mkWout 2%N false 52977000000%N Unconfirmed 6%N 0%N false (Some 2%N)] [mkEntry 0%N None TCoinbase true 60000000000%N 0%N None None 0%N 1%N (Some 0%N) (Some 6%N) None false; mkEntry 1%N None TCoinbase true 60000000000%N 0%N None None 0%N 1%N (Some 0%N) (Some 6%N) None false; mkEntry 2%N (Some 0%N) TSent false 52977000000%N 60000000000%N (Some 23000000%N) (Some 7%N) 1%N 1%N (Some 0%N) (Some 6%N) None true] 3%N 3%N [mkCtx 0%N [(0%N, false)] [(2%N, 52977000000%N)] 23000000%N 7000000000%N false] 6%N 6%N 2%N (mkNode 6%N [(0%N, 1%N, 60000000000%N, true); (1%N, 2%N, 60000000000%N, true)] [] false []) [mkSlot true true false false false 7000000000%N 23000000%N 7%N (mkTxd 1%N [0%N] [(2%N, 52977000000%N)])]).
Definition scen_ttl_expire_threads : list kind := [KRefresh; (KFinalize 0%N); KMine].

(** receiver whose cancelled receive got mined (missing output); scan(delete_unconfirmed) || receive *)
Definition scen_scan_restore_receive_state : state :=
  (mkState [] [mkEntry 0%N (Some 0%N) TRecvCancelled false 5000000000%N 0%N None None 0%N 1%N (Some 1%N) (Some 7%N) None false] 1%N 1%N [] 7%N 7%N 2%N (mkNode 8%N [(0%N, 8%N, 5000000000%N, false)] [(1%N, 8%N)] false []) [mkSlot true true true true false 5000000000%N 23000000%N 0%N (mkTxd 1%N [] []); mkSlot true false false false false 3000000000%N 23000000%N 0%N (mkTxd 2%N [] [])]).
Definition scen_scan_restore_receive_threads : list kind := [(KScan true); (KReceive 1%N); KMine].

Definition start (s : state) (ks : list kind) : config := (map init_local ks, s).

Definition c_recv_cancel := start scen_recv_cancel_state scen_recv_cancel_threads.
Definition c_send_nochange_cancel :=
  start scen_send_nochange_cancel_state scen_send_nochange_cancel_threads.
Definition c_restore_two_refresh :=
  start scen_restore_two_refresh_state scen_restore_two_refresh_threads.

(** the scenario instances of the bounded theorem, each with its preemption bound (1000 =
    every interleaving: the other threads of those scenarios are single sections) *)
Definition bounded_scenarios : list (config * N) :=
  [(start scen_send_nochange_finalize_state scen_send_nochange_finalize_threads, 1000);
   (start scen_recv_cpfin_state scen_recv_cpfin_threads, 1000);
   (start scen_ttl_expire_state scen_ttl_expire_threads, 1000);
   (start scen_scan_restore_receive_state scen_scan_restore_receive_threads, 1000);
   (c_recv_cancel, 2);
   (c_send_nochange_cancel, 2);
   (c_restore_two_refresh, 1)].

(** witness schedules (thread ids: 0 refresh, 1 cancel_tx / retrieve_txs, 2 environment) *)
(* refresh U1..U4 (snapshot) | cancel_tx complete | counterparty finalizes, block | refresh U6 (kernel found) U7 (write-back) .. *)
Definition w_stale : list N :=
  [0; 0; 0; 0; 1; 1; 1; 1; 1; 1; 1; 1; 1; 1; 1; 2; 0; 0; 0; 0; 0; 0; 0; 0].
Definition w_K1 : list N :=
  [0; 0; 0; 0; 0; 0; 0; 1; 1; 2; 1; 0; 0; 0; 0; 0; 1; 1; 1; 1; 1; 1; 1; 1].
Definition w_K2 : list N :=
  [1; 1; 1; 1; 1; 0; 0; 2; 0; 0; 0; 1; 1; 1; 1; 1; 1; 0; 0; 0; 0; 0; 0].
Definition w_K3 : list N :=
  [0; 0; 0; 0; 0; 0; 0; 0; 1; 1; 1; 1; 1; 1; 1; 1; 1; 1; 1; 1; 0; 0; 0; 2].

(** [sched] ends in an observation no serial execution reaches (decidable form) *)
Definition not_serializable (m : wbmode) (c0 : config) (sched : list N) : bool :=
  forallb (fun x => negb (obs_eqb (obs (run m sched c0)) (obs (snd x)))) (finals m 0 c0).
Definition is_final (m : wbmode) (b : N) (c0 : config) (sched : list N) : bool :=
  existsb (fun x => (length (fst x) =? length sched)%nat
                    && forallb (fun ab => fst ab =? snd ab) (combine (fst x) sched))
          (finals m b c0).

(** boolean mirror of [ordered] (for the examples) *)
Fixpoint orderedb (rank : N -> N) (T : list (N * footprint)) : bool :=
  match T with
  | [] => true
  | af :: T' =>
    forallb (fun bf => negb (rank (fst bf) <? rank (fst af)) || independent (snd af) (snd bf)) T'
    && orderedb rank T'
  end.

(** what the stale write-back destroys: the cancelled entry is back to TxReceived/TxSent and
    confirmed although cancel_tx (thread 1) returned Ok *)
Definition clobbered (c : config) : bool :=
  existsb (fun e => opt_eqb (e_slate e) (Some 0) && e_conf e
                    && match e_type e with TReceived | TSent => true | _ => false end)
          (st_log (snd c))
  && match nth_error (fst c) 1 with Some l => l_res l =? 0 | None => false end.
