(** Proofs about the schedule model (theories/Sched.v) for property C20. *)
From GW Require Import Select Sched.
From Coq Require Import Permutation Sorted.

(** * Part 1: the footprints are sound *)

Lemma loc_eqb_eq a b : loc_eqb a b = true <-> a = b.
Proof. destruct a, b; cbn; split; intro H; try reflexivity; try discriminate. Qed.

Lemma memL_In x l : memL x l = true <-> In x l.
Proof.
  unfold memL. rewrite existsb_exists. split.
  - intros [y [Hy E]]. apply loc_eqb_eq in E. subst. exact Hy.
  - intro H. exists x. split; [exact H|]. apply loc_eqb_eq. reflexivity.
Qed.

Lemma eq_on_refl x s : eq_on x s s.
Proof. destruct x; cbn; auto. Qed.

Lemma eq_on_sym x s s' : eq_on x s s' -> eq_on x s' s.
Proof. destruct x; cbn; intuition congruence. Qed.

Lemma eq_on_trans x a b c : eq_on x a b -> eq_on x b c -> eq_on x a c.
Proof. destruct x; cbn; intuition congruence. Qed.

Lemma state_ext s s' : (forall x, eq_on x s s') -> s = s'.
Proof.
  intro H.
  pose proof (H LOut) as H1. pose proof (H LLog) as [H2 H3]. pose proof (H LChild) as H4.
  pose proof (H LCtx) as H5. pose proof (H LConfH) as H6. pose proof (H LScanned) as H7.
  pose proof (H LInit) as H8. pose proof (H LNode) as H9. pose proof (H LSlots) as H10.
  destruct s, s'; cbn in *. congruence.
Qed.

(** the helpers below are black boxes for the footprint argument *)
Local Opaque refresh_outputs cancel_tx cancel_log_entry kernel_loop ttl_loop after_refresh
      scan_next after_scan_body classify build_send upsert_entry upsert_out delete_out
      find_entry mine_block update_nth nth_error outstanding N.leb N.eqb N.ltb N.add N.sub
      existsb forallb filter flat_map fold_left map find sumN lenN alloc_children to_sel
      opt_eqb set_conf set_status set_tx set_type set_excess_proof length Nat.eqb app.

Ltac break_match :=
  match goal with
  | |- context [match ?e with _ => _ end] =>
    destruct e eqn:?
  end.

Ltac frame_leaf :=
  match goal with
  | x : loc |- _ => destruct x; cbn in *; try discriminate; auto
  end.

Lemma step_frame m l s x :
  memL x (snd (fp l)) = false -> eq_on x (snd (step m l s)) s.
Proof.
  destruct l as [k p txs todo ktip tip start chain acc missing locked unconf found ttl res steps].
  unfold fp, step; cbn [l_pc l_kind tick].
  destruct p; cbn [l_pc l_kind l_todo l_acc l_missing l_locked l_unconf l_ttl l_txs l_tip l_found
                   l_chain l_start l_ktip tick];
    intro Hx;
    try (unfold set_ws, set_outs_log, set_log, set_outs, set_slots, set_node;
         repeat break_match; cbn [snd fst]; frame_leaf; fail).
  (* P_OP *)
  unfold op_step; cbn [l_kind].
  destruct k; cbn [snd fst] in *;
    try (unfold set_ws, set_outs_log, set_log, set_outs, set_slots, set_node;
         repeat break_match; cbn [snd fst]; frame_leaf; fail).
Qed.

Ltac read_eqs H :=
  try (pose proof (H LOut eq_refl)); try (pose proof (H LLog eq_refl));
  try (pose proof (H LChild eq_refl)); try (pose proof (H LCtx eq_refl));
  try (pose proof (H LConfH eq_refl)); try (pose proof (H LScanned eq_refl));
  try (pose proof (H LInit eq_refl)); try (pose proof (H LNode eq_refl));
  try (pose proof (H LSlots eq_refl)); clear H.

Ltac det_leaf :=
  first [ solve [match goal with
       | H : Err _ = Ok _ |- _ => discriminate H
       | H : Ok _ = Err _ |- _ => discriminate H
       | H : Panic _ = Ok _ |- _ => discriminate H
       | H : Ok _ = Panic _ |- _ => discriminate H
       | H : Err _ = Panic _ |- _ => discriminate H
       | H : Panic _ = Err _ |- _ => discriminate H
       | H : Some _ = None |- _ => discriminate H
       | H : None = Some _ |- _ => discriminate H
       | H : true = false |- _ => discriminate H
       | H : false = true |- _ => discriminate H
       end] | idtac ];
  repeat match goal with
         | H : Err _ = Err _ |- _ => injection H; intro; subst; clear H
         | H : Panic _ = Panic _ |- _ => injection H; intro; subst; clear H
         | H : Ok _ = Ok _ |- _ => injection H; intro; subst; clear H
         | H : Some _ = Some _ |- _ => injection H; intro; subst; clear H
         end;
  try (split; [reflexivity
              | let x := fresh "x" in let Hx := fresh "Hx" in
                intros x Hx; destruct x; cbn in *; try discriminate; auto]).

Ltac det_tac :=
  unfold set_ws, set_outs_log, set_log, set_outs, set_slots, set_node, nth_slot;
  cbn [st_outs st_log st_nextid st_child st_ctxs st_confh st_scanned st_init st_node st_slots];
  repeat (break_match;
          cbn [st_outs st_log st_nextid st_child st_ctxs st_confh st_scanned st_init st_node
                       st_slots] in *);
  cbn [snd fst]; det_leaf.

Lemma step_det m l s s' :
  (forall x, memL x (fst (fp l)) = true -> eq_on x s s') ->
  fst (step m l s) = fst (step m l s')
  /\ (forall x, memL x (snd (fp l)) = true -> eq_on x (snd (step m l s)) (snd (step m l s'))).
Proof.
  destruct l as [k p txs todo ktip tip start chain acc missing locked unconf found ttl res steps].
  unfold fp, step; cbn [l_pc l_kind tick].
  destruct p; cbn [l_pc l_kind l_todo l_acc l_missing l_locked l_unconf l_ttl l_txs l_tip l_found
                   l_chain l_start l_ktip tick];
    intro H;
    try (read_eqs H; destruct s as [so sg sn sc sx sh ss si sd sl], s' as [so' sg' sn' sc' sx' sh' ss' si' sd' sl'];
         cbn [eq_on st_outs st_log st_nextid st_child st_ctxs st_confh st_scanned st_init st_node
                    st_slots] in *;
         repeat match goal with H : _ /\ _ |- _ => destruct H end; subst;
         det_tac; fail).
  (* P_OP *)
  unfold op_step; cbn [l_kind].
  destruct k; cbn [fst snd l_kind tick] in *;
    try (read_eqs H; destruct s as [so sg sn sc sx sh ss si sd sl], s' as [so' sg' sn' sc' sx' sh' ss' si' sd' sl'];
         cbn [eq_on st_outs st_log st_nextid st_child st_ctxs st_confh st_scanned st_init st_node
                    st_slots] in *;
         repeat match goal with H : _ /\ _ |- _ => destruct H end; subst;
         det_tac; fail).
Qed.

Lemma footprints_sound :
  forall (m : wbmode) (l : local) (s s' : state),
    (forall x, memL x (snd (fp l)) = false -> eq_on x (snd (step m l s)) s)
    /\ ((forall x, memL x (fst (fp l)) = true -> eq_on x s s') ->
        fst (step m l s) = fst (step m l s')
        /\ forall x, memL x (snd (fp l)) = true ->
                     eq_on x (snd (step m l s)) (snd (step m l s'))).
Proof. intros m l s s'. split; [intro x; apply step_frame|apply step_det]. Qed.

Local Transparent refresh_outputs cancel_tx cancel_log_entry kernel_loop ttl_loop after_refresh
      scan_next after_scan_body classify build_send upsert_entry upsert_out delete_out
      find_entry mine_block update_nth nth_error outstanding N.leb N.eqb N.ltb N.add N.sub
      existsb forallb filter flat_map fold_left map find sumN lenN alloc_children to_sel
      opt_eqb set_conf set_status set_tx set_type set_excess_proof length Nat.eqb app.

(** * Part 2: steps with independent footprints commute *)

Lemma disjointL_spec a b x : disjointL a b = true -> memL x a = true -> memL x b = false.
Proof.
  unfold disjointL. rewrite forallb_forall. intros H Hx.
  apply memL_In in Hx. specialize (H x Hx). destruct (memL x b); [discriminate|reflexivity].
Qed.

Lemma step_commute m l1 l2 s :
  independent (fp l1) (fp l2) = true ->
  fst (step m l1 (snd (step m l2 s))) = fst (step m l1 s)
  /\ fst (step m l2 (snd (step m l1 s))) = fst (step m l2 s)
  /\ snd (step m l1 (snd (step m l2 s))) = snd (step m l2 (snd (step m l1 s))).
Proof.
  unfold independent. intro H.
  apply andb_prop in H as [H H3]. apply andb_prop in H as [H1 H2].
  (* H1: W1 # R2, H2: W1 # W2, H3: W2 # R1 *)
  assert (A1 : forall x, memL x (fst (fp l1)) = true -> eq_on x s (snd (step m l2 s))).
  { intros x Hx. apply eq_on_sym. apply step_frame.
    destruct (memL x (snd (fp l2))) eqn:E; [|reflexivity].
    rewrite (disjointL_spec _ _ _ H3 E) in Hx. discriminate. }
  assert (A2 : forall x, memL x (fst (fp l2)) = true -> eq_on x s (snd (step m l1 s))).
  { intros x Hx. apply eq_on_sym. apply step_frame.
    destruct (memL x (snd (fp l1))) eqn:E; [|reflexivity].
    rewrite (disjointL_spec _ _ _ H1 E) in Hx. discriminate. }
  destruct (step_det m l1 s (snd (step m l2 s)) A1) as [F1 D1].
  destruct (step_det m l2 s (snd (step m l1 s)) A2) as [F2 D2].
  split; [symmetry; exact F1|]. split; [symmetry; exact F2|].
  apply state_ext. intro x.
  destruct (memL x (snd (fp l1))) eqn:E1.
  - (* written by 1, hence not by 2 *)
    pose proof (disjointL_spec _ _ _ H2 E1) as E2.
    eapply eq_on_trans; [apply eq_on_sym; apply (D1 x E1)|].
    apply eq_on_sym. apply step_frame. exact E2.
  - destruct (memL x (snd (fp l2))) eqn:E2.
    + eapply eq_on_trans; [apply step_frame; exact E1|]. apply (D2 x E2).
    + eapply eq_on_trans; [apply step_frame; exact E1|].
      eapply eq_on_trans; [apply step_frame; exact E2|].
      apply eq_on_sym.
      eapply eq_on_trans; [apply step_frame; exact E2|].
      apply step_frame; exact E1.
Qed.

(** lists of locals *)
Lemma nth_update_same {A} n (x : A) l :
  (n < length l)%nat -> nth_error (update_nth n x l) n = Some x.
Proof.
  revert n. induction l as [|y l IH]; intros [|n] H; cbn in *; try lia; auto.
  apply IH. lia.
Qed.

Lemma nth_update_other {A} n n' (x : A) l :
  n <> n' -> nth_error (update_nth n x l) n' = nth_error l n'.
Proof.
  revert n n'. induction l as [|y l IH]; intros [|n] [|n'] H; cbn; auto; try congruence.
Qed.

Lemma update_update_comm {A} n n' (x y : A) l :
  n <> n' -> update_nth n x (update_nth n' y l) = update_nth n' y (update_nth n x l).
Proof.
  revert n n'. induction l as [|z l IH]; intros [|n] [|n'] H; cbn; auto; try congruence.
  f_equal. apply IH. congruence.
Qed.

Lemma nth_error_lt {A} (l : list A) n x : nth_error l n = Some x -> (n < length l)%nat.
Proof. intro H. apply nth_error_Some. congruence. Qed.

Definition fp_of (c : config) (t : N) : footprint :=
  match nth_error (fst c) (N.to_nat t) with Some l => fp l | None => ([], []) end.

Lemma local_other m a b c :
  a <> b -> nth_error (fst (step_thread m a c)) (N.to_nat b) = nth_error (fst c) (N.to_nat b).
Proof.
  intro H. unfold step_thread.
  destruct (nth_error (fst c) (N.to_nat a)) as [l|]; [|reflexivity].
  destruct (step m l (snd c)) as [l' s'] eqn:E. cbn [fst].
  apply nth_update_other. intro X. apply H. lia.
Qed.

Lemma fp_of_other m a b c : a <> b -> fp_of (step_thread m a c) b = fp_of c b.
Proof. intro H. unfold fp_of. rewrite local_other by exact H. reflexivity. Qed.

Lemma step_thread_commute m a b c :
  a <> b -> independent (fp_of c a) (fp_of c b) = true ->
  step_thread m a (step_thread m b c) = step_thread m b (step_thread m a c).
Proof.
  intros Hab Hind.
  assert (Hn : N.to_nat a <> N.to_nat b) by lia.
  destruct c as [ls s].
  unfold fp_of in Hind. cbn [fst] in Hind.
  destruct (nth_error ls (N.to_nat a)) as [la|] eqn:Ea;
    destruct (nth_error ls (N.to_nat b)) as [lb|] eqn:Eb.
  - pose proof (step_commute m la lb s Hind) as [C1 [C2 C3]].
    unfold step_thread at 2 4. cbn [fst snd]. rewrite Ea, Eb.
    destruct (step m la s) as [la' sa] eqn:Sa. destruct (step m lb s) as [lb' sb] eqn:Sb.
    unfold step_thread. cbn [fst snd] in *.
    rewrite (nth_update_other _ _ _ _ (not_eq_sym Hn)), Ea.
    rewrite (nth_update_other _ _ _ _ Hn), Eb.
    destruct (step m la sb) as [la'' sab] eqn:Sab. destruct (step m lb sa) as [lb'' sba] eqn:Sba.
    cbn [fst snd] in *. subst. f_equal. apply update_update_comm. exact Hn.
  - unfold step_thread at 2 4. cbn [fst snd]. rewrite Ea, Eb.
    destruct (step m la s) as [la' sa] eqn:Sa.
    unfold step_thread. cbn [fst snd].
    rewrite (nth_update_other _ _ _ _ Hn), Eb. rewrite Ea, Sa. reflexivity.
  - unfold step_thread at 2 4. cbn [fst snd]. rewrite Ea, Eb.
    destruct (step m lb s) as [lb' sb] eqn:Sb.
    unfold step_thread. cbn [fst snd].
    rewrite (nth_update_other _ _ _ _ (not_eq_sym Hn)), Ea. rewrite Eb, Sb. reflexivity.
  - unfold step_thread. cbn [fst snd]. rewrite Ea, Eb. cbn [fst snd]. rewrite Ea, Eb. reflexivity.
Qed.

(** * Part 3: a schedule whose conflicting sections keep their serial order is equivalent
    to the serial schedule *)

Lemma run_cons m t r c : run m (t :: r) c = run m r (step_thread m t c).
Proof. reflexivity. Qed.

Lemma trace_fp_cons m t r c :
  trace_fp m (t :: r) c = (t, fp_of c t) :: trace_fp m r (step_thread m t c).
Proof. reflexivity. Qed.

Lemma insert_run m rank x l : forall c,
  Forall (fun bf => rank (fst bf) < rank x -> independent (fp_of c x) (snd bf) = true)
         (trace_fp m l (step_thread m x c)) ->
  run m (insert_by rank x l) c = run m (x :: l) c
  /\ Permutation (trace_fp m (insert_by rank x l) c) (trace_fp m (x :: l) c).
Proof.
  induction l as [|y l IH]; intros c HF.
  - split; [reflexivity|apply Permutation_refl].
  - cbn [insert_by]. destruct (rank y <? rank x) eqn:E.
    + apply N.ltb_lt in E.
      rewrite trace_fp_cons in HF. inversion HF as [|? ? Hhd Htl]; subst. cbn [fst snd] in Hhd.
      assert (Hxy : x <> y) by (intro; subst; lia).
      rewrite (fp_of_other m x y c Hxy) in Hhd.
      pose proof (step_thread_commute m x y c Hxy (Hhd E)) as Hc.
      assert (HF' : Forall (fun bf => rank (fst bf) < rank x ->
                                      independent (fp_of (step_thread m y c) x) (snd bf) = true)
                           (trace_fp m l (step_thread m x (step_thread m y c)))).
      { rewrite (fp_of_other m y x c (not_eq_sym Hxy)). rewrite Hc. exact Htl. }
      destruct (IH (step_thread m y c) HF') as [R P].
      split.
      * rewrite run_cons, R. rewrite !run_cons. rewrite Hc. reflexivity.
      * rewrite trace_fp_cons.
        eapply Permutation_trans; [apply perm_skip; exact P|].
        rewrite !trace_fp_cons.
        rewrite (fp_of_other m y x c (not_eq_sym Hxy)), (fp_of_other m x y c Hxy), Hc.
        apply perm_swap.
    + split; [reflexivity|apply Permutation_refl].
Qed.

Lemma sort_run m rank l : forall c,
  ordered rank (trace_fp m l c) ->
  run m (sort_by rank l) c = run m l c
  /\ Permutation (trace_fp m (sort_by rank l) c) (trace_fp m l c).
Proof.
  induction l as [|x l IH]; intros c HO.
  - split; [reflexivity|apply Permutation_refl].
  - rewrite trace_fp_cons in HO. cbn [ordered fst snd] in HO. destruct HO as [HF HO].
    destruct (IH (step_thread m x c) HO) as [R P].
    cbn [sort_by].
    assert (HF' : Forall (fun bf => rank (fst bf) < rank x ->
                                    independent (fp_of c x) (snd bf) = true)
                         (trace_fp m (sort_by rank l) (step_thread m x c))).
    { eapply Permutation_Forall; [apply Permutation_sym; exact P|exact HF]. }
    destruct (insert_run m rank x (sort_by rank l) c HF') as [R2 P2].
    split.
    + rewrite R2. rewrite !run_cons. exact R.
    + eapply Permutation_trans; [exact P2|]. rewrite !trace_fp_cons. apply perm_skip. exact P.
Qed.

(** the sorted schedule is a permutation of the schedule and is serial *)
Lemma insert_perm rank x l : Permutation (x :: l) (insert_by rank x l).
Proof.
  induction l as [|y l IH]; cbn; [apply Permutation_refl|].
  destruct (rank y <? rank x); [|apply Permutation_refl].
  eapply Permutation_trans; [apply perm_swap|]. apply perm_skip. exact IH.
Qed.

Lemma sort_perm rank l : Permutation l (sort_by rank l).
Proof.
  induction l as [|x l IH]; cbn; [apply Permutation_refl|].
  eapply Permutation_trans; [apply perm_skip; exact IH|]. apply insert_perm.
Qed.

Definition le_rank (rank : N -> N) (a b : N) : Prop := rank a <= rank b.

Lemma insert_sorted rank x l :
  StronglySorted (le_rank rank) l -> StronglySorted (le_rank rank) (insert_by rank x l).
Proof.
  induction l as [|y l IH]; intro H; cbn.
  - constructor; constructor.
  - inversion H as [|? ? Hs Hf]; subst.
    destruct (rank y <? rank x) eqn:E.
    + apply N.ltb_lt in E. constructor; [apply IH; exact Hs|].
      eapply Permutation_Forall; [apply insert_perm|].
      constructor; [unfold le_rank; lia|exact Hf].
    + apply N.ltb_ge in E. constructor; [exact H|].
      constructor; [exact E|].
      eapply Forall_impl; [|exact Hf]. unfold le_rank. intros z Hz. lia.
Qed.

Lemma sort_sorted rank l : StronglySorted (le_rank rank) (sort_by rank l).
Proof. induction l; cbn; [constructor|apply insert_sorted; assumption]. Qed.

Lemma memN_In x l : memN x l = true <-> In x l.
Proof.
  unfold memN. rewrite existsb_exists. split.
  - intros [y [Hy E]]. apply N.eqb_eq in E. subst. exact Hy.
  - intro H. exists x. split; [exact H|apply N.eqb_refl].
Qed.

Lemma sorted_serial rank l :
  (forall a b, rank a = rank b -> a = b) ->
  StronglySorted (le_rank rank) l -> serialb l = true.
Proof.
  intros Hinj. induction l as [|x l IH]; intro H; [reflexivity|].
  inversion H as [|? ? Hs Hf]; subst. cbn [serialb].
  destruct l as [|y r]; [reflexivity|].
  rewrite (IH Hs). rewrite andb_true_r.
  destruct (x =? y) eqn:E; [reflexivity|]. cbn [orb].
  apply N.eqb_neq in E.
  destruct (memN x (y :: r)) eqn:M; [|reflexivity]. exfalso.
  apply memN_In in M.
  inversion Hf as [|? ? Hxy Hxr]; subst. unfold le_rank in *.
  destruct M as [M|M]; [congruence|].
  inversion Hs as [|? ? _ Hyr]; subst.
  rewrite Forall_forall in Hxr, Hyr.
  pose proof (Hxr x M) as A. pose proof (Hyr x M) as B. unfold le_rank in *.
  assert (rank x = rank y) by lia. apply E. apply Hinj. assumption.
Qed.

Theorem serializable_if_disjoint m rank sched c :
  (forall a b, rank a = rank b -> a = b) ->
  ordered rank (trace_fp m sched c) ->
  run m (sort_by rank sched) c = run m sched c
  /\ serialb (sort_by rank sched) = true
  /\ Permutation sched (sort_by rank sched).
Proof.
  intros Hinj HO. split; [apply sort_run; exact HO|].
  split; [eapply sorted_serial; [exact Hinj|apply sort_sorted]|apply sort_perm].
Qed.

(** * Part 4: the lock cannot deadlock *)

Lemma alive_not_done c t : In t (alive c) -> thread_done c t = false.
Proof.
  unfold alive. rewrite filter_In. intros [_ H]. destruct (thread_done c t); [discriminate|reflexivity].
Qed.

Theorem no_deadlock m c0 lc :
  lreach m c0 lc ->
  (lk_holder lc = None /\ alive (lk_cfg lc) = []) \/ exists lc', lstep m lc lc'.
Proof.
  intros _. destruct lc as [[t|] c]; cbn.
  - right. eexists. apply Release.
  - destruct (alive c) as [|t r] eqn:E.
    + left. split; reflexivity.
    + right. exists (mkL (Some t) c). apply Acquire. apply alive_not_done. rewrite E. left. reflexivity.
Qed.

(** the lock is held by at most one thread, and only a thread that acquired it releases it *)
Theorem lock_exclusive m a b :
  lstep m a b ->
  match lk_holder a, lk_holder b with
  | None, Some _ => lk_cfg b = lk_cfg a            (* acquire: nothing else changes *)
  | Some t, None => lk_cfg b = step_thread m t (lk_cfg a)   (* release after the holder's section *)
  | _, _ => False
  end.
Proof. intros H. inversion H; subst; cbn; reflexivity. Qed.

(** * Part 5: the exploration enumerates exactly the valid schedules *)

Definition branch m fuel b last c path (t : N) : list (list N * config) :=
  if costs c last t then
    if 1 <=? b then explore m fuel (b - 1) (next_last c last t) (step_thread m t c) (t :: path)
    else []
  else explore m fuel b (next_last c last t) (step_thread m t c) (t :: path).

Lemma explore_S m fuel b last c path :
  explore m (S fuel) b last c path =
  match alive c with
  | [] => [(rev path, c)]
  | _ :: _ => flat_map (branch m fuel b last c path) (alive c)
  end.
Proof. cbn [explore]. destruct (alive c); reflexivity. Qed.

Lemma explore_sound m fuel : forall b last c path p c',
  In (p, c') (explore m fuel b last c path) ->
  exists sched, p = rev path ++ sched /\ valid_sched m b last c sched /\ c' = run m sched c.
Proof.
  induction fuel as [|fuel IH]; intros b last c path p c' H.
  - cbn in H. destruct (alive c) eqn:E.
    + destruct H as [H|[]]. inversion H; subst. exists []. rewrite app_nil_r.
      split; [reflexivity|]. split; [constructor; exact E|reflexivity].
    + destruct H.
  - rewrite explore_S in H. destruct (alive c) as [|t0 al] eqn:E.
    + destruct H as [H|[]]. inversion H; subst. exists []. rewrite app_nil_r.
      split; [reflexivity|]. split; [constructor; exact E|reflexivity].
    + apply in_flat_map in H. destruct H as [t [Ht H]]. unfold branch in H.
      destruct (costs c last t) eqn:Ec.
      * destruct (1 <=? b) eqn:Eb; [|destruct H].
        apply IH in H. destruct H as [sched [Hp [Hv Hr]]].
        exists (t :: sched). split; [rewrite Hp; cbn [rev]; rewrite <- app_assoc; reflexivity|].
        split; [|rewrite run_cons; exact Hr].
        constructor; [rewrite E; exact Ht|rewrite Ec; exact Eb|rewrite Ec; exact Hv].
      * apply IH in H. destruct H as [sched [Hp [Hv Hr]]].
        exists (t :: sched). split; [rewrite Hp; cbn [rev]; rewrite <- app_assoc; reflexivity|].
        split; [|rewrite run_cons; exact Hr].
        constructor; [rewrite E; exact Ht|rewrite Ec; reflexivity|rewrite Ec; exact Hv].
Qed.

Lemma explore_complete m : forall sched fuel b last c path,
  valid_sched m b last c sched -> (length sched <= fuel)%nat ->
  In (rev path ++ sched, run m sched c) (explore m fuel b last c path).
Proof.
  induction sched as [|t r IH]; intros fuel b last c path Hv Hl.
  - inversion Hv; subst. rewrite app_nil_r.
    destruct fuel; cbn; match goal with H : alive c = [] |- _ => rewrite H end; left; reflexivity.
  - inversion Hv as [|? ? ? ? ? Hin Hc Hrest]; subst.
    destruct fuel as [|fuel]; [cbn in Hl; lia|].
    rewrite explore_S. destruct (alive c) as [|t0 al] eqn:E; [destruct Hin|].
    apply in_flat_map. exists t. split; [exact Hin|]. unfold branch.
    assert (Hl' : (length r <= fuel)%nat) by (cbn in Hl; lia).
    replace (rev path ++ t :: r) with (rev (t :: path) ++ r)
      by (cbn [rev]; rewrite <- app_assoc; reflexivity).
    rewrite run_cons.
    destruct (costs c last t) eqn:Ec.
    + rewrite Hc. apply IH; assumption.
    + apply IH; assumption.
Qed.

Lemma finals_sound m b c0 p c' :
  In (p, c') (finals m b c0) -> valid_sched m b None c0 p /\ c' = run m p c0.
Proof.
  unfold finals. intro H.
  destruct (explore_sound m 200 b None c0 [] p c' H) as [sched [Hp [Hv Hr]]].
  assert (E : rev (@nil N) ++ sched = sched) by reflexivity.
  rewrite E in Hp. rewrite Hp. split; [exact Hv|exact Hr].
Qed.

Lemma finals_complete m b c0 sched :
  valid_sched m b None c0 sched -> (length sched <= 200)%nat ->
  In (sched, run m sched c0) (finals m b c0).
Proof.
  intros Hv Hl. unfold finals.
  pose proof (explore_complete m sched 200 b None c0 [] Hv Hl) as X.
  assert (E : rev (@nil N) ++ sched = sched) by reflexivity.
  rewrite E in X. exact X.
Qed.

Lemma is_final_valid m b c0 sched :
  is_final m b c0 sched = true -> valid_sched m b None c0 sched.
Proof.
  unfold is_final. rewrite existsb_exists. intros [[p c'] [Hin H]].
  apply andb_prop in H as [Hlen Heq]. cbn [fst] in *.
  apply Nat.eqb_eq in Hlen.
  assert (p = sched).
  { clear Hin. revert sched Hlen Heq. induction p as [|x p IH]; intros [|y s] Hlen Heq;
      cbn in *; try discriminate; [reflexivity|].
    apply andb_prop in Heq as [E Heq]. apply N.eqb_eq in E. cbn in E. subst.
    f_equal. apply IH; [lia|exact Heq]. }
  subst. apply finals_sound in Hin. apply Hin.
Qed.

Lemma not_serializable_spec m c0 sched :
  not_serializable m c0 sched = true ->
  forall sched', valid_sched m 0 None c0 sched' -> (length sched' <= 200)%nat ->
                 obs_eqb (obs (run m sched c0)) (obs (run m sched' c0)) = false.
Proof.
  unfold not_serializable. rewrite forallb_forall. intros H sched' Hv Hl.
  pose proof (H _ (finals_complete m 0 c0 sched' Hv Hl)) as X. cbn [snd] in X.
  destruct (obs_eqb _ _); [discriminate|reflexivity].
Qed.

Lemma serializable_or_known_spec m b c0 :
  serializable_or_known m b c0 = true ->
  forall sched, valid_sched m b None c0 sched -> (length sched <= 200)%nat ->
    known (trace m sched c0) = true
    \/ exists sched', valid_sched m 0 None c0 sched'
                      /\ obs_eqb (obs (run m sched c0)) (obs (run m sched' c0)) = true.
Proof.
  unfold serializable_or_known. rewrite forallb_forall. intros H sched Hv Hl.
  pose proof (H _ (finals_complete m b c0 sched Hv Hl)) as X. cbn [fst snd] in X.
  apply orb_prop in X as [X|X]; [left; exact X|right].
  apply existsb_exists in X. destruct X as [o [Ho Heq]].
  apply in_map_iff in Ho. destruct Ho as [[p c'] [Eo Hin]]. cbn [snd] in Eo. subst o.
  apply finals_sound in Hin. destruct Hin as [Hv' Hr]. subst c'.
  exists p. split; assumption.
Qed.

(** * Part 6: the write-back section after the fix touches nothing but the confirmation
    flag of an entry that is still outstanding in the CURRENT log *)

Lemma find_upsert_same e l :
  (exists x, find_entry (e_id e) l = Some x) -> find_entry (e_id e) (upsert_entry e l) = Some e.
Proof.
  unfold find_entry. induction l as [|x l IH]; intros [y Hy]; cbn in *; [discriminate|].
  destruct (e_id x =? e_id e) eqn:E.
  - cbn. rewrite N.eqb_refl. reflexivity.
  - cbn. rewrite E. apply IH. exists y. exact Hy.
Qed.

Lemma find_upsert_other e l id :
  id <> e_id e -> find_entry id (upsert_entry e l) = find_entry id l.
Proof.
  unfold find_entry. intro H. induction l as [|x l IH]; cbn.
  - destruct (e_id e =? id) eqn:E; [apply N.eqb_eq in E; congruence|reflexivity].
  - destruct (e_id x =? e_id e) eqn:E.
    + cbn. apply N.eqb_eq in E.
      destruct (e_id e =? id) eqn:E1; [apply N.eqb_eq in E1; congruence|].
      destruct (e_id x =? id) eqn:E2; [apply N.eqb_eq in E2; congruence|reflexivity].
    + cbn. destruct (e_id x =? id); [reflexivity|exact IH].
Qed.

Lemma find_entry_id id l x : find_entry id l = Some x -> e_id x = id.
Proof.
  unfold find_entry. intro H. apply find_some in H. destruct H as [_ H]. apply N.eqb_eq in H. exact H.
Qed.

Theorem fresh_writeback_safe l s :
  l_pc l = P_U7 ->
  let s' := snd (step Fresh l s) in
  st_outs s' = st_outs s /\ st_ctxs s' = st_ctxs s /\ st_child s' = st_child s
  /\ forall id,
      find_entry id (st_log s') = find_entry id (st_log s)
      \/ exists cur, find_entry id (st_log s) = Some cur /\ outstanding cur = true
                     /\ find_entry id (st_log s') = Some (set_conf cur true).
Proof.
  intro Hpc. unfold step. rewrite Hpc. cbn [l_todo tick].
  destruct (l_todo l) as [|t r]; cbn [snd]; [repeat split; auto|].
  cbn [set_log st_outs st_ctxs st_child st_log].
  repeat split; try reflexivity. intro id.
  destruct (find_entry (e_id t) (st_log s)) as [cur|] eqn:Ef; [|left; reflexivity].
  destruct (outstanding cur && opt_eqb (e_excess cur) (e_excess t)) eqn:Eo; [|left; reflexivity].
  apply andb_prop in Eo as [Eo _].
  pose proof (find_entry_id _ _ _ Ef) as Hid.
  destruct (N.eq_dec id (e_id t)) as [->|Hne].
  - right. exists cur. split; [exact Ef|]. split; [exact Eo|].
    assert (Hid' : e_id (set_conf cur true) = e_id t) by (cbn; exact Hid).
    rewrite <- Hid'. apply find_upsert_same. exists cur. rewrite Hid'. exact Ef.
  - left. apply find_upsert_other. cbn. congruence.
Qed.

Lemma orderedb_spec rank T : orderedb rank T = true -> ordered rank T.
Proof.
  induction T as [|af T IH]; cbn [orderedb ordered]; [trivial|].
  intro H. apply andb_prop in H as [H1 H2]. split; [|apply IH; exact H2].
  rewrite forallb_forall in H1. apply Forall_forall. intros bf Hin Hlt.
  specialize (H1 bf Hin). apply N.ltb_lt in Hlt. rewrite Hlt in H1. exact H1.
Qed.

(** * Part 7: the concrete statements (computed inside Coq on the scenario instances) *)

(** before the fix: a schedule (no recorded shape) after which the completed cancel_tx is
    overwritten, and whose final observation no serial execution reaches *)
Theorem stale_writeback_refuted :
  exists sched,
    valid_sched Stale 1 None c_recv_cancel sched
    /\ known (trace Stale sched c_recv_cancel) = false
    /\ clobbered (run Stale sched c_recv_cancel) = true
    /\ forall sched', valid_sched Stale 0 None c_recv_cancel sched' -> (length sched' <= 200)%nat ->
                      obs_eqb (obs (run Stale sched c_recv_cancel))
                              (obs (run Stale sched' c_recv_cancel)) = false.
Proof.
  exists w_stale.
  split; [apply is_final_valid; vm_compute; reflexivity|].
  split; [vm_compute; reflexivity|].
  split; [vm_compute; reflexivity|].
  apply not_serializable_spec. vm_compute. reflexivity.
Qed.

(** the same schedule after the fix is serializable (and nothing is clobbered) *)
Theorem fresh_same_schedule_ok :
  valid_sched Fresh 1 None c_recv_cancel w_stale
  /\ clobbered (run Fresh w_stale c_recv_cancel) = false
  /\ exists sched', valid_sched Fresh 0 None c_recv_cancel sched'
                    /\ obs_eqb (obs (run Fresh w_stale c_recv_cancel))
                               (obs (run Fresh sched' c_recv_cancel)) = true.
Proof.
  split; [apply is_final_valid; vm_compute; reflexivity|].
  split; [vm_compute; reflexivity|].
  exists [1; 1; 1; 1; 1; 1; 1; 1; 1; 1; 1; 2; 0; 0; 0; 0; 0; 0; 0; 0; 0; 0; 0].
  split; [apply is_final_valid; vm_compute; reflexivity|vm_compute; reflexivity].
Qed.

Lemma bounded_ok :
  forallb (fun cb => serializable_or_known Fresh (snd cb) (fst cb)) bounded_scenarios = true.
Proof. vm_compute. reflexivity. Qed.

Theorem bounded_unrestricted :
  forall c0 b, In (c0, b) bounded_scenarios ->
  forall sched, valid_sched Fresh b None c0 sched -> (length sched <= 200)%nat ->
    known (trace Fresh sched c0) = true
    \/ exists sched', valid_sched Fresh 0 None c0 sched'
                      /\ obs_eqb (obs (run Fresh sched c0)) (obs (run Fresh sched' c0)) = true.
Proof.
  intros c0 b Hin. apply serializable_or_known_spec.
  pose proof bounded_ok as H. rewrite forallb_forall in H. apply (H (c0, b) Hin).
Qed.

(** each recorded shape is a genuine violation: a schedule of exactly that shape whose final
    observation no serial execution reaches *)
Theorem known_genuine :
  (valid_sched Fresh 2 None c_send_nochange_cancel w_K1
   /\ known_K1 (trace Fresh w_K1 c_send_nochange_cancel) = true
   /\ forall s', valid_sched Fresh 0 None c_send_nochange_cancel s' -> (length s' <= 200)%nat ->
        obs_eqb (obs (run Fresh w_K1 c_send_nochange_cancel))
                (obs (run Fresh s' c_send_nochange_cancel)) = false)
  /\ (valid_sched Fresh 2 None c_send_nochange_cancel w_K2
      /\ known_K2 (trace Fresh w_K2 c_send_nochange_cancel) = true
      /\ forall s', valid_sched Fresh 0 None c_send_nochange_cancel s' -> (length s' <= 200)%nat ->
           obs_eqb (obs (run Fresh w_K2 c_send_nochange_cancel))
                   (obs (run Fresh s' c_send_nochange_cancel)) = false)
  /\ (valid_sched Fresh 1 None c_restore_two_refresh w_K3
      /\ known_K3 (trace Fresh w_K3 c_restore_two_refresh) = true
      /\ forall s', valid_sched Fresh 0 None c_restore_two_refresh s' -> (length s' <= 200)%nat ->
           obs_eqb (obs (run Fresh w_K3 c_restore_two_refresh))
                   (obs (run Fresh s' c_restore_two_refresh)) = false).
Proof.
  split; [|split].
  - split; [apply is_final_valid; vm_compute; reflexivity|].
    split; [vm_compute; reflexivity|].
    apply not_serializable_spec. vm_compute. reflexivity.
  - split; [apply is_final_valid; vm_compute; reflexivity|].
    split; [vm_compute; reflexivity|].
    apply not_serializable_spec. vm_compute. reflexivity.
  - split; [apply is_final_valid; vm_compute; reflexivity|].
    split; [vm_compute; reflexivity|].
    apply not_serializable_spec. vm_compute. reflexivity.
Qed.
