(** C12 — executable model of where a wallet's secrets go.

    Part A/C (symbolic): transaction contexts (libwallet/src/types.rs [Context::new],
    [with_excess]), their persistence (impls/src/backends/lmdb.rs [save_private_context]:
    every secret field XORed with its own pad), and what each owner/foreign call of
    libwallet/src/api_impl/{owner,foreign}.rs hands to the peer (participant entries after
    [remove_other_sigdata] / [compact]), over histories of calls.
    Part B: the seed file (impls/src/lifecycle/seed.rs [EncryptedWalletSeed::from_seed],
    [decrypt], [WalletSeed::from_file], [backup_seed], [recover_from_phrase]) and the
    file-operation sequences of [change_password] (impls/src/lifecycle/default.rs) and of
    phrase recovery, with the AEAD and the KDF as Section variables.

    The model describes /repo after the two C12 [fix:] commits; [legacy = true] gives the
    record layout written before the first of them (kept for the refutation example).
    No proofs here. The harness (harness/src/bin/c12.rs) is compared with [run_hist],
    [run_seed] and [run_fileops]. *)
From GW Require Export Base.

(* ====================================================================================== *)
(** * Part A/C: secrets, terms, contexts, histories *)

(** Slate ids: [Own n] is the n-th slate this wallet created itself (Uuid::new_v4: assumed
    fresh), [Ext n] any id chosen by a peer. *)
Inductive sid := Own (n : N) | Ext (n : N).

Definition sid_eqb (a b : sid) : bool :=
  match a, b with
  | Own x, Own y => x =? y
  | Ext x, Ext y => x =? y
  | _, _ => false
  end.

Inductive secret :=
| SSeed                         (* seed / recovery phrase *)
| SRoot                         (* root key derived from the seed (keys the XOR pads) *)
| SDraw (i : N)                 (* i-th value the wallet's RNG produced for a context *)
| STestKey (initiator : bool)   (* SecretKey::new(StepRng(1234567890 | 1234567891, 1)) *)
| STestNonce.                   (* [1; 32] *)

Definition secret_eqb (a b : secret) : bool :=
  match a, b with
  | SSeed, SSeed | SRoot, SRoot | STestNonce, STestNonce => true
  | SDraw i, SDraw j => i =? j
  | STestKey x, STestKey y => Bool.eqb x y
  | _, _ => false
  end.

(** The four pads of private_ctx_xor_keys / private_ctx_initial_xor_keys:
    h(root_key | slate_id | label). *)
Inductive mask := MBlind (s : sid) | MNonce (s : sid) | MInitBlind (s : sid) | MInitNonce (s : sid).

Inductive term :=
| Clear (x : secret)                 (* the secret's bytes, in any encoding *)
| Xor (m : mask) (x : secret)
| Aead (pw : list N) (x : secret)    (* sealed under a key derived from a password *)
| Pub (x : secret)                   (* x * G *)
| Sig (k n : secret)                 (* partial signature with key k and nonce n *)
| Data (d : N).                      (* public data, peers' data echoed back *)

Definition clear_free (t : term) : bool :=
  match t with Clear _ => false | _ => true end.

Record ctx := mkCtx {
  c_key : secret;        (* sec_key *)
  c_nonce : secret;      (* sec_nonce *)
  c_ikey : secret;       (* initial_sec_key *)
  c_inonce : secret;     (* initial_sec_nonce *)
  c_late : bool          (* late_lock_args.is_some() *)
}.

Record wallet := mkW {
  w_draws : N;                     (* values drawn from the RNG so far *)
  w_slates : N;                    (* slates created so far *)
  w_ctxs : list (sid * ctx);       (* 'p' records *)
  w_received : list sid;           (* slates with a TxReceived entry *)
  w_paid : list sid                (* invoice slates with a TxSent entry *)
}.

Definition w0 : wallet := mkW 0 0 [] [] [].

(** One participant entry (public_nonce, public_blind_excess, part_sig?) built from own secrets *)
Record entry := mkEntry { e_nonce : secret; e_key : secret; e_sig : bool }.

Inductive item :=
| IRec (s : sid) (fields : list term)            (* value put under key 'p' | slate id *)
| IMsg (s : sid) (own : list entry) (echo : N).  (* slate / slatepack / foreign reply: own
                                                    entries + [echo] entries of the peer *)

Definition entry_terms (e : entry) : list term :=
  [Pub (e_nonce e); Pub (e_key e)] ++ (if e_sig e then [Sig (e_key e) (e_nonce e)] else []).

Definition item_terms (it : item) : list term :=
  match it with
  | IRec _ fs => fs
  | IMsg _ own echo => flat_map entry_terms own ++ repeat (Data 0) (N.to_nat echo)
  end.

Fixpoint lookup_ctx (s : sid) (l : list (sid * ctx)) : option ctx :=
  match l with
  | [] => None
  | (s', c) :: r => if sid_eqb s s' then Some c else lookup_ctx s r
  end.
Definition remove_ctx (s : sid) (l : list (sid * ctx)) : list (sid * ctx) :=
  filter (fun p => negb (sid_eqb s (fst p))) l.
Definition put_ctx (s : sid) (c : ctx) (l : list (sid * ctx)) : list (sid * ctx) :=
  (s, c) :: remove_ctx s l.
Definition mem_sid (s : sid) (l : list sid) : bool := existsb (sid_eqb s) l.

(** types.rs Context::new + with_excess: sec_key first, then sec_nonce; the initial_* copies *)
Definition ctx_new (test initiator : bool) (w : wallet) : ctx * wallet :=
  if test then (mkCtx (STestKey initiator) STestNonce (STestKey initiator) STestNonce false, w)
  else let k := SDraw (w_draws w) in
       let n := SDraw (w_draws w + 1) in
       (mkCtx k n k n false,
        mkW (w_draws w + 2) (w_slates w) (w_ctxs w) (w_received w) (w_paid w)).

(** lmdb.rs save_private_context *)
Definition record_of (legacy : bool) (s : sid) (c : ctx) : item :=
  IRec s [Xor (MBlind s) (c_key c); Xor (MNonce s) (c_nonce c);
          if legacy then Clear (c_ikey c) else Xor (MInitBlind s) (c_ikey c);
          if legacy then Clear (c_inonce c) else Xor (MInitNonce s) (c_inonce c)].

(** tx.rs complete_tx: the initiator's keys when they differ from the current ones *)
Definition signing_pair (c : ctx) : secret * secret :=
  if negb (secret_eqb (c_ikey c) (c_key c)) && negb (secret_eqb (c_inonce c) (c_nonce c))
  then (c_ikey c, c_inonce c) else (c_key c, c_nonce c).

Inductive op :=
| OInit (late : bool)                 (* owner::init_send_tx (+ tx_lock_outputs unless late) *)
| ORecv (s : sid)                     (* foreign::receive_tx *)
| OFin (s : sid) (npeer : N)          (* owner::finalize_tx on a Standard2 slate *)
| OInvoice                            (* owner::issue_invoice_tx *)
| OPay (s : sid)                      (* owner::process_invoice_tx (+ tx_lock_outputs) *)
| OFinInv (s : sid) (npeer : N)       (* foreign::finalize_tx on an Invoice2 slate *)
| OCancel (s : sid)                   (* owner::cancel_tx: leaves the context where it is *)
| ONop.                               (* reopen, mining, refresh *)

Definition set_ctxs (w : wallet) (l : list (sid * ctx)) : wallet :=
  mkW (w_draws w) (w_slates w) l (w_received w) (w_paid w).

Definition step (legacy test : bool) (w : wallet) (o : op) : result (wallet * list item) :=
  match o with
  | OInit late =>
      let s := Own (w_slates w) in
      let '(c, w1) := ctx_new test true w in
      let c := mkCtx (c_key c) (c_nonce c) (c_ikey c) (c_inonce c) late in
      Ok (mkW (w_draws w1) (w_slates w + 1) (put_ctx s c (w_ctxs w)) (w_received w) (w_paid w),
          [record_of legacy s c; IMsg s [mkEntry (c_nonce c) (c_key c) false] 0])
  | OInvoice =>
      let s := Own (w_slates w) in
      let '(c, w1) := ctx_new test true w in
      Ok (mkW (w_draws w1) (w_slates w + 1) (put_ctx s c (w_ctxs w)) (w_received w) (w_paid w),
          [record_of legacy s c; IMsg s [mkEntry (c_nonce c) (c_key c) false] 0])
  | ORecv s =>
      if mem_sid s (w_received w) then Err EAlreadyReceived
      else
        let '(c, w1) := ctx_new test false w in
        (* the receiver's context is not stored; only its own entry goes back *)
        Ok (mkW (w_draws w1) (w_slates w) (w_ctxs w) (s :: w_received w) (w_paid w),
            [IMsg s [mkEntry (c_nonce c) (c_key c) true] 0])
  | OPay s =>
      if mem_sid s (w_paid w) then Err EAlreadyReceived
      else
        let prev := lookup_ctx s (w_ctxs w) in
        let '(c, w1) := ctx_new test false w in
        (* self-paid invoice: keep the issuer's keys as initial_* (same slate id only) *)
        let c' := match prev with
                  | Some c0 => mkCtx (c_key c) (c_nonce c) (c_ikey c0) (c_inonce c0) false
                  | None => c
                  end in
        Ok (mkW (w_draws w1) (w_slates w) (put_ctx s c' (w_ctxs w)) (w_received w) (s :: w_paid w),
            [record_of legacy s c'; IMsg s [mkEntry (c_nonce c) (c_key c) true] 0])
  | OFin s npeer =>
      match lookup_ctx s (w_ctxs w) with
      | None => Err ENotFound
      | Some c =>
          (* late lock: build_send_tx(.., use_test_rng = false, ..) draws a context for a
             temporary slate that is dropped; the stored context is rewritten, then deleted *)
          let draws := if c_late c then w_draws w + 2 else w_draws w in
          let c' := mkCtx (c_key c) (c_nonce c) (c_ikey c) (c_inonce c) false in
          let resave := if c_late c then [record_of legacy s c'] else [] in
          let '(k, n) := signing_pair c' in
          Ok (mkW draws (w_slates w) (remove_ctx s (w_ctxs w)) (w_received w) (w_paid w),
              resave ++ [IMsg s [mkEntry n k true] npeer])
      end
  | OFinInv s npeer =>
      match lookup_ctx s (w_ctxs w) with
      | None => Err ENotFound
      | Some c =>
          let '(k, n) := signing_pair c in
          Ok (set_ctxs w (remove_ctx s (w_ctxs w)), [IMsg s [mkEntry n k true] npeer])
      end
  | OCancel _ => Ok (w, [])
  | ONop => Ok (w, [])
  end.

(** A history: failed calls change nothing and emit nothing. *)
Fixpoint run (legacy test : bool) (w : wallet) (ops : list op) : wallet * list item :=
  match ops with
  | [] => (w, [])
  | o :: r =>
      match step legacy test w o with
      | Ok (w', its) => let '(w'', its') := run legacy test w' r in (w'', its ++ its')
      | _ => run legacy test w r
      end
  end.

Definition emitted (legacy test : bool) (ops : list op) : list item :=
  snd (run legacy test w0 ops).

(** All participant entries of its own that the wallet emitted, with the slate they went into *)
Definition own_entries (its : list item) : list (sid * entry) :=
  flat_map (fun it => match it with
                      | IMsg s own _ => map (fun e => (s, e)) own
                      | IRec _ _ => []
                      end) its.

(* -------------------------------------------------------------------------------------- *)
(** Canonical rows for the correspondence (one per call):
    [res; has_rec; (enc, secret id) x 4; echo; n_own; (nonce id, key id, sig) ...] *)
Definition secret_code (x : secret) : Z :=
  match x with
  | SDraw i => Z.of_N i
  | STestKey true => 1000001
  | STestKey false => 1000002
  | STestNonce => 1000003
  | SSeed => 1000004
  | SRoot => 1000005
  end.
Definition term_row (t : term) : list Z :=
  match t with
  | Xor (MBlind _) x => [0; secret_code x]
  | Xor (MNonce _) x => [1; secret_code x]
  | Clear x => [2; secret_code x]
  | Xor (MInitBlind _) x => [4; secret_code x]
  | Xor (MInitNonce _) x => [5; secret_code x]
  | _ => [3; 0]
  end%Z.
Definition entry_row (e : entry) : list Z :=
  [secret_code (e_nonce e); secret_code (e_key e); if e_sig e then 1 else 0]%Z.

Fixpoint last_rec (its : list item) : option (list term) :=
  match its with
  | [] => None
  | IRec _ fs :: r => match last_rec r with Some x => Some x | None => Some fs end
  | _ :: r => last_rec r
  end.
Fixpoint last_msg (its : list item) : list entry * N :=
  match its with
  | [] => ([], 0)
  | IMsg _ own echo :: r => match r with [] => (own, echo) | _ => last_msg r end
  | _ :: r => last_msg r
  end.

Definition step_row (r : result (wallet * list item)) : list Z :=
  match r with
  | Ok (_, its) =>
      let '(own, echo) := last_msg its in
      [0%Z]
      ++ match last_rec its with
         | Some fs => 1%Z :: flat_map term_row fs
         | None => [0; 3; 0; 3; 0; 3; 0; 3; 0]%Z
         end
      ++ [Z.of_N echo; Z.of_nat (length own)] ++ flat_map entry_row own
  | Err _ => [1%Z]
  | Panic _ => [2%Z]
  end.

Fixpoint run_rows (test : bool) (w : wallet) (ops : list op) : list (list Z) :=
  match ops with
  | [] => []
  | o :: r =>
      let res := step false test w o in
      step_row res :: run_rows test (match res with Ok (w', _) => w' | _ => w end) r
  end.

Definition run_hist (c : bool * list op) : list (list Z) := run_rows (fst c) w0 (snd c).

(* ====================================================================================== *)
(** * Part B: the seed file *)

Inductive fname := FSeed | FBak (i : nat).   (* wallet.seed | wallet.seed.bak | wallet.seed.bak.i *)
Definition fname_eqb (a b : fname) : bool :=
  match a, b with
  | FSeed, FSeed => true
  | FBak i, FBak j => Nat.eqb i j
  | _, _ => false
  end.

Definition list_N_eqb (a b : list N) : bool :=
  if list_eq_dec N.eq_dec a b then true else false.

(** from_entropy accepts 16, 20, 24, 28 or 32 bytes *)
Definition valid_entropy (s : list N) : bool :=
  existsb (Nat.eqb (length s)) [16; 20; 24; 28; 32]%nat.

Section SeedFile.
  Variable K : Type.                              (* derived keys *)
  Variable CT : Type.                             (* ciphertexts (with tag) *)
  Variable pwnorm : list N -> list N.             (* HMAC key normalisation of the password *)
  Variable kdf : list N -> list N -> K.           (* PBKDF2-HMAC-SHA512: salt, password *)
  Variable seal : K -> list N -> list N -> CT.    (* key, 12-byte nonce, plaintext *)
  Variable open : K -> list N -> CT -> option (list N).
  Variable mn : list N -> list N.                 (* from_mnemonic (to_mnemonic seed) *)

  (** The three hex fields of the JSON file, decoded: [None] when the text is not hex
      (odd length, other characters, non-ASCII). *)
  Record seedfile := mkSF {
    sf_enc : option CT;
    sf_salt : option (list N);
    sf_nonce : option (list N)
  }.

  (** EncryptedWalletSeed::from_seed (salt: 8 random bytes, nonce: 12 random bytes) *)
  Definition from_seed (seed pw salt nonce : list N) : seedfile :=
    mkSF (Some (seal (kdf salt pw) nonce seed)) (Some salt) (Some nonce).

  (** EncryptedWalletSeed::decrypt *)
  Definition decrypt (f : seedfile) (pw : list N) : result (list N) :=
    match sf_enc f, sf_salt f, sf_nonce f with
    | Some c, Some s, Some n =>
        if (length n <? 12)%nat then Err ECrypto
        else match open (kdf s pw) (firstn 12 n) c with
             | Some m => Ok m
             | None => Err ECrypto
             end
    | _, _, _ => Err ECrypto
    end.

  (** What a file holds: a complete serialised [seedfile], or a strict prefix of one
      (created and not, or not completely, written): not JSON. *)
  Inductive content := CFull (f : seedfile) | CPartial.

  Definition dir := list (fname * content).

  Fixpoint lookup (d : dir) (f : fname) : option content :=
    match d with
    | [] => None
    | (g, c) :: r => if fname_eqb f g then Some c else lookup r f
    end.
  Definition del (f : fname) (d : dir) : dir :=
    filter (fun p => negb (fname_eqb f (fst p))) d.
  Definition set (f : fname) (c : content) (d : dir) : dir := (f, c) :: del f d.
  Definition exists_file (d : dir) (f : fname) : bool :=
    match lookup d f with Some _ => true | None => false end.

  (** WalletSeed::from_file *)
  Definition from_file (d : dir) (pw : list N) : result (list N) :=
    match lookup d FSeed with
    | None => Err ENotFound
    | Some CPartial => Err EDeser
    | Some (CFull f) => decrypt f pw
    end.

  Inductive eff :=
  | ERead (f : fname)              (* open O_RDONLY + read *)
  | ERename (a b : fname)
  | ECreate (f : fname)            (* open O_WRONLY|O_CREAT|O_TRUNC *)
  | EWrite (f : fname) (c : content)
  | ERemove (f : fname).

  Definition apply (d : dir) (e : eff) : dir :=
    match e with
    | ERead _ => d
    | ERename a b => match lookup d a with
                     | Some c => set b c (del a d)
                     | None => d
                     end
    | ECreate f => set f CPartial d
    | EWrite f c => set f c d
    | ERemove f => del f d
    end.
  Definition apply_all (d : dir) (es : list eff) : dir := fold_left apply es d.

  (** Every state an interruption can leave behind: after each complete operation, and with
      the file being written holding only part of its bytes. *)
  Fixpoint crash_states (d : dir) (es : list eff) : list dir :=
    d :: match es with
         | [] => []
         | e :: r =>
             (match e with EWrite f _ => [set f CPartial d] | _ => [] end)
             ++ crash_states (apply d e) r
         end.

  (** backup_seed: .bak, then .bak.1, .bak.2, ... until a name is free. A directory of n
      files cannot hold n + 1 names, hence the fuel. *)
  Fixpoint first_free_from (d : dir) (fuel i : nat) : nat :=
    match fuel with
    | O => i
    | S k => if exists_file d (FBak i) then first_free_from d k (S i) else i
    end.
  Definition first_free_bak (d : dir) : fname := FBak (first_free_from d (length d) 0).

  Definition read_eff (d : dir) : list eff :=
    if exists_file d FSeed then [ERead FSeed] else [].

  (** DefaultLCProvider::change_password: from_file(old); to_mnemonic; backup_seed;
      delete_seed_file; init_file (result ignored); from_file(new); compare; remove backup *)
  Definition change_password (d : dir) (old new salt nonce : list N)
    : result unit * list eff :=
    match from_file d old with
    | Ok seed =>
        if negb (valid_entropy seed) then (Err EOther, read_eff d)
        else
          let b := first_free_bak d in
          let d1 := apply d (ERename FSeed b) in
          let dele := if exists_file d1 FSeed then [ERemove FSeed] else [] in
          let d2 := apply_all d1 dele in
          let init := if exists_file d2 FSeed then []
                      else [ECreate FSeed; EWrite FSeed (CFull (from_seed (mn seed) new salt nonce))] in
          let d3 := apply_all d2 init in
          let es := read_eff d ++ [ERename FSeed b] ++ dele ++ init ++ read_eff d3 in
          match from_file d3 new with
          | Ok seed' => if list_N_eqb seed seed' then (Ok tt, es ++ [ERemove b])
                        else (Err EOther, es)
          | _ => (Err EOther, es)
          end
    | _ => (Err EOther, read_eff d)
    end.

  (** WalletSeed::recover_from_phrase: the backup happens before the phrase is checked *)
  Definition recover (d : dir) (words : option (list N)) (pw salt nonce : list N)
    : result unit * list eff :=
    let bk := if exists_file d FSeed then [ERename FSeed (first_free_bak d)] else [] in
    match words with
    | None => (Err EOther, bk)
    | Some seed2 =>
        (Ok tt, bk ++ [ECreate FSeed; EWrite FSeed (CFull (from_seed seed2 pw salt nonce))])
    end.

  (** file [f] of [d] is a complete seed file that [pw] opens to [seed] *)
  Definition holds (d : dir) (f : fname) (pw seed : list N) : Prop :=
    exists sf, lookup d f = Some (CFull sf) /\ decrypt sf pw = Ok seed.

End SeedFile.

Arguments mkSF {CT}.
Arguments sf_enc {CT}.
Arguments sf_salt {CT}.
Arguments sf_nonce {CT}.
Arguments CFull {CT}.
Arguments CPartial {CT}.
Arguments ERead {CT}.
Arguments ERename {CT}.
Arguments ECreate {CT}.
Arguments EWrite {CT}.
Arguments ERemove {CT}.

(* -------------------------------------------------------------------------------------- *)
(** ** An executable instance (used to evaluate the model next to the implementation, and
    to show that the Section hypotheses of the theorems can be met) *)

Fixpoint drop_zeros (l : list N) : list N :=
  match l with
  | 0 :: r => drop_zeros r
  | _ => l
  end.
(** HMAC pads keys shorter than its block (128 bytes for SHA-512) with zeros and hashes
    longer ones (the hash is not modelled: such passwords stand for themselves). *)
Definition toy_pwnorm (p : list N) : list N :=
  if (128 <? length p)%nat then p else rev (drop_zeros (rev p)).

Definition TK : Type := (list N * list N)%type.
Definition TCT : Type := (TK * list N * list N * bool)%type.   (* key, nonce, plaintext, intact *)
Definition toy_kdf (salt pw : list N) : TK := (salt, toy_pwnorm pw).
Definition toy_seal (k : TK) (n m : list N) : TCT := (k, n, m, true).
Definition tk_eqb (a b : TK) : bool := list_N_eqb (fst a) (fst b) && list_N_eqb (snd a) (snd b).
Definition toy_open (k : TK) (n : list N) (c : TCT) : option (list N) :=
  let '(k', n', m, ok) := c in
  if ok && tk_eqb k k' && list_N_eqb n n' then Some m else None.

Definition t_from_seed := from_seed TK TCT toy_kdf toy_seal.
Definition t_decrypt := decrypt TK TCT toy_kdf toy_open.

(** Ways of damaging a seed file (the codes of [mutate_seed_file] in the harness) *)
Definition mutate (code param : N) (f : seedfile TCT) : option (seedfile TCT) :=
  let tamper := match sf_enc f with
                | Some (k, n, m, _) => Some (k, n, m, false)
                | None => None
                end in
  match code with
  | 0 => Some f
  | 1 => Some (mkSF (sf_enc f) (sf_salt f) (option_map (firstn (N.to_nat param)) (sf_nonce f)))
  | 2 => Some (mkSF (sf_enc f) (sf_salt f)
                 (option_map (fun n => n ++ repeat 171 (N.to_nat (N.max param 1))) (sf_nonce f)))
  | 3 | 4 | 13 => Some (mkSF (sf_enc f) (sf_salt f) None)
  | 5 => Some (mkSF (sf_enc f) (sf_salt f) (option_map (map (fun x => x + 1)) (sf_nonce f)))
  | 6 => Some (mkSF (sf_enc f) (option_map (map (fun x => x + 1)) (sf_salt f)) (sf_nonce f))
  | 7 | 16 => Some (mkSF (sf_enc f) None (sf_nonce f))
  | 8 => Some (mkSF (sf_enc f) (Some []) (sf_nonce f))
  | 9 | 10 | 12 => Some (mkSF tamper (sf_salt f) (sf_nonce f))
  | 11 | 17 => Some (mkSF None (sf_salt f) (sf_nonce f))
  | _ => None                       (* 14 (field missing), 15 (cut): not a seedfile at all *)
  end.

(** 0 = opens to [seed], 3 = opens to something else, 1 = Err, 2 = Panic *)
Definition open_class (seed : list N) (r : result (list N)) : Z :=
  match r with
  | Ok s => if list_N_eqb s seed then 0 else 3
  | Err _ => 1
  | Panic _ => 2
  end%Z.

Definition SALT : list N := [1; 2; 3; 4; 5; 6; 7; 8].
Definition NONCE : list N := [9; 8; 7; 6; 5; 4; 3; 2; 1; 0; 1; 2].

(** (seed, password, passwords to try, mutations) -> [[right]; wrong...; malformed...] *)
Definition run_seed (c : list N * list N * list (list N) * list (N * N)) : list (list Z) :=
  let '(seed, pw, tries, muts) := c in
  let f := t_from_seed seed pw SALT NONCE in
  [ [open_class seed (t_decrypt f pw)];
    map (fun t => open_class seed (t_decrypt f t)) tries;
    map (fun m => match mutate (fst m) (snd m) f with
                  | Some f' => open_class seed (t_decrypt f' pw)
                  | None => 1%Z
                  end) muts ].

(** File operations. Passwords: 0 old, 1 new, 2 another; seeds: 0 the original, 1 another,
    2 the recovery phrase's. *)
Definition fcode (f : fname) : Z :=
  match f with FSeed => 0 | FBak i => Z.of_nat (S i) end.
Definition eff_row (e : eff TCT) : list Z :=
  match e with
  | ERead f => [0; fcode f; 0]
  | ERename a b => [1; fcode a; fcode b]
  | ECreate f => [2; fcode f; 0]
  | EWrite f _ => [3; fcode f; 0]
  | ERemove f => [4; fcode f; 0]
  end%Z.

Definition t_dir := dir TCT.
Definition content_class (seed pw : list N) (c : content TCT) : Z :=
  match c with
  | CFull f => open_class seed (t_decrypt f pw)
  | CPartial => 1%Z
  end.
(** files of a state in the order wallet.seed, .bak, .bak.1, ... up to .bak.7:
    (file code, class with the old password, class with the new one) *)
Definition state_row (seed old new : list N) (d : t_dir) : list Z :=
  flat_map (fun f => match lookup TCT d f with
                     | Some c => [fcode f; content_class seed old c; content_class seed new c]
                     | None => []
                     end)
           (FSeed :: map FBak (seq 0 8)).

Record fcase := mkFcase {
  fc_change : bool;                    (* change_password | recover *)
  fc_has_seed : bool;                  (* wallet.seed present *)
  fc_baks : list (nat * N * N);        (* existing backups: index, password id, seed id *)
  fc_same_pw : bool;                   (* new password = old password *)
  fc_wrong_old : bool;                 (* change_password called with a wrong old password *)
  fc_phrase : N                        (* recover: 0 same phrase, 1 another, 2 invalid *)
}.

Definition seed_of (i : N) : list N := repeat (7 + i) 16.
Definition run_fileops (c : fcase) : list (list Z) :=
  let old := [1] in
  let new := if fc_same_pw c then old else [2] in
  let pw_of (i : N) := match i with 0 => old | 1 => new | _ => [3] end in
  let orig := seed_of 0 in
  let d0 : t_dir :=
    (if fc_has_seed c then [(FSeed, CFull (t_from_seed orig old SALT NONCE))] else [])
    ++ map (fun b => match b with
                     | (i, p, s) => (FBak i, CFull (t_from_seed (seed_of s) (pw_of p) SALT NONCE))
                     end) (fc_baks c) in
  let '(r, es) :=
    if fc_change c
    then change_password TK TCT toy_kdf toy_seal toy_open (fun s => s) d0
           (if fc_wrong_old c then [1; 63] else old) new SALT NONCE
    else recover TK TCT toy_kdf toy_seal d0
           (match fc_phrase c with 0 => Some orig | 1 => Some (seed_of 2) | _ => None end)
           new SALT NONCE in
  [match r with Ok _ => 0 | Err _ => 1 | Panic _ => 2 end]%Z
  :: flat_map eff_row es
  :: map (state_row orig old new) (crash_states TCT d0 es).
