(** Proofs for C12 (statements collected in props/C12.v). *)
From GW Require Import Base Secrets.
From Coq Require Import ZifyBool ZifyN ZifyNat FinFun.

(* ====================================================================================== *)
(** * A: nothing emitted carries a secret in clear *)

Definition item_ok (it : item) : Prop := forallb clear_free (item_terms it) = true.

Lemma forallb_repeat_data n : forallb clear_free (repeat (Data 0) n) = true.
Proof. induction n as [|n IH]; cbn; auto. Qed.

Lemma msg_ok s e n : item_ok (IMsg s [e] n).
Proof.
  unfold item_ok, item_terms. cbn [flat_map]. rewrite app_nil_r, forallb_app.
  rewrite forallb_repeat_data. unfold entry_terms. destruct (e_sig e); reflexivity.
Qed.

Lemma rec_ok s c : item_ok (record_of false s c).
Proof. reflexivity. Qed.

Ltac items_ok :=
  repeat first [ apply Forall_nil
               | apply Forall_cons; [ first [ apply rec_ok | apply msg_ok ] | ] ].

Lemma step_items_ok test w o w' its :
  step false test w o = Ok (w', its) -> Forall item_ok its.
Proof.
  destruct o as [late|s|s np| |s|s np|s|]; unfold step.
  - destruct (ctx_new test true w) as [c w1]. intros H; inversion H; subst.
    items_ok.
  - destruct (mem_sid s (w_received w)); [discriminate|].
    destruct (ctx_new test false w) as [c w1]. intros H; inversion H; subst.
    items_ok.
  - destruct (lookup_ctx s (w_ctxs w)) as [c|]; [|discriminate].
    destruct (signing_pair _) as [k n]. intros H; inversion H; subst.
    apply Forall_app; split.
    + destruct (c_late c); repeat constructor.
    + repeat constructor. apply msg_ok.
  - destruct (ctx_new test true w) as [c w1]. intros H; inversion H; subst.
    items_ok.
  - destruct (mem_sid s (w_paid w)); [discriminate|].
    destruct (ctx_new test false w) as [c w1]. intros H; inversion H; subst.
    items_ok.
  - destruct (lookup_ctx s (w_ctxs w)) as [c|]; [|discriminate].
    destruct (signing_pair c) as [k n]. intros H; inversion H; subst.
    items_ok.
  - intros H; inversion H; constructor.
  - intros H; inversion H; constructor.
Qed.

Lemma run_items_ok test ops : forall w, Forall item_ok (snd (run false test w ops)).
Proof.
  induction ops as [|o r IH]; intros w; cbn [run snd]; [constructor|].
  destruct (step false test w o) as [[w' its]|e|p] eqn:E; try apply IH.
  specialize (IH w'). destruct (run false test w' r) as [w'' its']. cbn [snd] in *.
  apply Forall_app; split; [eapply step_items_ok; eauto | exact IH].
Qed.

Theorem emitted_clear_free : forall (test : bool) (ops : list op) (it : item) (t : term),
  In it (emitted false test ops) -> In t (item_terms it) -> forall x, t <> Clear x.
Proof.
  intros test ops it t Hit Ht x ->.
  pose proof (run_items_ok test ops w0) as H. rewrite Forall_forall in H.
  specialize (H it Hit). unfold item_ok in H. rewrite forallb_forall in H.
  specialize (H _ Ht). discriminate.
Qed.

(** The record layout written before the fix: initial_sec_key in clear. *)
Lemma legacy_layout_leaks :
  exists it t x, In it (emitted true false [OInit false]) /\ In t (item_terms it) /\ t = Clear x.
Proof.
  eexists (IRec _ _), _, _. split; [left; reflexivity|]. split; [|reflexivity].
  cbn. right; right; left; reflexivity.
Qed.

(* ====================================================================================== *)
(** * C: draws are never shared between slate ids *)

Lemma sid_eqb_eq a b : sid_eqb a b = true <-> a = b.
Proof.
  destruct a, b; cbn; split; intros H; try discriminate; try (inversion H; subst);
    try (apply N.eqb_eq in H; subst); try reflexivity; apply N.eqb_refl.
Qed.

Definition draw_idx (x : secret) : list N := match x with SDraw i => [i] | _ => [] end.
Definition is_draw (x : secret) : Prop := exists i, x = SDraw i.

Definition ctx_idx (c : ctx) : list N :=
  draw_idx (c_key c) ++ draw_idx (c_nonce c) ++ draw_idx (c_ikey c) ++ draw_idx (c_inonce c).
Definition ctx_pairs (p : sid * ctx) : list (sid * N) := map (pair (fst p)) (ctx_idx (snd p)).
Definition entry_pairs (p : sid * entry) : list (sid * N) :=
  map (pair (fst p)) (draw_idx (e_nonce (snd p)) ++ draw_idx (e_key (snd p))).

Definition cpairs (l : list (sid * ctx)) : list (sid * N) := flat_map ctx_pairs l.
Definition epairs (its : list item) : list (sid * N) := flat_map entry_pairs (own_entries its).

Lemma own_entries_app a b : own_entries (a ++ b) = own_entries a ++ own_entries b.
Proof. unfold own_entries. apply flat_map_app. Qed.
Lemma epairs_app a b : epairs (a ++ b) = epairs a ++ epairs b.
Proof. unfold epairs. rewrite own_entries_app. apply flat_map_app. Qed.

Lemma cpairs_remove s l p : In p (cpairs (remove_ctx s l)) -> In p (cpairs l).
Proof.
  unfold cpairs, remove_ctx. rewrite !in_flat_map. intros (x & Hx & Hp).
  apply filter_In in Hx. exists x; tauto.
Qed.

Lemma lookup_ctx_in s l c : lookup_ctx s l = Some c -> In (s, c) l.
Proof.
  induction l as [|[s' c'] r IH]; cbn; [discriminate|].
  destruct (sid_eqb s s') eqn:E.
  - intros H; inversion H; subst. apply sid_eqb_eq in E; subst. now left.
  - intros H; right; auto.
Qed.

Lemma cpairs_lookup s l c i : lookup_ctx s l = Some c -> In i (ctx_idx c) -> In (s, i) (cpairs l).
Proof.
  intros H Hi. apply lookup_ctx_in in H. unfold cpairs. rewrite in_flat_map.
  exists (s, c); split; auto. unfold ctx_pairs; cbn. now apply in_map.
Qed.

(** The slate a call works on *)
Definition op_sid (w : wallet) (o : op) : sid :=
  match o with
  | OInit _ | OInvoice => Own (w_slates w)
  | ORecv s | OFin s _ | OPay s | OFinInv s _ | OCancel s => s
  | ONop => Own 0
  end.

Lemma signing_pair_idx c k n :
  signing_pair c = (k, n) ->
  forall i, In i (draw_idx n ++ draw_idx k) -> In i (ctx_idx c).
Proof.
  unfold signing_pair, ctx_idx.
  destruct (negb _ && negb _); intros H; inversion H; subst; intros i Hi;
    rewrite !in_app_iff in *; tauto.
Qed.

Lemma signing_pair_draw c k n :
  signing_pair c = (k, n) ->
  is_draw (c_key c) -> is_draw (c_nonce c) -> is_draw (c_ikey c) -> is_draw (c_inonce c) ->
  is_draw k /\ is_draw n.
Proof.
  unfold signing_pair. destruct (negb _ && negb _); intros H; inversion H; subst; tauto.
Qed.

(** What one successful call (production RNG) adds: every (slate, draw) pair of the new
    state and of the new items either existed among the stored contexts, or is a fresh
    draw made for the slate of this call. *)
Ltac fresh_pairs Hin :=
  repeat match type of Hin with _ \/ _ => destruct Hin as [Hin|Hin] end;
  try contradiction;
  inversion Hin; subst; (split; [lia | reflexivity]).

Lemma step_pairs w o w' its :
  step false false w o = Ok (w', its) ->
  w_draws w <= w_draws w' /\
  forall s i, In (s, i) (cpairs (w_ctxs w') ++ epairs its) ->
    In (s, i) (cpairs (w_ctxs w)) \/ (w_draws w <= i < w_draws w' /\ s = op_sid w o).
Proof.
  destruct o as [late|s|s np| |s|s np|s|]; unfold step, ctx_new.
  - (* OInit *)
    intros H; inversion H; subst; clear H. cbn [w_draws w_ctxs]. split; [lia|].
    intros s i Hin. rewrite in_app_iff in Hin. destruct Hin as [Hin|Hin].
    + unfold put_ctx in Hin. cbn [cpairs flat_map] in Hin. rewrite in_app_iff in Hin.
      destruct Hin as [Hin|Hin]; [|left; eapply cpairs_remove; exact Hin].
      right. unfold ctx_pairs, ctx_idx in Hin; cbn in Hin.
      cbn [op_sid]. fresh_pairs Hin.
    + right. cbn in Hin. cbn [op_sid]. fresh_pairs Hin.
  - (* ORecv *)
    destruct (mem_sid s (w_received w)); [discriminate|].
    intros H; inversion H; subst; clear H. cbn [w_draws w_ctxs]. split; [lia|].
    intros s' i Hin. rewrite in_app_iff in Hin. destruct Hin as [Hin|Hin]; [now left|].
    right. cbn in Hin. cbn [op_sid]. fresh_pairs Hin.
  - (* OFin *)
    destruct (lookup_ctx s (w_ctxs w)) as [c|] eqn:L; [|discriminate].
    destruct (signing_pair _) as [k n] eqn:SP.
    intros H; inversion H; subst; clear H. cbn [w_draws w_ctxs]. split; [destruct (c_late c); lia|].
    intros s' i Hin. left. rewrite in_app_iff in Hin. destruct Hin as [Hin|Hin].
    + eapply cpairs_remove; exact Hin.
    + rewrite epairs_app in Hin. rewrite in_app_iff in Hin. destruct Hin as [Hin|Hin].
      * destruct (c_late c); cbn in Hin; contradiction.
      * unfold epairs, own_entries in Hin. cbn [flat_map map app] in Hin. rewrite app_nil_r in Hin.
        unfold entry_pairs in Hin; cbn [fst snd e_nonce e_key] in Hin.
        apply in_map_iff in Hin. destruct Hin as (j & Hj & Hin). inversion Hj; subst.
        eapply cpairs_lookup; [exact L|].
        pose proof (signing_pair_idx _ _ _ SP i Hin) as Hc. exact Hc.
  - (* OInvoice *)
    intros H; inversion H; subst; clear H. cbn [w_draws w_ctxs]. split; [lia|].
    intros s i Hin. rewrite in_app_iff in Hin. destruct Hin as [Hin|Hin].
    + unfold put_ctx in Hin. cbn [cpairs flat_map] in Hin. rewrite in_app_iff in Hin.
      destruct Hin as [Hin|Hin]; [|left; eapply cpairs_remove; exact Hin].
      right. unfold ctx_pairs, ctx_idx in Hin; cbn in Hin.
      cbn [op_sid]. fresh_pairs Hin.
    + right. cbn in Hin. cbn [op_sid]. fresh_pairs Hin.
  - (* OPay *)
    destruct (mem_sid s (w_paid w)); [discriminate|].
    intros H; inversion H; subst; clear H. cbn [w_draws w_ctxs]. split; [lia|].
    intros s' i Hin. rewrite in_app_iff in Hin. destruct Hin as [Hin|Hin].
    + unfold put_ctx in Hin. cbn [cpairs flat_map] in Hin. rewrite in_app_iff in Hin.
      destruct Hin as [Hin|Hin]; [|left; eapply cpairs_remove; exact Hin].
      destruct (lookup_ctx s (w_ctxs w)) as [c0|] eqn:L.
      * unfold ctx_pairs, ctx_idx in Hin; cbn [fst snd c_key c_nonce c_ikey c_inonce draw_idx] in Hin.
        apply in_map_iff in Hin. destruct Hin as (j & Hj & Hin). inversion Hj; subst.
        cbn [app] in Hin. destruct Hin as [Hin|[Hin|Hin]].
        -- right. subst. cbn [op_sid]. split; [lia|reflexivity].
        -- right. subst. cbn [op_sid]. split; [lia|reflexivity].
        -- left. eapply cpairs_lookup; [exact L|]. unfold ctx_idx. rewrite !in_app_iff in *. tauto.
      * right. unfold ctx_pairs, ctx_idx in Hin; cbn in Hin. cbn [op_sid]. fresh_pairs Hin.
    + right. cbn in Hin. cbn [op_sid]. fresh_pairs Hin.
  - (* OFinInv *)
    destruct (lookup_ctx s (w_ctxs w)) as [c|] eqn:L; [|discriminate].
    destruct (signing_pair c) as [k n] eqn:SP.
    intros H; inversion H; subst; clear H. cbn [w_draws w_ctxs set_ctxs]. split; [lia|].
    intros s' i Hin. left. rewrite in_app_iff in Hin. destruct Hin as [Hin|Hin].
    + eapply cpairs_remove; exact Hin.
    + unfold epairs, own_entries in Hin. cbn [flat_map map app] in Hin. rewrite app_nil_r in Hin.
      unfold entry_pairs in Hin; cbn [fst snd e_nonce e_key] in Hin.
      apply in_map_iff in Hin. destruct Hin as (j & Hj & Hin). inversion Hj; subst.
      eapply cpairs_lookup; [exact L|]. exact (signing_pair_idx _ _ _ SP i Hin).
  - intros H; inversion H; subst; clear H. split; [lia|].
    intros s' i Hin. rewrite app_nil_r in Hin. now left.
  - intros H; inversion H; subst; clear H. split; [lia|].
    intros s' i Hin. rewrite app_nil_r in Hin. now left.
Qed.

Definition all_pairs (w : wallet) (its : list item) : list (sid * N) :=
  cpairs (w_ctxs w) ++ epairs its.

Definition Inv (w : wallet) (its : list item) : Prop :=
  (forall s i, In (s, i) (all_pairs w its) -> i < w_draws w) /\
  (forall s s' i, In (s, i) (all_pairs w its) -> In (s', i) (all_pairs w its) -> s = s').

Lemma Inv_step w its o w' its' :
  Inv w its -> step false false w o = Ok (w', its') -> Inv w' (its ++ its').
Proof.
  intros [Hlt Hfun] Hstep. destruct (step_pairs _ _ _ _ Hstep) as [Hle Hp].
  assert (Hcls : forall s i, In (s, i) (all_pairs w' (its ++ its')) ->
            In (s, i) (all_pairs w its) \/ (w_draws w <= i < w_draws w' /\ s = op_sid w o)).
  { intros s i Hin. unfold all_pairs in Hin. rewrite epairs_app in Hin.
    rewrite !in_app_iff in Hin. unfold all_pairs. rewrite in_app_iff.
    destruct Hin as [Hin|[Hin|Hin]].
    - destruct (Hp s i) as [H|H]; [rewrite in_app_iff; now left| now left; left | now right].
    - left; now right.
    - destruct (Hp s i) as [H|H]; [rewrite in_app_iff; now right| now left; left | now right]. }
  split.
  - intros s i Hin. destruct (Hcls _ _ Hin) as [H|[H _]]; [specialize (Hlt _ _ H)|]; lia.
  - intros s s' i H1 H2.
    destruct (Hcls _ _ H1) as [A|[A A']], (Hcls _ _ H2) as [B|[B B']].
    + eapply Hfun; eauto.
    + specialize (Hlt _ _ A). lia.
    + specialize (Hlt _ _ B). lia.
    + congruence.
Qed.

(** With the production RNG every secret of a context / an entry is a draw *)
Definition ctx_draws (c : ctx) : Prop :=
  is_draw (c_key c) /\ is_draw (c_nonce c) /\ is_draw (c_ikey c) /\ is_draw (c_inonce c).
Definition AllDraw (w : wallet) (its : list item) : Prop :=
  (forall s c, In (s, c) (w_ctxs w) -> ctx_draws c) /\
  (forall s e, In (s, e) (own_entries its) -> is_draw (e_nonce e) /\ is_draw (e_key e)).

Lemma in_remove_ctx s l p : In p (remove_ctx s l) -> In p l.
Proof. unfold remove_ctx. intros H. apply filter_In in H. tauto. Qed.

Lemma AllDraw_step w its o w' its' :
  AllDraw w its -> step false false w o = Ok (w', its') -> AllDraw w' (its ++ its').
Proof.
  intros [Hc He] Hstep.
  assert (D : forall i, is_draw (SDraw i)) by (intros i; now exists i).
  destruct o as [late|s|s np| |s|s np|s|]; unfold step, ctx_new in Hstep.
  - inversion Hstep; subst; clear Hstep. split.
    + cbn [w_ctxs]. intros s c [H|H]; [inversion H; subst; repeat split; apply D|].
      apply in_remove_ctx in H. eauto.
    + intros s e H. rewrite own_entries_app in H. apply in_app_iff in H. destruct H as [H|H]; [eauto|].
      cbn in H. destruct H as [H|[]]. inversion H; subst. cbn. split; apply D.
  - destruct (mem_sid s (w_received w)); [discriminate|].
    inversion Hstep; subst; clear Hstep. split; [exact Hc|].
    intros s' e H. rewrite own_entries_app in H. apply in_app_iff in H. destruct H as [H|H]; [eauto|].
    cbn in H. destruct H as [H|[]]. inversion H; subst. cbn. split; apply D.
  - destruct (lookup_ctx s (w_ctxs w)) as [c|] eqn:L; [|discriminate].
    destruct (signing_pair _) as [k n] eqn:SP.
    inversion Hstep; subst; clear Hstep. split.
    + cbn [w_ctxs]. intros s' c' H. apply in_remove_ctx in H. eauto.
    + intros s' e H. rewrite !own_entries_app in H. rewrite !in_app_iff in H.
      destruct H as [H|[H|H]]; [eauto| |].
      * destruct (c_late c); cbn in H; contradiction.
      * cbn in H. destruct H as [H|[]]. inversion H; subst. cbn.
        apply lookup_ctx_in in L. destruct (Hc _ _ L) as (A & B & C & E).
        destruct (signing_pair_draw _ _ _ SP) as [X Y]; cbn; auto.
  - inversion Hstep; subst; clear Hstep. split.
    + cbn [w_ctxs]. intros s c [H|H]; [inversion H; subst; repeat split; apply D|].
      apply in_remove_ctx in H. eauto.
    + intros s e H. rewrite own_entries_app in H. apply in_app_iff in H. destruct H as [H|H]; [eauto|].
      cbn in H. destruct H as [H|[]]. inversion H; subst. cbn. split; apply D.
  - destruct (mem_sid s (w_paid w)); [discriminate|].
    inversion Hstep; subst; clear Hstep. split.
    + cbn [w_ctxs]. intros s' c' [H|H].
      * inversion H; subst. destruct (lookup_ctx s' (w_ctxs w)) as [c0|] eqn:L.
        -- apply lookup_ctx_in in L. destruct (Hc _ _ L) as (A & B & C & E).
           repeat split; cbn; auto.
        -- repeat split; apply D.
      * apply in_remove_ctx in H. eauto.
    + intros s' e H. rewrite own_entries_app in H. apply in_app_iff in H. destruct H as [H|H]; [eauto|].
      cbn in H. destruct H as [H|[]]. inversion H; subst. cbn. split; apply D.
  - destruct (lookup_ctx s (w_ctxs w)) as [c|] eqn:L; [|discriminate].
    destruct (signing_pair c) as [k n] eqn:SP.
    inversion Hstep; subst; clear Hstep. split.
    + cbn [w_ctxs set_ctxs]. intros s' c' H. apply in_remove_ctx in H. eauto.
    + intros s' e H. rewrite own_entries_app in H. apply in_app_iff in H. destruct H as [H|H]; [eauto|].
      cbn in H. destruct H as [H|[]]. inversion H; subst. cbn.
      apply lookup_ctx_in in L. destruct (Hc _ _ L) as (A & B & C & E).
      destruct (signing_pair_draw _ _ _ SP) as [X Y]; auto.
  - inversion Hstep; subst. rewrite app_nil_r. split; assumption.
  - inversion Hstep; subst. rewrite app_nil_r. split; assumption.
Qed.

Lemma run_inv ops : forall w its,
  Inv w its -> AllDraw w its ->
  Inv (fst (run false false w ops)) (its ++ snd (run false false w ops)) /\
  AllDraw (fst (run false false w ops)) (its ++ snd (run false false w ops)).
Proof.
  induction ops as [|o r IH]; intros w its HI HA; cbn [run fst snd].
  - rewrite app_nil_r. split; assumption.
  - destruct (step false false w o) as [[w' its']|e|p] eqn:E; try (apply IH; assumption).
    specialize (IH w' (its ++ its') (Inv_step _ _ _ _ _ HI E) (AllDraw_step _ _ _ _ _ HA E)).
    destruct (run false false w' r) as [w'' its'']. cbn [fst snd] in *.
    rewrite app_assoc. exact IH.
Qed.

Theorem nonces_distinct :
  forall (rng pk : N -> N),
    (forall i j, rng i = rng j -> i = j) -> (forall a b, pk a = pk b -> a = b) ->
  forall (ops : list op) (s s' : sid) (e e' : entry),
    In (s, e) (own_entries (emitted false false ops)) ->
    In (s', e') (own_entries (emitted false false ops)) ->
    s <> s' ->
    exists i j i' j',
      e_nonce e = SDraw i /\ e_key e = SDraw j /\ e_nonce e' = SDraw i' /\ e_key e' = SDraw j' /\
      pk (rng i) <> pk (rng i') /\ pk (rng j) <> pk (rng j').
Proof.
  intros rng pk Hrng Hpk ops s s' e e' H1 H2 Hne.
  assert (I0 : Inv w0 []) by (split; cbn; intros; contradiction).
  assert (A0 : AllDraw w0 []) by (split; cbn; intros; contradiction).
  destruct (run_inv ops w0 [] I0 A0) as [[_ Hfun] [_ He]]. cbn [app] in *.
  unfold emitted in *.
  destruct (He _ _ H1) as [[i Hi] [j Hj]]. destruct (He _ _ H2) as [[i' Hi'] [j' Hj']].
  exists i, j, i', j'. repeat split; auto.
  - intros Heq. apply Hpk, Hrng in Heq. subst i'. apply Hne.
    apply (Hfun s s' i); unfold all_pairs; apply in_or_app; right;
      unfold epairs; apply in_flat_map.
    + exists (s, e); split; auto. unfold entry_pairs; cbn. rewrite Hi. now left.
    + exists (s', e'); split; auto. unfold entry_pairs; cbn. rewrite Hi'. now left.
  - intros Heq. apply Hpk, Hrng in Heq. subst j'. apply Hne.
    apply (Hfun s s' j); unfold all_pairs; apply in_or_app; right;
      unfold epairs; apply in_flat_map.
    + exists (s, e); split; auto. unfold entry_pairs; cbn. rewrite Hj.
      apply in_map, in_or_app. right. now left.
    + exists (s', e'); split; auto. unfold entry_pairs; cbn. rewrite Hj'.
      apply in_map, in_or_app. right. now left.
Qed.

(** Non-vacuity: two slates, four entries; and the fixed test RNG does repeat itself. *)
Lemma nonces_example :
  own_entries (emitted false false [OInit false; ORecv (Ext 7); OInvoice; OFin (Own 0) 1])
  = [(Own 0, mkEntry (SDraw 1) (SDraw 0) false); (Ext 7, mkEntry (SDraw 3) (SDraw 2) true);
     (Own 1, mkEntry (SDraw 5) (SDraw 4) false); (Own 0, mkEntry (SDraw 1) (SDraw 0) true)].
Proof. reflexivity. Qed.

Lemma test_rng_repeats :
  exists ops s s' e e',
    In (s, e) (own_entries (emitted false true ops)) /\
    In (s', e') (own_entries (emitted false true ops)) /\
    s <> s' /\ e_nonce e = e_nonce e' /\ e_key e = e_key e'.
Proof.
  exists [OInit false; OInit false], (Own 0), (Own 1),
    (mkEntry STestNonce (STestKey true) false), (mkEntry STestNonce (STestKey true) false).
  repeat split; cbn; auto. discriminate.
Qed.

(* ====================================================================================== *)
(** * B: the seed file *)

Lemma fname_eqb_eq a b : fname_eqb a b = true <-> a = b.
Proof.
  destruct a, b; cbn; split; intros H; try discriminate; try reflexivity.
  - apply Nat.eqb_eq in H. now subst.
  - inversion H. apply Nat.eqb_refl.
Qed.
Lemma fname_eqb_refl a : fname_eqb a a = true.
Proof. now apply fname_eqb_eq. Qed.
Lemma fname_eqb_neq a b : a <> b -> fname_eqb a b = false.
Proof. intros H. destruct (fname_eqb a b) eqn:E; auto. apply fname_eqb_eq in E. contradiction. Qed.

Section SeedProofs.
  Variable K : Type.
  Variable CT : Type.
  Variable pwnorm : list N -> list N.
  Variable kdf : list N -> list N -> K.
  Variable seal : K -> list N -> list N -> CT.
  Variable open : K -> list N -> CT -> option (list N).
  Variable mn : list N -> list N.

  Notation decrypt := (decrypt K CT kdf open).
  Notation from_seed := (from_seed K CT kdf seal).
  Notation from_file := (from_file K CT kdf open).
  Notation lookup := (lookup CT).
  Notation set := (set CT).
  Notation del := (del CT).
  Notation holds := (holds K CT kdf open).
  Notation crash_states := (crash_states CT).
  Notation change_password := (change_password K CT kdf seal open mn).
  Notation recover := (recover K CT kdf seal).
  Notation first_free_bak := (first_free_bak CT).
  Notation exists_file := (exists_file CT).

  (** decrypt returns a value for every file and password *)
  Lemma decrypt_total (f : seedfile CT) (pw : list N) (p : panic) : decrypt f pw <> Panic p.
  Proof.
    unfold Secrets.decrypt.
    destruct (sf_enc f), (sf_salt f), (sf_nonce f); try discriminate.
    destruct (length l0 <? 12)%nat; [discriminate|].
    destruct (open _ _ _); discriminate.
  Qed.

  Hypothesis kdf_norm : forall s p, kdf s (pwnorm p) = kdf s p.
  Hypothesis kdf_inj : forall s p p', kdf s p = kdf s p' -> pwnorm p = pwnorm p'.
  Hypothesis open_seal : forall k n m, open k n (seal k n m) = Some m.
  Hypothesis open_auth : forall k k' n m m', open k' n (seal k n m) = Some m' -> k' = k /\ m' = m.

  Lemma decrypt_from_seed seed pw salt nonce pw' :
    length nonce = 12%nat ->
    decrypt (from_seed seed pw salt nonce) pw' =
      match open (kdf salt pw') nonce (seal (kdf salt pw) nonce seed) with
      | Some m => Ok m | None => Err ECrypto end.
  Proof.
    intros L. unfold Secrets.decrypt, Secrets.from_seed. cbn [sf_enc sf_salt sf_nonce].
    rewrite L. cbn [Nat.ltb Nat.leb]. rewrite <- L, firstn_all. reflexivity.
  Qed.

  Theorem decrypt_iff seed pw salt nonce pw' seed' :
    length nonce = 12%nat ->
    (decrypt (from_seed seed pw salt nonce) pw' = Ok seed'
     <-> seed' = seed /\ pwnorm pw' = pwnorm pw).
  Proof.
    intros L. rewrite decrypt_from_seed by exact L. split.
    - destruct (open _ _ _) as [m|] eqn:E; [|discriminate]. intros H; inversion H; subst.
      apply open_auth in E. destruct E as [Ek Em]. split; [exact Em|]. eapply kdf_inj; eauto.
    - intros [-> Hn].
      assert (Hk : kdf salt pw' = kdf salt pw).
      { rewrite <- (kdf_norm salt pw'), Hn. apply kdf_norm. }
      rewrite Hk, open_seal. reflexivity.
  Qed.

  Theorem decrypt_wrong_password seed pw salt nonce pw' :
    length nonce = 12%nat -> pwnorm pw' <> pwnorm pw ->
    decrypt (from_seed seed pw salt nonce) pw' = Err ECrypto.
  Proof.
    intros L Hne. rewrite decrypt_from_seed by exact L.
    destruct (open _ _ _) as [m|] eqn:E; [|reflexivity].
    apply open_auth in E. destruct E as [Ek _]. apply kdf_inj in Ek. contradiction.
  Qed.

  (** directory lemmas *)
  Lemma lookup_del_same f d : lookup (del f d) f = None.
  Proof.
    induction d as [|[g c] r IH]; cbn; auto.
    destruct (fname_eqb f g) eqn:E; cbn; auto. rewrite E. exact IH.
  Qed.
  Lemma lookup_del_other f g d : f <> g -> lookup (del f d) g = lookup d g.
  Proof.
    intros Hne. induction d as [|[h c] r IH]; cbn; auto.
    destruct (fname_eqb f h) eqn:E; cbn.
    - apply fname_eqb_eq in E; subst h. rewrite (fname_eqb_neq g f) by congruence. exact IH.
    - destruct (fname_eqb g h); auto.
  Qed.
  Lemma lookup_set_same f c d : lookup (set f c d) f = Some c.
  Proof. unfold Secrets.set. cbn. now rewrite fname_eqb_refl. Qed.
  Lemma lookup_set_other f g c d : f <> g -> lookup (set f c d) g = lookup d g.
  Proof.
    intros Hne. unfold Secrets.set. cbn. rewrite (fname_eqb_neq g f) by congruence.
    now apply lookup_del_other.
  Qed.

  Lemma from_file_holds d pw seed : from_file d pw = Ok seed -> holds d FSeed pw seed.
  Proof.
    unfold Secrets.from_file, Secrets.holds. destruct (lookup d FSeed) as [[f|]|]; try discriminate.
    intros H. exists f. split; auto.
  Qed.
  Lemma from_file_exists d pw seed : from_file d pw = Ok seed -> exists_file d FSeed = true.
  Proof.
    unfold Secrets.from_file, Secrets.exists_file. destruct (lookup d FSeed) as [[f|]|]; try discriminate; auto.
  Qed.

  Lemma holds_set_other d f g c pw seed : g <> f -> holds d f pw seed -> holds (set g c d) f pw seed.
  Proof. intros Hne (sf & L & D). exists sf. split; auto. rewrite lookup_set_other; auto. Qed.

  Lemma bak_neq_seed d : first_free_bak d <> FSeed.
  Proof. unfold Secrets.first_free_bak. discriminate. Qed.

  (** change_password: whatever prefix of its file operations has happened (including a
      partially written new file), some file opens to the original seed with the old or the
      new password. Needs no assumption on the AEAD: the code checks the new file itself
      before it removes the backup. *)
  Theorem change_password_recoverable d old new salt nonce seed r es :
    from_file d old = Ok seed ->
    change_password d old new salt nonce = (r, es) ->
    forall d', In d' (crash_states d es) ->
      exists f, holds d' f old seed \/ holds d' f new seed.
  Proof.
    intros Hf Hcp d' Hin.
    pose proof (from_file_holds _ _ _ Hf) as H0.
    pose proof (from_file_exists _ _ _ Hf) as Hex.
    unfold Secrets.change_password in Hcp. rewrite Hf in Hcp.
    destruct (negb (valid_entropy seed)).
    { unfold Secrets.read_eff in Hcp. rewrite Hex in Hcp.
      inversion Hcp; subst. cbn in Hin. exists FSeed. left.
      destruct Hin as [<-|[<-|[]]]; exact H0. }
    set (b := first_free_bak d) in *.
    assert (Hb : b <> FSeed) by apply bak_neq_seed.
    destruct H0 as (sf & L0 & D0).
    cbn [Secrets.apply] in Hcp. rewrite L0 in Hcp.
    set (d1 := set b (CFull sf) (del FSeed d)) in *.
    assert (L1 : lookup d1 FSeed = None).
    { unfold d1. rewrite lookup_set_other by exact Hb. apply lookup_del_same. }
    assert (L1b : lookup d1 b = Some (CFull sf)) by (unfold d1; apply lookup_set_same).
    assert (E1 : exists_file d1 FSeed = false) by (unfold Secrets.exists_file; now rewrite L1).
    rewrite E1 in Hcp. cbn [Secrets.apply_all fold_left] in Hcp.
    rewrite E1 in Hcp. cbn [Secrets.apply_all fold_left Secrets.apply app] in Hcp.
    set (nf := CFull (from_seed (mn seed) new salt nonce)) in *.
    set (d3 := set FSeed nf (set FSeed CPartial d1)) in *.
    assert (Hh1 : holds d1 b old seed) by (exists sf; split; auto).
    assert (Hh3 : holds d3 b old seed).
    { unfold d3. apply holds_set_other; [congruence|]. apply holds_set_other; [congruence|exact Hh1]. }
    assert (Hex3 : exists_file d3 FSeed = true).
    { unfold Secrets.exists_file, d3. now rewrite lookup_set_same. }
    unfold Secrets.read_eff in Hcp. rewrite Hex, Hex3 in Hcp. cbn [app] in Hcp.
    assert (Hpre : forall tl d'',
              In d'' (crash_states d ([ERead FSeed; ERename FSeed b; ECreate FSeed; EWrite FSeed nf; ERead FSeed] ++ tl)) ->
              (exists f, holds d'' f old seed) \/ In d'' (crash_states d3 tl)).
    { intros tl d'' H. cbn [Secrets.crash_states app Secrets.apply] in H. rewrite L0 in H.
      fold d1 in H. fold d3 in H.
      destruct H as [<-|[<-|[<-|[<-|[<-|H]]]]].
      - left. exists FSeed, sf; auto.
      - left. exists FSeed, sf; auto.
      - left. exists b; exact Hh1.
      - left. exists b. apply holds_set_other; [congruence|exact Hh1].
      - left. exists b. apply holds_set_other; [congruence|].
        apply holds_set_other; [congruence|exact Hh1].
      - destruct H as [<-|H].
        + left. exists b; exact Hh3.
        + right. exact H. }
    destruct (from_file d3 new) as [seed'| |] eqn:F3.
    - destruct (list_N_eqb seed seed') eqn:Eq.
      + unfold list_N_eqb in Eq. destruct (list_eq_dec N.eq_dec seed seed'); [|discriminate]. subst seed'.
        inversion Hcp; subst.
        destruct (Hpre [ERemove b] _ Hin) as [[f H]|H]; [exists f; now left|].
        cbn [Secrets.crash_states app Secrets.apply] in H.
        destruct H as [<-|[<-|[]]].
        * exists b. left. exact Hh3.
        * exists FSeed. right. destruct (from_file_holds _ _ _ F3) as (sf3 & L3 & D3).
          exists sf3. split; [|exact D3]. rewrite lookup_del_other by exact Hb. exact L3.
      + inversion Hcp; subst.
        destruct (Hpre [] _ Hin) as [[f H]|H]; [exists f; now left|].
        cbn in H. destruct H as [<-|[]]. exists b. left. exact Hh3.
    - inversion Hcp; subst.
      destruct (Hpre [] _ Hin) as [[f H]|H]; [exists f; now left|].
      cbn in H. destruct H as [<-|[]]. exists b. left. exact Hh3.
    - inversion Hcp; subst.
      destruct (Hpre [] _ Hin) as [[f H]|H]; [exists f; now left|].
      cbn in H. destruct H as [<-|[]]. exists b. left. exact Hh3.
  Qed.

  (** After a successful change the wallet opens with the new password, to the same seed. *)
  Theorem change_password_success d old new salt nonce seed es :
    from_file d old = Ok seed ->
    change_password d old new salt nonce = (Ok tt, es) ->
    from_file (apply_all CT d es) new = Ok seed.
  Proof.
    intros Hf Hcp.
    pose proof (from_file_holds _ _ _ Hf) as H0.
    pose proof (from_file_exists _ _ _ Hf) as Hex.
    unfold Secrets.change_password in Hcp. rewrite Hf in Hcp.
    destruct (negb (valid_entropy seed)); [discriminate|].
    set (b := first_free_bak d) in *.
    assert (Hb : b <> FSeed) by apply bak_neq_seed.
    destruct H0 as (sf & L0 & D0).
    cbn [Secrets.apply] in Hcp. rewrite L0 in Hcp.
    set (d1 := set b (CFull sf) (del FSeed d)) in *.
    assert (L1 : lookup d1 FSeed = None).
    { unfold d1. rewrite lookup_set_other by exact Hb. apply lookup_del_same. }
    assert (E1 : exists_file d1 FSeed = false) by (unfold Secrets.exists_file; now rewrite L1).
    rewrite E1 in Hcp. cbn [Secrets.apply_all fold_left] in Hcp.
    rewrite E1 in Hcp. cbn [Secrets.apply_all fold_left Secrets.apply app] in Hcp.
    set (nf := CFull (from_seed (mn seed) new salt nonce)) in *.
    set (d3 := set FSeed nf (set FSeed CPartial d1)) in *.
    assert (Hex3 : exists_file d3 FSeed = true).
    { unfold Secrets.exists_file, d3. now rewrite lookup_set_same. }
    unfold Secrets.read_eff in Hcp. rewrite Hex, Hex3 in Hcp. cbn [app] in Hcp.
    destruct (from_file d3 new) as [seed'| |] eqn:F3; try discriminate.
    destruct (list_N_eqb seed seed') eqn:Eq; [|discriminate].
    unfold list_N_eqb in Eq. destruct (list_eq_dec N.eq_dec seed seed'); [|discriminate]. subst seed'.
    inversion Hcp; subst. unfold Secrets.apply_all. cbn [fold_left Secrets.apply]. rewrite L0.
    fold d1. fold d3.
    unfold Secrets.from_file in *. rewrite lookup_del_other by exact Hb. exact F3.
  Qed.

  (** Phrase recovery: the seed that was there stays in a file, under its old password,
      whatever prefix of the operations has happened. *)
  Theorem recover_recoverable d words pw salt nonce old seed r es :
    from_file d old = Ok seed ->
    recover d words pw salt nonce = (r, es) ->
    forall d', In d' (crash_states d es) -> exists f, holds d' f old seed.
  Proof.
    intros Hf Hr d' Hin.
    pose proof (from_file_holds _ _ _ Hf) as H0.
    pose proof (from_file_exists _ _ _ Hf) as Hex.
    unfold Secrets.recover in Hr. rewrite Hex in Hr.
    set (b := first_free_bak d) in *.
    assert (Hb : b <> FSeed) by apply bak_neq_seed.
    destruct H0 as (sf & L0 & D0).
    set (d1 := set b (CFull sf) (del FSeed d)).
    assert (Hh1 : holds d1 b old seed).
    { exists sf. split; auto. unfold d1. apply lookup_set_same. }
    destruct words as [seed2|]; inversion Hr; subst; clear Hr;
      cbn [Secrets.crash_states app Secrets.apply] in Hin; rewrite L0 in Hin; fold d1 in Hin.
    - destruct Hin as [<-|[<-|[<-|[<-|[<-|[]]]]]].
      + exists FSeed, sf; auto.
      + exists b; exact Hh1.
      + exists b. apply holds_set_other; [congruence|exact Hh1].
      + exists b. apply holds_set_other; [congruence|]. apply holds_set_other; [congruence|exact Hh1].
      + exists b. apply holds_set_other; [congruence|]. apply holds_set_other; [congruence|exact Hh1].
    - destruct Hin as [<-|[<-|[]]].
      + exists FSeed, sf; auto.
      + exists b; exact Hh1.
  Qed.

  (** ** Existing backups are never overwritten or removed *)

  Lemma lookup_in_keys d f c : lookup d f = Some c -> In f (map fst d).
  Proof.
    induction d as [|[g c'] r IH]; cbn; [discriminate|].
    destruct (fname_eqb f g) eqn:E.
    - apply fname_eqb_eq in E; subst. now left.
    - intros H; right; auto.
  Qed.

  Lemma first_free_spec d fuel : forall i,
    (forall j, (i <= j < first_free_from CT d fuel i)%nat -> exists_file d (FBak j) = true) /\
    (exists_file d (FBak (first_free_from CT d fuel i)) = false
     \/ first_free_from CT d fuel i = (i + fuel)%nat).
  Proof.
    induction fuel as [|k IH]; intros i; cbn [Secrets.first_free_from].
    - split; [intros j Hj; lia | right; lia].
    - destruct (exists_file d (FBak i)) eqn:E.
      + destruct (IH (S i)) as [A B]. split.
        * intros j Hj. destruct (Nat.eq_dec j i) as [->|Hne]; [exact E|]. apply A. lia.
        * destruct B as [B|B]; [now left | right; lia].
      + split; [intros j Hj; lia | now left].
  Qed.

  Lemma first_free_is_free d : NoDup (map fst d) -> lookup d (first_free_bak d) = None.
  Proof.
    intros ND. unfold Secrets.first_free_bak.
    destruct (first_free_spec d (length d) 0%nat) as [A B].
    set (r := first_free_from CT d (length d) 0) in *.
    destruct B as [B|B].
    - unfold Secrets.exists_file in B. destruct (lookup d (FBak r)); [discriminate|reflexivity].
    - cbn in B.
      destruct (lookup d (FBak r)) as [c|] eqn:L; [|reflexivity]. exfalso.
      assert (Hincl : incl (map FBak (seq 0 r)) (map fst d)).
      { intros f Hf. apply in_map_iff in Hf. destruct Hf as (j & <- & Hj). apply in_seq in Hj.
        specialize (A j ltac:(lia)). unfold Secrets.exists_file in A.
        destruct (lookup d (FBak j)) eqn:Lj; [|discriminate]. eapply lookup_in_keys; eauto. }
      assert (NDs : NoDup (map FBak (seq 0 r))).
      { apply FinFun.Injective_map_NoDup; [intros x y H; now inversion H | apply seq_NoDup]. }
      assert (Hlen : (length (map fst d) <= length (map FBak (seq 0 r)))%nat).
      { rewrite !map_length, seq_length. lia. }
      pose proof (NoDup_length_incl NDs Hlen Hincl) as Hback.
      apply lookup_in_keys in L. apply Hback in L.
      apply in_map_iff in L. destruct L as (j & Hj & Hin). inversion Hj; subst.
      apply in_seq in Hin. lia.
  Qed.

  Definition touches (e : eff CT) (f : fname) : Prop :=
    match e with
    | ERead _ => False
    | ERename a b => f = a \/ f = b
    | ECreate g | EWrite g _ | ERemove g => f = g
    end.

  Lemma apply_frame d e f : ~ touches e f -> lookup (Secrets.apply CT d e) f = lookup d f.
  Proof.
    destruct e as [g|a b|g|g c|g]; cbn [touches Secrets.apply]; intros H; auto.
    - destruct (lookup d a) eqn:La; auto.
      rewrite lookup_set_other by (intros ->; tauto). apply lookup_del_other. intros ->; tauto.
    - apply lookup_set_other. congruence.
    - apply lookup_set_other. congruence.
    - apply lookup_del_other. congruence.
  Qed.

  Lemma crash_frame es f : forall d,
    (forall e, In e es -> ~ touches e f) ->
    forall d', In d' (crash_states d es) -> lookup d' f = lookup d f.
  Proof.
    induction es as [|e r IH]; intros d H d' Hin; cbn [Secrets.crash_states] in Hin.
    - destruct Hin as [<-|[]]; reflexivity.
    - destruct Hin as [<-|Hin]; [reflexivity|].
      apply in_app_iff in Hin. destruct Hin as [Hin|Hin].
      + destruct e as [g|a b|g|g c|g]; cbn in Hin; try contradiction.
        destruct Hin as [<-|[]]. apply lookup_set_other.
        specialize (H (EWrite g c) (or_introl eq_refl)). cbn in H. congruence.
      + rewrite (IH _ (fun e0 He0 => H e0 (or_intror He0)) _ Hin).
        apply apply_frame. apply H. now left.
  Qed.

  Lemma cp_effect_targets d old new salt nonce r es :
    change_password d old new salt nonce = (r, es) ->
    forall e, In e es -> forall f, touches e f -> f = FSeed \/ f = first_free_bak d.
  Proof.
    unfold Secrets.change_password, Secrets.read_eff.
    destruct (from_file d old); [destruct (negb _)|..];
      repeat match goal with |- context [if exists_file ?a ?b then _ else _] => destruct (exists_file a b) end;
      try destruct (from_file _ new); try destruct (list_N_eqb _ _);
      intros H; inversion H; subst; clear H; intros ef Hef f Ht;
      rewrite ?in_app_iff in Hef; cbn [In] in Hef;
      repeat match goal with H : _ \/ _ |- _ => destruct H end; subst; try contradiction;
      cbn in Ht; intuition.
  Qed.

  Lemma recover_effect_targets d words pw salt nonce r es :
    recover d words pw salt nonce = (r, es) ->
    forall e, In e es -> forall f, touches e f -> f = FSeed \/ f = first_free_bak d.
  Proof.
    unfold Secrets.recover.
    destruct (exists_file d FSeed); destruct words;
      intros H; inversion H; subst; clear H; intros ef Hef f Ht;
      rewrite ?in_app_iff in Hef; cbn [In] in Hef;
      repeat match goal with H : _ \/ _ |- _ => destruct H end; subst; try contradiction;
      cbn in Ht; intuition.
  Qed.

  Theorem backups_untouched d r es :
    NoDup (map fst d) ->
    (exists old new salt nonce, change_password d old new salt nonce = (r, es)) \/
    (exists words pw salt nonce, recover d words pw salt nonce = (r, es)) ->
    forall d', In d' (crash_states d es) ->
    forall i c, lookup d (FBak i) = Some c -> lookup d' (FBak i) = Some c.
  Proof.
    intros ND Hop d' Hin i c L.
    rewrite (crash_frame es (FBak i) d); [exact L| |exact Hin].
    intros e He Ht.
    assert (Ht' : FBak i = FSeed \/ FBak i = first_free_bak d).
    { destruct Hop as [(old & new & salt & nonce & H)|(words & pw & salt & nonce & H)].
      - eapply cp_effect_targets; eauto.
      - eapply recover_effect_targets; eauto. }
    destruct Ht' as [Ht'|Ht']; [discriminate|].
    rewrite Ht' in L. rewrite first_free_is_free in L by exact ND. discriminate.
  Qed.
End SeedProofs.

(* -------------------------------------------------------------------------------------- *)
(** ** The executable instance meets the hypotheses (they are satisfiable) *)

Lemma list_N_eqb_refl l : list_N_eqb l l = true.
Proof. unfold list_N_eqb. destruct (list_eq_dec N.eq_dec l l); congruence. Qed.
Lemma list_N_eqb_eq a b : list_N_eqb a b = true -> a = b.
Proof. unfold list_N_eqb. destruct (list_eq_dec N.eq_dec a b); congruence. Qed.

Lemma drop_zeros_idem l : drop_zeros (drop_zeros l) = drop_zeros l.
Proof. induction l as [|x r IH]; cbn; auto. destruct x; cbn; auto. Qed.
Lemma drop_zeros_length l : (length (drop_zeros l) <= length l)%nat.
Proof. induction l as [|x r IH]; cbn; auto. destruct x; cbn; lia. Qed.

Lemma toy_pwnorm_idem p : toy_pwnorm (toy_pwnorm p) = toy_pwnorm p.
Proof.
  unfold toy_pwnorm. destruct (128 <? length p)%nat eqn:E.
  - now rewrite E.
  - assert (L : (length (rev (drop_zeros (rev p))) <= length p)%nat).
    { rewrite rev_length. etransitivity; [apply drop_zeros_length|]. now rewrite rev_length. }
    assert (E' : (128 <? length (rev (drop_zeros (rev p))))%nat = false).
    { apply Nat.ltb_ge. apply Nat.ltb_ge in E. lia. }
    rewrite E'. now rewrite rev_involutive, drop_zeros_idem.
Qed.

Lemma toy_kdf_norm s p : toy_kdf s (toy_pwnorm p) = toy_kdf s p.
Proof. unfold toy_kdf. now rewrite toy_pwnorm_idem. Qed.
Lemma toy_kdf_inj s p p' : toy_kdf s p = toy_kdf s p' -> toy_pwnorm p = toy_pwnorm p'.
Proof. unfold toy_kdf. intros H; now inversion H. Qed.
Lemma toy_open_seal k n m : toy_open k n (toy_seal k n m) = Some m.
Proof.
  unfold toy_open, toy_seal, tk_eqb. now rewrite !list_N_eqb_refl.
Qed.
Lemma toy_open_auth k k' n m m' : toy_open k' n (toy_seal k n m) = Some m' -> k' = k /\ m' = m.
Proof.
  unfold toy_open, toy_seal, tk_eqb. cbn [andb].
  destruct (list_N_eqb (fst k') (fst k)) eqn:A; [|discriminate].
  destruct (list_N_eqb (snd k') (snd k)) eqn:B; [|discriminate].
  destruct (list_N_eqb n n); [|discriminate]. cbn. intros H; inversion H; subst.
  apply list_N_eqb_eq in A, B. destruct k, k'; cbn in *; subst; auto.
Qed.

(** Concrete instances of the seed-file theorems *)
Example toy_right_password :
  t_decrypt (t_from_seed [11; 12; 13] [5; 6] SALT NONCE) [5; 6] = Ok [11; 12; 13]
  /\ t_decrypt (t_from_seed [11; 12; 13] [5; 6] SALT NONCE) [5; 7] = Err ECrypto.
Proof. split; reflexivity. Qed.

Example toy_change_password_states :
  let seed := repeat 7 16 in
  let d : t_dir := [(FSeed, CFull (t_from_seed seed [1] SALT NONCE))] in
  from_file TK TCT toy_kdf toy_open d [1] = Ok seed /\
  length (crash_states TCT d
            (snd (change_password TK TCT toy_kdf toy_seal toy_open (fun s => s) d [1] [2] SALT NONCE))) = 8%nat.
Proof. split; reflexivity. Qed.
