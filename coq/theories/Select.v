(** Executable model of libwallet/src/internal/selection.rs (coin selection, fee and
    change arithmetic) and of OutputData::{num_confirmations, eligible_to_spend}
    (libwallet/src/types.rs), as they stand in /repo after the C01 [fix:] commits.
    No proofs here: this file must keep evaluating when a proof breaks.
    The correspondence harness (harness/src/bin/c01.rs) runs [run_case] against the
    real functions on the same inputs. *)
From GW Require Export Base.

Inductive status := Unconfirmed | Unspent | Locked | Spent | Reverted.

Definition status_eqb (a b : status) : bool :=
  match a, b with
  | Unconfirmed, Unconfirmed | Unspent, Unspent | Locked, Locked
  | Spent, Spent | Reverted, Reverted => true
  | _, _ => false
  end.

(** The part of OutputData that selection reads. [o_key] identifies the record. *)
Record out := mkOut {
  o_root : N;          (* root_key_id: the account *)
  o_key : N;           (* key_id (+ mmr index): identity of the record *)
  o_value : N;
  o_status : status;
  o_height : N;
  o_lock : N;          (* lock_height *)
  o_cb : bool          (* is_coinbase *)
}.

(** types.rs: num_confirmations *)
Definition num_confirmations (o : out) (h : N) : N :=
  if h <? o_height o then 0
  else if status_eqb (o_status o) Unconfirmed then 0
  else sat_add 1 (h - o_height o).

(** types.rs: eligible_to_spend *)
Definition eligible (o : out) (h minconf : N) : bool :=
  if status_eqb (o_status o) Spent || status_eqb (o_status o) Locked
     || (status_eqb (o_status o) Unconfirmed && o_cb o)
     || (h <? o_lock o)
  then false
  else (status_eqb (o_status o) Unspent && (minconf <=? num_confirmations o h))
       || (status_eqb (o_status o) Unconfirmed && (minconf =? 0)).

Definition values (l : list out) : list N := map o_value l.

(** saturating fold used by select_from *)
Fixpoint sat_sum (l : list out) : N :=
  match l with [] => 0 | o :: r => sat_add (o_value o) (sat_sum r) end.

(** sum_values: checked sum *)
Definition sum_values (l : list out) : result N :=
  if sumN (values l) <=? U64MAX then Ok (sumN (values l)) else Err EGeneric.

(** take_while with the running [selected_amount] (saturating) *)
Fixpoint take_until (amount acc : N) (l : list out) : list out :=
  match l with
  | [] => []
  | o :: r => if acc <? amount then o :: take_until amount (sat_add acc (o_value o)) r
              else []
  end.

(** Rust's left fold with saturating_add equals min(sum, MAX); we state the fold
    left-to-right exactly as the code does. *)
Definition fold_sat (l : list out) : N :=
  fold_left (fun acc o => sat_add acc (o_value o)) l 0.

Definition select_from (amount : N) (select_all : bool) (l : list out) : option (list out) :=
  if amount <=? fold_sat l then
    Some (if select_all then l else take_until amount 0 l)
  else None.

(** stable insertion sort by value (slice::sort_by_key is stable) *)
Fixpoint insert_by_value (x : out) (l : list out) : list out :=
  match l with
  | [] => [x]
  | y :: r => if o_value y <? o_value x then y :: insert_by_value x r else x :: y :: r
  end.
Definition sort_by_value (l : list out) : list out := fold_right insert_by_value [] l.

(** slice::windows(k) for k > 0 *)
Fixpoint windows (k : nat) (l : list out) : list (list out) :=
  match l with
  | [] => []
  | _ :: r => if Nat.leb k (length l) then firstn k l :: windows k r else []
  end.

(** [take n l] for an N count that may exceed any nat we want to build *)
Definition takeN (n : N) (l : list out) : list out :=
  if lenN l <=? n then l else firstn (N.to_nat n) l.

(** select_coins: returns (max_available, coins) *)
Definition select_coins (os : list out) (amount h minconf max_outputs : N)
           (select_all : bool) (parent : N) : N * list out :=
  let elig := filter (fun o => (o_root o =? parent) && eligible o h minconf) os in
  let max_available := lenN elig in
  let sorted := sort_by_value elig in
  let fallback := takeN max_outputs (rev sorted) in
  if max_outputs <? max_available then
    match (if max_outputs =? 0 then None
           else first_some (select_from amount select_all)
                           (windows (N.to_nat max_outputs) sorted)) with
    | Some r => (max_available, r)
    | None =>
      match select_from amount false sorted with
      | Some r => (max_available, r)
      | None => (max_available, fallback)
      end
    end
  else
    match select_from amount select_all sorted with
    | Some r => (max_available, r)
    | None => (max_available, fallback)
    end.

(** grin_core: Transaction::weight_by_iok (saturating) and libtx::tx_fee (plain [*]) *)
Definition ACCEPT_FEE_BASE : N := 500000.
Definition weight (i o k : N) : N :=
  sat_add (sat_add (sat_mul i 1) (sat_mul o 21)) (sat_mul k 3).
Definition tx_fee (i o k : N) : result N := u64_mul (weight i o k) ACCEPT_FEE_BASE.

Definition FEE_MASK : N := 1099511627775. (* 2^40 - 1 *)
Definition fee_fields_ok (fee : N) : bool := negb (fee =? 0) && (fee <=? FEE_MASK).

Definition add_fee (amount fee : N) (aif : bool) : result N :=
  if aif then Ok amount else opt_to_res (checked_add amount fee) EGeneric.

Record params := mkParams {
  p_amount : N; p_aif : bool; p_h : N; p_minconf : N; p_max_outputs : N;
  p_change_outputs : N; p_all : bool; p_parent : N
}.

(** the [while total < amount_with_fee] loop, on explicit fuel *)
Fixpoint fee_loop (fuel : nat) (os : list out) (p : params) (max_available : N)
         (coins : list out) (total fee awf : N) : result (list out * N * N) :=
  if total <? awf then
    if lenN coins =? max_available then Err ENotEnoughFunds
    else
      match fuel with
      | O => Err EOutOfFuel
      | S fuel' =>
        let coins' := snd (select_coins os awf (p_h p) (p_minconf p) max_available
                                        (p_all p) (p_parent p)) in
        let* fee' := tx_fee (lenN coins') (p_change_outputs p + 1) 1 in
        let* total' := sum_values coins' in
        let* awf' := add_fee (p_amount p) fee' (p_aif p) in
        fee_loop fuel' os p max_available coins' total' fee' awf'
      end
  else Ok (coins, total, fee).

Definition loop_fuel (os : list out) : nat := S (S (length os)).

(** select_coins_and_fee: (coins, total, new_amount, fee) *)
Definition select_coins_and_fee (os : list out) (p : params)
  : result (list out * N * N * N) :=
  let '(max_available, coins) :=
    select_coins os (p_amount p) (p_h p) (p_minconf p) (p_max_outputs p) (p_all p) (p_parent p) in
  let* fee0 := tx_fee (lenN coins) 1 1 in
  let* total := sum_values coins in
  let* awf0 := add_fee (p_amount p) fee0 (p_aif p) in
  if total =? 0 then Err ENotEnoughFunds
  else if (total <? awf0) && (lenN coins =? max_available) then Err ENotEnoughFunds
  else
    let* (coins', total', fee') :=
      (if total =? awf0 then Ok (coins, total, fee0)
       else
         let* fee1 := tx_fee (lenN coins) (p_change_outputs p + 1) 1 in
         let* awf1 := add_fee (p_amount p) fee1 (p_aif p) in
         fee_loop (loop_fuel os) os p max_available coins total fee1 awf1) in
    if negb (fee_fields_ok fee') then Err EFee
    else
      let* new_amount :=
        (if p_aif p then opt_to_res (checked_sub (p_amount p) fee') EGeneric
         else Ok (p_amount p)) in
      Ok (coins', total', new_amount, fee').

(** inputs_and_change: the vector of change amounts *)
Definition split_change (change n : N) : result (list N) :=
  if change =? 0 then Ok []
  else if (n =? 0) || (change <? n) then Err EGeneric
  else
    let part := change / n in
    let rem := change mod n in
    Ok (repeat part (N.to_nat (n - 1)) ++ [part + rem]).

Definition inputs_and_change (coins : list out) (amount fee n : N) : result (list N) :=
  let* total := sum_values coins in
  match checked_sub total amount with
  | None => Err EGeneric
  | Some c1 =>
    match checked_sub c1 fee with
    | None => Err EGeneric
    | Some change => split_change change n
    end
  end.

Record built := mkBuilt {
  b_inputs : list out; b_total : N; b_amount : N; b_fee : N; b_changes : list N
}.

(** select_send_tx / build_send_tx as far as amounts are concerned *)
Definition build_send (os : list out) (p : params) : result built :=
  let* (coins, total, amount', fee) := select_coins_and_fee os p in
  let* changes := inputs_and_change coins amount' fee (p_change_outputs p) in
  Ok (mkBuilt coins total amount' fee changes).

(** canonical encoding, shared with harness/src/bin/c01.rs *)
Definition enc_result (r : result built) : list Z :=
  match r with
  | Ok b =>
    [0%Z; Z.of_N (b_amount b); Z.of_N (b_fee b); Z.of_N (b_total b);
     Z.of_N (lenN (b_inputs b))] ++ map (fun o => Z.of_N (o_key o)) (b_inputs b)
    ++ [Z.of_N (lenN (b_changes b))] ++ map Z.of_N (b_changes b)
  | Err e => [1%Z; err_code e]
  | Panic _ => [2%Z]
  end.

Definition run_case (c : list out * params) : list Z := enc_result (build_send (fst c) (snd c)).

(** build_send_tx as the late-locked finalize calls it: the selection is redone, and refused
    unless it needs exactly the fee fixed when the send was initiated (the fee the counterparty
    has signed for) *)
Definition build_send_fixed (os : list out) (p : params) (fixed : N) : result built :=
  let* b := build_send os p in
  if b_fee b =? fixed then Ok b else Err EFee.
Definition run_case_fixed (c : list out * params * N) : list Z :=
  enc_result (build_send_fixed (fst (fst c)) (snd (fst c)) (snd c)).
