(** Proofs about the selection model (Select.v): conservation of value, fee bounds,
    inputs are spendable outputs of the source account, totality, termination. *)
From GW Require Import Select.
From Coq Require Import Permutation ZifyBool ZifyN ZifyNat.
Ltac Zify.zify_post_hook ::= Z.div_mod_to_equations.

(* ------------------------------------------------------------------ helpers *)

Lemma lenN_app {A} (l1 l2 : list A) : lenN (l1 ++ l2) = lenN l1 + lenN l2.
Proof. unfold lenN; rewrite app_length; lia. Qed.

Lemma lenN_repeat {A} (x : A) n : lenN (repeat x n) = N.of_nat n.
Proof. unfold lenN; now rewrite repeat_length. Qed.

Lemma bind_ok {A B} (r : result A) (f : A -> result B) b :
  bind r f = Ok b -> exists a, r = Ok a /\ f a = Ok b.
Proof. destruct r as [a|e|q]; cbn; intros H; try discriminate; eauto. Qed.

Ltac inv_bind H :=
  let a := fresh "v" in let H1 := fresh "Hb" in let H2 := fresh "Hk" in
  apply bind_ok in H; destruct H as (a & H1 & H2).

(* ------------------------------------------------------------------ eligibility *)

Lemma eligible_sound o h minconf :
  eligible o h minconf = true ->
  o_status o <> Locked /\ o_status o <> Spent /\ o_status o <> Reverted
  /\ o_lock o <= h /\ (o_status o = Unconfirmed -> o_cb o = false /\ minconf = 0).
Proof.
  unfold eligible. destruct o as [r k v s ht lk cb]; cbn.
  destruct s, cb; cbn; intros H;
    repeat match goal with
    | H : context [if ?b then _ else _] |- _ => destruct b eqn:?
    end; try discriminate; repeat split; try discriminate; try lia; intros; try discriminate;
    repeat split; try reflexivity; lia.
Qed.

(* ------------------------------------------------------------------ change split *)

Lemma split_change_sum change n l :
  split_change change n = Ok l -> sumN l = change.
Proof.
  unfold split_change.
  destruct (change =? 0) eqn:E0.
  - intros H; inversion H; subst; cbn; lia.
  - destruct ((n =? 0) || (change <? n)) eqn:E1; [discriminate|].
    intros H; inversion H; subst; clear H.
    rewrite sumN_app, sumN_repeat; cbn [sumN].
    rewrite N2Nat.id.
    assert (n <> 0) by lia.
    pose proof (N.div_mod change n H). nia.
Qed.

Lemma split_change_shape change n l :
  split_change change n = Ok l ->
  (l = [] /\ change = 0) \/ (lenN l = n /\ 0 < n /\ Forall (fun x => 0 < x) l).
Proof.
  unfold split_change.
  destruct (change =? 0) eqn:E0.
  - intros H; inversion H; left; split; [reflexivity|lia].
  - destruct ((n =? 0) || (change <? n)) eqn:E1; [discriminate|].
    intros H; inversion H; subst; clear H. right.
    assert (Hn : n <> 0) by lia.
    assert (Hp : 0 < change / n).
    { apply N.div_str_pos; lia. }
    split; [|split].
    + rewrite lenN_app, lenN_repeat, N2Nat.id. unfold lenN; cbn. lia.
    + lia.
    + apply Forall_app; split.
      * apply Forall_forall; intros x Hx; apply repeat_spec in Hx; subst; exact Hp.
      * constructor; [lia|constructor].
Qed.

Lemma sum_values_ok l t : sum_values l = Ok t -> t = sumN (values l) /\ t <= U64MAX.
Proof.
  unfold sum_values. destruct (sumN (values l) <=? U64MAX) eqn:E; [|discriminate].
  intros H; inversion H; subst. split; [reflexivity|lia].
Qed.

Lemma inputs_and_change_sum coins amount fee n l :
  inputs_and_change coins amount fee n = Ok l ->
  sumN (values coins) = amount + fee + sumN l.
Proof.
  unfold inputs_and_change. intros H. inv_bind H.
  apply sum_values_ok in Hb as [-> _].
  unfold checked_sub in Hk.
  destruct (amount <=? sumN (values coins)) eqn:E1; [|discriminate].
  destruct (fee <=? sumN (values coins) - amount) eqn:E2; [|discriminate].
  apply split_change_sum in Hk. lia.
Qed.

Lemma inputs_and_change_shape coins amount fee n l :
  inputs_and_change coins amount fee n = Ok l ->
  (l = [] /\ sumN (values coins) = amount + fee)
  \/ (lenN l = n /\ 0 < n /\ Forall (fun x => 0 < x) l).
Proof.
  unfold inputs_and_change. intros H. inv_bind H.
  apply sum_values_ok in Hb as [-> _].
  unfold checked_sub in Hk.
  destruct (amount <=? sumN (values coins)) eqn:E1; [|discriminate].
  destruct (fee <=? sumN (values coins) - amount) eqn:E2; [|discriminate].
  apply split_change_shape in Hk as [[-> Hz]|Hk]; [left|right; exact Hk].
  split; [reflexivity|lia].
Qed.

(* ------------------------------------------------------------------ fees *)

Lemma tx_fee_ok i o k f : tx_fee i o k = Ok f -> f = weight i o k * ACCEPT_FEE_BASE.
Proof.
  unfold tx_fee, u64_mul. destruct (_ <=? _); [|discriminate]. now intros H; inversion H.
Qed.

Lemma weight_mono_o i o1 o2 k : o1 <= o2 -> weight i o1 k <= weight i o2 k.
Proof. unfold weight, sat_add, sat_mul. lia. Qed.

Lemma tx_fee_mono_o i o1 o2 k f1 f2 :
  o1 <= o2 -> tx_fee i o1 k = Ok f1 -> tx_fee i o2 k = Ok f2 -> f1 <= f2.
Proof.
  intros Ho H1 H2. apply tx_fee_ok in H1, H2. subst.
  pose proof (weight_mono_o i o1 o2 k Ho). unfold ACCEPT_FEE_BASE. nia.
Qed.

(** with fewer than 2^32 inputs and change outputs the fee product cannot overflow *)
Lemma tx_fee_total i o : i < 4294967296 -> o <= 4294967296 -> exists f, tx_fee i o 1 = Ok f.
Proof.
  intros Hi Ho. unfold tx_fee, u64_mul.
  assert (weight i o 1 * ACCEPT_FEE_BASE <= U64MAX).
  { unfold weight, sat_add, sat_mul, ACCEPT_FEE_BASE, U64MAX. lia. }
  destruct (_ <=? _) eqn:E; [eauto|lia].
Qed.

(* ------------------------------------------------------------------ selected coins *)

(** Everything selection returns is made of eligible outputs of the parent account. *)
Definition good (os : list out) (h minconf parent : N) (o : out) : Prop :=
  In o os /\ o_root o = parent /\ eligible o h minconf = true.

Lemma insert_perm x l : Permutation (insert_by_value x l) (x :: l).
Proof.
  induction l as [|y r IH]; cbn [insert_by_value]; [reflexivity|].
  destruct (o_value y <? o_value x).
  - rewrite IH. apply perm_swap.
  - reflexivity.
Qed.

Lemma sort_perm l : Permutation (sort_by_value l) l.
Proof.
  induction l as [|x l IH]; cbn; [constructor|].
  unfold sort_by_value in *. cbn [fold_right]. rewrite insert_perm. now constructor.
Qed.

(** subsequences *)
Inductive subseq {A} : list A -> list A -> Prop :=
| ss_nil : subseq [] []
| ss_skip x l1 l2 : subseq l1 l2 -> subseq l1 (x :: l2)
| ss_take x l1 l2 : subseq l1 l2 -> subseq (x :: l1) (x :: l2).

Lemma subseq_refl {A} (l : list A) : subseq l l.
Proof. induction l; [apply ss_nil|apply ss_take; auto]. Qed.

Lemma subseq_nil {A} (l : list A) : subseq [] l.
Proof. induction l; [apply ss_nil|apply ss_skip; auto]. Qed.

Lemma subseq_in {A} (l1 l2 : list A) x : subseq l1 l2 -> In x l1 -> In x l2.
Proof. induction 1; cbn; intuition. Qed.

Lemma subseq_map {A B} (f : A -> B) l1 l2 : subseq l1 l2 -> subseq (map f l1) (map f l2).
Proof. induction 1; cbn; [apply ss_nil|apply ss_skip; auto|apply ss_take; auto]. Qed.

Lemma subseq_nodup {A} (l1 l2 : list A) : subseq l1 l2 -> NoDup l2 -> NoDup l1.
Proof.
  induction 1 as [|x l1 l2 Hs IH|x l1 l2 Hs IH]; intros Hn; auto.
  - inversion Hn; auto.
  - inversion Hn as [|? ? Hx Hn']; subst. constructor; auto.
    intros Hin; apply Hx. eapply subseq_in; eauto.
Qed.

Lemma subseq_firstn {A} k (l : list A) : subseq (firstn k l) l.
Proof.
  revert k; induction l as [|x l IH]; intros [|k]; cbn.
  - apply ss_nil.
  - apply ss_nil.
  - apply subseq_nil.
  - apply ss_take; auto.
Qed.

Lemma subseq_trans {A} (l1 l2 l3 : list A) : subseq l1 l2 -> subseq l2 l3 -> subseq l1 l3.
Proof.
  intros H12 H23; revert l1 H12.
  induction H23 as [|x l2 l3 H IH|x l2 l3 H IH]; intros l1 H12.
  - exact H12.
  - apply ss_skip; auto.
  - inversion H12; subst; [apply ss_skip; auto|apply ss_take; auto].
Qed.

Lemma subseq_take_until amount acc l : subseq (take_until amount acc l) l.
Proof.
  revert acc; induction l as [|o r IH]; intros acc; cbn [take_until]; [apply ss_nil|].
  destruct (acc <? amount); [apply ss_take; apply IH|apply subseq_nil].
Qed.

Lemma subseq_windows k l w : In w (windows k l) -> subseq w l.
Proof.
  induction l as [|x r IH]; cbn [windows]; [intros []|].
  destruct (Nat.leb k (length (x :: r))); [|intros []].
  intros [<-|Hin]; [apply subseq_firstn|apply ss_skip; auto].
Qed.

Lemma select_from_subseq amount all l r : select_from amount all l = Some r -> subseq r l.
Proof.
  unfold select_from. destruct (amount <=? fold_sat l); [|discriminate].
  intros H; inversion H; subst. destruct all; [apply subseq_refl|apply subseq_take_until].
Qed.

Lemma first_some_in {A B} (f : A -> option B) l b :
  first_some f l = Some b -> exists a, In a l /\ f a = Some b.
Proof.
  induction l as [|a r IH]; cbn; [discriminate|].
  destruct (f a) eqn:E.
  - intros H; inversion H; subst; eauto.
  - intros H; destruct (IH H) as (a' & Hin & Hf); eauto.
Qed.

Lemma takeN_subseq n l : subseq (takeN n l) l.
Proof. unfold takeN. destruct (_ <=? _); [apply subseq_refl|apply subseq_firstn]. Qed.

(** the coins returned by select_coins are, up to order, a sub-multiset of the eligible
    outputs: stated as "subsequence of a permutation of the filtered list". *)
Lemma select_coins_shape os amount h minconf max all parent :
  exists base,
    Permutation base (filter (fun o => (o_root o =? parent) && eligible o h minconf) os)
    /\ subseq (snd (select_coins os amount h minconf max all parent)) base.
Proof.
  unfold select_coins.
  set (elig := filter _ os). set (sorted := sort_by_value elig).
  assert (Hs : Permutation sorted elig) by apply sort_perm.
  assert (Hr : Permutation (rev sorted) elig).
  { etransitivity; [symmetry; apply Permutation_rev|exact Hs]. }
  destruct (max <? lenN elig).
  - destruct (if max =? 0 then None else _) as [r|] eqn:E1.
    + exists sorted; split; [exact Hs|]. cbn [snd].
      destruct (max =? 0); [discriminate|].
      apply first_some_in in E1 as (w & Hw & Hf).
      eapply subseq_trans; [eapply select_from_subseq; eauto|eapply subseq_windows; eauto].
    + destruct (select_from amount false sorted) as [r|] eqn:E2; cbn [snd].
      * exists sorted; split; [exact Hs|eapply select_from_subseq; eauto].
      * exists (rev sorted); split; [exact Hr|apply takeN_subseq].
  - destruct (select_from amount all sorted) as [r|] eqn:E2; cbn [snd].
    + exists sorted; split; [exact Hs|eapply select_from_subseq; eauto].
    + exists (rev sorted); split; [exact Hr|apply takeN_subseq].
Qed.

Lemma select_coins_good os amount h minconf max all parent o :
  In o (snd (select_coins os amount h minconf max all parent)) -> good os h minconf parent o.
Proof.
  destruct (select_coins_shape os amount h minconf max all parent) as (base & Hp & Hs).
  intros Hin. eapply subseq_in in Hin; [|exact Hs].
  eapply Permutation_in in Hin; [|exact Hp].
  apply filter_In in Hin as [Hin Hb]. unfold good.
  apply andb_true_iff in Hb as [Hr He]. repeat split; auto. lia.
Qed.

Lemma select_coins_nodup os amount h minconf max all parent :
  NoDup (map o_key os) ->
  NoDup (map o_key (snd (select_coins os amount h minconf max all parent))).
Proof.
  intros Hn.
  destruct (select_coins_shape os amount h minconf max all parent) as (base & Hp & Hs).
  eapply subseq_nodup; [apply subseq_map; exact Hs|].
  eapply Permutation_NoDup; [symmetry; apply Permutation_map; exact Hp|].
  clear - Hn. induction os as [|x os IH]; cbn; [constructor|].
  inversion Hn as [|? ? Hx Hn']; subst.
  destruct (_ && _); cbn; auto.
  constructor; auto. intros Hin; apply Hx.
  apply in_map_iff in Hin as (y & Hy & Hin). apply filter_In in Hin as [Hin _].
  apply in_map_iff; eauto.
Qed.

(* ------------------------------------------------------------------ the fee loop *)

(** what holds of (coins, total, fee) at every loop head and hence at exit *)
Definition loop_inv (os : list out) (p : params) (coins : list out) (total fee : N) : Prop :=
  sum_values coins = Ok total
  /\ tx_fee (lenN coins) (p_change_outputs p + 1) 1 = Ok fee
  /\ (forall o, In o coins -> good os (p_h p) (p_minconf p) (p_parent p) o)
  /\ (NoDup (map o_key os) -> NoDup (map o_key coins)).

Lemma add_fee_ok amount fee aif awf :
  add_fee amount fee aif = Ok awf -> awf = if aif then amount else amount + fee.
Proof.
  unfold add_fee, checked_add. destruct aif; [now intros H; inversion H|].
  destruct (_ <=? _); cbn; [now intros H; inversion H|discriminate].
Qed.

Lemma fee_loop_inv fuel os p maxav : forall coins total fee awf coins' total' fee',
  loop_inv os p coins total fee ->
  add_fee (p_amount p) fee (p_aif p) = Ok awf ->
  fee_loop fuel os p maxav coins total fee awf = Ok (coins', total', fee') ->
  loop_inv os p coins' total' fee'
  /\ exists awf', add_fee (p_amount p) fee' (p_aif p) = Ok awf' /\ awf' <= total'.
Proof.
  induction fuel as [|fuel IH]; intros coins total fee awf coins' total' fee' Hinv Hawf;
    cbn [fee_loop].
  - destruct (total <? awf) eqn:E; [destruct (lenN coins =? maxav); discriminate|].
    intros H; inversion H; subst. split; [exact Hinv|]. exists awf; split; [exact Hawf|lia].
  - destruct (total <? awf) eqn:E.
    + destruct (lenN coins =? maxav); [discriminate|].
      intros H. inv_bind H. inv_bind Hk. inv_bind Hk0.
      eapply IH; [|exact Hb1|exact Hk].
      unfold loop_inv. split; [exact Hb0|split; [exact Hb|split]].
      * intros o Ho. eapply select_coins_good; eauto.
      * intros Hn. now apply select_coins_nodup.
    + intros H; inversion H; subst. split; [exact Hinv|]. exists awf; split; [exact Hawf|lia].
Qed.

(* ------------------------------------------------------------------ select_coins_and_fee *)

Record scf_spec (os : list out) (p : params) (coins : list out) (total amount' fee : N)
  : Prop := {
  scf_total : total = sumN (values coins) /\ total <= U64MAX;
  scf_good : forall o, In o coins -> good os (p_h p) (p_minconf p) (p_parent p) o;
  scf_nodup : NoDup (map o_key os) -> NoDup (map o_key coins);
  scf_fee_range : 0 < fee <= FEE_MASK;
  scf_amount : if p_aif p then amount' + fee = p_amount p else amount' = p_amount p;
  scf_covered : amount' + fee <= total;
  scf_fee_shape :
    (tx_fee (lenN coins) 1 1 = Ok fee /\ total = amount' + fee)
    \/ tx_fee (lenN coins) (p_change_outputs p + 1) 1 = Ok fee
}.

Lemma select_coins_and_fee_spec os p coins total amount' fee :
  select_coins_and_fee os p = Ok (coins, total, amount', fee) ->
  scf_spec os p coins total amount' fee.
Proof.
  unfold select_coins_and_fee.
  destruct (select_coins os (p_amount p) (p_h p) (p_minconf p) (p_max_outputs p)
                         (p_all p) (p_parent p)) as [maxav coins0] eqn:Esel.
  assert (Hgood0 : forall o, In o coins0 -> good os (p_h p) (p_minconf p) (p_parent p) o).
  { intros o Ho. eapply select_coins_good. rewrite Esel. exact Ho. }
  assert (Hnd0 : NoDup (map o_key os) -> NoDup (map o_key coins0)).
  { intros Hn. pose proof (select_coins_nodup os (p_amount p) (p_h p) (p_minconf p)
      (p_max_outputs p) (p_all p) (p_parent p) Hn) as H. now rewrite Esel in H. }
  intros H. inv_bind H. rename v into fee0. inv_bind Hk. rename v into total0.
  inv_bind Hk0. rename v into awf0.
  destruct (total0 =? 0); [discriminate|].
  destruct ((total0 <? awf0) && (lenN coins0 =? maxav)); [discriminate|].
  inv_bind Hk. destruct v as [[coins1 total1] fee1].
  destruct (negb (fee_fields_ok fee1)) eqn:Eff; [discriminate|].
  inv_bind Hk0. inversion Hk; subst; clear Hk.
  assert (Hrange : 0 < fee <= FEE_MASK).
  { unfold fee_fields_ok in Eff. lia. }
  (* facts about (coins, total, fee) and a covering awf *)
  assert (Hcore : sum_values coins = Ok total
          /\ (forall o, In o coins -> good os (p_h p) (p_minconf p) (p_parent p) o)
          /\ (NoDup (map o_key os) -> NoDup (map o_key coins))
          /\ (exists awf, add_fee (p_amount p) fee (p_aif p) = Ok awf /\ awf <= total)
          /\ ((tx_fee (lenN coins) 1 1 = Ok fee
               /\ exists awf, add_fee (p_amount p) fee (p_aif p) = Ok awf /\ awf = total)
              \/ tx_fee (lenN coins) (p_change_outputs p + 1) 1 = Ok fee)).
  { destruct (total0 =? awf0) eqn:Eeq.
    - inversion Hb2; subst; clear Hb2.
      split; [auto|split; [auto|split; [auto|split]]].
      + exists awf0; split; [auto|lia].
      + left; split; [auto|]. exists awf0; split; [auto|lia].
    - inv_bind Hb2. inv_bind Hk.
      eapply fee_loop_inv in Hk0;
        [|unfold loop_inv; split; [eauto|split; [eauto|split; eauto]]|exact Hb2].
      destruct Hk0 as ((Hs & Hf & Hg & Hn) & awf' & Ha & Hle).
      split; [auto|split; [auto|split; [auto|split]]].
      + exists awf'; auto.
      + right; auto. }
  destruct Hcore as (Hsum & Hg & Hn & (awf & Hawf & Hle) & Hshape).
  apply sum_values_ok in Hsum as [Ht Htm].
  apply add_fee_ok in Hawf.
  assert (Hamt : if p_aif p then amount' + fee = p_amount p else amount' = p_amount p).
  { destruct (p_aif p).
    - unfold checked_sub in Hb3. destruct (fee <=? p_amount p) eqn:E; cbn in Hb3; [|discriminate].
      inversion Hb3; subst. lia.
    - now inversion Hb3. }
  constructor; auto.
  - destruct (p_aif p); subst; lia.
  - destruct Hshape as [(Hf & awf2 & Ha2 & He2)|Hf]; [left|right; exact Hf].
    split; [exact Hf|]. apply add_fee_ok in Ha2. destruct (p_aif p); subst; lia.
Qed.

(* ------------------------------------------------------------------ C01: conservation *)

Theorem build_send_conserves os p b :
  build_send os p = Ok b ->
  (* (a) inputs are distinct eligible outputs of the source account *)
  (forall o, In o (b_inputs b) -> In o os /\ o_root o = p_parent p
                                  /\ eligible o (p_h p) (p_minconf p) = true)
  /\ (NoDup (map o_key os) -> NoDup (map o_key (b_inputs b)))
  (* (b) value is conserved, in N (no wrap-around) *)
  /\ sumN (values (b_inputs b)) = b_amount b + b_fee b + sumN (b_changes b)
  /\ b_total b = sumN (values (b_inputs b)) /\ b_total b <= U64MAX
  (* (c) amount / amount-includes-fee *)
  /\ (if p_aif p then b_amount b + b_fee b = p_amount p else b_amount b = p_amount p)
  (* (d) the fee is at least the network minimum for the resulting shape, and fits *)
  /\ (exists m, tx_fee (lenN (b_inputs b)) (lenN (b_changes b) + 1) 1 = Ok m /\ m <= b_fee b)
  /\ 0 < b_fee b <= FEE_MASK
  (* (e) change outputs: none, or exactly the requested number, none of value 0 *)
  /\ (b_changes b = [] \/ lenN (b_changes b) = p_change_outputs p)
  /\ Forall (fun x => 0 < x) (b_changes b).
Proof.
  unfold build_send. intros H. inv_bind H. destruct v as [[[coins total] amount'] fee].
  inv_bind Hk. inversion Hk0; subst; clear Hk0. cbn [b_inputs b_total b_amount b_fee b_changes].
  match goal with H : inputs_and_change _ _ _ _ = Ok ?c |- _ => rename c into changes end.
  apply select_coins_and_fee_spec in Hb as [[Ht Htm] Hg Hn Hr Ha Hc Hs].
  pose proof (inputs_and_change_sum _ _ _ _ _ Hb0) as Hsum.
  pose proof (inputs_and_change_shape _ _ _ _ _ Hb0) as Hshape.
  repeat split; auto; try (apply Hg; assumption); try lia.
  - (* fee >= minimum *)
    destruct Hshape as [[-> Hz]|(Hl & Hpos & Hall)].
    + change (lenN (@nil N) + 1) with 1.
      destruct Hs as [[Hf _]|Hf].
      * exists fee; split; [exact Hf|lia].
      * destruct (tx_fee (lenN coins) 1 1) as [m| |] eqn:Em.
        -- exists m; split; [reflexivity|]. eapply tx_fee_mono_o; [|exact Em|exact Hf]. lia.
        -- exfalso. unfold tx_fee, u64_mul in Em, Hf.
           pose proof (weight_mono_o (lenN coins) 1 (p_change_outputs p + 1) 1 ltac:(lia)).
           destruct (weight (lenN coins) 1 1 * ACCEPT_FEE_BASE <=? U64MAX) eqn:E1; [discriminate|].
           destruct (weight (lenN coins) (p_change_outputs p + 1) 1 * ACCEPT_FEE_BASE <=? U64MAX) eqn:E2;
             [|discriminate]. unfold ACCEPT_FEE_BASE in *. nia.
        -- exfalso. unfold tx_fee, u64_mul in Em, Hf.
           pose proof (weight_mono_o (lenN coins) 1 (p_change_outputs p + 1) 1 ltac:(lia)).
           destruct (weight (lenN coins) 1 1 * ACCEPT_FEE_BASE <=? U64MAX) eqn:E1; [discriminate|].
           destruct (weight (lenN coins) (p_change_outputs p + 1) 1 * ACCEPT_FEE_BASE <=? U64MAX) eqn:E2;
             [|discriminate]. unfold ACCEPT_FEE_BASE in *. nia.
    + rewrite Hl. destruct Hs as [[Hf He]|Hf].
      * (* first attempt succeeded exactly: then there is no change, contradiction *)
        exfalso. assert (sumN changes = 0) by lia.
        destruct changes as [|x r]; [unfold lenN in Hl; cbn in Hl; lia|].
        inversion Hall; subst. cbn [sumN] in H. lia.
      * exists fee; split; [exact Hf|lia].
  - destruct Hshape as [[-> _]|(Hl & _)]; [left; reflexivity|right; exact Hl].
  - destruct Hshape as [[-> _]|(_ & _ & Hall)]; [constructor|exact Hall].
Qed.

(* ------------------------------------------------------------------ C01: totality *)

Lemma bind_not_panic {A B} (r : result A) (f : A -> result B) :
  (forall p, r <> Panic p) -> (forall a, r = Ok a -> forall p, f a <> Panic p) ->
  forall p, bind r f <> Panic p.
Proof.
  intros Hr Hf p. destruct r as [a|e|q]; cbn.
  - apply Hf; reflexivity.
  - discriminate.
  - exfalso; eapply Hr; reflexivity.
Qed.

Lemma sum_values_np l q : sum_values l <> Panic q.
Proof. unfold sum_values. destruct (_ <=? _); discriminate. Qed.

Lemma add_fee_np a f aif q : add_fee a f aif <> Panic q.
Proof. unfold add_fee, checked_add, opt_to_res. destruct aif; [discriminate|]. destruct (_ <=? _); discriminate. Qed.

Lemma split_change_np c n q : split_change c n <> Panic q.
Proof. unfold split_change. destruct (_ =? _); [discriminate|]. destruct (_ || _); discriminate. Qed.

Lemma inputs_and_change_np coins a f n q : inputs_and_change coins a f n <> Panic q.
Proof.
  unfold inputs_and_change. apply bind_not_panic; [apply sum_values_np|].
  intros t _ q'. destruct (checked_sub t a); [|discriminate].
  destruct (checked_sub n0 f); [apply split_change_np|discriminate].
Qed.

Lemma subseq_length {A} (l1 l2 : list A) : subseq l1 l2 -> (length l1 <= length l2)%nat.
Proof. induction 1; cbn; lia. Qed.

Lemma filter_len_le {A} (f : A -> bool) l : (length (filter f l) <= length l)%nat.
Proof. induction l as [|x l IH]; cbn; [lia|]. destruct (f x); cbn; lia. Qed.

Lemma select_coins_len os amount h minconf max all parent :
  lenN (snd (select_coins os amount h minconf max all parent)) <= lenN os.
Proof.
  destruct (select_coins_shape os amount h minconf max all parent) as (base & Hp & Hs).
  apply subseq_length in Hs. apply Permutation_length in Hp.
  pose proof (filter_len_le (fun o => (o_root o =? parent) && eligible o h minconf) os).
  unfold lenN. lia.
Qed.

Lemma tx_fee_np (os coins : list out) o q :
  lenN os < 4294967296 -> o <= 4294967296 -> lenN coins <= lenN os ->
  tx_fee (lenN coins) o 1 <> Panic q.
Proof.
  intros Hos Ho Hc. destruct (tx_fee_total (lenN coins) o ltac:(lia) Ho) as [f ->]. discriminate.
Qed.

Lemma fee_loop_np fuel os p maxav : forall coins total fee awf q,
  lenN os < 4294967296 -> p_change_outputs p < 4294967296 ->
  fee_loop fuel os p maxav coins total fee awf <> Panic q.
Proof.
  induction fuel as [|fuel IH]; intros coins total fee awf q Hos Hc; cbn [fee_loop].
  - destruct (_ <? _); [destruct (_ =? _)|]; discriminate.
  - destruct (_ <? _); [|discriminate]. destruct (_ =? _); [discriminate|].
    apply bind_not_panic.
    + intros q'. eapply tx_fee_np; eauto; [lia|apply select_coins_len].
    + intros fee' _ q'. apply bind_not_panic; [apply sum_values_np|].
      intros total' _ q''. apply bind_not_panic; [apply add_fee_np|].
      intros awf' _ q3. apply IH; auto.
Qed.

Theorem build_send_total os p q :
  lenN os < 4294967296 -> p_change_outputs p < 4294967296 ->
  build_send os p <> Panic q.
Proof.
  intros Hos Hc. unfold build_send. apply bind_not_panic.
  - intros q'. unfold select_coins_and_fee.
    pose proof (select_coins_len os (p_amount p) (p_h p) (p_minconf p) (p_max_outputs p)
                                 (p_all p) (p_parent p)) as Hlen.
    destruct (select_coins os (p_amount p) (p_h p) (p_minconf p) (p_max_outputs p)
                           (p_all p) (p_parent p)) as [maxav coins0]. cbn [snd] in Hlen.
    apply bind_not_panic; [intros q2; eapply tx_fee_np; eauto; lia|].
    intros fee0 _ q2. apply bind_not_panic; [apply sum_values_np|].
    intros total0 _ q3. apply bind_not_panic; [apply add_fee_np|].
    intros awf0 _ q4. destruct (_ =? 0); [discriminate|]. destruct (_ && _); [discriminate|].
    apply bind_not_panic.
    + intros q5. destruct (_ =? _); [discriminate|].
      apply bind_not_panic; [intros q6; eapply tx_fee_np; eauto; lia|].
      intros fee1 _ q6. apply bind_not_panic; [apply add_fee_np|].
      intros awf1 _ q7. apply fee_loop_np; auto.
    + intros [[c t] f] _ q5. destruct (negb _); [discriminate|].
      apply bind_not_panic.
      * intros q6. destruct (p_aif p); [|discriminate]. unfold opt_to_res.
        destruct (checked_sub _ _); discriminate.
      * intros a _ q6. discriminate.
  - intros [[[c t] a] f] _ q'. apply bind_not_panic; [apply inputs_and_change_np|].
    intros ch _ q2. discriminate.
Qed.


(* ------------------------------------------------------------------ C01: termination *)

Lemma fold_sat_acc l : forall acc, acc <= U64MAX ->
  fold_left (fun acc o => sat_add acc (o_value o)) l acc = N.min (acc + sumN (values l)) U64MAX.
Proof.
  induction l as [|o r IH]; intros acc Ha; cbn [fold_left].
  - cbn. lia.
  - change (values (o :: r)) with (o_value o :: values r). cbn [sumN].
    rewrite IH by (unfold sat_add; lia). unfold sat_add. lia.
Qed.

Lemma fold_sat_spec l : fold_sat l = N.min (sumN (values l)) U64MAX.
Proof. unfold fold_sat. rewrite fold_sat_acc by (unfold U64MAX; lia). f_equal. Qed.

Lemma take_until_covers a l : forall acc,
  a <= N.min (acc + sumN (values l)) U64MAX ->
  a <= acc + sumN (values (take_until a acc l)).
Proof.
  induction l as [|o r IH]; intros acc Ha; cbn [take_until].
  - cbn in *. lia.
  - change (values (o :: r)) with (o_value o :: values r) in Ha. cbn [sumN] in Ha.
    destruct (acc <? a) eqn:E; [|cbn; lia].
    change (values (o :: ?l)) with (o_value o :: values l).
    match goal with |- context [take_until a ?acc' r] => pose proof (IH acc') as H1 end.
    change (values (o :: take_until a (sat_add acc (o_value o)) r))
      with (o_value o :: values (take_until a (sat_add acc (o_value o)) r)).
    cbn [sumN]. unfold sat_add in *. lia.
Qed.

Lemma take_until_len a l acc : lenN (take_until a acc l) <= lenN l.
Proof. pose proof (subseq_length _ _ (subseq_take_until a acc l)). unfold lenN. lia. Qed.

Lemma sort_len l : lenN (sort_by_value l) = lenN l.
Proof. unfold lenN. now rewrite (Permutation_length (sort_perm l)). Qed.

(** re-selection inside the loop runs with max_outputs = max_available: the result is the
    whole eligible set (in some order) or the minimal covering prefix of the sorted list *)
Lemma select_coins_full os a h minconf all parent :
  let elig := filter (fun o => (o_root o =? parent) && eligible o h minconf) os in
  let r := snd (select_coins os a h minconf (lenN elig) all parent) in
  lenN r = lenN elig
  \/ (r = take_until a 0 (sort_by_value elig) /\ a <= fold_sat (sort_by_value elig)).
Proof.
  cbn zeta. unfold select_coins.
  set (elig := filter _ os). set (sorted := sort_by_value elig).
  replace (lenN elig <? lenN elig) with false by lia.
  unfold select_from. destruct (a <=? fold_sat sorted) eqn:E; cbn [snd].
  - destruct all; [left; apply sort_len|right; split; [reflexivity|lia]].
  - left. unfold takeN. replace (lenN (rev sorted) <=? lenN elig) with true.
    + unfold lenN. rewrite rev_length. apply sort_len.
    + unfold lenN. rewrite rev_length. fold (lenN sorted). unfold sorted. rewrite sort_len. unfold lenN. lia.
Qed.

Lemma weight_mono_i i1 i2 o k : i1 <= i2 -> weight i1 o k <= weight i2 o k.
Proof. unfold weight, sat_add, sat_mul. lia. Qed.

Lemma tx_fee_strict i1 i2 o f1 f2 :
  tx_fee i1 o 1 = Ok f1 -> tx_fee i2 o 1 = Ok f2 -> f1 < f2 -> i1 < i2.
Proof.
  intros H1 H2 Hlt. apply tx_fee_ok in H1, H2. subst.
  destruct (N.lt_ge_cases i1 i2) as [|Hge]; [assumption|exfalso].
  pose proof (weight_mono_i i2 i1 o 1 Hge). unfold ACCEPT_FEE_BASE in *. nia.
Qed.

Lemma tx_fee_not_err i o k e : tx_fee i o k <> Err e.
Proof. unfold tx_fee, u64_mul. destruct (_ <=? _); discriminate. Qed.
Lemma sum_values_err l e : sum_values l = Err e -> e = EGeneric.
Proof. unfold sum_values. destruct (_ <=? _); intros H; inversion H; reflexivity. Qed.
Lemma add_fee_err a f b e : add_fee a f b = Err e -> e = EGeneric.
Proof.
  unfold add_fee, checked_add, opt_to_res. destruct b; [discriminate|].
  destruct (_ <=? _); intros H; inversion H; reflexivity.
Qed.

Lemma fee_loop_terminates os p fuel :
  let elig := filter (fun o => (o_root o =? p_parent p) && eligible o (p_h p) (p_minconf p)) os in
  forall coins total fee awf,
  tx_fee (lenN coins) (p_change_outputs p + 1) 1 = Ok fee ->
  add_fee (p_amount p) fee (p_aif p) = Ok awf ->
  (total < awf -> lenN coins <> lenN elig -> (N.to_nat (lenN elig - lenN coins) < fuel)%nat) ->
  fee_loop fuel os p (lenN elig) coins total fee awf <> Err EOutOfFuel.
Proof.
  cbn zeta. set (elig := filter _ os).
  induction fuel as [|fuel IH]; intros coins total fee awf Hfee Hawf Hm; cbn [fee_loop].
  - destruct (total <? awf) eqn:E; [|discriminate].
    destruct (lenN coins =? lenN elig) eqn:E2; [discriminate|]. exfalso.
    assert (N.to_nat (lenN elig - lenN coins) < 0)%nat by (apply Hm; lia). lia.
  - destruct (total <? awf) eqn:E; [|discriminate].
    destruct (lenN coins =? lenN elig) eqn:E2; [discriminate|].
    set (coins' := snd (select_coins os awf (p_h p) (p_minconf p) (lenN elig) (p_all p) (p_parent p))).
    destruct (tx_fee (lenN coins') (p_change_outputs p + 1) 1) as [fee'|e|q] eqn:Ef; cbn [bind];
      [|exfalso; eapply tx_fee_not_err; eauto|discriminate].
    destruct (sum_values coins') as [total'|e|q] eqn:Es; cbn [bind];
      [|apply sum_values_err in Es; subst; discriminate|discriminate].
    destruct (add_fee (p_amount p) fee' (p_aif p)) as [awf'|e|q] eqn:Ea; cbn [bind];
      [|apply add_fee_err in Ea; subst; discriminate|discriminate].
    apply IH; auto.
    intros Hlt Hne.
    pose proof (select_coins_full os awf (p_h p) (p_minconf p) (p_all p) (p_parent p)) as Hfull.
    cbn zeta in Hfull. fold elig in Hfull. fold coins' in Hfull.
    destruct Hfull as [Hl|[Heq Hcov]]; [contradiction|].
    (* coins' is the minimal covering prefix: awf <= total' *)
    apply sum_values_ok in Es as [Hs _].
    assert (Hge : awf <= total').
    { subst total'. rewrite Heq. rewrite fold_sat_spec in Hcov.
      pose proof (take_until_covers awf (sort_by_value elig) 0 ltac:(lia)). lia. }
    apply add_fee_ok in Hawf, Ea.
    destruct (p_aif p); [subst; lia|].
    assert (Hflt : fee < fee') by lia.
    pose proof (tx_fee_strict _ _ _ _ _ Hfee Ef Hflt) as Hlen.
    assert (Hle : lenN coins' <= lenN elig).
    { rewrite Heq. etransitivity; [apply take_until_len|]. now rewrite sort_len. }
    assert (N.to_nat (lenN elig - lenN coins) < S fuel)%nat by (apply Hm; lia).
    lia.
Qed.

Lemma select_coins_maxav os a h minconf max all parent :
  fst (select_coins os a h minconf max all parent)
  = lenN (filter (fun o => (o_root o =? parent) && eligible o h minconf) os).
Proof.
  unfold select_coins. destruct (_ <? _).
  - destruct (if max =? 0 then None else _); [reflexivity|]. destruct (select_from _ _ _); reflexivity.
  - destruct (select_from _ _ _); reflexivity.
Qed.

Theorem build_send_terminates os p : build_send os p <> Err EOutOfFuel.
Proof.
  unfold build_send.
  assert (Hscf : select_coins_and_fee os p <> Err EOutOfFuel).
  { unfold select_coins_and_fee.
    pose proof (select_coins_maxav os (p_amount p) (p_h p) (p_minconf p) (p_max_outputs p)
                                   (p_all p) (p_parent p)) as Hmax.
    destruct (select_coins os (p_amount p) (p_h p) (p_minconf p) (p_max_outputs p)
                           (p_all p) (p_parent p)) as [maxav coins0]. cbn [fst] in Hmax. subst maxav.
    set (elig := filter _ os).
    destruct (tx_fee (lenN coins0) 1 1) as [fee0|e|q] eqn:Ef0; cbn [bind];
      [|unfold tx_fee, u64_mul in Ef0; destruct (_ <=? _); discriminate|discriminate].
    destruct (sum_values coins0) as [total0|e|q] eqn:Es0; cbn [bind];
      [|unfold sum_values in Es0; destruct (_ <=? _); inversion Es0; discriminate|discriminate].
    destruct (add_fee (p_amount p) fee0 (p_aif p)) as [awf0|e|q] eqn:Ea0; cbn [bind];
      [|unfold add_fee, checked_add, opt_to_res in Ea0; destruct (p_aif p); [discriminate|];
        destruct (_ <=? _); inversion Ea0; discriminate|discriminate].
    destruct (total0 =? 0); [discriminate|]. destruct (_ && _); [discriminate|].
    assert (Hloop : forall r,
      (if total0 =? awf0 then Ok (coins0, total0, fee0)
       else let* fee1 := tx_fee (lenN coins0) (p_change_outputs p + 1) 1 in
            let* awf1 := add_fee (p_amount p) fee1 (p_aif p) in
            fee_loop (loop_fuel os) os p (lenN elig) coins0 total0 fee1 awf1) = r ->
      r <> Err EOutOfFuel).
    { intros r <-. destruct (total0 =? awf0); [discriminate|].
      destruct (tx_fee (lenN coins0) (p_change_outputs p + 1) 1) as [fee1|e|q] eqn:Ef1; cbn [bind];
        [|unfold tx_fee, u64_mul in Ef1; destruct (_ <=? _); discriminate|discriminate].
      destruct (add_fee (p_amount p) fee1 (p_aif p)) as [awf1|e|q] eqn:Ea1; cbn [bind];
        [|unfold add_fee, checked_add, opt_to_res in Ea1; destruct (p_aif p); [discriminate|];
          destruct (_ <=? _); inversion Ea1; discriminate|discriminate].
      apply fee_loop_terminates; auto.
      intros _ _. unfold loop_fuel.
      unfold lenN. subst elig.
      match goal with |- context [length (filter ?f os)] =>
        pose proof (filter_len_le f os) as Hfl; revert Hfl;
        generalize (length (filter f os)) end.
      intros n Hfl. generalize (length coins0). intros m. lia. }
    destruct (if total0 =? awf0 then _ else _) as [[[c t] f]|e|q] eqn:El; cbn [bind].
    - destruct (negb _); [discriminate|].
      destruct (p_aif p); cbn [bind opt_to_res]; [|discriminate].
      unfold checked_sub. destruct (_ <=? _); cbn [opt_to_res bind]; discriminate.
    - intros Hc. inversion Hc; subst. eapply Hloop; eauto.
    - discriminate. }
  destruct (select_coins_and_fee os p) as [[[[c t] a] f]|e|q]; cbn [bind].
  - unfold inputs_and_change.
    destruct (sum_values c) as [tt|e|q] eqn:Es; cbn [bind];
      [|unfold sum_values in Es; destruct (_ <=? _); inversion Es; discriminate|discriminate].
    destruct (checked_sub tt a); [|discriminate]. destruct (checked_sub n f); [|discriminate].
    unfold split_change. destruct (_ =? 0); cbn [bind]; [discriminate|].
    destruct (_ || _); cbn [bind]; discriminate.
  - intros Hc; inversion Hc; subst; contradiction.
  - discriminate.
Qed.

(** non-vacuity: a concrete wallet for which the premises hold and a change vector with a
    non-trivial remainder is produced (this is the round-0 witness, now conserved). *)
Example build_send_example :
  exists b,
    build_send [mkOut 1 0 12500000 Unspent 1 0 false; mkOut 0 1 5 Unspent 2 0 true;
                mkOut 0 2 60000000000 Unspent 5 0 false]
               (mkParams 59913499992 false 5 1 4294967295 7 false 0) = Ok b
    /\ b_changes b = [1; 1; 1; 1; 1; 1; 7] /\ b_fee b = 86500000.
Proof. eexists; split; [vm_compute; reflexivity|split; reflexivity]. Qed.

(* ------------------------------------------------------------------ late lock: the fee fixed earlier *)
(** when the late-locked finalize agrees to build, the selection needs exactly the fee fixed
    at initiation — the fee in the kernel the counterparty signed — so the conservation
    equation holds with THAT fee *)
Theorem build_send_fixed_agreed os p fixed b :
  build_send_fixed os p fixed = Ok b ->
  build_send os p = Ok b /\ b_fee b = fixed
  /\ sumN (values (b_inputs b)) = b_amount b + fixed + sumN (b_changes b).
Proof.
  unfold build_send_fixed. intros H. destruct (build_send os p) as [b0|e|q] eqn:E; cbn in H; try discriminate.
  destruct (b_fee b0 =? fixed) eqn:Ef; inversion H; subst b0.
  assert (Hf : b_fee b = fixed) by lia.
  split; [reflexivity|]. split; [exact Hf|].
  destruct (build_send_conserves _ _ _ E) as (_ & _ & Hsum & _). rewrite <- Hf. exact Hsum.
Qed.

Theorem build_send_fixed_refuses os p fixed b :
  build_send os p = Ok b -> b_fee b <> fixed -> build_send_fixed os p fixed = Err EFee.
Proof.
  intros E Hne. unfold build_send_fixed. rewrite E. cbn.
  destruct (b_fee b =? fixed) eqn:Ef; [lia|reflexivity].
Qed.
