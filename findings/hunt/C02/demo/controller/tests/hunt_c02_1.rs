// C02 hunt: a finalized transaction must spend exactly the inputs the wallet reserved
// and return exactly the recorded change.
#[macro_use]
extern crate log;
extern crate grin_wallet_controller as wallet;
extern crate grin_wallet_impls as impls;

use grin_core as core;
use grin_wallet_libwallet as libwallet;

use impls::test_framework::{self, LocalWalletClient};
use libwallet::{
	InitTxArgs, IssueInvoiceTxArgs, OutputCommitMapping, OutputStatus, Slate, TxLogEntryType,
};
use std::sync::atomic::Ordering;
use std::thread;
use std::time::Duration;

#[macro_use]
mod common;
use common::{clean_output_dir, create_wallet_proxy, setup};

/// what the property requires of a transaction returned by finalization, checked against
/// the wallet's own records: every input is an output the wallet holds as Locked, and every
/// output of the transaction that belongs to the wallet (here: all of them, self-send) is
/// recorded in the wallet
fn check_reserved(tx: &core::core::Transaction, outputs: &[OutputCommitMapping]) -> Vec<String> {
	let mut problems = vec![];
	let inputs: Vec<_> = tx.inputs().into();
	for i in inputs.iter() {
		match outputs.iter().find(|o| o.commit == i.commitment()) {
			Some(o) => {
				if o.output.status != OutputStatus::Locked {
					problems.push(format!(
						"input {:?} ({} of value {}) is spent by the finalized transaction but the wallet holds it as {} (not reserved)",
						i.commitment(),
						o.output.key_id,
						o.output.value,
						o.output.status
					));
				}
			}
			None => problems.push(format!("input {:?} unknown to the wallet", i.commitment())),
		}
	}
	for out in tx.outputs() {
		if outputs
			.iter()
			.find(|o| o.commit == out.commitment())
			.is_none()
		{
			problems.push(format!(
				"output {:?} of the finalized transaction (change) is not recorded in the wallet",
				out.commitment()
			));
		}
	}
	problems
}

/// Self-paid invoice finalized without the payer side ever having locked its outputs
fn self_invoice_no_lock_impl(test_dir: &'static str) -> Result<Vec<String>, libwallet::Error> {
	let mut wallet_proxy = create_wallet_proxy(test_dir);
	let chain = wallet_proxy.chain.clone();
	let stopper = wallet_proxy.running.clone();

	create_wallet_and_add!(
		client1,
		wallet1,
		mask1_i,
		test_dir,
		"wallet1",
		None,
		&mut wallet_proxy,
		false
	);
	let mask1 = (&mask1_i).as_ref();
	let _ = &client1;

	thread::spawn(move || {
		if let Err(e) = wallet_proxy.run() {
			error!("Wallet Proxy error: {}", e);
		}
	});

	let reward = core::consensus::REWARD;
	let _ = test_framework::award_blocks_to_wallet(&chain, wallet1.clone(), mask1, 6, false);

	let mut slate = Slate::blank(2, true);
	wallet::controller::owner_single_use(Some(wallet1.clone()), mask1, None, |api, m| {
		let args = IssueInvoiceTxArgs {
			amount: reward / 2,
			..Default::default()
		};
		slate = api.issue_invoice_tx(m, args)?;
		let args = InitTxArgs {
			src_acct_name: None,
			amount: slate.amount,
			minimum_confirmations: 2,
			max_outputs: 500,
			num_change_outputs: 1,
			selection_strategy_is_use_all: false,
			..Default::default()
		};
		slate = api.process_invoice_tx(m, &slate, args)?;
		// NOTE: no tx_lock_outputs
		Ok(())
	})?;

	let mut problems = vec![];
	let mut finalized = None;
	wallet::controller::foreign_single_use(wallet1.clone(), mask1_i.clone(), |api| {
		match api.finalize_tx(&slate, false) {
			Ok(s) => finalized = Some(s),
			Err(e) => println!("finalize refused (fine): {}", e),
		}
		Ok(())
	})?;

	if let Some(s) = finalized {
		wallet::controller::owner_single_use(Some(wallet1.clone()), mask1, None, |api, m| {
			let (_, outputs) = api.retrieve_outputs(m, true, false, None)?;
			problems = check_reserved(s.tx.as_ref().unwrap(), &outputs);
			let (_, txs) = api.retrieve_txs(m, false, None, Some(s.id), None)?;
			if !txs.iter().any(|t| t.tx_type == TxLogEntryType::TxSent) {
				problems.push(
					"no TxSent log entry exists for the payment the finalized transaction makes"
						.to_owned(),
				);
			}
			// the wallet will happily select the same coins again
			let (_, info) = api.retrieve_summary_info(m, false, 2)?;
			println!("summary after finalize: {:?}", info);
			Ok(())
		})?;
	}

	stopper.store(false, Ordering::Relaxed);
	thread::sleep(Duration::from_millis(200));
	Ok(problems)
}

/// Self-paid invoice: payer side locked, then cancelled; the Invoice2 slate is finalized anyway
fn self_invoice_cancelled_impl(test_dir: &'static str) -> Result<Vec<String>, libwallet::Error> {
	let mut wallet_proxy = create_wallet_proxy(test_dir);
	let chain = wallet_proxy.chain.clone();
	let stopper = wallet_proxy.running.clone();

	create_wallet_and_add!(
		client1,
		wallet1,
		mask1_i,
		test_dir,
		"wallet1",
		None,
		&mut wallet_proxy,
		false
	);
	let mask1 = (&mask1_i).as_ref();
	let _ = &client1;

	thread::spawn(move || {
		if let Err(e) = wallet_proxy.run() {
			error!("Wallet Proxy error: {}", e);
		}
	});

	let reward = core::consensus::REWARD;
	let _ = test_framework::award_blocks_to_wallet(&chain, wallet1.clone(), mask1, 6, false);

	let mut slate = Slate::blank(2, true);
	wallet::controller::owner_single_use(Some(wallet1.clone()), mask1, None, |api, m| {
		let args = IssueInvoiceTxArgs {
			amount: reward / 2,
			..Default::default()
		};
		slate = api.issue_invoice_tx(m, args)?;
		let args = InitTxArgs {
			src_acct_name: None,
			amount: slate.amount,
			minimum_confirmations: 2,
			max_outputs: 500,
			num_change_outputs: 1,
			selection_strategy_is_use_all: false,
			..Default::default()
		};
		slate = api.process_invoice_tx(m, &slate, args)?;
		api.tx_lock_outputs(m, &slate)?;
		// the user changes his mind about the payment and cancels it
		let (_, txs) = api.retrieve_txs(m, false, None, Some(slate.id), None)?;
		let sent = txs
			.iter()
			.find(|t| t.tx_type == TxLogEntryType::TxSent)
			.unwrap();
		api.cancel_tx(m, Some(sent.id), None)?;
		let (_, txs) = api.retrieve_txs(m, false, None, Some(slate.id), None)?;
		assert!(txs
			.iter()
			.any(|t| t.tx_type == TxLogEntryType::TxSentCancelled));
		Ok(())
	})?;

	let mut problems = vec![];
	let mut finalized = None;
	wallet::controller::foreign_single_use(wallet1.clone(), mask1_i.clone(), |api| {
		match api.finalize_tx(&slate, false) {
			Ok(s) => finalized = Some(s),
			Err(e) => println!("finalize refused (fine): {}", e),
		}
		Ok(())
	})?;

	if let Some(s) = finalized {
		wallet::controller::owner_single_use(Some(wallet1.clone()), mask1, None, |api, m| {
			let (_, outputs) = api.retrieve_outputs(m, true, false, None)?;
			problems = check_reserved(s.tx.as_ref().unwrap(), &outputs);
			problems.push("a cancelled payment was finalized".to_owned());
			Ok(())
		})?;
	}

	stopper.store(false, Ordering::Relaxed);
	thread::sleep(Duration::from_millis(200));
	Ok(problems)
}

#[test]
fn self_invoice_no_lock() {
	let test_dir = "test_output/hunt_c02_self_invoice_no_lock";
	setup(test_dir);
	let problems = match self_invoice_no_lock_impl(test_dir) {
		Ok(p) => p,
		Err(e) => panic!("Libwallet Error: {}", e),
	};
	clean_output_dir(test_dir);
	assert!(problems.is_empty(), "C02 violated:\n{}", problems.join("\n"));
}

#[test]
fn self_invoice_cancelled() {
	let test_dir = "test_output/hunt_c02_self_invoice_cancelled";
	setup(test_dir);
	let problems = match self_invoice_cancelled_impl(test_dir) {
		Ok(p) => p,
		Err(e) => panic!("Libwallet Error: {}", e),
	};
	clean_output_dir(test_dir);
	assert!(problems.is_empty(), "C02 violated:\n{}", problems.join("\n"));
}
