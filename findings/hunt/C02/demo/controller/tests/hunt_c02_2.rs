// C02 hunt: late-locked send, tx_lock_outputs called by the sender as in the standard flow
#[macro_use]
extern crate log;
extern crate grin_wallet_controller as wallet;
extern crate grin_wallet_impls as impls;

use grin_core as core;
use grin_wallet_libwallet as libwallet;

use impls::test_framework::{self, LocalWalletClient};
use libwallet::{InitTxArgs, OutputCommitMapping, OutputStatus, Slate};
use std::sync::atomic::Ordering;
use std::thread;
use std::time::Duration;

#[macro_use]
mod common;
use common::{clean_output_dir, create_wallet_proxy, setup};

fn check_inputs_reserved(
	tx: &core::core::Transaction,
	outputs: &[OutputCommitMapping],
) -> Vec<String> {
	let mut problems = vec![];
	let inputs: Vec<_> = tx.inputs().into();
	for i in inputs.iter() {
		match outputs.iter().find(|o| o.commit == i.commitment()) {
			Some(o) => {
				if o.output.status != OutputStatus::Locked {
					problems.push(format!(
						"input {:?} ({} of value {}) is spent by the finalized transaction but the wallet holds it as {} (not reserved)",
						i.commitment(),
						o.output.key_id,
						o.output.value,
						o.output.status
					));
				}
			}
			None => problems.push(format!("input {:?} unknown to the wallet", i.commitment())),
		}
	}
	problems
}

fn late_lock_manual_lock_impl(
	test_dir: &'static str,
	with_change: bool,
) -> Result<Vec<String>, libwallet::Error> {
	let mut wallet_proxy = create_wallet_proxy(test_dir);
	let chain = wallet_proxy.chain.clone();
	let stopper = wallet_proxy.running.clone();

	create_wallet_and_add!(
		client1,
		wallet1,
		mask1_i,
		test_dir,
		"wallet1",
		None,
		&mut wallet_proxy,
		false
	);
	let mask1 = (&mask1_i).as_ref();
	create_wallet_and_add!(
		client2,
		wallet2,
		mask2_i,
		test_dir,
		"wallet2",
		None,
		&mut wallet_proxy,
		false
	);
	let _ = (&client2, &wallet2, &mask2_i);

	thread::spawn(move || {
		if let Err(e) = wallet_proxy.run() {
			error!("Wallet Proxy error: {}", e);
		}
	});

	let reward = core::consensus::REWARD;
	let _ = test_framework::award_blocks_to_wallet(&chain, wallet1.clone(), mask1, 4, false);
	let fee = core::libtx::tx_fee(1, 1, 1);
	let amount = if with_change {
		reward / 2
	} else {
		reward - fee
	};

	let mut problems = vec![];
	wallet::controller::owner_single_use(Some(wallet1.clone()), mask1, None, |api, m| {
		let args = InitTxArgs {
			src_acct_name: None,
			amount,
			minimum_confirmations: 2,
			max_outputs: 500,
			num_change_outputs: 1,
			selection_strategy_is_use_all: false,
			late_lock: Some(true),
			..Default::default()
		};
		let slate_i = api.init_send_tx(m, args)?;
		// the sender follows the documented standard sequence init / lock / finalize
		api.tx_lock_outputs(m, &slate_i)?;
		let slate_r: Slate = client1.send_tx_slate_direct("wallet2", &slate_i)?;

		let mut finalized = None;
		for attempt in 1..=2 {
			match api.finalize_tx(m, &slate_r) {
				Ok(s) => {
					println!("attempt {}: finalized", attempt);
					finalized = Some(s);
					break;
				}
				Err(e) => println!("attempt {}: finalize refused: {}", attempt, e),
			}
		}
		if let Some(s) = finalized {
			let (_, outputs) = api.retrieve_outputs(m, true, false, None)?;
			problems = check_inputs_reserved(s.tx.as_ref().unwrap(), &outputs);
			let (_, info) = api.retrieve_summary_info(m, false, 2)?;
			println!("summary after finalize: {:?}", info);
		} else {
			// the pending transaction must still be cancellable
			if let Err(e) = api.cancel_tx(m, None, Some(slate_i.id)) {
				problems.push(format!("finalize failed and cancel failed too: {}", e));
			}
		}
		Ok(())
	})?;

	stopper.store(false, Ordering::Relaxed);
	thread::sleep(Duration::from_millis(200));
	Ok(problems)
}

#[test]
fn late_lock_manual_lock_no_change() {
	let test_dir = "test_output/hunt_c02_late_lock_manual_lock_nc";
	setup(test_dir);
	let problems = match late_lock_manual_lock_impl(test_dir, false) {
		Ok(p) => p,
		Err(e) => panic!("Libwallet Error: {}", e),
	};
	clean_output_dir(test_dir);
	assert!(problems.is_empty(), "C02 violated:\n{}", problems.join("\n"));
}

#[test]
fn late_lock_manual_lock_with_change() {
	let test_dir = "test_output/hunt_c02_late_lock_manual_lock_wc";
	setup(test_dir);
	let problems = match late_lock_manual_lock_impl(test_dir, true) {
		Ok(p) => p,
		Err(e) => panic!("Libwallet Error: {}", e),
	};
	clean_output_dir(test_dir);
	assert!(problems.is_empty(), "C02 violated:\n{}", problems.join("\n"));
}
