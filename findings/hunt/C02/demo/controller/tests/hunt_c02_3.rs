// C02 hunt: sweep of reply mutations on a standard send
#[macro_use]
extern crate log;
extern crate grin_wallet_controller as wallet;
extern crate grin_wallet_impls as impls;

use grin_core as core;
use grin_wallet_libwallet as libwallet;

use self::core::core::{FeeFields, KernelFeatures};
use impls::test_framework::{self, LocalWalletClient};
use libwallet::{InitTxArgs, OutputStatus, Slate, SlateState};
use std::sync::atomic::Ordering;
use std::thread;
use std::time::Duration;

#[macro_use]
mod common;
use common::{clean_output_dir, create_wallet_proxy, setup};

fn height_locked(s: &Slate, h: u64) -> Slate {
	let mut v: serde_json::Value = serde_json::to_value(s).unwrap();
	v["feat"] = serde_json::json!(2);
	v["feat_args"] = serde_json::json!({ "lock_hgt": h });
	Slate::deserialize_upgrade(&v.to_string()).unwrap()
}

fn sweep_impl(test_dir: &'static str) -> Result<Vec<String>, libwallet::Error> {
	let mut wallet_proxy = create_wallet_proxy(test_dir);
	let chain = wallet_proxy.chain.clone();
	let stopper = wallet_proxy.running.clone();

	create_wallet_and_add!(
		client1,
		wallet1,
		mask1_i,
		test_dir,
		"wallet1",
		None,
		&mut wallet_proxy,
		false
	);
	let mask1 = (&mask1_i).as_ref();
	create_wallet_and_add!(
		client2,
		wallet2,
		mask2_i,
		test_dir,
		"wallet2",
		None,
		&mut wallet_proxy,
		false
	);
	let _ = (&client2, &wallet2, &mask2_i);

	thread::spawn(move || {
		if let Err(e) = wallet_proxy.run() {
			error!("Wallet Proxy error: {}", e);
		}
	});

	let reward = core::consensus::REWARD;
	let _ = test_framework::award_blocks_to_wallet(&chain, wallet1.clone(), mask1, 8, false);

	// (name, mutate the slate before the recipient sees it, mutate the reply)
	let pre: Vec<(&str, Box<dyn Fn(&mut Slate)>)> = vec![
		("none", Box::new(|_s: &mut Slate| {})),
		(
			"pre:height_locked",
			Box::new(|s: &mut Slate| {
				*s = height_locked(s, 1_000_000);
			}),
		),
		("pre:amount-1", Box::new(|s: &mut Slate| s.amount -= 1)),
		("pre:amount+1", Box::new(|s: &mut Slate| s.amount += 1)),
		(
			"pre:fee*2",
			Box::new(|s: &mut Slate| {
				s.fee_fields = FeeFields::new(0, s.fee_fields.fee() * 2).unwrap()
			}),
		),
		(
			"pre:fee_shift",
			Box::new(|s: &mut Slate| s.fee_fields = FeeFields::new(3, s.fee_fields.fee()).unwrap()),
		),
	];
	let post: Vec<(&str, Box<dyn Fn(&mut Slate, &Slate)>)> = vec![
		("none", Box::new(|_s: &mut Slate, _i: &Slate| {})),
		("post:amount", Box::new(|s: &mut Slate, _i: &Slate| s.amount = 12345)),
		(
			"post:fee",
			Box::new(|s: &mut Slate, _i: &Slate| s.fee_fields = FeeFields::new(0, 1).unwrap()),
		),
		(
			"post:state_invoice2",
			Box::new(|s: &mut Slate, i: &Slate| {
				s.state = SlateState::Invoice2;
				s.fee_fields = i.fee_fields;
			}),
		),
		("post:num_participants1", Box::new(|s: &mut Slate, _i: &Slate| s.num_participants = 1)),
		("post:num_participants3", Box::new(|s: &mut Slate, _i: &Slate| s.num_participants = 3)),
		(
			"post:dup_participant",
			Box::new(|s: &mut Slate, _i: &Slate| {
				let p = s.participant_data[0].clone();
				s.participant_data.push(p)
			}),
		),
		(
			"post:sender_participant_added",
			Box::new(|s: &mut Slate, i: &Slate| {
				let p = i.participant_data[0].clone();
				s.participant_data.insert(0, p)
			}),
		),
		(
			"post:no_partsig",
			Box::new(|s: &mut Slate, _i: &Slate| s.participant_data[0].part_sig = None),
		),
		(
			"post:height_locked",
			Box::new(|s: &mut Slate, _i: &Slate| {
				*s = height_locked(s, 1);
			}),
		),
		("post:no_tx", Box::new(|s: &mut Slate, _i: &Slate| s.tx = None)),
		(
			"post:no_outputs",
			Box::new(|s: &mut Slate, _i: &Slate| {
				let tx = s.tx.clone().unwrap();
				let mut tx = tx;
				tx.body = tx.body.replace_outputs(&[]);
				s.tx = Some(tx);
			}),
		),
		("post:ttl", Box::new(|s: &mut Slate, _i: &Slate| s.ttl_cutoff_height = 1_000)),
	];

	let mut problems = vec![];
	for (pi, (pre_name, pre_f)) in pre.iter().enumerate() {
		for (qi, (post_name, post_f)) in post.iter().enumerate() {
			// only combine with "none" on one side
			if pi != 0 && qi != 0 {
				continue;
			}
			let name = format!("{}/{}", pre_name, post_name);
			wallet::controller::owner_single_use(Some(wallet1.clone()), mask1, None, |api, m| {
				let amount = reward / 3;
				let args = InitTxArgs {
					src_acct_name: None,
					amount,
					minimum_confirmations: 2,
					max_outputs: 500,
					num_change_outputs: 1,
					selection_strategy_is_use_all: false,
					..Default::default()
				};
				let slate_i = api.init_send_tx(m, args)?;
				api.tx_lock_outputs(m, &slate_i)?;
				let agreed_fee = slate_i.fee_fields;
				let mut to_recipient = slate_i.clone();
				pre_f(&mut to_recipient);
				let mut reply = match client1.send_tx_slate_direct("wallet2", &to_recipient) {
					Ok(r) => r,
					Err(e) => {
						println!("{}: recipient refused: {}", name, e);
						api.cancel_tx(m, None, Some(slate_i.id))?;
						return Ok(());
					}
				};
				post_f(&mut reply, &slate_i);
				match api.finalize_tx(m, &reply) {
					Err(e) => {
						println!("{}: finalize refused: {}", name, e);
						if let Err(e) = api.cancel_tx(m, None, Some(slate_i.id)) {
							problems.push(format!("{}: cancel after failed finalize: {}", name, e));
						}
					}
					Ok(s) => {
						println!("{}: FINALIZED", name);
						let tx = s.tx.as_ref().unwrap();
						let k = &tx.kernels()[0];
						match k.features {
							KernelFeatures::Plain { fee } => {
								if fee != agreed_fee {
									problems.push(format!(
										"{}: fee {:?} instead of the agreed {:?}",
										name, fee, agreed_fee
									));
								}
							}
							f => {
								// (posting it is not attempted: the test chain's proxy thread dies on
								// the block the node refuses, and the client then waits forever)
								let tip = api.node_height(m)?.height;
								problems.push(format!(
									"{}: finalized with kernel features {:?} (agreed at initiation: Plain, fee {:?}); chain height is {}, no block below the lock height may include this kernel",
									name, f, agreed_fee, tip
								))
							}
						}
						if let Err(e) = tx.validate(core::core::Weighting::AsTransaction) {
							problems.push(format!("{}: invalid tx {}", name, e));
						}
						let (_, outputs) = api.retrieve_outputs(m, true, false, None)?;
						let inputs: Vec<_> = tx.inputs().into();
						for i in inputs.iter() {
							let ok = outputs.iter().any(|o| {
								o.commit == i.commitment() && o.output.status == OutputStatus::Locked
							});
							if !ok {
								problems.push(format!("{}: input not reserved", name));
							}
						}
						let stored = api.get_stored_tx(m, None, Some(&s.id))?.unwrap();
						if stored.tx.as_ref().unwrap() != tx {
							problems.push(format!("{}: stored tx differs", name));
						}
						if name != "none/none" && !name.ends_with("post:ttl") {
							// informational: which mutations are accepted
							println!("{}: accepted mutation", name);
						}
						api.cancel_tx(m, None, Some(slate_i.id))?;
					}
				}
				Ok(())
			})?;
		}
	}

	stopper.store(false, Ordering::Relaxed);
	thread::sleep(Duration::from_millis(200));
	Ok(problems)
}

#[test]
fn reply_mutation_sweep() {
	let test_dir = "test_output/hunt_c02_sweep";
	setup(test_dir);
	let problems = match sweep_impl(test_dir) {
		Ok(p) => p,
		Err(e) => panic!("Libwallet Error: {}", e),
	};
	clean_output_dir(test_dir);
	assert!(problems.is_empty(), "C02 violated:\n{}", problems.join("\n"));
}
