#!/bin/bash
# usage: run_demo.sh [checkout]   (default: /tmp/hunt_C02)
# copies the demo tests into the checkout's controller/tests and runs them;
# exits non-zero when any of them fails (they fail on the unmodified tree)
CHECKOUT=${1:-/tmp/hunt_C02}
HERE=$(cd "$(dirname "$0")" && pwd)
export CARGO_TARGET_DIR=${CARGO_TARGET_DIR:-/tmp/hunt_C02_target}
cp "$HERE"/demo/controller/tests/hunt_c02_*.rs "$CHECKOUT/controller/tests/" || exit 2
cd "$CHECKOUT" || exit 2
rc=0
for t in hunt_c02_1 hunt_c02_2 hunt_c02_3; do
	timeout 1800 cargo test -p grin_wallet_controller --offline --test $t || rc=1
done
exit $rc
