// C03 hunt, finding 1: late-locked send, driven the way `grin-wallet send --late_lock`
// (controller/src/command.rs: send) and Owner::init_send_tx(send_args) drive it:
//   init_send_tx(late_lock) -> receive -> tx_lock_outputs(reply) -> finalize_tx(reply)
//
// The first finalize_tx fails ("Outputs ... have already been locked") AFTER it has
// selected inputs, written them into the stored context and dropped late_lock_args.
// The retried finalize_tx then succeeds and produces a fully signed transaction whose
// inputs were never reserved: they stay Unspent in the wallet, and the next send
// selects and spends the very same outputs.
#[macro_use]
extern crate log;
extern crate grin_wallet_controller as wallet;
extern crate grin_wallet_impls as impls;

use grin_wallet_libwallet as libwallet;
use grin_core as core;
use self::core::core::transaction::CommitWrapper;

use impls::test_framework::{self, LocalWalletClient};
use libwallet::{InitTxArgs, OutputStatus, Slate, TxLogEntryType};
use std::sync::atomic::Ordering;
use std::thread;
use std::time::Duration;

#[macro_use]
mod common;
use common::{clean_output_dir, create_wallet_proxy, setup};

fn late_lock_cli_flow_impl(test_dir: &'static str) -> Result<(), libwallet::Error> {
	let mut wallet_proxy = create_wallet_proxy(test_dir);
	let chain = wallet_proxy.chain.clone();
	let stopper = wallet_proxy.running.clone();

	create_wallet_and_add!(
		client1,
		wallet1,
		mask1_i,
		test_dir,
		"wallet1",
		None,
		&mut wallet_proxy,
		false
	);
	let mask1 = (&mask1_i).as_ref();
	create_wallet_and_add!(
		client2,
		wallet2,
		mask2_i,
		test_dir,
		"wallet2",
		None,
		&mut wallet_proxy,
		false
	);
	let _mask2 = (&mask2_i).as_ref();
	let _ = &client2;

	thread::spawn(move || {
		if let Err(e) = wallet_proxy.run() {
			error!("Wallet Proxy error: {}", e);
		}
	});

	test_framework::award_blocks_to_wallet(&chain, wallet1.clone(), mask1, 10, false)?;

	// one whole 60 grin coinbase output pays amount + fee exactly: no change output
	let amount = 60_000_000_000 - core::libtx::tx_fee(1, 1, 1);
	let mut reply = Slate::blank(2, false);
	let mut tx_a = Slate::blank(2, false);
	let mut attempts = 0;

	wallet::controller::owner_single_use(Some(wallet1.clone()), mask1, None, |api, m| {
		let args = InitTxArgs {
			src_acct_name: None,
			amount,
			minimum_confirmations: 2,
			max_outputs: 500,
			num_change_outputs: 1,
			selection_strategy_is_use_all: false,
			late_lock: Some(true),
			..Default::default()
		};
		let slate_i = api.init_send_tx(m, args)?;
		reply = client1.send_tx_slate_direct("wallet2", &slate_i)?;

		// exactly what command::send and Owner::init_send_tx(send_args) do with the reply
		api.tx_lock_outputs(m, &reply)?;
		let mut res = api.finalize_tx(m, &reply);
		attempts += 1;
		if let Err(ref e) = res {
			println!("first finalize_tx failed: {}", e);
			// the user retries the step with the same reply
			res = api.finalize_tx(m, &reply);
			attempts += 1;
		}
		tx_a = res?;
		Ok(())
	})?;
	println!("transaction A finalized after {} attempt(s)", attempts);

	// Transaction A is live (finalized, unconfirmed, not cancelled).
	// The property: every output it spends is reserved for it.
	let a_in: Vec<CommitWrapper> = tx_a.tx_or_err()?.inputs().into();
	let a_inputs: Vec<_> = a_in.iter().map(|i| i.commitment()).collect();
	assert!(!a_inputs.is_empty());

	let mut unreserved = vec![];
	wallet::controller::owner_single_use(Some(wallet1.clone()), mask1, None, |api, m| {
		let (_, txs) = api.retrieve_txs(m, false, None, Some(tx_a.id), None)?;
		let live: Vec<_> = txs
			.iter()
			.filter(|t| t.tx_type == TxLogEntryType::TxSent && !t.confirmed)
			.collect();
		assert_eq!(live.len(), 1, "one live TxSent entry for transaction A");
		let (_, outputs) = api.retrieve_outputs(m, false, false, None)?;
		for c in &a_inputs {
			let o = outputs
				.iter()
				.find(|o| o.commit == *c)
				.expect("input of A is a wallet output");
			println!(
				"input of A {:?}: status {}, tx_log_entry {:?}",
				c, o.output.status, o.output.tx_log_entry
			);
			if o.output.status != OutputStatus::Locked {
				unreserved.push(*c);
			}
		}
		Ok(())
	})?;

	// A second, ordinary send of the same wallet while A is still pending
	let mut tx_b = Slate::blank(2, false);
	let b_res = wallet::controller::owner_single_use(Some(wallet1.clone()), mask1, None, |api, m| {
		let args = InitTxArgs {
			src_acct_name: None,
			amount,
			minimum_confirmations: 2,
			max_outputs: 500,
			num_change_outputs: 1,
			selection_strategy_is_use_all: false,
			..Default::default()
		};
		let slate_i = api.init_send_tx(m, args)?;
		let r = client1.send_tx_slate_direct("wallet2", &slate_i)?;
		api.tx_lock_outputs(m, &r)?;
		tx_b = api.finalize_tx(m, &r)?;
		Ok(())
	});
	let mut shared = vec![];
	if b_res.is_ok() {
		let b_in: Vec<CommitWrapper> = tx_b.tx_or_err()?.inputs().into();
		for i in b_in.iter() {
			if a_inputs.contains(&i.commitment()) {
				shared.push(i.commitment());
			}
		}
	}
	println!(
		"inputs of A not reserved: {}, inputs shared by live transactions A and B: {}",
		unreserved.len(),
		shared.len()
	);

	stopper.store(false, Ordering::Relaxed);
	thread::sleep(Duration::from_millis(200));

	assert!(
		unreserved.is_empty(),
		"C03 violated: finalized pending transaction A spends {} output(s) that are not reserved (Locked) in the wallet",
		unreserved.len()
	);
	assert!(
		shared.is_empty(),
		"C03 violated: two live transactions of the wallet spend the same output(s): {:?}",
		shared
	);
	let _ = core::global::get_chain_type();
	Ok(())
}

#[test]
fn hunt_c03_late_lock_cli_flow() {
	let test_dir = "test_output/hunt_c03_1";
	setup(test_dir);
	if let Err(e) = late_lock_cli_flow_impl(test_dir) {
		panic!("Libwallet Error: {}", e);
	}
	clean_output_dir(test_dir);
}
