// C03 hunt, finding 2: the same Standard1 slate delivered twice to one wallet, the
// second time naming another destination account (the destination account is a
// parameter of the Foreign API's receive_tx, i.e. chosen by whoever delivers the
// slate). The "don't do this multiple times" check of foreign::receive_tx only
// looks at the log of the named account, so the repeated receive step is not
// refused: it adds a second output and a second TxReceived entry for the slate.
#[macro_use]
extern crate log;
extern crate grin_wallet_controller as wallet;
extern crate grin_wallet_impls as impls;

use grin_wallet_libwallet as libwallet;

use impls::test_framework::{self, LocalWalletClient};
use libwallet::{InitTxArgs, OutputStatus, Slate, TxLogEntryType};
use std::sync::atomic::Ordering;
use std::thread;
use std::time::Duration;

#[macro_use]
mod common;
use common::{clean_output_dir, create_wallet_proxy, setup};

fn redelivery_other_account_impl(test_dir: &'static str) -> Result<(), libwallet::Error> {
	let mut wallet_proxy = create_wallet_proxy(test_dir);
	let chain = wallet_proxy.chain.clone();
	let stopper = wallet_proxy.running.clone();

	create_wallet_and_add!(
		client1,
		wallet1,
		mask1_i,
		test_dir,
		"wallet1",
		None,
		&mut wallet_proxy,
		false
	);
	let mask1 = (&mask1_i).as_ref();
	create_wallet_and_add!(
		client2,
		wallet2,
		mask2_i,
		test_dir,
		"wallet2",
		None,
		&mut wallet_proxy,
		false
	);
	let mask2 = (&mask2_i).as_ref();
	let _ = (&client1, &client2);

	thread::spawn(move || {
		if let Err(e) = wallet_proxy.run() {
			error!("Wallet Proxy error: {}", e);
		}
	});

	wallet::controller::owner_single_use(Some(wallet2.clone()), mask2, None, |api, m| {
		api.create_account_path(m, "account1")?;
		Ok(())
	})?;

	test_framework::award_blocks_to_wallet(&chain, wallet1.clone(), mask1, 10, false)?;

	let amount = 30_000_000_000;
	let mut slate_1 = Slate::blank(2, false);
	wallet::controller::owner_single_use(Some(wallet1.clone()), mask1, None, |api, m| {
		let args = InitTxArgs {
			src_acct_name: None,
			amount,
			minimum_confirmations: 2,
			max_outputs: 500,
			num_change_outputs: 1,
			selection_strategy_is_use_all: false,
			..Default::default()
		};
		slate_1 = api.init_send_tx(m, args)?;
		api.tx_lock_outputs(m, &slate_1)?;
		Ok(())
	})?;

	// first delivery (default account)
	let mut first = Ok(Slate::blank(2, false));
	let mut again_same = Ok(Slate::blank(2, false));
	let mut again_other = Ok(Slate::blank(2, false));
	wallet::controller::foreign_single_use(wallet2.clone(), mask2_i.clone(), |api| {
		first = api.receive_tx(&slate_1, None, None);
		// duplicated delivery, same account: refused
		again_same = api.receive_tx(&slate_1, None, None);
		// duplicated delivery, naming another account of the wallet
		again_other = api.receive_tx(&slate_1, Some("account1"), None);
		Ok(())
	})?;
	assert!(first.is_ok());
	assert!(again_same.is_err());
	println!(
		"second delivery naming another account: {}",
		match &again_other {
			Ok(_) => "accepted".to_owned(),
			Err(e) => format!("refused: {}", e),
		}
	);

	// what the wallet now holds for this slate, over all accounts
	let mut entries = 0;
	let mut outputs = 0;
	for acct in &["default", "account1"] {
		{
			wallet_inst!(wallet2, w);
			w.set_parent_key_id_by_name(acct)?;
		}
		wallet::controller::owner_single_use(Some(wallet2.clone()), mask2, None, |api, m| {
			let (_, txs) = api.retrieve_txs(m, false, None, Some(slate_1.id), None)?;
			for t in txs
				.iter()
				.filter(|t| t.tx_type == TxLogEntryType::TxReceived)
			{
				println!(
					"account {}: TxReceived entry id {} for slate {}, credited {}",
					acct, t.id, slate_1.id, t.amount_credited
				);
				entries += 1;
				let (_, outs) = api.retrieve_outputs(m, false, false, Some(t.id))?;
				for o in outs
					.iter()
					.filter(|o| o.output.status == OutputStatus::Unconfirmed)
				{
					println!(
						"account {}: output {} value {}",
						acct, o.output.key_id, o.output.value
					);
					outputs += 1;
				}
			}
			Ok(())
		})?;
	}

	stopper.store(false, Ordering::Relaxed);
	thread::sleep(Duration::from_millis(200));

	assert!(
		again_other.is_err(),
		"C03 violated: a repeated receive step for the same slate was accepted"
	);
	assert_eq!(
		(entries, outputs),
		(1, 1),
		"C03 violated: the repeated receive added a log entry / an output"
	);
	Ok(())
}

#[test]
fn hunt_c03_redelivery_other_account() {
	let test_dir = "test_output/hunt_c03_2";
	setup(test_dir);
	if let Err(e) = redelivery_other_account_impl(test_dir) {
		panic!("Libwallet Error: {}", e);
	}
	clean_output_dir(test_dir);
}
