// C03 hunt, finding 3: Owner::create_mwixnet_req(.., lock_output = true) builds a
// signed spend (comsig + onion) of an output and "locks" it without looking at the
// output's status: an output that a pending transaction has already reserved is
// accepted. Its record keeps pointing at the pending transaction, so cancelling that
// transaction afterwards releases the output although the swap request still spends it,
// and the next send selects it again.
#[macro_use]
extern crate log;
extern crate grin_wallet_controller as wallet;
extern crate grin_wallet_impls as impls;

use grin_util as util;
use grin_util::secp::key::SecretKey;

use grin_wallet_libwallet as libwallet;
use impls::test_framework::{self, LocalWalletClient};
use libwallet::{mwixnet::MixnetReqCreationParams, InitTxArgs, OutputStatus, Slate};
use std::sync::atomic::Ordering;
use std::thread;
use std::time::Duration;

#[macro_use]
mod common;
use common::{clean_output_dir, create_wallet_proxy, setup};

fn mwixnet_on_reserved_output_impl(test_dir: &'static str) -> Result<(), libwallet::Error> {
	let mut wallet_proxy = create_wallet_proxy(test_dir);
	let chain = wallet_proxy.chain.clone();
	let stopper = wallet_proxy.running.clone();

	create_wallet_and_add!(
		client1,
		wallet1,
		mask1_i,
		test_dir,
		"wallet1",
		None,
		&mut wallet_proxy,
		false
	);
	let mask1 = (&mask1_i).as_ref();
	let _ = &client1;

	thread::spawn(move || {
		if let Err(e) = wallet_proxy.run() {
			error!("Wallet Proxy error: {}", e);
		}
	});

	test_framework::award_blocks_to_wallet(&chain, wallet1.clone(), mask1, 10, false)?;

	let params = {
		let secp_locked = util::static_secp_instance();
		let secp = secp_locked.lock();
		let keys = [
			"97444ae673bb92c713c1a2f7b8882ffbfc1c67401a280a775dce1a8651584332",
			"0c9414341f2140ed34a5a12a6479bf5a6404820d001ab81d9d3e8cc38f049b4e",
			"b58ece97d60e71bb7e53218400b0d67bfe6a3cb7d3b4a67a44f8fb7c525cbca5",
		];
		MixnetReqCreationParams {
			server_keys: keys
				.iter()
				.map(|k| SecretKey::from_slice(&secp, &util::from_hex(k).unwrap()).unwrap())
				.collect(),
			fee_per_hop: 50_000_000,
		}
	};

	let mut slate_a = Slate::blank(2, false);
	let mut swap_accepted = false;
	let mut status_after_cancel = None;

	wallet::controller::owner_single_use(Some(wallet1.clone()), mask1, None, |api, m| {
		// pending transaction A reserves one output
		let args = InitTxArgs {
			src_acct_name: None,
			amount: 30_000_000_000,
			minimum_confirmations: 2,
			max_outputs: 500,
			num_change_outputs: 1,
			selection_strategy_is_use_all: false,
			..Default::default()
		};
		slate_a = api.init_send_tx(m, args)?;
		api.tx_lock_outputs(m, &slate_a)?;

		let (_, txs) = api.retrieve_txs(m, false, None, Some(slate_a.id), None)?;
		let tx_a_id = txs[0].id;
		let (_, outs) = api.retrieve_outputs(m, false, false, Some(tx_a_id))?;
		let reserved = outs
			.iter()
			.find(|o| o.output.status == OutputStatus::Locked)
			.expect("A reserved an input")
			.clone();
		println!(
			"output {:?} is reserved (Locked) for pending transaction {}",
			reserved.commit, tx_a_id
		);

		// a swap request spending the very same output
		let res = api.create_mwixnet_req(m, &params, &reserved.commit, true);
		swap_accepted = res.is_ok();
		println!(
			"create_mwixnet_req on the reserved output: {}",
			match &res {
				Ok(_) => "accepted (comsig + onion spending it were built)".to_owned(),
				Err(e) => format!("refused: {}", e),
			}
		);

		// A is cancelled: what happens to the output the swap request holds?
		api.cancel_tx(m, Some(tx_a_id), None)?;
		let (_, outs) = api.retrieve_outputs(m, false, false, None)?;
		let o = outs.iter().find(|o| o.commit == reserved.commit).unwrap();
		println!(
			"after cancelling A the output is {} (tx_log_entry {:?})",
			o.output.status, o.output.tx_log_entry
		);
		status_after_cancel = Some(o.output.status.clone());
		Ok(())
	})?;

	stopper.store(false, Ordering::Relaxed);
	thread::sleep(Duration::from_millis(200));

	assert!(
		!swap_accepted,
		"C03 violated: an output reserved for a pending transaction was taken for a second spend (mwixnet swap request); after cancelling the transaction the output is {:?}",
		status_after_cancel
	);
	Ok(())
}

#[test]
fn hunt_c03_mwixnet_on_reserved_output() {
	let test_dir = "test_output/hunt_c03_3";
	setup(test_dir);
	if let Err(e) = mwixnet_on_reserved_output_impl(test_dir) {
		panic!("Libwallet Error: {}", e);
	}
	clean_output_dir(test_dir);
}
