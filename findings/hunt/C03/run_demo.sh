#!/bin/bash
# Usage: run_demo.sh [checkout] [target-dir]
# Copies the C03 demonstration tests into <checkout>/controller/tests and runs them.
# Each test asserts what property C03 requires, so it FAILS on a tree that has the defect.
# Exit status: 0 when all tests pass (defects absent), non-zero when any test fails.
set -u
HERE="$(cd "$(dirname "$0")" && pwd)"
CHECKOUT="${1:-/tmp/hunt_C03}"
export CARGO_TARGET_DIR="${2:-${CARGO_TARGET_DIR:-/tmp/hunt_C03_target}}"
cp "$HERE"/demo/controller/tests/hunt_c03_*.rs "$CHECKOUT/controller/tests/" || exit 2
cd "$CHECKOUT" || exit 2
rc=0
for t in hunt_c03_1 hunt_c03_2 hunt_c03_3; do
	echo "=== $t ==="
	cargo test -p grin_wallet_controller --offline --test "$t" -- --nocapture 2>&1 \
		| grep -E "C03 violated|first finalize_tx|transaction A finalized|input of A|inputs of A|second delivery|TxReceived entry|account .*output|is reserved|create_mwixnet_req on|after cancelling|^test |test result|error(\[|:)" 
	[ "${PIPESTATUS[0]}" -eq 0 ] || rc=1
done
exit $rc
