// C04 hunt, finding 1:
// A zero-confirmation send reserves an output that is itself not mined yet (a payment
// just received). A refresh at that moment finds the reserved output missing from the
// node's unspent set and books it as `Spent` (apply_api_outputs: "not in the UTXO set"
// is read as "already spent" although the output has not been created yet). When the
// paying transaction is then mined, the scan step of the next refresh finds a `Spent`
// record in the UTXO set, turns it `Unspent` and cancels the log entry of the (live,
// never user-cancelled) spending transaction. Once that spending transaction is mined
// too, nothing repairs the books any more: its input stays `Unspent` although it left
// the UTXO set, its change stays `Unconfirmed` although it is in the UTXO set, and the
// entry stays cancelled.
#[macro_use]
extern crate log;
extern crate grin_wallet_controller as wallet;
extern crate grin_wallet_impls as impls;

use grin_core as core;
use grin_wallet_libwallet as libwallet;

use impls::test_framework::{self, LocalWalletClient};
use libwallet::{InitTxArgs, OutputStatus, Slate};
use std::sync::atomic::Ordering;
use std::thread;
use std::time::Duration;

#[macro_use]
mod common;
use common::{clean_output_dir, create_wallet_proxy, setup};

/// After a successful refresh: what the wallet records as unspent or reserved is exactly
/// what of its outputs is in the node's unspent set, the figures partition it, and the
/// confirmed log entries sum to it.
macro_rules! check_books {
	($label:expr, $chain:expr, $wallet:expr, $mask:expr) => {
		wallet::controller::owner_single_use(Some($wallet.clone()), $mask, None, |api, m| {
			let (refreshed, info) = api.retrieve_summary_info(m, true, 1)?;
			assert!(refreshed, "{}: refresh failed", $label);
			let (_, outputs) = api.retrieve_outputs(m, true, false, None)?;
			let (_, txs) = api.retrieve_txs(m, false, None, None, None)?;
			println!("{}: info {:?}", $label, info);
			for o in &outputs {
				println!(
					"{}: output {:?} value {} height {} tx {:?} in UTXO set: {}",
					$label,
					o.output.status,
					o.output.value,
					o.output.height,
					o.output.tx_log_entry,
					$chain.get_unspent(o.commit).unwrap().is_some()
				);
			}
			for t in &txs {
				println!(
					"{}: tx {} {:?} confirmed {} credited {} debited {}",
					$label, t.id, t.tx_type, t.confirmed, t.amount_credited, t.amount_debited
				);
			}
			let mut sum = 0u64;
			for o in &outputs {
				let on_chain = $chain.get_unspent(o.commit).unwrap().is_some();
				let booked = o.output.status == OutputStatus::Unspent
					|| o.output.status == OutputStatus::Locked;
				if booked {
					sum += o.output.value;
				}
				assert_eq!(
					booked, on_chain,
					"{}: output of value {} is recorded as {:?} but its presence in the node's unspent set is {}",
					$label, o.output.value, o.output.status, on_chain
				);
			}
			assert_eq!(
				info.amount_currently_spendable
					+ info.amount_immature
					+ info.amount_awaiting_confirmation,
				info.total,
				"{}: figures do not partition the total",
				$label
			);
			assert_eq!(info.total + info.amount_locked, sum, "{}: figures vs outputs", $label);
			let credits: u64 = txs
				.iter()
				.filter(|t| t.confirmed)
				.map(|t| t.amount_credited)
				.sum();
			let debits: u64 = txs
				.iter()
				.filter(|t| t.confirmed)
				.map(|t| t.amount_debited)
				.sum();
			assert_eq!(
				info.total + info.amount_locked,
				credits - debits,
				"{}: confirmed credits minus debits differ from total plus locked",
				$label
			);
			Ok(())
		})?;
	};
}

fn hunt_impl(test_dir: &'static str) -> Result<(), libwallet::Error> {
	let mut wallet_proxy = create_wallet_proxy(test_dir);
	let chain = wallet_proxy.chain.clone();
	let stopper = wallet_proxy.running.clone();

	create_wallet_and_add!(
		client1,
		wallet1,
		mask1_i,
		test_dir,
		"wallet1",
		None,
		&mut wallet_proxy,
		false
	);
	let mask1 = (&mask1_i).as_ref();
	create_wallet_and_add!(
		client2,
		wallet2,
		mask2_i,
		test_dir,
		"wallet2",
		None,
		&mut wallet_proxy,
		false
	);
	let mask2 = (&mask2_i).as_ref();

	thread::spawn(move || {
		if let Err(e) = wallet_proxy.run() {
			error!("Wallet Proxy error: {}", e);
		}
	});

	let reward = core::consensus::REWARD;

	// wallet 1 mines
	let _ = test_framework::award_blocks_to_wallet(&chain, wallet1.clone(), mask1, 6, false);
	check_books!("w2 fresh", chain, wallet2, mask2);

	// T1: wallet 1 pays wallet 2 one reward (built and finalized; it waits to be mined)
	let mut slate1 = Slate::blank(2, false);
	wallet::controller::owner_single_use(Some(wallet1.clone()), mask1, None, |api, m| {
		let (refreshed, _) = api.retrieve_summary_info(m, true, 1)?;
		assert!(refreshed);
		let args = InitTxArgs {
			src_acct_name: None,
			amount: reward,
			minimum_confirmations: 2,
			max_outputs: 500,
			num_change_outputs: 1,
			selection_strategy_is_use_all: false,
			..Default::default()
		};
		slate1 = api.init_send_tx(m, args)?;
		slate1 = client1.send_tx_slate_direct("wallet2", &slate1)?;
		api.tx_lock_outputs(m, &slate1)?;
		slate1 = api.finalize_tx(m, &slate1)?;
		Ok(())
	})?;
	let tx1 = slate1.tx_or_err()?.clone();

	// T2: wallet 2 passes half of it on at once (minimum_confirmations = 0), back to wallet 1
	let mut slate2 = Slate::blank(2, false);
	wallet::controller::owner_single_use(Some(wallet2.clone()), mask2, None, |api, m| {
		let args = InitTxArgs {
			src_acct_name: None,
			amount: reward / 2,
			minimum_confirmations: 0,
			max_outputs: 500,
			num_change_outputs: 1,
			selection_strategy_is_use_all: false,
			..Default::default()
		};
		slate2 = api.init_send_tx(m, args)?;
		slate2 = client2.send_tx_slate_direct("wallet1", &slate2)?;
		api.tx_lock_outputs(m, &slate2)?;
		slate2 = api.finalize_tx(m, &slate2)?;
		Ok(())
	})?;
	let tx2 = slate2.tx_or_err()?.clone();

	// wallet 2 refreshes while both transactions wait to be mined
	check_books!("w2, T1 and T2 pending", chain, wallet2, mask2);

	// the next block takes T1
	test_framework::award_block_to_wallet(&chain, &[tx1], wallet1.clone(), mask1)?;
	check_books!("w2, T1 mined, T2 pending", chain, wallet2, mask2);

	// the block after it takes T2
	test_framework::award_block_to_wallet(&chain, &[tx2], wallet1.clone(), mask1)?;
	check_books!("w2, T1 and T2 mined", chain, wallet2, mask2);

	// and it stays that way
	let _ = test_framework::award_blocks_to_wallet(&chain, wallet1.clone(), mask1, 3, false);
	check_books!("w2, three blocks later", chain, wallet2, mask2);

	stopper.store(false, Ordering::Relaxed);
	thread::sleep(Duration::from_millis(200));
	Ok(())
}

#[test]
fn hunt_c04_refresh_books_reserved_unmined_output_as_spent() {
	let test_dir = "test_output/hunt_c04_1";
	setup(test_dir);
	if let Err(e) = hunt_impl(test_dir) {
		panic!("Libwallet Error: {}", e);
	}
	clean_output_dir(test_dir);
}
