// C04 hunt, candidate: the payer's side of an invoice payment is cancelled BEFORE anything
// is broadcast (the payer has already returned the signed slate) - either by the payer's own
// refresh when the TTL he put on the payment runs out, or by the payer himself - and the
// issuer, who holds the signed slate and has not refreshed lately (his TTL check compares the
// cut-off with his own last refreshed height, not with the chain), finalizes and broadcasts.
// The payer's inputs, released by the cancellation, are Unspent records under a settled
// (cancelled) entry, which a normal refresh never asks the node about: they stay "spendable"
// for good although they have left the node's unspent set.
#[macro_use]
extern crate log;
extern crate grin_wallet_controller as wallet;
extern crate grin_wallet_impls as impls;

use grin_core as core;
use grin_wallet_libwallet as libwallet;

use impls::test_framework::{self, LocalWalletClient};
use libwallet::{InitTxArgs, IssueInvoiceTxArgs, OutputStatus, Slate};
use std::sync::atomic::Ordering;
use std::thread;
use std::time::Duration;

#[macro_use]
mod common;
use common::{clean_output_dir, create_wallet_proxy, setup};

/// After a successful refresh: what the wallet records as unspent or reserved is exactly
/// what of its outputs is in the node's unspent set, the figures partition it, and the
/// confirmed log entries sum to it.
macro_rules! check_books {
	($label:expr, $chain:expr, $wallet:expr, $mask:expr) => {
		wallet::controller::owner_single_use(Some($wallet.clone()), $mask, None, |api, m| {
			let (refreshed, info) = api.retrieve_summary_info(m, true, 1)?;
			assert!(refreshed, "{}: refresh failed", $label);
			let (_, outputs) = api.retrieve_outputs(m, true, false, None)?;
			let (_, txs) = api.retrieve_txs(m, false, None, None, None)?;
			println!("{}: info {:?}", $label, info);
			for o in &outputs {
				println!(
					"{}: output {:?} value {} height {} tx {:?} in UTXO set: {}",
					$label,
					o.output.status,
					o.output.value,
					o.output.height,
					o.output.tx_log_entry,
					$chain.get_unspent(o.commit).unwrap().is_some()
				);
			}
			for t in &txs {
				println!(
					"{}: tx {} {:?} confirmed {} credited {} debited {}",
					$label, t.id, t.tx_type, t.confirmed, t.amount_credited, t.amount_debited
				);
			}
			let mut sum = 0u64;
			for o in &outputs {
				let on_chain = $chain.get_unspent(o.commit).unwrap().is_some();
				let booked = o.output.status == OutputStatus::Unspent
					|| o.output.status == OutputStatus::Locked;
				if booked {
					sum += o.output.value;
				}
				assert_eq!(
					booked, on_chain,
					"{}: output of value {} is recorded as {:?} but its presence in the node's unspent set is {}",
					$label, o.output.value, o.output.status, on_chain
				);
			}
			assert_eq!(
				info.amount_currently_spendable
					+ info.amount_immature
					+ info.amount_awaiting_confirmation,
				info.total,
				"{}: figures do not partition the total",
				$label
			);
			assert_eq!(info.total + info.amount_locked, sum, "{}: figures vs outputs", $label);
			let credits: u64 = txs
				.iter()
				.filter(|t| t.confirmed)
				.map(|t| t.amount_credited)
				.sum();
			let debits: u64 = txs
				.iter()
				.filter(|t| t.confirmed)
				.map(|t| t.amount_debited)
				.sum();
			assert_eq!(
				info.total + info.amount_locked,
				credits - debits,
				"{}: confirmed credits minus debits differ from total plus locked",
				$label
			);
			Ok(())
		})?;
	};
}

fn hunt_impl(test_dir: &'static str, by_ttl: bool) -> Result<(), libwallet::Error> {
	let mut wallet_proxy = create_wallet_proxy(test_dir);
	let chain = wallet_proxy.chain.clone();
	let stopper = wallet_proxy.running.clone();

	create_wallet_and_add!(
		client1,
		wallet1,
		mask1_i,
		test_dir,
		"wallet1",
		None,
		&mut wallet_proxy,
		false
	);
	let mask1 = (&mask1_i).as_ref();
	create_wallet_and_add!(
		client2,
		wallet2,
		mask2_i,
		test_dir,
		"wallet2",
		None,
		&mut wallet_proxy,
		false
	);
	let mask2 = (&mask2_i).as_ref();
	let _ = (&client1, &client2);

	thread::spawn(move || {
		if let Err(e) = wallet_proxy.run() {
			error!("Wallet Proxy error: {}", e);
		}
	});

	let reward = core::consensus::REWARD;

	let _ = test_framework::award_blocks_to_wallet(&chain, wallet1.clone(), mask1, 6, false);
	check_books!("w1 after mining", chain, wallet1, mask1);
	check_books!("w2 fresh", chain, wallet2, mask2);

	// wallet 2 invoices wallet 1
	let mut slate = Slate::blank(2, true);
	wallet::controller::owner_single_use(Some(wallet2.clone()), mask2, None, |api, m| {
		let args = IssueInvoiceTxArgs {
			amount: reward / 2,
			..Default::default()
		};
		slate = api.issue_invoice_tx(m, args)?;
		Ok(())
	})?;
	// wallet 1 pays: adds inputs, signs, reserves
	wallet::controller::owner_single_use(Some(wallet1.clone()), mask1, None, |api, m| {
		let args = InitTxArgs {
			src_acct_name: None,
			amount: slate.amount,
			minimum_confirmations: 2,
			max_outputs: 500,
			num_change_outputs: 1,
			selection_strategy_is_use_all: false,
			// the payment is only good for the next two blocks
			ttl_blocks: if by_ttl { Some(2) } else { None },
			..Default::default()
		};
		slate = api.process_invoice_tx(m, &slate, args)?;
		api.tx_lock_outputs(m, &slate)?;
		Ok(())
	})?;
	let slate_id = slate.id;
	if by_ttl {
		// two blocks pass without the payment; wallet 1's next refresh lets it expire
		let _ = test_framework::award_blocks_to_wallet(&chain, wallet1.clone(), mask1, 2, false);
	} else {
		// ... and changes his mind before anything has been broadcast
		wallet::controller::owner_single_use(Some(wallet1.clone()), mask1, None, |api, m| {
			api.cancel_tx(m, None, Some(slate_id))?;
			Ok(())
		})?;
	}
	check_books!("w1 after cancelling", chain, wallet1, mask1);
	wallet::controller::owner_single_use(Some(wallet1.clone()), mask1, None, |api, m| {
		let (_, txs) = api.retrieve_txs(m, false, None, Some(slate_id), None)?;
		assert_eq!(txs.len(), 1);
		assert_eq!(txs[0].tx_type, libwallet::TxLogEntryType::TxSentCancelled);
		Ok(())
	})?;

	// wallet 2 (who holds the signed slate) finalizes and the transaction is mined
	wallet::controller::foreign_single_use(wallet2.clone(), mask2_i.clone(), |api| {
		slate = api.finalize_tx(&slate, false)?;
		Ok(())
	})?;
	let tx = slate.tx_or_err()?.clone();
	test_framework::award_block_to_wallet(&chain, &[tx], wallet2.clone(), mask2)?;

	check_books!("w2 after the payment was mined", chain, wallet2, mask2);
	check_books!("w1 after the payment was mined", chain, wallet1, mask1);

	stopper.store(false, Ordering::Relaxed);
	thread::sleep(Duration::from_millis(200));
	Ok(())
}

#[test]
fn hunt_c04_invoice_payment_expires_at_payer_then_issuer_broadcasts() {
	let test_dir = "test_output/hunt_c04_2_ttl";
	setup(test_dir);
	if let Err(e) = hunt_impl(test_dir, true) {
		panic!("Libwallet Error: {}", e);
	}
	clean_output_dir(test_dir);
}

#[test]
fn hunt_c04_payer_cancels_invoice_before_broadcast() {
	let test_dir = "test_output/hunt_c04_2_cancel";
	setup(test_dir);
	if let Err(e) = hunt_impl(test_dir, false) {
		panic!("Libwallet Error: {}", e);
	}
	clean_output_dir(test_dir);
}
