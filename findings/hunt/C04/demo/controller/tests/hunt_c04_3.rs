// C04 hunt, candidate: the first refresh a wallet ever makes, made from one account more
// than 100 blocks after another account of the same wallet mined its (never refreshed)
// coinbase outputs: clean_old_unconfirmed deletes every account's old Unconfirmed coinbase
// records although only the active account's were checked against the node, and the scan
// step of a never-scanned new wallet only looks at the last 100 blocks.
#[macro_use]
extern crate log;
extern crate grin_wallet_controller as wallet;
extern crate grin_wallet_impls as impls;

use grin_core as core;
use grin_wallet_libwallet as libwallet;

use impls::test_framework::{self, LocalWalletClient};
use libwallet::{InitTxArgs, IssueInvoiceTxArgs, OutputStatus, Slate};
use std::sync::atomic::Ordering;
use std::thread;
use std::time::Duration;

#[macro_use]
mod common;
use common::{clean_output_dir, create_wallet_proxy, setup};

/// After a successful refresh: what the wallet records as unspent or reserved is exactly
/// what of its outputs is in the node's unspent set, the figures partition it, and the
/// confirmed log entries sum to it.
macro_rules! check_books {
	($label:expr, $chain:expr, $wallet:expr, $mask:expr) => {
		wallet::controller::owner_single_use(Some($wallet.clone()), $mask, None, |api, m| {
			let (refreshed, info) = api.retrieve_summary_info(m, true, 1)?;
			assert!(refreshed, "{}: refresh failed", $label);
			let (_, outputs) = api.retrieve_outputs(m, true, false, None)?;
			let (_, txs) = api.retrieve_txs(m, false, None, None, None)?;
			println!("{}: info {:?}", $label, info);
			for o in &outputs {
				println!(
					"{}: output {:?} value {} height {} tx {:?} in UTXO set: {}",
					$label,
					o.output.status,
					o.output.value,
					o.output.height,
					o.output.tx_log_entry,
					$chain.get_unspent(o.commit).unwrap().is_some()
				);
			}
			for t in &txs {
				println!(
					"{}: tx {} {:?} confirmed {} credited {} debited {}",
					$label, t.id, t.tx_type, t.confirmed, t.amount_credited, t.amount_debited
				);
			}
			let mut sum = 0u64;
			for o in &outputs {
				let on_chain = $chain.get_unspent(o.commit).unwrap().is_some();
				let booked = o.output.status == OutputStatus::Unspent
					|| o.output.status == OutputStatus::Locked;
				if booked {
					sum += o.output.value;
				}
				assert_eq!(
					booked, on_chain,
					"{}: output of value {} is recorded as {:?} but its presence in the node's unspent set is {}",
					$label, o.output.value, o.output.status, on_chain
				);
			}
			assert_eq!(
				info.amount_currently_spendable
					+ info.amount_immature
					+ info.amount_awaiting_confirmation,
				info.total,
				"{}: figures do not partition the total",
				$label
			);
			assert_eq!(info.total + info.amount_locked, sum, "{}: figures vs outputs", $label);
			let credits: u64 = txs
				.iter()
				.filter(|t| t.confirmed)
				.map(|t| t.amount_credited)
				.sum();
			let debits: u64 = txs
				.iter()
				.filter(|t| t.confirmed)
				.map(|t| t.amount_debited)
				.sum();
			assert_eq!(
				info.total + info.amount_locked,
				credits - debits,
				"{}: confirmed credits minus debits differ from total plus locked",
				$label
			);
			Ok(())
		})?;
	};
}

fn hunt_impl(test_dir: &'static str) -> Result<(), libwallet::Error> {
	let mut wallet_proxy = create_wallet_proxy(test_dir);
	let chain = wallet_proxy.chain.clone();
	let stopper = wallet_proxy.running.clone();

	create_wallet_and_add!(
		client1,
		wallet1,
		mask1_i,
		test_dir,
		"wallet1",
		None,
		&mut wallet_proxy,
		false
	);
	let mask1 = (&mask1_i).as_ref();
	create_wallet_and_add!(
		client2,
		wallet2,
		mask2_i,
		test_dir,
		"wallet2",
		None,
		&mut wallet_proxy,
		false
	);
	let mask2 = (&mask2_i).as_ref();
	let _ = (&client1, &client2);

	thread::spawn(move || {
		if let Err(e) = wallet_proxy.run() {
			error!("Wallet Proxy error: {}", e);
		}
	});

	let reward = core::consensus::REWARD;

	wallet::controller::owner_single_use(Some(wallet1.clone()), mask1, None, |api, m| {
		api.create_account_path(m, "mining")?;
		Ok(())
	})?;
	{
		wallet_inst!(wallet1, w);
		w.set_parent_key_id_by_name("mining")?;
	}
	// three blocks mined to wallet 1's mining account
	let _ = test_framework::award_blocks_to_wallet(&chain, wallet1.clone(), mask1, 3, false);
	let mut commits = vec![];
	wallet::controller::owner_single_use(Some(wallet1.clone()), mask1, None, |api, m| {
		let (_, outputs) = api.retrieve_outputs(m, true, false, None)?;
		for o in outputs {
			commits.push(o.commit);
		}
		Ok(())
	})?;
	assert_eq!(commits.len(), 3);
	{
		wallet_inst!(wallet1, w);
		w.set_parent_key_id_by_name("default")?;
	}
	// somebody else mines for a while; wallet 1 is not looked at
	let _ = test_framework::award_blocks_to_wallet(&chain, wallet2.clone(), mask2, 105, false);

	// wallet 1 is refreshed for the first time, from its default account
	check_books!("w1 default account", chain, wallet1, mask1);
	// then its mining account
	{
		wallet_inst!(wallet1, w);
		w.set_parent_key_id_by_name("mining")?;
	}
	check_books!("w1 mining account", chain, wallet1, mask1);
	for c in &commits {
		assert!(chain.get_unspent(*c).unwrap().is_some());
	}
	wallet::controller::owner_single_use(Some(wallet1.clone()), mask1, None, |api, m| {
		let (refreshed, info) = api.retrieve_summary_info(m, true, 1)?;
		assert!(refreshed);
		let (_, outputs) = api.retrieve_outputs(m, false, false, None)?;
		let booked = outputs
			.iter()
			.filter(|o| o.output.status == OutputStatus::Unspent && commits.contains(&o.commit))
			.count();
		assert_eq!(
			booked, 3,
			"the mining account's three coinbase outputs are in the node's unspent set, the wallet records {} of them (total {})",
			booked, info.total
		);
		assert_eq!(info.total, 3 * reward);
		Ok(())
	})?;

	stopper.store(false, Ordering::Relaxed);
	thread::sleep(Duration::from_millis(200));
	Ok(())
}

#[test]
fn hunt_c04_first_refresh_from_other_account_drops_old_coinbase() {
	let test_dir = "test_output/hunt_c04_3";
	setup(test_dir);
	if let Err(e) = hunt_impl(test_dir) {
		panic!("Libwallet Error: {}", e);
	}
	clean_output_dir(test_dir);
}
