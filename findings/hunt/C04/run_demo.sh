#!/bin/bash
# Usage: run_demo.sh [checkout-dir] [which]
#   copies the demo tests into <checkout-dir>/controller/tests and runs them against the
#   unmodified code. Exit status is non-zero when any of them fails (= the property is violated).
#   which: 1, 2, 3 or all (default)
set -u
HERE="$(cd "$(dirname "$0")" && pwd)"
CHECKOUT="${1:-/tmp/hunt_C04}"
WHICH="${2:-all}"
export CARGO_TARGET_DIR="${CARGO_TARGET_DIR:-/tmp/hunt_C04_target}"
cp "$HERE"/demo/controller/tests/hunt_c04_*.rs "$CHECKOUT/controller/tests/" || exit 2
cd "$CHECKOUT" || exit 2
if [ "$WHICH" = "all" ]; then TESTS="hunt_c04_1 hunt_c04_2 hunt_c04_3"; else TESTS="hunt_c04_$WHICH"; fi
rc=0
for t in $TESTS; do
	echo "=== $t ==="
	cargo test -p grin_wallet_controller --offline --test "$t" -- --nocapture --test-threads=1 2>&1 \
		| grep -v " DEBUG \| WARN \| INFO \| TRACE " \
		| grep "^w[12]\|panicked\|assertion\|left:\|right:\|^test \|test result\|^error"
	s=${PIPESTATUS[0]}
	if [ "$s" -ne 0 ]; then rc=1; fi
done
exit $rc
