// C05 hunt, finding 1: cancelling a send does not put the reserved input's record back.
//
// `selection::lock_tx_context` overwrites `tx_log_entry` of every input it reserves with the id
// of the new TxSent entry (libwallet/src/internal/selection.rs, `coin.tx_log_entry = Some(log_id)`),
// and `updater::cancel_tx_and_outputs` only resets the status. After the cancel the input still
// points at the cancelled send instead of at the (confirmed) payment that created it:
//  * the confirmed payment has lost its output (`retrieve_outputs(tx_id = payment)` is empty, the
//    output is listed under the cancelled send instead): another transaction is affected;
//  * when the payment is later reorganised away, `find_reverted_kernels` looks the output's owner
//    up by that id, finds a TxSentCancelled entry and not a TxReceived one, so the output is marked
//    Spent and the payment stays "received, confirmed", instead of Reverted / TxReverted /
//    amount_reverted as in the very same history without the created-and-cancelled send.

#[macro_use]
mod common;

use common::{clean_output_dir, create_wallet_proxy, setup};
use grin_core as core;
use grin_core::core::hash::Hashed;
use grin_core::global;
use grin_wallet_controller::controller::owner_single_use as owner;
use grin_wallet_impls::test_framework::*;
use grin_wallet_libwallet as libwallet;
use grin_wallet_libwallet::api_impl::types::InitTxArgs;
use grin_wallet_libwallet::{OutputData, OutputStatus, TxLogEntryType};
use log::error;
use std::sync::atomic::Ordering;
use std::thread;
use std::time::Duration;

/// wallet1 pays wallet2, the payment confirms. If `send_and_cancel`, wallet2 then creates a send
/// that reserves the received output and cancels it again. Then the block holding the payment is
/// reorganised away. Returns Ok if the wallet reports the payment as reverted.
fn scenario(
	test_dir: &'static str,
	send_and_cancel: bool,
	check_records_only: bool,
) -> Result<(), libwallet::Error> {
	let mut wallet_proxy = create_wallet_proxy(test_dir);
	let stopper = wallet_proxy.running.clone();
	let chain = wallet_proxy.chain.clone();
	let test_dir2 = format!("{}/chain2", test_dir);
	let wallet_proxy2 = create_wallet_proxy(&test_dir2);
	let chain2 = wallet_proxy2.chain.clone();
	let stopper2 = wallet_proxy2.running.clone();

	create_wallet_and_add!(
		client1,
		wallet1,
		mask1_i,
		test_dir,
		"wallet1",
		None,
		&mut wallet_proxy,
		false
	);
	let mask1 = mask1_i.as_ref();
	create_wallet_and_add!(
		client2,
		wallet2,
		mask2_i,
		test_dir,
		"wallet2",
		None,
		&mut wallet_proxy,
		false
	);
	let mask2 = mask2_i.as_ref();
	let _ = &client2;

	std::thread::spawn(move || {
		if let Err(e) = wallet_proxy.run() {
			error!("Wallet Proxy error: {}", e);
		}
	});

	let reward = core::consensus::REWARD;
	let cm = global::coinbase_maturity() as u64;
	let sent = reward * 2;

	let bh = 10u64;
	award_blocks_to_wallet(&chain, wallet1.clone(), mask1, bh as usize, false)?;

	// wallet1 pays wallet2
	let mut tx = None;
	owner(Some(wallet1.clone()), mask1, None, |api, m| {
		let args = InitTxArgs {
			src_acct_name: None,
			amount: sent,
			minimum_confirmations: cm,
			max_outputs: 500,
			num_change_outputs: 1,
			selection_strategy_is_use_all: false,
			..Default::default()
		};
		let slate = api.init_send_tx(m, args)?;
		api.tx_lock_outputs(m, &slate)?;
		let slate = client1.send_tx_slate_direct("wallet2", &slate)?;
		let slate = api.finalize_tx(m, &slate)?;
		tx = slate.tx;
		Ok(())
	})?;
	let tx = tx.expect("tx from slate");

	// parallel chain, same up to here
	for i in 0..bh {
		let hash = chain.get_header_by_height(i + 1).unwrap().hash();
		let block = chain.get_block(&hash).unwrap();
		process_block(&chain2, block);
	}
	let head = chain.head_header().unwrap();
	let block_with =
		create_block_for_wallet(&chain, head.clone(), &[tx.clone()], wallet1.clone(), mask1)?;
	let block_without = create_block_for_wallet(&chain, head, &[], wallet1.clone(), mask1)?;
	process_block(&chain, block_with.clone());
	process_block(&chain2, block_without.clone());
	let bh = bh + 1;

	// the payment is confirmed in wallet2
	let mut payment_id = 0;
	let mut outputs_before: Vec<OutputData> = vec![];
	let mut info_before = None;
	owner(Some(wallet2.clone()), mask2, None, |api, m| {
		let (refreshed, info) = api.retrieve_summary_info(m, true, 1)?;
		assert!(refreshed);
		assert_eq!(info.last_confirmed_height, bh);
		assert_eq!(info.total, sent);
		assert_eq!(info.amount_currently_spendable, sent);
		let (_, txs) = api.retrieve_txs(m, true, None, None, None)?;
		assert_eq!(txs.len(), 1);
		assert_eq!(txs[0].tx_type, TxLogEntryType::TxReceived);
		assert!(txs[0].confirmed);
		payment_id = txs[0].id;
		let (_, outs) = api.retrieve_outputs(m, true, false, None)?;
		outputs_before = outs.into_iter().map(|o| o.output).collect();
		assert_eq!(outputs_before.len(), 1);
		assert_eq!(outputs_before[0].tx_log_entry, Some(payment_id));
		let (_, of_payment) = api.retrieve_outputs(m, true, false, Some(payment_id))?;
		assert_eq!(of_payment.len(), 1);
		info_before = Some(info);
		Ok(())
	})?;

	if send_and_cancel {
		// wallet2 starts paying half of it back, reserves the output, then changes its mind
		owner(Some(wallet2.clone()), mask2, None, |api, m| {
			let args = InitTxArgs {
				src_acct_name: None,
				amount: reward,
				minimum_confirmations: 1,
				max_outputs: 500,
				num_change_outputs: 1,
				selection_strategy_is_use_all: false,
				..Default::default()
			};
			let slate = api.init_send_tx(m, args)?;
			api.tx_lock_outputs(m, &slate)?;
			let (_, info) = api.retrieve_summary_info(m, true, 1)?;
			assert_eq!(info.amount_locked, sent);
			assert_eq!(info.amount_currently_spendable, 0);

			// cancel it, by slate id
			api.cancel_tx(m, None, Some(slate.id))?;

			let (_, txs) = api.retrieve_txs(m, true, None, Some(slate.id), None)?;
			assert_eq!(txs.len(), 1);
			assert_eq!(txs[0].tx_type, TxLogEntryType::TxSentCancelled);
			let cancelled_id = txs[0].id;

			// the balance figures are back ...
			let (_, info) = api.retrieve_summary_info(m, true, 1)?;
			assert_eq!(Some(info), info_before.clone());

			if check_records_only {
				// ... and so must be the records of the outputs, and what the other (confirmed)
				// transaction of the wallet consists of
				let (_, of_cancelled) = api.retrieve_outputs(m, true, false, Some(cancelled_id))?;
				let (_, of_payment) = api.retrieve_outputs(m, true, false, Some(payment_id))?;
				let (_, outs) = api.retrieve_outputs(m, true, false, None)?;
				let outputs_after: Vec<OutputData> = outs.into_iter().map(|o| o.output).collect();
				println!("outputs before: {:?}", outputs_before);
				println!("outputs after : {:?}", outputs_after);
				assert_eq!(
					of_payment.len(),
					1,
					"the confirmed payment {} has lost its output to the cancelled send {}",
					payment_id,
					cancelled_id
				);
				assert_eq!(
					of_cancelled.len(),
					0,
					"the cancelled send still owns an output of the wallet"
				);
				assert_eq!(outputs_after, outputs_before);
			}
			Ok(())
		})?;
	}

	if !check_records_only {
		// the parallel chain (without the payment) becomes the longest one
		award_block_to_wallet(&chain2, &[], wallet1.clone(), mask1)?;
		let new_head = chain2
			.get_block(&chain2.head_header().unwrap().hash())
			.unwrap();
		process_block(&chain, block_without.clone());
		assert_eq!(chain.head_header().unwrap(), block_with.header);
		process_block(&chain, new_head.clone());
		assert_eq!(chain.head_header().unwrap(), new_head.header);
		let bh = bh + 1;

		owner(Some(wallet2.clone()), mask2, None, |api, m| {
			api.scan(m, None, false)?;
			let (refreshed, info) = api.retrieve_summary_info(m, true, 1)?;
			assert!(refreshed);
			assert_eq!(info.last_confirmed_height, bh);
			let (_, txs) = api.retrieve_txs(m, true, Some(payment_id), None, None)?;
			let (_, outs) = api.retrieve_outputs(m, true, false, None)?;
			println!("after reorg: info {:?}", info);
			println!("after reorg: payment entry {:?}", txs[0]);
			println!(
				"after reorg: outputs {:?}",
				outs.iter().map(|o| o.output.clone()).collect::<Vec<_>>()
			);
			assert_eq!(info.total, 0);
			assert_eq!(info.amount_currently_spendable, 0);
			// what the same history without the created-and-cancelled send gives
			assert_eq!(
				txs[0].tx_type,
				TxLogEntryType::TxReverted,
				"payment that is no longer on the chain is still reported as {:?}, confirmed = {}",
				txs[0].tx_type,
				txs[0].confirmed
			);
			assert!(!txs[0].confirmed);
			assert_eq!(info.amount_reverted, sent);
			assert_eq!(outs.len(), 1);
			assert_eq!(outs[0].output.status, OutputStatus::Reverted);
			Ok(())
		})?;
	}

	stopper2.store(false, Ordering::Relaxed);
	stopper.store(false, Ordering::Relaxed);
	thread::sleep(Duration::from_millis(500));
	Ok(())
}

/// control: without the send + cancel the reorganised payment is reported as reverted
#[test]
fn c05_1_control_reorg_without_cancelled_send() {
	let test_dir = "test_output/hunt_c05_1_control";
	setup(test_dir);
	if let Err(e) = scenario(test_dir, false, false) {
		panic!("Libwallet Error: {}", e);
	}
	clean_output_dir(test_dir);
}

/// the same history plus a send that was created and cancelled must behave the same
#[test]
fn c05_1_reorg_after_cancelled_send() {
	let test_dir = "test_output/hunt_c05_1_reorg";
	setup(test_dir);
	if let Err(e) = scenario(test_dir, true, false) {
		panic!("Libwallet Error: {}", e);
	}
	clean_output_dir(test_dir);
}

/// cancel puts the output records back, and leaves the other transaction's outputs alone
#[test]
fn c05_1_cancel_restores_output_records() {
	let test_dir = "test_output/hunt_c05_1_records";
	setup(test_dir);
	if let Err(e) = scenario(test_dir, true, true) {
		panic!("Libwallet Error: {}", e);
	}
	clean_output_dir(test_dir);
}
