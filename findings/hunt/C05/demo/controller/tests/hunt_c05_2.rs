// C05 hunt, findings 2 and 3: how `tx::cancel_tx` finds the entry to cancel
// (libwallet/src/internal/tx.rs, `retrieve_txs(..)` followed by `if tx_vec.len() != 1`).
//
// 2. A pending transaction addressed by its slate id cannot be cancelled as soon as the account
//    holds a second log entry with that slate id - the cancelled entry of an earlier attempt
//    with the same slate (receive, cancel, receive again), or the other half of a payment the
//    account makes to itself. The lookup does not skip entries that are not pending, finds two,
//    and reports "transaction doesn't exist"; inputs stay locked / the incoming output stays.
// 3. A request that names no transaction at all (neither id: both are `Option`s all the way up
//    to the JSON-RPC owner API) is not refused: the lookup then matches every entry of the
//    account, and when the account has exactly one entry that one is cancelled.

#[macro_use]
mod common;

use common::{clean_output_dir, create_wallet_proxy, setup};
use grin_core as core;
use grin_core::global;
use grin_wallet_controller::controller::{foreign_single_use, owner_single_use as owner};
use grin_wallet_impls::test_framework::*;
use grin_wallet_libwallet as libwallet;
use grin_wallet_libwallet::api_impl::types::InitTxArgs;
use grin_wallet_libwallet::{OutputStatus, TxLogEntryType};
use log::error;
use std::sync::atomic::Ordering;
use std::thread;
use std::time::Duration;

fn send_args(amount: u64, cm: u64) -> InitTxArgs {
	InitTxArgs {
		src_acct_name: None,
		amount,
		minimum_confirmations: cm,
		max_outputs: 500,
		num_change_outputs: 1,
		selection_strategy_is_use_all: false,
		..Default::default()
	}
}

fn scenario(test_dir: &'static str, which: u8) -> Result<(), libwallet::Error> {
	let mut wallet_proxy = create_wallet_proxy(test_dir);
	let stopper = wallet_proxy.running.clone();
	let chain = wallet_proxy.chain.clone();

	create_wallet_and_add!(
		client1,
		wallet1,
		mask1_i,
		test_dir,
		"wallet1",
		None,
		&mut wallet_proxy,
		false
	);
	let mask1 = mask1_i.as_ref();
	create_wallet_and_add!(
		client2,
		wallet2,
		mask2_i,
		test_dir,
		"wallet2",
		None,
		&mut wallet_proxy,
		false
	);
	let mask2 = mask2_i.as_ref();
	let _ = &client2;

	std::thread::spawn(move || {
		if let Err(e) = wallet_proxy.run() {
			error!("Wallet Proxy error: {}", e);
		}
	});

	let reward = core::consensus::REWARD;
	let cm = global::coinbase_maturity() as u64;
	let bh = 10u64;
	award_blocks_to_wallet(&chain, wallet1.clone(), mask1, bh as usize, false)?;

	match which {
		// receive, cancel, receive the same slate again, cancel by slate id
		0 => {
			let mut slate = None;
			owner(Some(wallet1.clone()), mask1, None, |api, m| {
				let s = api.init_send_tx(m, send_args(reward * 2, cm))?;
				api.tx_lock_outputs(m, &s)?;
				client1.send_tx_slate_direct("wallet2", &s)?;
				slate = Some(s);
				Ok(())
			})?;
			let slate = slate.unwrap();
			let mut info_before = None;
			owner(Some(wallet2.clone()), mask2, None, |api, m| {
				// the recipient drops the payment ...
				api.cancel_tx(m, None, Some(slate.id))?;
				let (_, info) = api.retrieve_summary_info(m, true, 1)?;
				assert_eq!(info.amount_awaiting_finalization, 0);
				info_before = Some(info);
				Ok(())
			})?;
			// ... the sender offers the very same slate once more, and it is accepted
			client1.send_tx_slate_direct("wallet2", &slate)?;
			owner(Some(wallet2.clone()), mask2, None, |api, m| {
				let (_, txs) = api.retrieve_txs(m, true, None, Some(slate.id), None)?;
				println!(
					"entries with the slate id: {:?}",
					txs.iter().map(|t| (t.id, t.tx_type.clone())).collect::<Vec<_>>()
				);
				let pending: Vec<_> = txs
					.iter()
					.filter(|t| t.tx_type == TxLogEntryType::TxReceived && !t.confirmed)
					.collect();
				assert_eq!(pending.len(), 1);
				let (_, info) = api.retrieve_summary_info(m, true, 1)?;
				assert_eq!(info.amount_awaiting_finalization, reward * 2);

				// the pending payment, addressed by its slate id
				let res = api.cancel_tx(m, None, Some(slate.id));
				println!("cancel by slate id: {:?}", res);
				let (_, info) = api.retrieve_summary_info(m, true, 1)?;
				let (_, outs) = api.retrieve_outputs(m, false, false, None)?;
				assert!(
					res.is_ok(),
					"the one pending transaction with this slate id is not cancelled: {:?}",
					res
				);
				assert_eq!(Some(info), info_before.clone());
				assert_eq!(outs.len(), 0);
				Ok(())
			})?;
		}
		// the account pays itself, cancel by slate id
		1 => {
			owner(Some(wallet1.clone()), mask1, None, |api, m| {
				let (_, info_before) = api.retrieve_summary_info(m, true, 1)?;
				let mut slate = api.init_send_tx(m, send_args(reward * 2, cm))?;
				api.tx_lock_outputs(m, &slate)?;
				foreign_single_use(wallet1.clone(), mask1_i.clone(), |api| {
					slate = api.receive_tx(&slate, None, None)?;
					Ok(())
				})?;
				let (_, txs) = api.retrieve_txs(m, true, None, Some(slate.id), None)?;
				println!(
					"entries with the slate id: {:?}",
					txs.iter().map(|t| (t.id, t.tx_type.clone())).collect::<Vec<_>>()
				);
				assert_eq!(txs.len(), 2);
				let (_, info) = api.retrieve_summary_info(m, true, 1)?;
				assert!(info.amount_locked > 0);

				let res = api.cancel_tx(m, None, Some(slate.id));
				println!("cancel by slate id: {:?}", res);
				let (_, info) = api.retrieve_summary_info(m, true, 1)?;
				let (_, outs) = api.retrieve_outputs(m, false, false, None)?;
				assert!(
					res.is_ok(),
					"the pending payment with this slate id is not cancelled: {:?}",
					res
				);
				assert_eq!(info.amount_locked, 0);
				assert_eq!(info, info_before);
				assert!(outs
					.iter()
					.all(|o| o.output.status != OutputStatus::Locked
						&& !(o.output.status == OutputStatus::Unconfirmed && !o.output.is_coinbase)));
				Ok(())
			})?;
		}
		// no id at all
		_ => {
			owner(Some(wallet1.clone()), mask1, None, |api, m| {
				let s = api.init_send_tx(m, send_args(reward * 2, cm))?;
				api.tx_lock_outputs(m, &s)?;
				client1.send_tx_slate_direct("wallet2", &s)?;
				Ok(())
			})?;
			owner(Some(wallet2.clone()), mask2, None, |api, m| {
				let (_, info_before) = api.retrieve_summary_info(m, true, 1)?;
				assert_eq!(info_before.amount_awaiting_finalization, reward * 2);
				let (_, txs) = api.retrieve_txs(m, true, None, None, None)?;
				assert_eq!(txs.len(), 1);
				assert_eq!(txs[0].tx_type, TxLogEntryType::TxReceived);

				// a request that names no transaction
				let res = api.cancel_tx(m, None, None);
				println!("cancel without any id: {:?}", res);
				let (_, txs) = api.retrieve_txs(m, true, None, None, None)?;
				let (_, info) = api.retrieve_summary_info(m, true, 1)?;
				println!("entry afterwards: {:?} {:?}", txs[0].id, txs[0].tx_type);
				assert!(res.is_err(), "a cancel that names no transaction succeeded");
				assert_eq!(txs[0].tx_type, TxLogEntryType::TxReceived);
				assert_eq!(info, info_before);
				Ok(())
			})?;
		}
	}

	stopper.store(false, Ordering::Relaxed);
	thread::sleep(Duration::from_millis(500));
	Ok(())
}

#[test]
fn c05_2_cancel_by_slate_id_after_rereceive() {
	let test_dir = "test_output/hunt_c05_2_rereceive";
	setup(test_dir);
	if let Err(e) = scenario(test_dir, 0) {
		panic!("Libwallet Error: {}", e);
	}
	clean_output_dir(test_dir);
}

#[test]
fn c05_2_cancel_by_slate_id_self_send() {
	let test_dir = "test_output/hunt_c05_2_self";
	setup(test_dir);
	if let Err(e) = scenario(test_dir, 1) {
		panic!("Libwallet Error: {}", e);
	}
	clean_output_dir(test_dir);
}

#[test]
fn c05_3_cancel_without_id() {
	let test_dir = "test_output/hunt_c05_3_noid";
	setup(test_dir);
	if let Err(e) = scenario(test_dir, 2) {
		panic!("Libwallet Error: {}", e);
	}
	clean_output_dir(test_dir);
}
