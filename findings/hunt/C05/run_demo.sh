#!/bin/bash
# Usage: run_demo.sh [checkout-dir]   (default: /tmp/hunt_C05)
# Copies the demonstration tests into <checkout>/controller/tests and runs them.
# Exit status is non-zero when any of the demonstrations fails (= the violation is present).
set -u
HERE="$(cd "$(dirname "$0")" && pwd)"
CHECKOUT="${1:-/tmp/hunt_C05}"
export CARGO_TARGET_DIR="${CARGO_TARGET_DIR:-/tmp/hunt_C05_target}"

cp "$HERE/demo/controller/tests/hunt_c05_1.rs" "$CHECKOUT/controller/tests/hunt_c05_1.rs" || exit 2
cp "$HERE/demo/controller/tests/hunt_c05_2.rs" "$CHECKOUT/controller/tests/hunt_c05_2.rs" || exit 2
cd "$CHECKOUT" || exit 2

rc=0
# finding 1 (the control test c05_1_control_* passes, the other two fail on the unmodified tree)
cargo test -p grin_wallet_controller --offline --test hunt_c05_1 -- --test-threads=1 || rc=1
# findings 2 (c05_2_*) and 3 (c05_3_*)
cargo test -p grin_wallet_controller --offline --test hunt_c05_2 -- --test-threads=1 || rc=1
exit $rc
