// C06 hunt, finding 1: a crash during `scan(delete_unconfirmed = true)` between the commit
// that cancels the log entry of a pending send and the commit that unlocks its input leaves
// reserved (Locked) outputs that belong to no live transaction, and nothing can be cancelled
// to get the pre-operation spendable balance back.
//
// Needs the backend's effect hook: build with RUSTFLAGS="--cfg grin_wallet_verif".
#[macro_use]
extern crate log;
extern crate grin_wallet_controller as wallet;
extern crate grin_wallet_impls as impls;

use grin_core as core;
use grin_util as util;

use grin_wallet_libwallet as libwallet;
use impls::test_framework::{self, LocalWalletClient};
use libwallet::{InitTxArgs, OutputStatus, TxLogEntryType};
use std::sync::atomic::{AtomicBool, AtomicUsize, Ordering};
use std::sync::Arc;
use std::thread;
use std::time::Duration;
use util::ZeroingString;

#[macro_use]
mod common;
use common::{clean_output_dir, create_wallet_proxy, setup};

#[cfg(not(grin_wallet_verif))]
#[test]
fn scan_delete_unconfirmed_crash_points() {
	panic!("build this test with RUSTFLAGS=\"--cfg grin_wallet_verif\" (backend effect hook)");
}

/// Effects seen while armed / the effect index from which on the process is "dead"
#[cfg(grin_wallet_verif)]
struct Crash {
	armed: AtomicBool,
	seen: AtomicUsize,
	die_at: AtomicUsize,
}

/// One run: pending send (2 locked inputs + change), then scan(delete_unconfirmed) which dies
/// at its k-th persistent effect. Returns None if the scan has fewer than k effects, else the
/// list of property violations found after reopening the wallet.
#[cfg(grin_wallet_verif)]
fn run(test_dir: &'static str, k: usize) -> Result<Option<Vec<String>>, libwallet::Error> {
	setup(test_dir);
	let mut wallet_proxy = create_wallet_proxy(test_dir);
	let chain = wallet_proxy.chain.clone();
	let stopper = wallet_proxy.running.clone();
	create_wallet_and_add!(
		client1,
		wallet1,
		mask1_i,
		test_dir,
		"wallet1",
		None,
		&mut wallet_proxy,
		false
	);
	let mask1 = (&mask1_i).as_ref();
	let _ = &client1;
	thread::spawn(move || {
		if let Err(e) = wallet_proxy.run() {
			error!("Wallet Proxy error: {}", e);
		}
	});

	let reward = core::consensus::REWARD;
	test_framework::award_blocks_to_wallet(&chain, wallet1.clone(), mask1, 10, false)?;

	// the spendable balance before the operation
	let mut pre_spendable = 0;
	wallet::controller::owner_single_use(Some(wallet1.clone()), mask1, None, |api, m| {
		let (refreshed, info) = api.retrieve_summary_info(m, true, 1)?;
		assert!(refreshed);
		pre_spendable = info.amount_currently_spendable;
		Ok(())
	})?;
	assert!(pre_spendable >= 3 * reward);

	// a pending send: two coinbase outputs reserved, one change output, never completed
	wallet::controller::owner_single_use(Some(wallet1.clone()), mask1, None, |api, m| {
		let args = InitTxArgs {
			src_acct_name: None,
			amount: reward + reward / 2,
			minimum_confirmations: 1,
			max_outputs: 500,
			num_change_outputs: 1,
			selection_strategy_is_use_all: false,
			..Default::default()
		};
		let slate = api.init_send_tx(m, args)?;
		api.tx_lock_outputs(m, &slate)?;
		let (_, outs) = api.retrieve_outputs(m, false, false, None)?;
		let locked = outs
			.iter()
			.filter(|o| o.output.status == OutputStatus::Locked)
			.count();
		assert_eq!(locked, 2);
		Ok(())
	})?;

	// the process dies at the k-th persistent effect of the scan: that effect and every later
	// one does not reach the disk
	let crash = Arc::new(Crash {
		armed: AtomicBool::new(true),
		seen: AtomicUsize::new(0),
		die_at: AtomicUsize::new(k),
	});
	let c = crash.clone();
	impls::verif_effects::set(Some(Arc::new(move |kind: &str| -> bool {
		if !c.armed.load(Ordering::SeqCst) {
			return true;
		}
		if kind == "commit_begin" || kind == "store_tx_begin" {
			let n = c.seen.fetch_add(1, Ordering::SeqCst) + 1;
			return n < c.die_at.load(Ordering::SeqCst);
		}
		true
	})));
	let scan_res =
		wallet::controller::owner_single_use(Some(wallet1.clone()), mask1, None, |api, m| {
			api.scan(m, None, true)
		});
	crash.armed.store(false, Ordering::SeqCst);
	impls::verif_effects::set(None);
	let effects = crash.seen.load(Ordering::SeqCst);
	if effects < k {
		// the scan ran to its end
		assert!(scan_res.is_ok());
		stopper.store(false, Ordering::Relaxed);
		thread::sleep(Duration::from_millis(200));
		return Ok(None);
	}
	assert!(scan_res.is_err(), "the scan must not survive its own death");

	// reopen the wallet
	{
		let mut w_lock = wallet1.lock();
		let lc = w_lock.lc_provider()?;
		lc.close_wallet(None)?;
		lc.open_wallet(None, ZeroingString::from(""), false, false)?;
	}

	let mut violations = vec![];
	wallet::controller::owner_single_use(Some(wallet1.clone()), mask1, None, |api, m| {
		// every query answers (no refresh: the state as it is on disk)
		let (_, outs) = api.retrieve_outputs(m, true, false, None)?;
		let (_, txs) = api.retrieve_txs(m, false, None, None, None)?;
		let _ = api.retrieve_summary_info(m, false, 1)?;

		// every reserved output belongs to a live logged transaction
		for o in outs.iter().filter(|o| o.output.status == OutputStatus::Locked) {
			let owner = txs.iter().find(|t| Some(t.id) == o.output.tx_log_entry);
			let live = match owner {
				Some(t) => t.tx_type == TxLogEntryType::TxSent && !t.confirmed,
				None => false,
			};
			if !live {
				violations.push(format!(
					"output {} (value {}) is Locked but its log entry {:?} is {}",
					o.output.key_id,
					o.output.value,
					o.output.tx_log_entry,
					owner
						.map(|t| format!("{:?}", t.tx_type))
						.unwrap_or("missing".to_owned()),
				));
			}
		}

		// every pending transaction can be cancelled, which restores the spendable balance
		for t in txs.iter().filter(|t| {
			!t.confirmed
				&& (t.tx_type == TxLogEntryType::TxSent || t.tx_type == TxLogEntryType::TxReceived)
		}) {
			if let Err(e) = api.cancel_tx(m, Some(t.id), None) {
				violations.push(format!("pending tx {} cannot be cancelled: {}", t.id, e));
			}
		}
		let (refreshed, info) = api.retrieve_summary_info(m, true, 1)?;
		assert!(refreshed);
		if info.amount_currently_spendable != pre_spendable {
			violations.push(format!(
				"after cancelling everything pending, spendable is {} (locked {}), before the send it was {}",
				info.amount_currently_spendable, info.amount_locked, pre_spendable
			));
		}
		Ok(())
	})?;

	stopper.store(false, Ordering::Relaxed);
	thread::sleep(Duration::from_millis(200));
	Ok(Some(violations))
}

#[cfg(grin_wallet_verif)]
#[test]
fn scan_delete_unconfirmed_crash_points() {
	let dirs: [&'static str; 24] = [
		"test_output/hunt_c06_1/k01",
		"test_output/hunt_c06_1/k02",
		"test_output/hunt_c06_1/k03",
		"test_output/hunt_c06_1/k04",
		"test_output/hunt_c06_1/k05",
		"test_output/hunt_c06_1/k06",
		"test_output/hunt_c06_1/k07",
		"test_output/hunt_c06_1/k08",
		"test_output/hunt_c06_1/k09",
		"test_output/hunt_c06_1/k10",
		"test_output/hunt_c06_1/k11",
		"test_output/hunt_c06_1/k12",
		"test_output/hunt_c06_1/k13",
		"test_output/hunt_c06_1/k14",
		"test_output/hunt_c06_1/k15",
		"test_output/hunt_c06_1/k16",
		"test_output/hunt_c06_1/k17",
		"test_output/hunt_c06_1/k18",
		"test_output/hunt_c06_1/k19",
		"test_output/hunt_c06_1/k20",
		"test_output/hunt_c06_1/k21",
		"test_output/hunt_c06_1/k22",
		"test_output/hunt_c06_1/k23",
		"test_output/hunt_c06_1/k24",
	];
	let mut all = vec![];
	let mut finished = false;
	for (i, dir) in dirs.iter().enumerate() {
		let k = i + 1;
		match run(dir, k) {
			Ok(None) => {
				println!("scan has {} persistent effects", k - 1);
				finished = true;
				clean_output_dir(dir);
				break;
			}
			Ok(Some(v)) => {
				println!("crash at effect {}: {} violation(s)", k, v.len());
				for s in v {
					println!("   {}", s);
					all.push(format!("crash at effect {}: {}", k, s));
				}
			}
			Err(e) => all.push(format!("crash at effect {}: error after reopening: {}", k, e)),
		}
		clean_output_dir(dir);
	}
	assert!(finished, "more persistent effects than crash points tried");
	assert!(
		all.is_empty(),
		"C06 violated at {} crash point finding(s):\n{}",
		all.len(),
		all.join("\n")
	);
}
