#!/bin/sh
# Usage: run_demo.sh [checkout-dir]   (default: /tmp/hunt_C06, a scratch worktree of the repo)
# Copies the demonstrating test into the checkout and runs it against the unmodified code.
# The test drives the LMDB backend's effect hook, which is only compiled with
# --cfg grin_wallet_verif. Exit status is non-zero when the test fails (= violation shown).
set -e
HERE="$(cd "$(dirname "$0")" && pwd)"
CHECKOUT="${1:-/tmp/hunt_C06}"
cp "$HERE/demo/controller/tests/hunt_c06_1.rs" "$CHECKOUT/controller/tests/hunt_c06_1.rs"
cd "$CHECKOUT"
RUSTFLAGS="--cfg grin_wallet_verif" \
CARGO_TARGET_DIR="${CARGO_TARGET_DIR:-/tmp/hunt_C06_target}" \
cargo test -p grin_wallet_controller --offline --test hunt_c06_1 -- --nocapture
