// C07 hunt, finding 1.
//
// foreign build_coinbase with the (guessable: it is only a BIP32 path) key id of a
// coinbase output the wallet holds as Unconfirmed overwrites that record: value,
// commitment, height, lock height (and owning account) are replaced.
//
// An Unconfirmed coinbase record is not necessarily a discarded candidate: it is also
// what the wallet holds for a coinbase whose block HAS been mined but which the wallet has
// not refreshed yet. Overwriting it then detaches the record from the output on chain: the
// record never confirms (only the block scan of the next full update re-discovers the
// mined output, as a second record under the same key id).
//
// Property C07: for any sequence of foreign calls, no existing output of the wallet changes
// status or value.

#[macro_use]
extern crate log;
extern crate grin_wallet_controller as wallet;
extern crate grin_wallet_impls as impls;

use grin_wallet_libwallet as libwallet;

use impls::test_framework::{self, LocalWalletClient};
use libwallet::BlockFees;
use std::sync::atomic::Ordering;
use std::thread;
use std::time::Duration;

#[macro_use]
mod common;
use common::{clean_output_dir, create_wallet_proxy, setup};

fn hunt_c07_1_impl(test_dir: &'static str) -> Result<(), libwallet::Error> {
	let mut wallet_proxy = create_wallet_proxy(test_dir);
	let chain = wallet_proxy.chain.clone();
	let stopper = wallet_proxy.running.clone();

	create_wallet_and_add!(
		client1,
		wallet1,
		mask1_i,
		test_dir,
		"wallet1",
		None,
		&mut wallet_proxy,
		true
	);
	let mask1 = (&mask1_i).as_ref();
	let _ = &client1;

	thread::spawn(move || {
		if let Err(e) = wallet_proxy.run() {
			error!("Wallet Proxy error: {}", e);
		}
	});

	let reward = 60_000_000_000u64;

	// three ordinary blocks for the wallet, and a refresh
	test_framework::award_blocks_to_wallet(&chain, wallet1.clone(), mask1, 3, false)?;
	wallet::controller::owner_single_use(Some(wallet1.clone()), mask1, None, |api, m| {
		let (refreshed, info) = api.retrieve_summary_info(m, true, 1)?;
		assert!(refreshed);
		assert_eq!(info.total, 3 * reward);
		Ok(())
	})?;

	// The miner asks the wallet for the coinbase of the next block (foreign API)...
	let height = chain.head_header().unwrap().height + 1;
	let mut cb = None;
	wallet::controller::foreign_single_use(wallet1.clone(), mask1_i.clone(), |api| {
		cb = Some(api.build_coinbase(&BlockFees {
			fees: 0,
			height,
			key_id: None,
		})?);
		Ok(())
	})?;
	let cb = cb.unwrap();
	let key_id = cb.key_id.clone().unwrap();
	println!("coinbase key id: {}", key_id);

	// ... and mines the block: the reward is now on chain.
	test_framework::add_block_with_reward(&chain, &[], cb.output.clone(), cb.kernel.clone());

	// the wallet's record, before it has refreshed
	let mut before = None;
	wallet::controller::owner_single_use(Some(wallet1.clone()), mask1, None, |api, m| {
		let (_, outputs) = api.retrieve_outputs(m, true, false, None)?;
		before = outputs
			.into_iter()
			.map(|o| o.output)
			.find(|o| o.key_id == key_id);
		Ok(())
	})?;
	let before = before.expect("coinbase record exists");
	assert_eq!(before.value, reward);

	// Anyone who can reach the foreign API now names that key id in a build_coinbase call
	// (a different fee, so a different value).
	wallet::controller::foreign_single_use(wallet1.clone(), mask1_i.clone(), |api| {
		let cb2 = api.build_coinbase(&BlockFees {
			fees: 1_000_000,
			height: height + 1,
			key_id: Some(key_id.clone()),
		})?;
		println!("second coinbase key id: {:?}", cb2.key_id);
		Ok(())
	})?;

	// C07: no existing output of the wallet changes status or value
	let mut after = None;
	wallet::controller::owner_single_use(Some(wallet1.clone()), mask1, None, |api, m| {
		let (_, outputs) = api.retrieve_outputs(m, true, false, None)?;
		after = outputs
			.into_iter()
			.map(|o| o.output)
			.find(|o| o.key_id == key_id);
		Ok(())
	})?;
	let after = after.expect("coinbase record still exists");
	println!(
		"record before: value {} commit {:?} height {}",
		before.value, before.commit, before.height
	);
	println!(
		"record after : value {} commit {:?} height {}",
		after.value, after.commit, after.height
	);

	// (informational: the scan that update_wallet_state runs over new blocks re-discovers the
	// mined output from the chain as a second record, so the total is repaired on the next
	// full update; the overwritten record stays behind as a wrong-valued candidate)
	let mut total = 0;
	wallet::controller::owner_single_use(Some(wallet1.clone()), mask1, None, |api, m| {
		let (refreshed, info) = api.retrieve_summary_info(m, true, 1)?;
		assert!(refreshed);
		total = info.total;
		Ok(())
	})?;
	println!(
		"wallet total after refresh: {} (4 blocks mined to it: {})",
		total,
		4 * reward
	);

	assert_eq!(
		(after.value, after.commit.clone(), after.height),
		(before.value, before.commit.clone(), before.height),
		"foreign build_coinbase changed an existing output record of the wallet"
	);

	stopper.store(false, Ordering::Relaxed);
	thread::sleep(Duration::from_millis(200));
	Ok(())
}

#[test]
fn hunt_c07_1() {
	let test_dir = "test_output/hunt_c07_1";
	setup(test_dir);
	if let Err(e) = hunt_c07_1_impl(test_dir) {
		panic!("Libwallet Error: {}", e);
	}
	clean_output_dir(test_dir);
}
