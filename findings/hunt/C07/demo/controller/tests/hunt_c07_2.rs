// C07 hunt, finding 2.
//
// foreign receive_tx writes the recipient's output and the TxReceived log entry
// (selection::build_recipient_output, committed) BEFORE the slate's signature data is
// checked (Slate::fill_round_2 -> verify_part_sigs, in tx::add_output_to_slate). A
// Standard1 slate whose sender entry carries a bogus partial signature is therefore
// REFUSED WITH AN ERROR, yet leaves an Unconfirmed output of the slate's amount and a
// receive log entry in the destination account - and from then on the genuine slate with
// that id is refused as "already received", so the payment can never be delivered.
//
// Property C07: the foreign API adds funds exactly once per slate - a (successful) receive
// adds exactly one output and one log entry, a refused request is without effect.

#[macro_use]
extern crate log;
extern crate grin_wallet_controller as wallet;
extern crate grin_wallet_impls as impls;

use grin_util as util;
use grin_wallet_libwallet as libwallet;

use impls::test_framework::{self, LocalWalletClient};
use libwallet::{InitTxArgs, Slate, SlateVersion, VersionedSlate};
use std::sync::atomic::Ordering;
use std::thread;
use std::time::Duration;
use util::secp::Signature;

#[macro_use]
mod common;
use common::{clean_output_dir, create_wallet_proxy, setup};

fn hunt_c07_2_impl(test_dir: &'static str) -> Result<(), libwallet::Error> {
	let mut wallet_proxy = create_wallet_proxy(test_dir);
	let chain = wallet_proxy.chain.clone();
	let stopper = wallet_proxy.running.clone();

	create_wallet_and_add!(
		client1,
		wallet1,
		mask1_i,
		test_dir,
		"wallet1",
		None,
		&mut wallet_proxy,
		true
	);
	let mask1 = (&mask1_i).as_ref();
	create_wallet_and_add!(
		client2,
		wallet2,
		mask2_i,
		test_dir,
		"wallet2",
		None,
		&mut wallet_proxy,
		true
	);
	let mask2 = (&mask2_i).as_ref();
	let _ = (&client1, &client2);

	thread::spawn(move || {
		if let Err(e) = wallet_proxy.run() {
			error!("Wallet Proxy error: {}", e);
		}
	});

	test_framework::award_blocks_to_wallet(&chain, wallet1.clone(), mask1, 5, false)?;

	let amount = 10_000_000_000u64;

	// wallet1 starts an ordinary send
	let mut slate = Slate::blank(2, false);
	wallet::controller::owner_single_use(Some(wallet1.clone()), mask1, None, |api, m| {
		let args = InitTxArgs {
			src_acct_name: None,
			amount,
			minimum_confirmations: 2,
			max_outputs: 500,
			num_change_outputs: 1,
			selection_strategy_is_use_all: false,
			..Default::default()
		};
		slate = api.init_send_tx(m, args)?;
		api.tx_lock_outputs(m, &slate)?;
		Ok(())
	})?;

	// A copy of the slate reaches wallet2's foreign API with a bogus partial signature in
	// the sender's entry (a damaged slate, or one sent by anybody who saw the slate id).
	// It is passed through the JSON wire format to show it is deliverable as is.
	let mut bad = slate.clone();
	assert_eq!(bad.participant_data.len(), 1);
	bad.participant_data[0].part_sig = Some(Signature::from_raw_data(&[1u8; 64]).unwrap());
	let wire = serde_json::to_string(&VersionedSlate::into_version(bad, SlateVersion::V4)?)
		.unwrap();
	let bad: Slate = Slate::from(serde_json::from_str::<VersionedSlate>(&wire).unwrap());
	assert!(bad.participant_data[0].part_sig.is_some());

	let mut bad_res = None;
	wallet::controller::foreign_single_use(wallet2.clone(), mask2_i.clone(), |api| {
		bad_res = Some(api.receive_tx(&bad, None, None));
		Ok(())
	})?;
	let bad_res = bad_res.unwrap();
	println!("receive_tx of the damaged slate: {:?}", bad_res.as_ref().err());
	assert!(bad_res.is_err(), "the damaged slate is refused");

	// the refused request must be without effect on wallet2
	let mut n_outputs = 0;
	let mut n_txs = 0;
	let mut awaiting = 0;
	wallet::controller::owner_single_use(Some(wallet2.clone()), mask2, None, |api, m| {
		let (_, outputs) = api.retrieve_outputs(m, true, false, None)?;
		let (_, txs) = api.retrieve_txs(m, false, None, None, None)?;
		let (_, info) = api.retrieve_summary_info(m, false, 1)?;
		for o in &outputs {
			println!(
				"wallet2 output: {} value {} status {}",
				o.output.key_id, o.output.value, o.output.status
			);
		}
		for t in &txs {
			println!(
				"wallet2 tx log: id {} type {} slate {:?} credited {}",
				t.id, t.tx_type, t.tx_slate_id, t.amount_credited
			);
		}
		n_outputs = outputs.len();
		n_txs = txs.len();
		awaiting = info.amount_awaiting_finalization;
		Ok(())
	})?;
	println!(
		"after the REFUSED receive: {} outputs, {} log entries, {} awaiting finalization",
		n_outputs, n_txs, awaiting
	);

	// the genuine slate now arrives: it is the first well-formed delivery of this slate
	let mut good_res = None;
	wallet::controller::foreign_single_use(wallet2.clone(), mask2_i.clone(), |api| {
		good_res = Some(api.receive_tx(&slate, None, None));
		Ok(())
	})?;
	let good_res = good_res.unwrap();
	println!(
		"receive_tx of the genuine slate: {:?}",
		good_res.as_ref().map(|s| s.state.clone()).map_err(|e| format!("{}", e))
	);

	assert_eq!(
		(n_outputs, n_txs, awaiting),
		(0, 0, 0),
		"a receive_tx that returned an error left an output / a log entry behind"
	);
	assert!(
		good_res.is_ok(),
		"the genuine slate is refused because of the record the failed request left"
	);

	stopper.store(false, Ordering::Relaxed);
	thread::sleep(Duration::from_millis(200));
	Ok(())
}

#[test]
fn hunt_c07_2() {
	let test_dir = "test_output/hunt_c07_2";
	setup(test_dir);
	if let Err(e) = hunt_c07_2_impl(test_dir) {
		panic!("Libwallet Error: {}", e);
	}
	clean_output_dir(test_dir);
}
