// C07 hunt, finding 3.
//
// foreign finalize_tx does not check that the stored context it loads is the context of a
// transaction THIS wallet initiated. The payer of an invoice also keeps a context under the
// slate id (owner::process_invoice_tx saves it for tx_lock_outputs). The invoice's issuer -
// a third party for whom this wallet never initiated anything - can therefore present a
// "Standard2" slate with the invoice's id to the payer's public foreign API: the Standard2
// branch runs on the payer's context, signs, rewrites the stored transaction and the TxSent
// log entry, DELETES the private context and (over JSON-RPC, where post_automatically is
// always true) posts.
//
// Property C07: for any sequence of foreign requests that contains no validly counter-signed
// reply to a transaction this wallet itself initiated, no pending transaction's private data
// is consumed (and nothing of the wallet's state changes).

#[macro_use]
extern crate log;
extern crate grin_wallet_controller as wallet;
extern crate grin_wallet_impls as impls;

use grin_core as core;
use grin_keychain as keychain;
use grin_wallet_libwallet as libwallet;

use impls::test_framework::{self, LocalWalletClient};
use keychain::{BlindSum, ExtKeychain, Keychain};
use libwallet::{InitTxArgs, IssueInvoiceTxArgs, Slate, SlateState};
use std::sync::atomic::Ordering;
use std::thread;
use std::time::Duration;

#[macro_use]
mod common;
use common::{clean_output_dir, create_wallet_proxy, setup};

fn hunt_c07_3_impl(test_dir: &'static str) -> Result<(), libwallet::Error> {
	let mut wallet_proxy = create_wallet_proxy(test_dir);
	let chain = wallet_proxy.chain.clone();
	let stopper = wallet_proxy.running.clone();

	create_wallet_and_add!(
		client1,
		wallet1,
		mask1_i,
		test_dir,
		"wallet1",
		None,
		&mut wallet_proxy,
		true
	);
	let mask1 = (&mask1_i).as_ref();
	create_wallet_and_add!(
		client2,
		wallet2,
		mask2_i,
		test_dir,
		"wallet2",
		None,
		&mut wallet_proxy,
		true
	);
	let mask2 = (&mask2_i).as_ref();
	let _ = (&client1, &client2);

	thread::spawn(move || {
		if let Err(e) = wallet_proxy.run() {
			error!("Wallet Proxy error: {}", e);
		}
	});

	// wallet1 (the victim, payer of the invoice) has funds
	test_framework::award_blocks_to_wallet(&chain, wallet1.clone(), mask1, 5, false)?;

	let amount = 10_000_000_000u64;

	// wallet2 (the third party) issues an invoice ...
	let mut inv1 = Slate::blank(2, true);
	wallet::controller::owner_single_use(Some(wallet2.clone()), mask2, None, |api, m| {
		let args = IssueInvoiceTxArgs {
			amount,
			..Default::default()
		};
		inv1 = api.issue_invoice_tx(m, args)?;
		Ok(())
	})?;
	assert_eq!(inv1.state, SlateState::Invoice1);

	// ... which wallet1's owner decides to pay: this is NOT a transaction wallet1 initiated
	let mut inv2 = Slate::blank(2, true);
	wallet::controller::owner_single_use(Some(wallet1.clone()), mask1, None, |api, m| {
		let args = InitTxArgs {
			src_acct_name: None,
			amount: inv1.amount,
			minimum_confirmations: 2,
			max_outputs: 500,
			num_change_outputs: 1,
			selection_strategy_is_use_all: false,
			..Default::default()
		};
		inv2 = api.process_invoice_tx(m, &inv1, args)?;
		api.tx_lock_outputs(m, &inv2)?;
		Ok(())
	})?;
	assert_eq!(inv2.state, SlateState::Invoice2);

	// The issuer finalizes on its own side: that gives it its own partial signature, its
	// output and its share of the offset.
	let mut inv3 = Slate::blank(2, true);
	wallet::controller::foreign_single_use(wallet2.clone(), mask2_i.clone(), |api| {
		inv3 = api.finalize_tx(&inv2, false)?;
		Ok(())
	})?;
	assert_eq!(inv3.state, SlateState::Invoice3);

	// wallet2's own output commitment
	let mut w2_commits = vec![];
	wallet::controller::owner_single_use(Some(wallet2.clone()), mask2, None, |api, m| {
		let (_, outputs) = api.retrieve_outputs(m, true, false, None)?;
		w2_commits = outputs.iter().map(|o| o.commit).collect();
		Ok(())
	})?;
	let issuer_output = inv3
		.tx
		.as_ref()
		.unwrap()
		.outputs()
		.iter()
		.find(|o| w2_commits.contains(&o.commitment()))
		.expect("issuer's output in the final tx")
		.clone();
	let payer_entry = inv2.participant_data[0].clone();
	let issuer_entry = inv3
		.participant_data
		.iter()
		.find(|p| {
			p.public_nonce != payer_entry.public_nonce
				|| p.public_blind_excess != payer_entry.public_blind_excess
		})
		.expect("issuer's participant entry")
		.clone();
	assert!(issuer_entry.part_sig.is_some());

	// the issuer's share of the offset: final offset minus what the payer had contributed
	let kc = ExtKeychain::from_random_seed(true).unwrap();
	let issuer_offset = kc
		.blind_sum(
			&BlindSum::new()
				.add_blinding_factor(inv3.offset.clone())
				.sub_blinding_factor(inv2.offset.clone())
				.add_blinding_factor(inv1.offset.clone()),
		)
		.unwrap();

	// The request sent to wallet1's public foreign API: dressed up as the reply to a
	// standard send, carrying the invoice's id.
	let mut forged = Slate::blank(2, false);
	forged.id = inv2.id;
	forged.state = SlateState::Standard2;
	forged.version_info = inv2.version_info.clone();
	forged.participant_data = vec![issuer_entry];
	forged.offset = issuer_offset;
	forged.tx = Some(Slate::empty_transaction().with_output(issuer_output));

	// wallet1 before the request
	let ctx_before = {
		wallet_inst!(wallet1, w);
		w.get_private_context(mask1, forged.id.as_bytes()).is_ok()
	};
	assert!(ctx_before, "the payer holds a private context for the pending payment");
	let mut stored_before = None;
	let mut entry_before = None;
	wallet::controller::owner_single_use(Some(wallet1.clone()), mask1, None, |api, m| {
		stored_before = api.get_stored_tx(m, None, Some(&forged.id))?.and_then(|s| s.tx);
		let (_, txs) = api.retrieve_txs(m, false, None, Some(forged.id), None)?;
		entry_before = Some(txs[0].clone());
		Ok(())
	})?;

	let mut res = None;
	wallet::controller::foreign_single_use(wallet1.clone(), mask1_i.clone(), |api| {
		res = Some(api.finalize_tx(&forged, false));
		Ok(())
	})?;
	let res = res.unwrap();
	println!(
		"foreign finalize_tx on the PAYER's wallet: {:?}",
		res.as_ref().map(|s| s.state.clone()).map_err(|e| format!("{}", e))
	);

	// wallet1 after the request
	let ctx_after = {
		wallet_inst!(wallet1, w);
		w.get_private_context(mask1, forged.id.as_bytes()).is_ok()
	};
	let mut stored_after = None;
	let mut entry_after = None;
	wallet::controller::owner_single_use(Some(wallet1.clone()), mask1, None, |api, m| {
		stored_after = api.get_stored_tx(m, None, Some(&forged.id))?.and_then(|s| s.tx);
		let (_, txs) = api.retrieve_txs(m, false, None, Some(forged.id), None)?;
		entry_after = Some(txs[0].clone());
		Ok(())
	})?;
	println!("private context present: before {} after {}", ctx_before, ctx_after);
	println!(
		"stored tx kernels/outputs: before {:?} after {:?}",
		stored_before
			.as_ref()
			.map(|t| (t.kernels().len(), t.outputs().len())),
		stored_after
			.as_ref()
			.map(|t| (t.kernels().len(), t.outputs().len()))
	);
	println!(
		"log entry kernel excess: before {:?} after {:?}",
		entry_before.as_ref().unwrap().kernel_excess,
		entry_after.as_ref().unwrap().kernel_excess
	);

	assert!(
		res.is_err(),
		"foreign finalize_tx accepted a slate for a transaction this wallet did not initiate"
	);
	assert!(
		ctx_after,
		"the private context of the pending payment was consumed through the foreign API"
	);
	assert_eq!(
		stored_before, stored_after,
		"the stored transaction was rewritten through the foreign API"
	);
	let _ = core::consensus::REWARD;

	stopper.store(false, Ordering::Relaxed);
	thread::sleep(Duration::from_millis(200));
	Ok(())
}

#[test]
fn hunt_c07_3() {
	let test_dir = "test_output/hunt_c07_3";
	setup(test_dir);
	if let Err(e) = hunt_c07_3_impl(test_dir) {
		panic!("Libwallet Error: {}", e);
	}
	clean_output_dir(test_dir);
}
