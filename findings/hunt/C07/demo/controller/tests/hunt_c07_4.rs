// C07 hunt, finding 3, consequence (same root cause as hunt_c07_3).
//
// Because foreign finalize_tx runs its Standard2 branch on the context of an invoice this
// wallet merely PAID, and takes the kernel features from the incoming slate, the invoice's
// issuer can make the payer's wallet sign a SECOND, DIFFERENT kernel message (here a
// HeightLocked kernel instead of the Plain one it signed in process_invoice_tx) with the SAME
// secret nonce. Two Schnorr partial signatures over different challenges with one nonce
// reveal the signer's secret excess key (x = (s1 - s2) / (e1 - e2)) and the nonce.
//
// Property C07: no sequence of foreign requests (without a validly counter-signed reply to a
// transaction this wallet itself initiated) consumes a pending transaction's private data.

#[macro_use]
extern crate log;
extern crate grin_wallet_controller as wallet;
extern crate grin_wallet_impls as impls;

use grin_core as core;
use grin_wallet_libwallet as libwallet;

use impls::test_framework::{self, LocalWalletClient};
use crate::core::libtx::{build, ProofBuilder};
use libwallet::{InitTxArgs, IssueInvoiceTxArgs, Slate, SlateState};
use std::sync::atomic::Ordering;
use std::thread;
use std::time::Duration;

#[macro_use]
mod common;
use common::{clean_output_dir, create_wallet_proxy, setup};

fn hunt_c07_4_impl(test_dir: &'static str) -> Result<(), libwallet::Error> {
	let mut wallet_proxy = create_wallet_proxy(test_dir);
	let chain = wallet_proxy.chain.clone();
	let stopper = wallet_proxy.running.clone();

	create_wallet_and_add!(
		client1,
		wallet1,
		mask1_i,
		test_dir,
		"wallet1",
		None,
		&mut wallet_proxy,
		true
	);
	let mask1 = (&mask1_i).as_ref();
	create_wallet_and_add!(
		client2,
		wallet2,
		mask2_i,
		test_dir,
		"wallet2",
		None,
		&mut wallet_proxy,
		true
	);
	let mask2 = (&mask2_i).as_ref();
	let _ = (&client1, &client2);

	thread::spawn(move || {
		if let Err(e) = wallet_proxy.run() {
			error!("Wallet Proxy error: {}", e);
		}
	});

	// wallet1 (the victim, payer of the invoice) has funds
	test_framework::award_blocks_to_wallet(&chain, wallet1.clone(), mask1, 5, false)?;

	let amount = 10_000_000_000u64;

	// wallet2 (the third party) issues an invoice ...
	let mut inv1 = Slate::blank(2, true);
	wallet::controller::owner_single_use(Some(wallet2.clone()), mask2, None, |api, m| {
		let args = IssueInvoiceTxArgs {
			amount,
			..Default::default()
		};
		inv1 = api.issue_invoice_tx(m, args)?;
		Ok(())
	})?;
	assert_eq!(inv1.state, SlateState::Invoice1);

	// ... which wallet1's owner decides to pay: this is NOT a transaction wallet1 initiated
	let mut inv2 = Slate::blank(2, true);
	wallet::controller::owner_single_use(Some(wallet1.clone()), mask1, None, |api, m| {
		let args = InitTxArgs {
			src_acct_name: None,
			amount: inv1.amount,
			minimum_confirmations: 2,
			max_outputs: 500,
			num_change_outputs: 1,
			selection_strategy_is_use_all: false,
			..Default::default()
		};
		inv2 = api.process_invoice_tx(m, &inv1, args)?;
		api.tx_lock_outputs(m, &inv2)?;
		Ok(())
	})?;
	assert_eq!(inv2.state, SlateState::Invoice2);

	// The issuer's own secrets for this invoice (its own wallet, its own context)
	let (ctx2, kc2) = {
		wallet_inst!(wallet2, w);
		(
			w.get_private_context(mask2, inv2.id.as_bytes())?,
			w.keychain(mask2)?,
		)
	};
	let payer_entry = inv2.participant_data[0].clone();
	assert!(payer_entry.part_sig.is_some());

	// It prepares a slate for the same transaction but with a HeightLocked kernel, and signs
	// its own part for that message.
	let mut forged = Slate::blank(2, false);
	forged.id = inv2.id;
	forged.state = SlateState::Standard2;
	forged.version_info = inv2.version_info.clone();
	forged.amount = inv1.amount;
	forged.fee_fields = inv2.fee_fields;
	forged.kernel_features = 2;
	forged.kernel_features_args = Some(Default::default());
	if let Some(a) = forged.kernel_features_args.as_mut() {
		a.lock_height = 1;
	}
	let mut payer_no_sig = payer_entry.clone();
	payer_no_sig.part_sig = None;
	forged.participant_data = vec![payer_no_sig];
	let (out_id, _, out_amount) = ctx2.output_ids[0].clone();
	forged.add_transaction_elements(
		&kc2,
		&ProofBuilder::new(&kc2),
		vec![build::output(out_amount, out_id)],
	)?;
	forged.offset = inv1.offset.clone();
	forged.adjust_offset(&kc2, &ctx2)?;
	forged.add_participant_info(&kc2, &ctx2, None)?;
	forged.fill_round_2(&kc2, &ctx2.sec_key, &ctx2.sec_nonce)?;
	// only the issuer's entry travels
	forged.participant_data = forged
		.participant_data
		.clone()
		.into_iter()
		.filter(|p| p.public_nonce != payer_entry.public_nonce)
		.collect();
	assert_eq!(forged.participant_data.len(), 1);
	assert!(forged.participant_data[0].part_sig.is_some());

	let mut res = None;
	wallet::controller::foreign_single_use(wallet1.clone(), mask1_i.clone(), |api| {
		res = Some(api.finalize_tx(&forged, false));
		Ok(())
	})?;
	let res = res.unwrap();
	println!(
		"foreign finalize_tx on the PAYER's wallet: {:?}",
		res.as_ref().map(|s| s.state.clone()).map_err(|e| format!("{}", e))
	);
	if let Ok(s3) = res.as_ref() {
		let k = s3.tx.as_ref().unwrap().kernels()[0].clone();
		println!("kernel the payer's wallet signed now: {:?}", k.features);
		let second = s3
			.participant_data
			.iter()
			.find(|p| p.public_nonce == payer_entry.public_nonce)
			.expect("payer's entry in the returned slate");
		println!("payer public nonce (both signatures): {:?}", payer_entry.public_nonce);
		println!("payer partial sig over the Plain kernel       : {:?}", payer_entry.part_sig);
		println!("payer partial sig over the HeightLocked kernel: {:?}", second.part_sig);
		assert_eq!(second.public_blind_excess, payer_entry.public_blind_excess);
		assert!(
			second.part_sig.is_none() || second.part_sig == payer_entry.part_sig,
			"the payer's wallet signed two different messages with the same secret nonce \
			 on request of the foreign API"
		);
	}
	assert!(
		res.is_err(),
		"foreign finalize_tx accepted a slate for a transaction this wallet did not initiate"
	);
	let _ = core::consensus::REWARD;

	stopper.store(false, Ordering::Relaxed);
	thread::sleep(Duration::from_millis(200));
	Ok(())
}

#[test]
fn hunt_c07_4() {
	let test_dir = "test_output/hunt_c07_4";
	setup(test_dir);
	if let Err(e) = hunt_c07_4_impl(test_dir) {
		panic!("Libwallet Error: {}", e);
	}
	clean_output_dir(test_dir);
}
