#!/bin/bash
# Usage: run_demo.sh [checkout-dir] [test-number ...]
# Copies the C07 demonstration tests into <checkout>/controller/tests and runs them.
# Each test asserts what property C07 requires, so it FAILS on the unmodified tree.
# Exit status is non-zero when any of the tests fails.
HERE="$(cd "$(dirname "$0")" && pwd)"
CHECKOUT="${1:-/tmp/hunt_C07}"
shift
TESTS="${@:-1 2 3 4}"
export CARGO_TARGET_DIR="${CARGO_TARGET_DIR:-/tmp/hunt_C07_target}"
export RUST_BACKTRACE=0
cp "$HERE"/demo/controller/tests/hunt_c07_*.rs "$CHECKOUT/controller/tests/" || exit 2
cd "$CHECKOUT" || exit 2
rc=0
for n in $TESTS; do
	echo "=== hunt_c07_$n ==="
	cargo test -p grin_wallet_controller --offline --test "hunt_c07_$n" 2>&1 \
		| grep -v 'DEBUG\|WARN\|INFO\|^warning\|^ *|\|^ *=\|^ *-->\|^ *[0-9]* |' | tail -30
	[ "${PIPESTATUS[0]}" -ne 0 ] && rc=1
done
exit $rc
