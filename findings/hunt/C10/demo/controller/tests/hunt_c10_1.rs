// Hunt C10 / 1: the JSON encoding of an ENCRYPTED slatepack carries the
// sender's slatepack address in clear (`encrypted_meta.sender`).
//
// Property C10: "[an encrypted slatepack's] encoded form contains neither the
// slate bytes nor the sender's address in clear".
#[macro_use]
extern crate log;
extern crate grin_wallet_controller as wallet;
extern crate grin_wallet_impls as impls;

use grin_core as core;
use grin_wallet_libwallet as libwallet;

use impls::test_framework::{self, LocalWalletClient};
use impls::{PathToSlatepack, SlatePutter as _};
use std::convert::TryFrom;
use std::sync::atomic::Ordering;
use std::thread;
use std::time::Duration;

use grin_wallet_libwallet::{InitTxArgs, Slate, SlatepackAddress, Slatepacker, SlatepackerArgs};

#[macro_use]
mod common;
use common::{clean_output_dir, create_wallet_proxy, setup};

fn json_enc_slatepack_hides_sender_impl(test_dir: &'static str) -> Result<(), libwallet::Error> {
	let mut wallet_proxy = create_wallet_proxy(test_dir);
	let chain = wallet_proxy.chain.clone();
	let stopper = wallet_proxy.running.clone();

	create_wallet_and_add!(
		client1,
		wallet1,
		mask1_i,
		test_dir,
		"wallet1",
		None,
		&mut wallet_proxy,
		false
	);
	let mask1 = (&mask1_i).as_ref();
	create_wallet_and_add!(
		client2,
		wallet2,
		mask2_i,
		test_dir,
		"wallet2",
		None,
		&mut wallet_proxy,
		false
	);
	let mask2 = (&mask2_i).as_ref();

	thread::spawn(move || {
		if let Err(e) = wallet_proxy.run() {
			error!("Wallet Proxy error: {}", e);
		}
	});

	let reward = core::consensus::REWARD;
	let _ = test_framework::award_blocks_to_wallet(&chain, wallet1.clone(), mask1, 6, false);

	// the two wallets' slatepack addresses, and wallet 2's decryption key
	let mut sender_addr = SlatepackAddress::random();
	wallet::controller::owner_single_use(Some(wallet1.clone()), mask1, None, |api, m| {
		sender_addr = api.get_slatepack_address(m, 0)?;
		Ok(())
	})?;
	let mut recipient_addr = SlatepackAddress::random();
	let mut recipient_key = None;
	wallet::controller::owner_single_use(Some(wallet2.clone()), mask2, None, |api, m| {
		recipient_addr = api.get_slatepack_address(m, 0)?;
		recipient_key = Some(api.get_slatepack_secret_key(m, 0)?);
		Ok(())
	})?;
	let sender_str = String::try_from(&sender_addr)?;
	let recipient_str = String::try_from(&recipient_addr)?;
	println!("sender address:    {}", sender_str);
	println!("recipient address: {}", recipient_str);

	// wallet 1 starts a payment
	let mut slate = Slate::blank(2, false);
	wallet::controller::owner_single_use(Some(wallet1.clone()), mask1, None, |api, m| {
		let args = InitTxArgs {
			src_acct_name: None,
			amount: reward * 2,
			minimum_confirmations: 2,
			max_outputs: 500,
			num_change_outputs: 1,
			selection_strategy_is_use_all: true,
			..Default::default()
		};
		slate = api.init_send_tx(m, args)?;
		api.tx_lock_outputs(m, &slate)?;
		Ok(())
	})?;

	// ... and writes it as a slatepack ENCRYPTED to wallet 2, once in each of the
	// three encodings the slatepack adapter offers
	let packer = Slatepacker::new(SlatepackerArgs {
		sender: Some(sender_addr.clone()),
		recipients: vec![recipient_addr.clone()],
		dec_key: None,
	});
	let armored_file = format!("{}/s1.slatepack.armored", test_dir);
	let bin_file = format!("{}/s1.slatepack.bin", test_dir);
	let json_file = format!("{}/s1.slatepack.json", test_dir);
	PathToSlatepack::new((&armored_file).into(), &packer, true).put_tx(&slate, true)?;
	PathToSlatepack::new((&bin_file).into(), &packer, false).put_tx(&slate, true)?;
	PathToSlatepack::new((&json_file).into(), &packer, false).put_tx(&slate, false)?;

	// all three are encrypted slatepacks that the recipient opens, getting the sender back
	let unpacker = Slatepacker::new(SlatepackerArgs {
		sender: None,
		recipients: vec![],
		dec_key: recipient_key.as_ref(),
	});
	for f in [&armored_file, &bin_file, &json_file].iter() {
		let sp = PathToSlatepack::new((*f).into(), &unpacker, true).get_slatepack(false)?;
		assert_eq!(sp.mode, 1, "{} is an encrypted slatepack", f);
		let sp = PathToSlatepack::new((*f).into(), &unpacker, true).get_slatepack(true)?;
		assert_eq!(sp.sender, Some(sender_addr.clone()));
		assert_eq!(unpacker.get_slate(&sp)?.id, slate.id);
	}

	// none of the encoded forms may show the sender's address
	let contains = |hay: &[u8], needle: &[u8]| hay.windows(needle.len()).any(|w| w == needle);
	let armored = std::fs::read(&armored_file)?;
	let bin = std::fs::read(&bin_file)?;
	let json = std::fs::read(&json_file)?;
	println!("JSON encrypted slatepack:\n{}", String::from_utf8_lossy(&json));
	assert!(
		!contains(&armored, sender_str.as_bytes()),
		"armored encrypted slatepack shows the sender address"
	);
	assert!(
		!contains(&bin, sender_str.as_bytes()),
		"binary encrypted slatepack shows the sender address"
	);
	assert!(
		!contains(&json, sender_str.as_bytes()),
		"JSON encrypted slatepack shows the sender address {} in clear",
		sender_str
	);

	// same for the Display form of the encrypted Slatepack object
	let sp = packer.create_slatepack(&slate)?;
	assert_eq!(sp.mode, 1);
	assert!(
		!format!("{}", sp).contains(&sender_str),
		"Display of an encrypted Slatepack shows the sender address in clear"
	);

	stopper.store(false, Ordering::Relaxed);
	thread::sleep(Duration::from_millis(200));
	Ok(())
}

#[test]
fn json_enc_slatepack_hides_sender() {
	let test_dir = "test_output/hunt_c10_1";
	setup(test_dir);
	if let Err(e) = json_enc_slatepack_hides_sender_impl(test_dir) {
		panic!("Libwallet Error: {}", e);
	}
	clean_output_dir(test_dir);
}
