// Hunt C10 / 2: a slate with an NRD kernel (kernel_features = 3, relative lock
// height in kernel_features_args) does not survive a slatepack: the binary V4
// slate writer/reader only carries the kernel feature argument for
// kernel_features == 2, so the recipient decrypts a slate whose
// kernel_features_args is None, and which the wallet then refuses.
//
// Property C10: "A slatepack encrypted to a set of recipient addresses decrypts
// to the original slate ... with each recipient's key" (for all slates).
#[macro_use]
extern crate log;
extern crate grin_wallet_controller as wallet;
extern crate grin_wallet_impls as impls;

use grin_core as core;
use grin_wallet_libwallet as libwallet;

use impls::test_framework::{self, LocalWalletClient};
use std::sync::atomic::Ordering;
use std::thread;
use std::time::Duration;

use grin_wallet_libwallet::{InitTxArgs, Slate, SlatepackAddress, VersionedSlate};

#[macro_use]
mod common;
use common::{clean_output_dir, create_wallet_proxy, setup};

fn nrd_slate_roundtrip_impl(test_dir: &'static str) -> Result<(), libwallet::Error> {
	let mut wallet_proxy = create_wallet_proxy(test_dir);
	let chain = wallet_proxy.chain.clone();
	let stopper = wallet_proxy.running.clone();

	create_wallet_and_add!(
		client1,
		wallet1,
		mask1_i,
		test_dir,
		"wallet1",
		None,
		&mut wallet_proxy,
		false
	);
	let mask1 = (&mask1_i).as_ref();
	create_wallet_and_add!(
		client2,
		wallet2,
		mask2_i,
		test_dir,
		"wallet2",
		None,
		&mut wallet_proxy,
		false
	);
	let mask2 = (&mask2_i).as_ref();

	thread::spawn(move || {
		if let Err(e) = wallet_proxy.run() {
			error!("Wallet Proxy error: {}", e);
		}
	});

	let reward = core::consensus::REWARD;
	let _ = test_framework::award_blocks_to_wallet(&chain, wallet1.clone(), mask1, 6, false);

	let mut recipient_addr = SlatepackAddress::random();
	wallet::controller::owner_single_use(Some(wallet2.clone()), mask2, None, |api, m| {
		recipient_addr = api.get_slatepack_address(m, 0)?;
		Ok(())
	})?;

	// wallet 1 starts a payment ...
	let mut slate = Slate::blank(2, false);
	wallet::controller::owner_single_use(Some(wallet1.clone()), mask1, None, |api, m| {
		let args = InitTxArgs {
			src_acct_name: None,
			amount: reward * 2,
			minimum_confirmations: 2,
			max_outputs: 500,
			num_change_outputs: 1,
			selection_strategy_is_use_all: true,
			..Default::default()
		};
		slate = api.init_send_tx(m, args)?;
		api.tx_lock_outputs(m, &slate)?;
		Ok(())
	})?;

	// ... for an NRD kernel with a relative lock height of 1440 (slate fields
	// `feat` = 3, `feat_args.lock_hgt` = 1440), built through the slate's own V4
	// JSON form, which carries both fields
	let mut v = serde_json::to_value(&slate).unwrap();
	v["feat"] = serde_json::json!(3);
	v["feat_args"] = serde_json::json!({ "lock_hgt": 1440 });
	let nrd_slate = Slate::upgrade(serde_json::from_value::<VersionedSlate>(v).unwrap())?;
	assert_eq!(nrd_slate.kernel_features, 3);
	assert_eq!(
		nrd_slate
			.kernel_features_args
			.as_ref()
			.map(|a| a.lock_height),
		Some(1440)
	);
	// (the V4 JSON form round-trips it)
	let again = Slate::upgrade(
		serde_json::from_str::<VersionedSlate>(&serde_json::to_string(&nrd_slate).unwrap()).unwrap(),
	)?;
	assert_eq!(again.kernel_features, 3);
	assert_eq!(
		again.kernel_features_args.as_ref().map(|a| a.lock_height),
		Some(1440)
	);

	// wallet 1 packs it, encrypted for wallet 2
	let mut message = String::new();
	wallet::controller::owner_single_use(Some(wallet1.clone()), mask1, None, |api, m| {
		message =
			api.create_slatepack_message(m, &nrd_slate, Some(0), vec![recipient_addr.clone()])?;
		Ok(())
	})?;

	// wallet 2 decrypts it
	let mut decoded = Slate::blank(2, false);
	wallet::controller::owner_single_use(Some(wallet2.clone()), mask2, None, |api, m| {
		decoded = api.slate_from_slatepack_message(m, message.clone(), vec![0])?;
		Ok(())
	})?;
	println!("original slate:  {}", serde_json::to_string(&nrd_slate).unwrap());
	println!("decrypted slate: {}", serde_json::to_string(&decoded).unwrap());

	// what the wallet does with the two
	let mut res_decoded = None;
	let mut res_original = None;
	wallet::controller::foreign_single_use(wallet2.clone(), mask2_i.clone(), |api| {
		res_decoded = Some(api.receive_tx(&decoded, None, None).map(|s| s.state));
		res_original = Some(api.receive_tx(&nrd_slate, None, None).map(|s| s.state));
		Ok(())
	})?;
	println!("receive_tx(decrypted slate) = {:?}", res_decoded);
	println!("receive_tx(original slate)  = {:?}", res_original);

	stopper.store(false, Ordering::Relaxed);
	thread::sleep(Duration::from_millis(200));

	// the slatepack must decrypt to the slate that was packed
	assert_eq!(decoded.id, nrd_slate.id);
	assert_eq!(decoded.kernel_features, nrd_slate.kernel_features);
	assert_eq!(
		decoded
			.kernel_features_args
			.as_ref()
			.map(|a| a.lock_height),
		Some(1440),
		"the decrypted slate lost the NRD relative lock height"
	);
	assert_eq!(
		serde_json::to_string(&decoded).unwrap(),
		serde_json::to_string(&nrd_slate).unwrap()
	);
	Ok(())
}

#[test]
fn nrd_slate_roundtrip() {
	let test_dir = "test_output/hunt_c10_2";
	setup(test_dir);
	if let Err(e) = nrd_slate_roundtrip_impl(test_dir) {
		panic!("Libwallet Error: {}", e);
	}
	clean_output_dir(test_dir);
}
