// Hunt C10 / 3: a slatepack whose payload is larger than 100,000 bytes is
// produced without complaint but can never be read back - not by its
// recipient, not by anyone: SlatepackBin::read gets the payload with
// Reader::read_bytes_len_prefix, and grin_core's BinReader refuses any single
// read above 100,000 bytes ("too large read"). An invoice paid with ~140 or
// more change outputs (a transaction well inside the mainnet weight limit, and
// a slatepack far below slatepack::max_size()) is such a slate.
//
// Property C10: "A slatepack encrypted to a set of recipient addresses decrypts
// to the original slate and sender address with each recipient's key" (for all
// slates).
#[macro_use]
extern crate log;
extern crate grin_wallet_controller as wallet;
extern crate grin_wallet_impls as impls;

use grin_core as core;
use grin_wallet_libwallet as libwallet;

use self::core::global;
use impls::test_framework::{self, LocalWalletClient};
use std::sync::atomic::Ordering;
use std::thread;
use std::time::Duration;

use grin_wallet_libwallet::{
	InitTxArgs, IssueInvoiceTxArgs, Slate, SlateState, SlatepackAddress, Slatepacker,
	SlatepackerArgs,
};

#[macro_use]
mod common;
use common::{clean_output_dir, create_wallet_proxy, setup};

const CHANGE_OUTPUTS: u32 = 150;

fn big_slate_roundtrip_impl(test_dir: &'static str) -> Result<(), libwallet::Error> {
	let mut wallet_proxy = create_wallet_proxy(test_dir);
	let chain = wallet_proxy.chain.clone();
	let stopper = wallet_proxy.running.clone();

	create_wallet_and_add!(
		client1,
		wallet1,
		mask1_i,
		test_dir,
		"wallet1",
		None,
		&mut wallet_proxy,
		false
	);
	let mask1 = (&mask1_i).as_ref();
	create_wallet_and_add!(
		client2,
		wallet2,
		mask2_i,
		test_dir,
		"wallet2",
		None,
		&mut wallet_proxy,
		false
	);
	let mask2 = (&mask2_i).as_ref();

	thread::spawn(move || {
		if let Err(e) = wallet_proxy.run() {
			error!("Wallet Proxy error: {}", e);
		}
	});

	let reward = core::consensus::REWARD;
	let _ = test_framework::award_blocks_to_wallet(&chain, wallet1.clone(), mask1, 8, false);

	// wallet 2 issues an invoice
	let mut slate = Slate::blank(2, true);
	wallet::controller::owner_single_use(Some(wallet2.clone()), mask2, None, |api, m| {
		let args = IssueInvoiceTxArgs {
			amount: reward,
			..Default::default()
		};
		slate = api.issue_invoice_tx(m, args)?;
		Ok(())
	})?;

	// wallet 1 pays it, splitting its change into CHANGE_OUTPUTS outputs
	wallet::controller::owner_single_use(Some(wallet1.clone()), mask1, None, |api, m| {
		let args = InitTxArgs {
			src_acct_name: None,
			amount: slate.amount,
			minimum_confirmations: 2,
			max_outputs: 500,
			num_change_outputs: CHANGE_OUTPUTS,
			selection_strategy_is_use_all: false,
			..Default::default()
		};
		slate = api.process_invoice_tx(m, &slate, args)?;
		api.tx_lock_outputs(m, &slate)?;
		Ok(())
	})?;
	assert_eq!(slate.state, SlateState::Invoice2);
	let tx = slate.tx.as_ref().unwrap();
	println!(
		"I2 slate: {} inputs, {} outputs",
		tx.inputs().len(),
		tx.outputs().len()
	);
	assert_eq!(tx.outputs().len(), CHANGE_OUTPUTS as usize);

	// The in-process test chain runs with the AutomatedTesting parameters, whose
	// block weight limit of 150 caps slatepack::max_size() at ~4 KB. Size limits
	// are a function of the chain type only, so look at this slate the way a
	// mainnet wallet does: there the transaction (weight ~ 150 * 21) is far
	// below the limit of ~40,000 and max_size() is ~1.28 MB.
	global::set_local_chain_type(global::ChainTypes::Mainnet);
	let max_size = libwallet::slatepack::max_size();
	println!(
		"mainnet: max_tx_weight {}, slatepack max_size {}",
		global::max_tx_weight(),
		max_size
	);

	let mut recipient_addr = SlatepackAddress::random();
	let mut recipient_key = None;
	wallet::controller::owner_single_use(Some(wallet2.clone()), mask2, None, |api, m| {
		recipient_addr = api.get_slatepack_address(m, 0)?;
		recipient_key = Some(api.get_slatepack_secret_key(m, 0)?);
		Ok(())
	})?;

	// wallet 1 returns the I2 slate to wallet 2, encrypted, and (second message) in plain
	let mut enc_message = String::new();
	let mut plain_message = String::new();
	wallet::controller::owner_single_use(Some(wallet1.clone()), mask1, None, |api, m| {
		enc_message =
			api.create_slatepack_message(m, &slate, Some(0), vec![recipient_addr.clone()])?;
		plain_message = api.create_slatepack_message(m, &slate, Some(0), vec![])?;
		Ok(())
	})?;
	println!(
		"encrypted slatepack message: {} bytes, plain: {} bytes (max_size {})",
		enc_message.len(),
		plain_message.len(),
		max_size
	);
	assert!((enc_message.len() as u64) < max_size);
	assert!((plain_message.len() as u64) < max_size);

	// wallet 2 reads them
	let mut res_enc = None;
	let mut res_plain = None;
	wallet::controller::owner_single_use(Some(wallet2.clone()), mask2, None, |api, m| {
		res_enc = Some(api.slate_from_slatepack_message(m, enc_message.clone(), vec![0]));
		res_plain = Some(api.slate_from_slatepack_message(m, plain_message.clone(), vec![]));
		Ok(())
	})?;
	// and once more directly with the recipient's key, to see the underlying error
	let unpacker = Slatepacker::new(SlatepackerArgs {
		sender: None,
		recipients: vec![],
		dec_key: recipient_key.as_ref(),
	});
	let res_direct = unpacker.deser_slatepack(enc_message.as_bytes(), true);
	global::set_local_chain_type(global::ChainTypes::AutomatedTesting);

	println!(
		"slate_from_slatepack_message(encrypted, [0]) = {:?}",
		res_enc.as_ref().unwrap().as_ref().map(|s| s.id)
	);
	println!(
		"slate_from_slatepack_message(plain, [])      = {:?}",
		res_plain.as_ref().unwrap().as_ref().map(|s| s.id)
	);
	println!(
		"Slatepacker::deser_slatepack(encrypted, recipient key) = {:?}",
		res_direct.as_ref().map(|s| s.mode)
	);

	stopper.store(false, Ordering::Relaxed);
	thread::sleep(Duration::from_millis(200));

	// the recipient must get the packed slate (and sender) back
	let sp = res_direct.expect("the recipient's key opens the slatepack encrypted for it");
	assert!(sp.sender.is_some());
	let got = res_enc
		.unwrap()
		.expect("the recipient decrypts the slatepack encrypted for it");
	assert_eq!(
		serde_json::to_string(&got).unwrap(),
		serde_json::to_string(&slate).unwrap()
	);
	let got = res_plain.unwrap().expect("the plain slatepack is readable");
	assert_eq!(
		serde_json::to_string(&got).unwrap(),
		serde_json::to_string(&slate).unwrap()
	);
	Ok(())
}

#[test]
fn big_slate_roundtrip() {
	let test_dir = "test_output/hunt_c10_3";
	setup(test_dir);
	if let Err(e) = big_slate_roundtrip_impl(test_dir) {
		panic!("Libwallet Error: {}", e);
	}
	clean_output_dir(test_dir);
}
