// Hunt C10 / 4: slatepack::max_size() allows 32 armored bytes per unit of
// transaction weight, but an output (weight 21, so 672 bytes allowed) takes
// 718 bytes in the binary slate and ~1,046 characters once armored. A slate
// whose transaction is valid for the chain can therefore be packed into a
// slatepack that the same wallet code then refuses to open ("Data invalid
// length") - for its recipient as for anybody else.
//
// Shown here with the in-process test chain's own limits (max tx weight 226,
// max_size 7,262 bytes): an invoice paid with 7 change outputs (final
// transaction weight 2 + 8*21 + 3 = 173) finalizes and posts fine when the
// slate is handed over directly, but not via a slatepack. With the mainnet
// limits the same happens from ~1,224 outputs on (1,903 fit in a transaction).
//
// Property C10: "A slatepack encrypted to a set of recipient addresses decrypts
// to the original slate and sender address with each recipient's key" (for all
// slates).
#[macro_use]
extern crate log;
extern crate grin_wallet_controller as wallet;
extern crate grin_wallet_impls as impls;

use grin_core as core;
use grin_wallet_libwallet as libwallet;

use self::core::global;
use impls::test_framework::{self, LocalWalletClient};
use std::sync::atomic::Ordering;
use std::thread;
use std::time::Duration;

use grin_wallet_libwallet::{
	InitTxArgs, IssueInvoiceTxArgs, Slate, SlateState, SlatepackAddress,
};

#[macro_use]
mod common;
use common::{clean_output_dir, create_wallet_proxy, setup};

const CHANGE_OUTPUTS: u32 = 7;

fn max_size_roundtrip_impl(test_dir: &'static str) -> Result<(), libwallet::Error> {
	let mut wallet_proxy = create_wallet_proxy(test_dir);
	let chain = wallet_proxy.chain.clone();
	let stopper = wallet_proxy.running.clone();

	create_wallet_and_add!(
		client1,
		wallet1,
		mask1_i,
		test_dir,
		"wallet1",
		None,
		&mut wallet_proxy,
		false
	);
	let mask1 = (&mask1_i).as_ref();
	create_wallet_and_add!(
		client2,
		wallet2,
		mask2_i,
		test_dir,
		"wallet2",
		None,
		&mut wallet_proxy,
		false
	);
	let mask2 = (&mask2_i).as_ref();

	thread::spawn(move || {
		if let Err(e) = wallet_proxy.run() {
			error!("Wallet Proxy error: {}", e);
		}
	});

	let reward = core::consensus::REWARD;
	let _ = test_framework::award_blocks_to_wallet(&chain, wallet1.clone(), mask1, 8, false);

	let mut recipient_addr = SlatepackAddress::random();
	wallet::controller::owner_single_use(Some(wallet2.clone()), mask2, None, |api, m| {
		recipient_addr = api.get_slatepack_address(m, 0)?;
		Ok(())
	})?;

	// wallet 2 issues an invoice
	let mut slate = Slate::blank(2, true);
	wallet::controller::owner_single_use(Some(wallet2.clone()), mask2, None, |api, m| {
		let args = IssueInvoiceTxArgs {
			amount: reward,
			..Default::default()
		};
		slate = api.issue_invoice_tx(m, args)?;
		Ok(())
	})?;

	// wallet 1 pays it, splitting its change into CHANGE_OUTPUTS outputs, and
	// packs its reply for wallet 2
	let mut enc_message = String::new();
	wallet::controller::owner_single_use(Some(wallet1.clone()), mask1, None, |api, m| {
		let args = InitTxArgs {
			src_acct_name: None,
			amount: slate.amount,
			minimum_confirmations: 2,
			max_outputs: 500,
			num_change_outputs: CHANGE_OUTPUTS,
			selection_strategy_is_use_all: false,
			..Default::default()
		};
		slate = api.process_invoice_tx(m, &slate, args)?;
		api.tx_lock_outputs(m, &slate)?;
		enc_message =
			api.create_slatepack_message(m, &slate, Some(0), vec![recipient_addr.clone()])?;
		Ok(())
	})?;
	assert_eq!(slate.state, SlateState::Invoice2);
	{
		let tx = slate.tx.as_ref().unwrap();
		println!(
			"I2 slate: {} inputs, {} outputs; chain max_tx_weight {}; slatepack message {} bytes, max_size {}",
			tx.inputs().len(),
			tx.outputs().len(),
			global::max_tx_weight(),
			enc_message.len(),
			libwallet::slatepack::max_size()
		);
	}

	// wallet 2 opens the reply
	let mut res_enc = None;
	wallet::controller::owner_single_use(Some(wallet2.clone()), mask2, None, |api, m| {
		res_enc = Some(api.slate_from_slatepack_message(m, enc_message.clone(), vec![0]));
		Ok(())
	})?;
	println!(
		"slate_from_slatepack_message(encrypted, [0]) = {:?}",
		res_enc.as_ref().unwrap().as_ref().map(|s| s.id)
	);

	// the slate itself is fine: handed over directly, wallet 2 finalizes it and
	// the chain accepts the transaction
	let mut final_slate = slate.clone();
	wallet::controller::foreign_single_use(wallet2.clone(), mask2_i.clone(), |api| {
		final_slate = api.finalize_tx(&slate, false)?;
		Ok(())
	})?;
	assert_eq!(final_slate.state, SlateState::Invoice3);
	println!(
		"final transaction weight: {}",
		final_slate.tx.as_ref().unwrap().weight()
	);
	wallet::controller::owner_single_use(Some(wallet1.clone()), mask1, None, |api, m| {
		api.post_tx(m, &final_slate, false)?;
		Ok(())
	})?;
	let _ = test_framework::award_blocks_to_wallet(&chain, wallet1.clone(), mask1, 1, false);
	wallet::controller::owner_single_use(Some(wallet2.clone()), mask2, None, |api, m| {
		let (_, info) = api.retrieve_summary_info(m, true, 1)?;
		assert_eq!(info.total, reward, "the payment was mined");
		Ok(())
	})?;

	stopper.store(false, Ordering::Relaxed);
	thread::sleep(Duration::from_millis(200));

	// the recipient must get the packed slate back out of the slatepack
	let got = res_enc
		.unwrap()
		.expect("the recipient decrypts the slatepack encrypted for it");
	assert_eq!(
		serde_json::to_string(&got).unwrap(),
		serde_json::to_string(&slate).unwrap()
	);
	Ok(())
}

#[test]
fn max_size_roundtrip() {
	let test_dir = "test_output/hunt_c10_4";
	setup(test_dir);
	if let Err(e) = max_size_roundtrip_impl(test_dir) {
		panic!("Libwallet Error: {}", e);
	}
	clean_output_dir(test_dir);
}
