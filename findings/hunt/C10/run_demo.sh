#!/bin/bash
# Usage: run_demo.sh [CHECKOUT_DIR] [TEST_NUMBERS...]
#   Copies the demo tests into CHECKOUT_DIR/controller/tests and runs them.
#   Each test asserts what property C10 requires, so it FAILS on a tree that has the defect.
#   Exit status is non-zero if any of the tests fails (i.e. if any defect is present).
#   hunt_c10_3 base58-encodes a ~115 KB payload in a debug build: it takes ~5 minutes.
set -u
HERE="$(cd "$(dirname "$0")" && pwd)"
CHECKOUT="${1:-/tmp/hunt_C10}"
shift || true
TESTS=("$@")
if [ ${#TESTS[@]} -eq 0 ]; then TESTS=(1 2 3 4); fi
export CARGO_TARGET_DIR="${CARGO_TARGET_DIR:-/tmp/hunt_C10_target}"
rc=0
for n in "${TESTS[@]}"; do
	cp "$HERE/demo/controller/tests/hunt_c10_$n.rs" "$CHECKOUT/controller/tests/hunt_c10_$n.rs" || exit 2
done
cd "$CHECKOUT" || exit 2
for n in "${TESTS[@]}"; do
	echo "=== hunt_c10_$n ==="
	cargo test -p grin_wallet_controller --offline --test "hunt_c10_$n" -- --nocapture 2>&1 \
		| grep -v " DEBUG \| TRACE \| INFO " | tail -40
	st=${PIPESTATUS[0]}
	if [ "$st" -ne 0 ]; then rc=1; echo "hunt_c10_$n: FAILED (defect present)"; else echo "hunt_c10_$n: passed"; fi
done
exit $rc
