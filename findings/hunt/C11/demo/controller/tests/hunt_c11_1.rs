// C11 hunt, finding 1.
//
// A sender that asked for a payment proof finalizes a reply that carries NO proof at all,
// because finalize_tx chooses its branch by the state written on the reply slate. A reply
// marked `Invoice2` is run through the invoice branch, which never calls
// verify_slate_payment_proof, although the stored context is the one of a standard send that
// requested a proof. The only thing the invoice branch needs besides the context is a
// TxReceived log entry with the same slate id, and the recipient can plant one through the
// sender's foreign receive_tx (a fresh "send" slate that reuses the slate id).
//
// Property C11: "When a sender requests a payment proof, finalization succeeds only if the
// reply carries the requested recipient's valid signature ...; a reply with the proof
// stripped ... is refused."

#[macro_use]
extern crate log;
extern crate grin_wallet_controller as wallet;
extern crate grin_wallet_impls as impls;
extern crate grin_wallet_util;

use grin_wallet_libwallet as libwallet;
use impls::test_framework::{self, LocalWalletClient};
use libwallet::{InitTxArgs, Slate, SlateState, TxLogEntryType};
use std::sync::atomic::Ordering;
use std::thread;
use std::time::Duration;

#[macro_use]
mod common;
use common::{clean_output_dir, create_wallet_proxy, setup};

fn stripped_proof_invoice2_reply_impl(test_dir: &'static str) -> Result<(), libwallet::Error> {
	let mut wallet_proxy = create_wallet_proxy(test_dir);
	let chain = wallet_proxy.chain.clone();
	let stopper = wallet_proxy.running.clone();

	create_wallet_and_add!(
		client1,
		wallet1,
		mask1_i,
		test_dir,
		"wallet1",
		None,
		&mut wallet_proxy,
		false
	);
	let mask1 = (&mask1_i).as_ref();
	create_wallet_and_add!(
		client2,
		wallet2,
		mask2_i,
		test_dir,
		"wallet2",
		None,
		&mut wallet_proxy,
		false
	);
	let mask2 = (&mask2_i).as_ref();

	thread::spawn(move || {
		if let Err(e) = wallet_proxy.run() {
			error!("Wallet Proxy error: {}", e);
		}
	});

	// funds for the sender (wallet1) and a little for the recipient (wallet2), which only
	// needs them to have its own wallet produce a well-formed "send" slate
	let _ = test_framework::award_blocks_to_wallet(&chain, wallet1.clone(), mask1, 10, false);
	let _ = test_framework::award_blocks_to_wallet(&chain, wallet2.clone(), mask2, 6, false);

	let mut address = None;
	wallet::controller::owner_single_use(Some(wallet2.clone()), mask2, None, |api, m| {
		address = Some(api.get_slatepack_address(m, 0)?);
		Ok(())
	})?;

	let amount = 60_000_000_000;

	// 1. wallet1 starts a send to wallet2 and asks for a payment proof, locks its outputs
	let mut slate_i = Slate::blank(2, false);
	wallet::controller::owner_single_use(Some(wallet1.clone()), mask1, None, |api, m| {
		let args = InitTxArgs {
			src_acct_name: None,
			amount,
			minimum_confirmations: 2,
			max_outputs: 500,
			num_change_outputs: 1,
			selection_strategy_is_use_all: false,
			payment_proof_recipient_address: address.clone(),
			..Default::default()
		};
		slate_i = api.init_send_tx(m, args)?;
		assert!(slate_i.payment_proof.is_some());
		api.tx_lock_outputs(m, &slate_i)?;
		Ok(())
	})?;

	// 2. wallet2 receives it (unmodified wallet code builds the reply)
	let reply = client1.send_tx_slate_direct("wallet2", &slate_i)?;
	assert_eq!(reply.state, SlateState::Standard2);
	assert!(reply.payment_proof.as_ref().unwrap().receiver_signature.is_some());

	// 3. wallet2 "sends" a small amount to wallet1 with a slate that reuses the slate id:
	//    wallet1's foreign receive_tx accepts it and records a TxReceived entry under that id
	let mut bogus = Slate::blank(2, false);
	wallet::controller::owner_single_use(Some(wallet2.clone()), mask2, None, |api, m| {
		let args = InitTxArgs {
			src_acct_name: None,
			amount: 1_000_000_000,
			minimum_confirmations: 2,
			max_outputs: 500,
			num_change_outputs: 1,
			selection_strategy_is_use_all: false,
			..Default::default()
		};
		bogus = api.init_send_tx(m, args)?;
		Ok(())
	})?;
	bogus.id = slate_i.id;
	let _ = client2.send_tx_slate_direct("wallet1", &bogus)?;

	wallet::controller::owner_single_use(Some(wallet1.clone()), mask1, None, |api, m| {
		let (_, txs) = api.retrieve_txs(m, false, None, Some(slate_i.id), None)?;
		assert!(txs.iter().any(|t| t.tx_type == TxLogEntryType::TxSent));
		assert!(txs.iter().any(|t| t.tx_type == TxLogEntryType::TxReceived));
		Ok(())
	})?;

	// 4. the reply goes back with the proof stripped, marked as an invoice reply (the fee is
	//    put back because the invoice branch does not restore it from the context)
	let mut forged = reply.clone();
	forged.payment_proof = None;
	forged.state = SlateState::Invoice2;
	forged.fee_fields = slate_i.fee_fields;

	// 5. the sender finalizes. C11: a reply without the requested proof must be refused.
	let mut finalized: Option<Slate> = None;
	let mut finalize_err: Option<String> = None;
	wallet::controller::owner_single_use(Some(wallet1.clone()), mask1, None, |api, m| {
		match api.finalize_tx(m, &forged) {
			Ok(s) => finalized = Some(s),
			Err(e) => finalize_err = Some(format!("{}", e)),
		}
		Ok(())
	})?;

	if let Some(fin) = finalized {
		// show how far it goes: the transaction is complete and valid, it can be posted and
		// pays the recipient, while the sender holds no proof
		let mut posted = false;
		let mut proof_res = String::new();
		wallet::controller::owner_single_use(Some(wallet1.clone()), mask1, None, |api, m| {
			posted = api.post_tx(m, &fin, false).is_ok();
			Ok(())
		})?;
		let _ = test_framework::award_blocks_to_wallet(&chain, wallet1.clone(), mask1, 3, false);
		wallet::controller::owner_single_use(Some(wallet1.clone()), mask1, None, |api, m| {
			let (_, txs) = api.retrieve_txs(m, true, None, Some(slate_i.id), None)?;
			let sent = txs
				.iter()
				.find(|t| t.tx_type == TxLogEntryType::TxSent)
				.unwrap();
			proof_res = match api.retrieve_payment_proof(m, false, Some(sent.id), None) {
				Ok(_) => "a proof".to_owned(),
				Err(e) => format!("no proof ({})", e),
			};
			Ok(())
		})?;
		let mut w2_received = 0;
		wallet::controller::owner_single_use(Some(wallet2.clone()), mask2, None, |api, m| {
			let (_, txs) = api.retrieve_txs(m, true, None, Some(slate_i.id), None)?;
			for t in txs {
				if t.tx_type == TxLogEntryType::TxReceived && t.confirmed {
					w2_received = t.amount_credited;
				}
			}
			Ok(())
		})?;
		stopper.store(false, Ordering::Relaxed);
		thread::sleep(Duration::from_millis(200));
		panic!(
			"C11 violated: finalize_tx accepted a reply with the requested payment proof \
			 stripped (state of returned slate: {}, posted: {}, recipient's confirmed credit: {}, \
			 sender's export: {})",
			fin.state, posted, w2_received, proof_res
		);
	}

	println!("finalize refused the reply: {:?}", finalize_err);
	stopper.store(false, Ordering::Relaxed);
	thread::sleep(Duration::from_millis(200));
	Ok(())
}

#[test]
fn hunt_c11_stripped_proof_invoice2_reply() {
	let test_dir = "test_output/hunt_c11_1";
	setup(test_dir);
	if let Err(e) = stripped_proof_invoice2_reply_impl(test_dir) {
		panic!("Libwallet Error: {}", e);
	}
	clean_output_dir(test_dir);
}
