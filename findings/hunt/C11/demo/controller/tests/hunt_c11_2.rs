// C11 hunt, finding 2.
//
// A proof-carrying send to an address of the sending account itself (self-send, one account)
// cannot be finalized when the sender's TxSent entry is written after the TxReceived entry of
// the same slate: verify_slate_payment_proof takes `tx_vec[0]` of all entries of the account
// with that slate id (sorted by creation time) as "the entry with the original proof info",
// gets the TxReceived entry, which has none, and refuses the honest, correctly signed reply.
// That order is the one of a late-locked send, and the one command::send and
// Owner::init_send_tx(send_args) use for the synchronous flow (lock with the reply, then
// finalize).
//
// Property C11 quantifies over all proof-carrying sends and says that the proof the sender
// later exports verifies. Here no proof can be obtained at all, although the reply carries the
// requested recipient's valid signature over the amount, the excess and the sender address.

#[macro_use]
extern crate log;
extern crate grin_wallet_controller as wallet;
extern crate grin_wallet_impls as impls;
extern crate grin_wallet_util;

use grin_wallet_libwallet as libwallet;
use impls::test_framework::{self, LocalWalletClient};
use libwallet::{InitTxArgs, Slate, TxLogEntryType};
use std::sync::atomic::Ordering;
use std::thread;
use std::time::Duration;

#[macro_use]
mod common;
use common::{clean_output_dir, create_wallet_proxy, setup};

fn self_send_impl(test_dir: &'static str, late_lock: bool) -> Result<(), libwallet::Error> {
	let mut wallet_proxy = create_wallet_proxy(test_dir);
	let chain = wallet_proxy.chain.clone();
	let stopper = wallet_proxy.running.clone();

	create_wallet_and_add!(
		client1,
		wallet1,
		mask1_i,
		test_dir,
		"wallet1",
		None,
		&mut wallet_proxy,
		false
	);
	let mask1 = (&mask1_i).as_ref();
	let _ = &client1;

	thread::spawn(move || {
		if let Err(e) = wallet_proxy.run() {
			error!("Wallet Proxy error: {}", e);
		}
	});

	let _ = test_framework::award_blocks_to_wallet(&chain, wallet1.clone(), mask1, 10, false);

	let mut address = None;
	wallet::controller::owner_single_use(Some(wallet1.clone()), mask1, None, |api, m| {
		address = Some(api.get_slatepack_address(m, 0)?);
		Ok(())
	})?;

	let amount = 60_000_000_000;
	let mut slate = Slate::blank(2, false);
	let mut finalize_res: Option<Result<Slate, String>> = None;

	wallet::controller::owner_single_use(Some(wallet1.clone()), mask1, None, |api, m| {
		let args = InitTxArgs {
			src_acct_name: None,
			amount,
			minimum_confirmations: 2,
			max_outputs: 500,
			num_change_outputs: 1,
			selection_strategy_is_use_all: false,
			payment_proof_recipient_address: address.clone(),
			late_lock: Some(late_lock),
			..Default::default()
		};
		slate = api.init_send_tx(m, args)?;
		assert!(slate.payment_proof.is_some());

		// the same wallet, same account, receives it
		wallet::controller::foreign_single_use(wallet1.clone(), mask1_i.clone(), |fapi| {
			slate = fapi.receive_tx(&slate, None, None)?;
			Ok(())
		})?;
		assert!(slate
			.payment_proof
			.as_ref()
			.unwrap()
			.receiver_signature
			.is_some());

		if !late_lock {
			// lock with the reply, as command::send and Owner::init_send_tx(send_args) do
			api.tx_lock_outputs(m, &slate)?;
		}
		finalize_res = Some(api.finalize_tx(m, &slate).map_err(|e| format!("{}", e)));
		Ok(())
	})?;

	let fin = match finalize_res.unwrap() {
		Ok(s) => s,
		Err(e) => {
			stopper.store(false, Ordering::Relaxed);
			thread::sleep(Duration::from_millis(200));
			panic!(
				"C11 violated: an honest proof-carrying self-send (late_lock = {}) cannot be \
				 finalized, so no proof can ever be exported: {}",
				late_lock, e
			);
		}
	};

	// (reached only if finalization works) the exported proof must verify
	wallet::controller::owner_single_use(Some(wallet1.clone()), mask1, None, |api, m| {
		api.post_tx(m, &fin, false)?;
		Ok(())
	})?;
	let _ = test_framework::award_blocks_to_wallet(&chain, wallet1.clone(), mask1, 3, false);
	wallet::controller::owner_single_use(Some(wallet1.clone()), mask1, None, |api, m| {
		let (_, txs) = api.retrieve_txs(m, true, None, Some(fin.id), None)?;
		let sent = txs
			.iter()
			.find(|t| t.tx_type == TxLogEntryType::TxSent)
			.unwrap();
		let pp = api.retrieve_payment_proof(m, false, Some(sent.id), None)?;
		assert_eq!(pp.amount, amount);
		let res = api.verify_payment_proof(m, &pp)?;
		assert_eq!(res, (true, true));
		Ok(())
	})?;

	stopper.store(false, Ordering::Relaxed);
	thread::sleep(Duration::from_millis(200));
	Ok(())
}

#[test]
fn hunt_c11_self_send_locked_with_reply() {
	let test_dir = "test_output/hunt_c11_2a";
	setup(test_dir);
	if let Err(e) = self_send_impl(test_dir, false) {
		panic!("Libwallet Error: {}", e);
	}
	clean_output_dir(test_dir);
}

#[test]
fn hunt_c11_self_send_late_lock() {
	let test_dir = "test_output/hunt_c11_2b";
	setup(test_dir);
	if let Err(e) = self_send_impl(test_dir, true) {
		panic!("Libwallet Error: {}", e);
	}
	clean_output_dir(test_dir);
}
