// C11 hunt, finding 3.
//
// After a proof-carrying send to an address of the sending account itself has been finalized
// (outputs locked first, so that finalization works), posted and confirmed, the sender cannot
// export the proof by the transaction's slate id: retrieve_payment_proof requires the lookup to
// return exactly one log entry, and the account holds two with that slate id (TxSent and
// TxReceived). It answers "Transaction doesn't exist" although the TxSent entry holds a
// complete proof (exporting by the TxSent entry's log id works and the proof verifies).
//
// Property C11: "The proof the sender later exports verifies", for all proof-carrying sends.

#[macro_use]
extern crate log;
extern crate grin_wallet_controller as wallet;
extern crate grin_wallet_impls as impls;
extern crate grin_wallet_util;

use grin_wallet_libwallet as libwallet;
use impls::test_framework::{self, LocalWalletClient};
use libwallet::{InitTxArgs, Slate, TxLogEntryType};
use std::sync::atomic::Ordering;
use std::thread;
use std::time::Duration;

#[macro_use]
mod common;
use common::{clean_output_dir, create_wallet_proxy, setup};

fn export_by_slate_id_impl(test_dir: &'static str) -> Result<(), libwallet::Error> {
	let mut wallet_proxy = create_wallet_proxy(test_dir);
	let chain = wallet_proxy.chain.clone();
	let stopper = wallet_proxy.running.clone();

	create_wallet_and_add!(
		client1,
		wallet1,
		mask1_i,
		test_dir,
		"wallet1",
		None,
		&mut wallet_proxy,
		false
	);
	let mask1 = (&mask1_i).as_ref();
	let _ = &client1;

	thread::spawn(move || {
		if let Err(e) = wallet_proxy.run() {
			error!("Wallet Proxy error: {}", e);
		}
	});

	let _ = test_framework::award_blocks_to_wallet(&chain, wallet1.clone(), mask1, 10, false);

	let mut address = None;
	wallet::controller::owner_single_use(Some(wallet1.clone()), mask1, None, |api, m| {
		address = Some(api.get_slatepack_address(m, 0)?);
		Ok(())
	})?;

	let amount = 60_000_000_000;
	let mut slate = Slate::blank(2, false);
	wallet::controller::owner_single_use(Some(wallet1.clone()), mask1, None, |api, m| {
		let args = InitTxArgs {
			src_acct_name: None,
			amount,
			minimum_confirmations: 2,
			max_outputs: 500,
			num_change_outputs: 1,
			selection_strategy_is_use_all: false,
			payment_proof_recipient_address: address.clone(),
			..Default::default()
		};
		slate = api.init_send_tx(m, args)?;
		api.tx_lock_outputs(m, &slate)?;
		wallet::controller::foreign_single_use(wallet1.clone(), mask1_i.clone(), |fapi| {
			slate = fapi.receive_tx(&slate, None, None)?;
			Ok(())
		})?;
		slate = api.finalize_tx(m, &slate)?;
		api.post_tx(m, &slate, false)?;
		Ok(())
	})?;
	let _ = test_framework::award_blocks_to_wallet(&chain, wallet1.clone(), mask1, 3, false);

	let mut by_log_id = String::new();
	let mut by_slate_id: Result<(), String> = Ok(());
	wallet::controller::owner_single_use(Some(wallet1.clone()), mask1, None, |api, m| {
		let (_, txs) = api.retrieve_txs(m, true, None, Some(slate.id), None)?;
		let sent = txs
			.iter()
			.find(|t| t.tx_type == TxLogEntryType::TxSent)
			.unwrap();
		assert!(sent.confirmed);

		// control: the proof is there and verifies when asked for by log id
		let pp = api.retrieve_payment_proof(m, false, Some(sent.id), None)?;
		assert_eq!(pp.amount, amount);
		assert_eq!(api.verify_payment_proof(m, &pp)?, (true, true));
		by_log_id = format!("ok, amount {}", pp.amount);

		// what C11 asks for: the sender exports the proof of this send (by its slate id, the
		// identifier `grin-wallet export_proof -t` and the owner API take) and it verifies
		by_slate_id = match api.retrieve_payment_proof(m, false, None, Some(slate.id)) {
			Ok(pp) => api
				.verify_payment_proof(m, &pp)
				.map(|_| ())
				.map_err(|e| format!("exported proof does not verify: {}", e)),
			Err(e) => Err(format!("{}", e)),
		};
		Ok(())
	})?;

	stopper.store(false, Ordering::Relaxed);
	thread::sleep(Duration::from_millis(200));

	if let Err(e) = by_slate_id {
		panic!(
			"C11 violated: the finalized, confirmed proof-carrying self-send cannot be exported \
			 by its slate id: {} (export by log id: {})",
			e, by_log_id
		);
	}
	Ok(())
}

#[test]
fn hunt_c11_export_by_slate_id_self_send() {
	let test_dir = "test_output/hunt_c11_3";
	setup(test_dir);
	if let Err(e) = export_by_slate_id_impl(test_dir) {
		panic!("Libwallet Error: {}", e);
	}
	clean_output_dir(test_dir);
}
