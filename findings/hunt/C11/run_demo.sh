#!/bin/bash
# Usage: run_demo.sh [checkout] [test-name ...]
#   checkout   path of a grin-wallet checkout (default: /tmp/hunt_C11)
#   test-name  hunt_c11_1 | hunt_c11_2 | hunt_c11_3 (default: all three)
# Copies the demonstration tests into <checkout>/controller/tests and runs them.
# Exit status is non-zero when a demonstration fails (= the property violation shows).
set -u
HERE="$(cd "$(dirname "$0")" && pwd)"
CHECKOUT="${1:-/tmp/hunt_C11}"
shift || true
TESTS=("$@")
if [ ${#TESTS[@]} -eq 0 ]; then
	TESTS=(hunt_c11_1 hunt_c11_2 hunt_c11_3)
fi
export CARGO_TARGET_DIR="${CARGO_TARGET_DIR:-/tmp/hunt_C11_target}"
cp "$HERE"/demo/controller/tests/hunt_c11_*.rs "$CHECKOUT/controller/tests/" || exit 2
cd "$CHECKOUT" || exit 2
rc=0
for t in "${TESTS[@]}"; do
	echo "=== $t ==="
	cargo test -p grin_wallet_controller --offline --test "$t" -- --nocapture --test-threads=1 || rc=1
done
exit $rc
