// C12 hunt, finding 1.
//
// A peer that holds the first-round slate of a late-locked send can make the sender's
// wallet hand out the secret blinding key (the `sec_key` of the stored transaction
// context) of that pending transaction, using nothing but the sender's Foreign API
// (`receive_tx` followed by `finalize_tx`).
//
// The Invoice2 branch of `foreign::finalize_tx` accepts any stored context that has no
// payment proof request. A late-locked sender context holds no inputs and no outputs yet,
// so `Slate::adjust_offset` computes
//      offset_out = offset_in - context.initial_sec_key
// and the finalized slate that goes back to the caller carries `offset_out`. The caller
// chose `offset_in`, so  sec_key = offset_in - offset_out.
#[macro_use]
extern crate log;
extern crate grin_wallet_controller as wallet;
extern crate grin_wallet_impls as impls;
extern crate grin_wallet_libwallet as libwallet;

use grin_keychain as keychain;
use grin_util as util;

use self::keychain::{BlindSum, BlindingFactor, ExtKeychain, Keychain};
use self::libwallet::{InitTxArgs, Slate, SlateState};
use impls::test_framework::{self, LocalWalletClient};
use std::sync::atomic::Ordering;
use std::thread;
use std::time::Duration;
use util::secp::key::{PublicKey, SecretKey};

#[macro_use]
mod common;
use common::{clean_output_dir, create_wallet_proxy, setup};

/// a - b as a secret key (None when the difference is not a valid key)
fn diff(a: &BlindingFactor, b: &BlindingFactor) -> Option<SecretKey> {
	let k = ExtKeychain::from_random_seed(false).unwrap();
	let sum = BlindSum::new()
		.add_blinding_factor(a.clone())
		.sub_blinding_factor(b.clone());
	match k.blind_sum(&sum) {
		Ok(b) => b.secret_key(k.secp()).ok(),
		Err(_) => None,
	}
}

fn late_lock_key_leak_impl(test_dir: &'static str) -> Result<(), libwallet::Error> {
	let mut wallet_proxy = create_wallet_proxy(test_dir);
	let chain = wallet_proxy.chain.clone();
	let stopper = wallet_proxy.running.clone();

	// wallet1: the victim (sender of a late-locked transaction)
	create_wallet_and_add!(
		client1,
		wallet1,
		mask1_i,
		test_dir,
		"wallet1",
		None,
		&mut wallet_proxy,
		false
	);
	let mask1 = (&mask1_i).as_ref();
	// wallet2: the counterparty
	create_wallet_and_add!(
		client2,
		wallet2,
		mask2_i,
		test_dir,
		"wallet2",
		None,
		&mut wallet_proxy,
		false
	);
	let mask2 = (&mask2_i).as_ref();
	let _ = (&client1, &client2);

	thread::spawn(move || {
		if let Err(e) = wallet_proxy.run() {
			error!("Wallet Proxy error: {}", e);
		}
	});

	test_framework::award_blocks_to_wallet(&chain, wallet1.clone(), mask1, 5, false)?;
	test_framework::award_blocks_to_wallet(&chain, wallet2.clone(), mask2, 5, false)?;
	// let the coinbases mature
	test_framework::award_blocks_to_wallet(&chain, wallet1.clone(), mask1, 5, false)?;

	// wallet1 starts a late-locked send to wallet2 and hands over S1
	let mut s1 = Slate::blank(2, false);
	wallet::controller::owner_single_use(Some(wallet1.clone()), mask1, None, |api, m| {
		let args = InitTxArgs {
			src_acct_name: None,
			amount: 10_000_000_000,
			minimum_confirmations: 2,
			max_outputs: 500,
			num_change_outputs: 1,
			selection_strategy_is_use_all: false,
			late_lock: Some(true),
			..Default::default()
		};
		s1 = api.init_send_tx(m, args)?;
		Ok(())
	})?;
	assert_eq!(s1.state, SlateState::Standard1);
	assert_eq!(s1.participant_data.len(), 1);
	// what wallet1 published about its (secret) blinding key and nonce
	let victim_pub_excess: PublicKey = s1.participant_data[0].public_blind_excess.clone();

	// --- everything below is done by the counterparty, with its own wallet and
	// --- the victim's Foreign API only

	// 1. an ordinary send to wallet1, under the slate id of wallet1's own pending send:
	//    wallet1 now has a 'received' log entry for that id
	let mut decoy = Slate::blank(2, false);
	wallet::controller::owner_single_use(Some(wallet2.clone()), mask2, None, |api, m| {
		let args = InitTxArgs {
			src_acct_name: None,
			amount: 1_000_000_000,
			minimum_confirmations: 2,
			max_outputs: 500,
			num_change_outputs: 1,
			selection_strategy_is_use_all: false,
			..Default::default()
		};
		decoy = api.init_send_tx(m, args)?;
		Ok(())
	})?;
	decoy.id = s1.id;
	wallet::controller::foreign_single_use(wallet1.clone(), mask1_i.clone(), |api| {
		api.receive_tx(&decoy, None, None)?;
		Ok(())
	})?;

	// 2. wallet2 treats S1 as if it were an invoice for 0 and 'pays' it: the result is a
	//    transaction moving wallet2's own coins back to wallet2, partially signed by
	//    wallet2 against wallet1's public excess and nonce, in state Invoice2
	let mut forged = s1.clone();
	forged.state = SlateState::Invoice1;
	forged.amount = 0;
	let mut i2 = Slate::blank(2, true);
	wallet::controller::owner_single_use(Some(wallet2.clone()), mask2, None, |api, m| {
		let args = InitTxArgs {
			src_acct_name: None,
			amount: 0,
			minimum_confirmations: 2,
			max_outputs: 500,
			num_change_outputs: 1,
			selection_strategy_is_use_all: true,
			..Default::default()
		};
		i2 = api.process_invoice_tx(m, &forged, args)?;
		Ok(())
	})?;
	assert_eq!(i2.state, SlateState::Invoice2);
	assert_eq!(i2.id, s1.id);

	// 3. ... and asks wallet1's Foreign API to finalize it
	let mut reply: Option<Slate> = None;
	let res = wallet::controller::foreign_single_use(wallet1.clone(), mask1_i.clone(), |api| {
		reply = Some(api.finalize_tx(&i2, false)?);
		Ok(())
	});
	println!("foreign finalize_tx of the forged Invoice2 slate: {:?}", res);

	// Whatever wallet1 answered must not let the caller compute wallet1's secret key
	if let Some(i3) = reply {
		println!("reply slate: {}", i3);
		let k = ExtKeychain::from_random_seed(false).unwrap();
		if let Some(candidate) = diff(&i2.offset, &i3.offset) {
			let candidate_pub = PublicKey::from_secret_key(k.secp(), &candidate).unwrap();
			assert!(
				candidate_pub != victim_pub_excess,
				"the Foreign API reply reveals the secret blinding key of wallet1's pending \
				 late-locked transaction {}: offset_sent - offset_returned = {:?}, whose public \
				 key is the public_blind_excess wallet1 put into S1",
				s1.id,
				candidate
			);
		}
	}

	stopper.store(false, Ordering::Relaxed);
	thread::sleep(Duration::from_millis(200));
	Ok(())
}

#[test]
fn hunt_c12_late_lock_key_leak() {
	let test_dir = "test_output/hunt_c12_1";
	setup(test_dir);
	if let Err(e) = late_lock_key_leak_impl(test_dir) {
		panic!("Libwallet Error: {}", e);
	}
	clean_output_dir(test_dir);
}
