// C12 hunt, finding 2.
//
// `owner::process_invoice_tx` takes its "self sending" branch whenever ANY context without
// inputs is stored under the id of the invoice slate. In that branch the offset written
// into the Invoice2 slate is
//      offset_out = offset_in - sec_key            (inputs and change are left out)
// so the Invoice2 slate (written to disk as a slatepack / handed to the issuer) carries the
// payer's secret blinding key: sec_key = offset_in - offset_out.
//
//  * test `a`: a wallet paying an invoice it issued itself (the flow exercised in
//    controller/tests/invoice.rs): the I2 slate the wallet emits contains the key.
//  * test `b`: the invoice comes from ANOTHER wallet, which re-used the id of a late-locked
//    send the payer has pending with it: the I2 slate handed to that peer contains the key.
#[macro_use]
extern crate log;
extern crate grin_wallet_controller as wallet;
extern crate grin_wallet_impls as impls;
extern crate grin_wallet_libwallet as libwallet;

use grin_keychain as keychain;
use grin_util as util;

use self::keychain::{BlindSum, BlindingFactor, ExtKeychain, Keychain};
use self::libwallet::{InitTxArgs, IssueInvoiceTxArgs, Slate, SlateState};
use impls::test_framework::{self, LocalWalletClient};
use std::sync::atomic::Ordering;
use std::thread;
use std::time::Duration;
use util::secp::key::{PublicKey, SecretKey};

#[macro_use]
mod common;
use common::{clean_output_dir, create_wallet_proxy, setup};

/// a - b as a secret key (None when the difference is not a valid key)
fn diff(a: &BlindingFactor, b: &BlindingFactor) -> Option<SecretKey> {
	let k = ExtKeychain::from_random_seed(false).unwrap();
	let sum = BlindSum::new()
		.add_blinding_factor(a.clone())
		.sub_blinding_factor(b.clone());
	match k.blind_sum(&sum) {
		Ok(b) => b.secret_key(k.secp()).ok(),
		Err(_) => None,
	}
}

/// The payer's secret key must not be computable from the invoice it was given and the
/// slate it gave back
fn assert_no_key_in_reply(i1: &Slate, i2: &Slate, what: &str) {
	assert_eq!(i2.state, SlateState::Invoice2);
	assert_eq!(i2.participant_data.len(), 1);
	let payer_pub_excess = i2.participant_data[0].public_blind_excess.clone();
	let k = ExtKeychain::from_random_seed(false).unwrap();
	if let Some(candidate) = diff(&i1.offset, &i2.offset) {
		let candidate_pub = PublicKey::from_secret_key(k.secp(), &candidate).unwrap();
		assert!(
			candidate_pub != payer_pub_excess,
			"{}: the Invoice2 slate {} reveals the payer's secret blinding key: \
			 offset(I1) - offset(I2) = {:?}, whose public key is the payer's \
			 public_blind_excess in that slate",
			what,
			i2.id,
			candidate
		);
	}
}

fn run(test_dir: &'static str, colliding_peer_invoice: bool) -> Result<(), libwallet::Error> {
	let mut wallet_proxy = create_wallet_proxy(test_dir);
	let chain = wallet_proxy.chain.clone();
	let stopper = wallet_proxy.running.clone();

	create_wallet_and_add!(
		client1,
		wallet1,
		mask1_i,
		test_dir,
		"wallet1",
		None,
		&mut wallet_proxy,
		false
	);
	let mask1 = (&mask1_i).as_ref();
	create_wallet_and_add!(
		client2,
		wallet2,
		mask2_i,
		test_dir,
		"wallet2",
		None,
		&mut wallet_proxy,
		false
	);
	let mask2 = (&mask2_i).as_ref();
	let _ = (&client1, &client2);

	thread::spawn(move || {
		if let Err(e) = wallet_proxy.run() {
			error!("Wallet Proxy error: {}", e);
		}
	});

	test_framework::award_blocks_to_wallet(&chain, wallet1.clone(), mask1, 10, false)?;

	let pay_args = |amount: u64| InitTxArgs {
		src_acct_name: None,
		amount,
		minimum_confirmations: 2,
		max_outputs: 500,
		num_change_outputs: 1,
		selection_strategy_is_use_all: false,
		..Default::default()
	};

	if !colliding_peer_invoice {
		// wallet1 issues an invoice and pays it itself
		let mut i1 = Slate::blank(2, true);
		let mut i2 = Slate::blank(2, true);
		wallet::controller::owner_single_use(Some(wallet1.clone()), mask1, None, |api, m| {
			let args = IssueInvoiceTxArgs {
				amount: 5_000_000_000,
				..Default::default()
			};
			i1 = api.issue_invoice_tx(m, args)?;
			i2 = api.process_invoice_tx(m, &i1, pay_args(i1.amount))?;
			api.tx_lock_outputs(m, &i2)?;
			Ok(())
		})?;
		assert_no_key_in_reply(&i1, &i2, "self-paid invoice");
	} else {
		// wallet1 has a late-locked send to wallet2 pending
		let mut s1 = Slate::blank(2, false);
		wallet::controller::owner_single_use(Some(wallet1.clone()), mask1, None, |api, m| {
			let mut args = pay_args(10_000_000_000);
			args.late_lock = Some(true);
			s1 = api.init_send_tx(m, args)?;
			Ok(())
		})?;
		// wallet2 asks wallet1 to pay an invoice instead, and gives it the id of that send
		let mut i1 = Slate::blank(2, true);
		wallet::controller::owner_single_use(Some(wallet2.clone()), mask2, None, |api, m| {
			let args = IssueInvoiceTxArgs {
				amount: 5_000_000_000,
				..Default::default()
			};
			i1 = api.issue_invoice_tx(m, args)?;
			Ok(())
		})?;
		i1.id = s1.id;
		// wallet1 pays the invoice and returns I2 to wallet2
		let mut i2: Option<Slate> = None;
		let res =
			wallet::controller::owner_single_use(Some(wallet1.clone()), mask1, None, |api, m| {
				i2 = Some(api.process_invoice_tx(m, &i1, pay_args(i1.amount))?);
				Ok(())
			});
		println!("process_invoice_tx of the colliding invoice: {:?}", res);
		// (refusing the invoice is fine)
		if let Some(i2) = i2 {
			assert_no_key_in_reply(&i1, &i2, "invoice under the id of a pending late-locked send");
		}
	}

	stopper.store(false, Ordering::Relaxed);
	thread::sleep(Duration::from_millis(200));
	Ok(())
}

#[test]
fn hunt_c12_invoice_key_leak_a_self_paid() {
	let test_dir = "test_output/hunt_c12_2a";
	setup(test_dir);
	if let Err(e) = run(test_dir, false) {
		panic!("Libwallet Error: {}", e);
	}
	clean_output_dir(test_dir);
}

#[test]
fn hunt_c12_invoice_key_leak_b_peer_invoice_with_known_id() {
	let test_dir = "test_output/hunt_c12_2b";
	setup(test_dir);
	if let Err(e) = run(test_dir, true) {
		panic!("Libwallet Error: {}", e);
	}
	clean_output_dir(test_dir);
}
