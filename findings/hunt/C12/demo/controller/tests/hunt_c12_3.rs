// C12 hunt, candidate 3: a phrase recovery that fails (invalid phrase) must leave the
// wallet's seed file usable with the old password.
extern crate grin_wallet_controller as wallet;
extern crate grin_wallet_impls as impls;
extern crate grin_wallet_libwallet as libwallet;

use grin_util as util;

use impls::test_framework::LocalWalletClient;
use util::ZeroingString;

#[macro_use]
mod common;
use common::{clean_output_dir, create_wallet_proxy, setup};

#[test]
fn hunt_c12_failed_recover_keeps_seed() {
	let test_dir = "test_output/hunt_c12_3";
	setup(test_dir);
	let mut wallet_proxy = create_wallet_proxy(test_dir);
	create_wallet_and_add!(
		client1,
		wallet1,
		mask1_i,
		test_dir,
		"wallet1",
		None,
		&mut wallet_proxy,
		false
	);
	let _ = (&client1, &mask1_i);
	let mut w_lock = wallet1.lock();
	let lc = w_lock.lc_provider().unwrap();
	let phrase_before = lc.get_mnemonic(None, ZeroingString::from("")).unwrap();
	lc.close_wallet(None).unwrap();

	// not a valid phrase
	let res = lc.recover_from_mnemonic(
		ZeroingString::from("abandon abandon abandon"),
		ZeroingString::from("newpass"),
	);
	assert!(res.is_err());

	// the wallet still opens with the password its seed was saved under
	let opened = lc.open_wallet(None, ZeroingString::from(""), false, false);
	let phrase_after = lc.get_mnemonic(None, ZeroingString::from(""));
	println!("open_wallet: {:?}", opened.as_ref().map(|_| ()));
	assert!(
		opened.is_ok(),
		"after a refused recover_from_mnemonic the wallet no longer opens with its password: {:?}",
		opened.err()
	);
	assert_eq!(&*phrase_before, &*phrase_after.unwrap());
	drop(w_lock);
	clean_output_dir(test_dir);
}
