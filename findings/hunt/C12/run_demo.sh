#!/bin/bash
# usage: run_demo.sh [checkout-dir]   (default /tmp/hunt_C12)
# Copies the demonstration tests into <checkout>/controller/tests and runs them.
# Exit status is non-zero when any of them fails (i.e. when a violation reproduces).
set -u
HERE="$(cd "$(dirname "$0")" && pwd)"
CHECKOUT="${1:-/tmp/hunt_C12}"
export CARGO_TARGET_DIR="${CARGO_TARGET_DIR:-/tmp/hunt_C12_target}"
cp "$HERE"/demo/controller/tests/hunt_c12_*.rs "$CHECKOUT/controller/tests/" || exit 2
cd "$CHECKOUT" || exit 2
rc=0
for t in hunt_c12_1 hunt_c12_2 hunt_c12_3; do
	echo "=== $t"
	cargo test -p grin_wallet_controller --offline --test "$t" -- --test-threads=1 || rc=1
done
exit $rc
