// C13 hunt: the owner listener's V3 handler must answer tampered / malformed
// envelopes with an error and must not execute them.
//
// Every test drives the real `OwnerAPIHandlerV3` (the handler `owner_listener`
// mounts on `/v3/owner`) through its public `Handler::post` entry point, i.e.
// exactly what hyper calls for each HTTP POST; only the TCP socket is left out.

extern crate grin_wallet_controller as wallet;
extern crate grin_wallet_impls as impls;

use grin_api::Handler;
use grin_core as core;
use grin_keychain as keychain;
use grin_util as util;
use grin_wallet_api as apiwallet;
use grin_wallet_libwallet as libwallet;

use self::core::global;
use self::keychain::ExtKeychain;
use apiwallet::{EncryptedRequest, EncryptedResponse, JsonId};
use hyper::{Body, Request};
use impls::test_framework::LocalWalletClient;
use impls::DefaultLCProvider;
use libwallet::WalletInst;
use serde_json::{json, Value};
use std::sync::Arc;
use util::secp::key::{PublicKey, SecretKey};
use util::{from_hex, static_secp_instance, Mutex, ToHex};
use wallet::controller::OwnerAPIHandlerV3;

#[macro_use]
mod common;
use common::{clean_output_dir, create_wallet_proxy, setup};

type Wallet = Arc<
	Mutex<
		Box<
			dyn WalletInst<
				'static,
				DefaultLCProvider<'static, LocalWalletClient, ExtKeychain>,
				LocalWalletClient,
				ExtKeychain,
			>,
		>,
	>,
>;

const CLIENT_SEC: &str = "e00dcc4a009e3427c6b1e1a550c538179d46f3827a13ed74c759c860761caf1e";
const CLIENT_PUB: &str = "03b3c18c9a38783d105e238953b1638b021ba7456d87a5c085b3bdb75777b4c490";

struct Listener {
	handler: OwnerAPIHandlerV3<
		DefaultLCProvider<'static, LocalWalletClient, ExtKeychain>,
		LocalWalletClient,
		ExtKeychain,
	>,
	wallet: Wallet,
	rt: tokio::runtime::Runtime,
}

impl Listener {
	fn new(test_dir: &'static str) -> Listener {
		setup(test_dir);
		global::set_global_chain_type(global::ChainTypes::AutomatedTesting);
		let mut wallet_proxy = create_wallet_proxy(test_dir);
		create_wallet_and_add!(
			client1,
			wallet1,
			mask1_i,
			test_dir,
			"wallet1",
			None,
			&mut wallet_proxy,
			false
		);
		let _ = (client1, mask1_i);
		let handler =
			OwnerAPIHandlerV3::new(wallet1.clone(), Arc::new(Mutex::new(None)), None, false);
		Listener {
			handler,
			wallet: wallet1,
			rt: tokio::runtime::Runtime::new().unwrap(),
		}
	}

	/// One HTTP POST to /v3/owner with the given raw body
	fn post_raw(&mut self, body: String) -> Value {
		let req = Request::post("http://127.0.0.1:3420/v3/owner")
			.body(Body::from(body))
			.unwrap();
		let fut = self.handler.post(req);
		let resp = self.rt.block_on(fut).unwrap();
		let bytes = self
			.rt
			.block_on(hyper::body::to_bytes(resp.into_body()))
			.unwrap();
		match serde_json::from_slice(&bytes) {
			Ok(v) => v,
			Err(_) => json!({ "error": { "message": String::from_utf8_lossy(&bytes).to_string() } }),
		}
	}

	fn post(&mut self, body: &Value) -> Value {
		self.post_raw(body.to_string())
	}

	/// plaintext key exchange, returns the session key
	fn init_secure_api(&mut self) -> SecretKey {
		let reply = self.post(&json!({
			"jsonrpc": "2.0",
			"method": "init_secure_api",
			"params": { "ecdh_pubkey": CLIENT_PUB },
			"id": 1
		}));
		let server_pub = reply["result"]["Ok"]
			.as_str()
			.unwrap_or_else(|| panic!("init_secure_api failed: {}", reply));
		derive_session_key(server_pub)
	}

	/// Labels of the accounts the wallet has, read directly (not via the listener)
	fn account_labels(&self) -> Vec<String> {
		let mut out = vec![];
		wallet::controller::owner_single_use(Some(self.wallet.clone()), None, None, |api, m| {
			out = api.accounts(m)?.into_iter().map(|a| a.label).collect();
			Ok(())
		})
		.unwrap();
		out
	}
}

/// The client's side of the key exchange
fn derive_session_key(server_pub: &str) -> SecretKey {
	let secp_inst = static_secp_instance();
	let secp = secp_inst.lock();
	let sec = SecretKey::from_slice(&secp, &from_hex(CLIENT_SEC).unwrap()).unwrap();
	let mut shared = PublicKey::from_slice(&secp, &from_hex(server_pub).unwrap()).unwrap();
	shared.mul_assign(&secp, &sec).unwrap();
	let x = shared.serialize_vec(&secp, true);
	SecretKey::from_slice(&secp, &x[1..]).unwrap()
}

/// the plaintext JSON-RPC call that creates account `label`
fn create_account_call(label: &str) -> Value {
	json!({
		"jsonrpc": "2.0",
		"method": "create_account_path",
		"params": { "token": null, "label": label },
		"id": 1
	})
}

/// A well-formed envelope for `inner` under `key`, as a JSON value
fn envelope(inner: &Value, key: &SecretKey) -> Value {
	EncryptedRequest::from_json(&JsonId::IntId(1), inner, key)
		.unwrap()
		.as_json_value()
		.unwrap()
}

/// What the listener did with a request
#[derive(Debug)]
struct Outcome {
	/// the reply was a JSON-RPC error object
	answered_with_error: bool,
	/// the reply was an encrypted reply that opens under the session key
	encrypted_reply: Option<Value>,
	raw: Value,
}

fn outcome(reply: Value, key: &SecretKey) -> Outcome {
	let answered_with_error = reply.get("error").map(|e| !e.is_null()).unwrap_or(false);
	let encrypted_reply = serde_json::from_value::<EncryptedResponse>(reply.clone())
		.ok()
		.filter(|r| r.result.contains_key("Ok"))
		.and_then(|r| r.decrypt(key).ok());
	Outcome {
		answered_with_error,
		encrypted_reply,
		raw: reply,
	}
}

/// Sends `req`, which is meant to create account `label`, and checks that the listener
/// refused it: error reply, account not created.
fn expect_refused(l: &mut Listener, key: &SecretKey, what: &str, req: &Value, label: &str) -> bool {
	let o = outcome(l.post(req), key);
	let created = l.account_labels().iter().any(|a| a == label);
	let ok = o.answered_with_error && !created;
	println!(
		"[{}] {}: answered_with_error={} account_created={} decrypted_reply={:?}",
		if ok { "ok" } else { "VIOLATION" },
		what,
		o.answered_with_error,
		created,
		o.encrypted_reply.as_ref().map(|v| v.to_string()),
	);
	if !ok && o.encrypted_reply.is_none() {
		println!("    raw reply: {}", o.raw);
	}
	ok
}

/// Positive control: the cases the handler does get right, plus the accepted path.
/// Shows that the harness distinguishes accepted from refused requests.
#[test]
fn c13_control_refused_and_accepted_paths() {
	let test_dir = "test_output/hunt_c13_control";
	let mut l = Listener::new(test_dir);

	// nothing before the key exchange
	let o = outcome(l.post(&create_account_call("pre_init")), &SecretKey([1u8; 32]));
	assert!(o.answered_with_error, "{:?}", o);
	assert!(!l.account_labels().contains(&"pre_init".to_owned()));

	let k1 = l.init_secure_api();

	// the accepted path
	let o = outcome(l.post(&envelope(&create_account_call("good"), &k1)), &k1);
	assert!(!o.answered_with_error, "{:?}", o);
	let inner = o.encrypted_reply.expect("reply opens under the session key");
	assert!(inner["result"]["Ok"].is_string(), "{}", inner);
	assert!(l.account_labels().contains(&"good".to_owned()));

	let mut all_ok = true;
	// plaintext call with a session in place
	all_ok &= expect_refused(&mut l, &k1, "plaintext call", &create_account_call("plain"), "plain");
	// top-level batch of well-formed envelopes
	let env = envelope(&create_account_call("batch"), &k1);
	all_ok &= expect_refused(&mut l, &k1, "batch of envelopes", &json!([env]), "batch");
	// flipped bit in the ciphertext
	let mut env = envelope(&create_account_call("flipbody"), &k1);
	// (the base64 alphabet maps A,B to the 6-bit values 0,1: swapping them flips one bit)
	let mut body = env["params"]["body_enc"].as_str().unwrap().as_bytes().to_vec();
	body[4] = if body[4] == b'A' { b'B' } else { b'A' };
	env["params"]["body_enc"] = json!(String::from_utf8(body).unwrap());
	all_ok &= expect_refused(&mut l, &k1, "bit flipped in body", &env, "flipbody");
	// flipped bit in the nonce value
	let mut env = envelope(&create_account_call("flipnonce"), &k1);
	let mut nonce = from_hex(env["params"]["nonce"].as_str().unwrap()).unwrap();
	nonce[11] ^= 0x01;
	env["params"]["nonce"] = json!(nonce.to_hex());
	all_ok &= expect_refused(&mut l, &k1, "bit flipped in nonce bytes", &env, "flipnonce");
	// nested envelope
	let inner_env = envelope(&create_account_call("nested"), &k1);
	let env = envelope(&inner_env, &k1);
	let o = outcome(l.post(&env), &k1);
	let nested_created = l.account_labels().contains(&"nested".to_owned());
	let nested_err = o
		.encrypted_reply
		.as_ref()
		.map(|r| !r["error"].is_null())
		.unwrap_or(o.answered_with_error);
	println!("nested envelope: error={} created={}", nested_err, nested_created);
	all_ok &= nested_err && !nested_created;
	// superseded key
	let k2 = l.init_secure_api();
	assert!(k1 != k2);
	let env = envelope(&create_account_call("oldkey"), &k1);
	all_ok &= expect_refused(&mut l, &k2, "superseded key", &env, "oldkey");
	assert!(all_ok, "a control case was not refused, see output");
	clean_output_dir(test_dir);
}

/// An envelope whose `method` is not `encrypted_request_v3` (or whose `jsonrpc` is not "2.0")
/// must be answered with an error and change nothing.
#[test]
fn c13_wrong_envelope_method_is_refused() {
	let test_dir = "test_output/hunt_c13_method";
	let mut l = Listener::new(test_dir);
	let key = l.init_secure_api();
	let mut all_ok = true;

	for (i, m) in ["retrieve_txs", "encrypted_request_v2", "", "open_wallet"]
		.iter()
		.enumerate()
	{
		let label = format!("wrong_method_{}", i);
		let mut env = envelope(&create_account_call(&label), &key);
		env["method"] = json!(m);
		all_ok &= expect_refused(
			&mut l,
			&key,
			&format!("envelope method {:?}", m),
			&env,
			&label,
		);
	}

	let mut env = envelope(&create_account_call("wrong_version"), &key);
	env["jsonrpc"] = json!("1.0");
	all_ok &= expect_refused(&mut l, &key, "envelope jsonrpc \"1.0\"", &env, "wrong_version");

	assert!(
		all_ok,
		"the owner listener executed envelopes that are not encrypted_request_v3 calls"
	);
	clean_output_dir(test_dir);
}

/// A JSON array is not an envelope: it must be answered with an error and change nothing.
#[test]
fn c13_array_envelope_is_refused() {
	let test_dir = "test_output/hunt_c13_array";
	let mut l = Listener::new(test_dir);
	let key = l.init_secure_api();
	let mut all_ok = true;

	// the whole envelope as a positional array
	let env = envelope(&create_account_call("array_top"), &key);
	let arr = json!([
		"2.0",
		"encrypted_request_v3",
		1,
		[env["params"]["nonce"], env["params"]["body_enc"]]
	]);
	all_ok &= expect_refused(&mut l, &key, "top-level array as envelope", &arr, "array_top");

	// a four element "batch" whose last element is the only thing that looks like a body
	let env = envelope(&create_account_call("array_junk"), &key);
	let arr = json!(["", "", 0, env["params"]]);
	all_ok &= expect_refused(&mut l, &key, "array of junk + params", &arr, "array_junk");

	// object envelope, params as a positional array
	let mut env = envelope(&create_account_call("array_params"), &key);
	env["params"] = json!([env["params"]["nonce"], env["params"]["body_enc"]]);
	all_ok &= expect_refused(&mut l, &key, "params given as array", &env, "array_params");

	assert!(
		all_ok,
		"the owner listener executed requests whose envelope is a JSON array"
	);
	clean_output_dir(test_dir);
}

/// A request whose nonce (or body encoding) was altered in transit must be answered with an
/// error and change nothing.
#[test]
fn c13_tampered_nonce_is_refused() {
	let test_dir = "test_output/hunt_c13_nonce";
	let mut l = Listener::new(test_dir);
	let key = l.init_secure_api();
	let mut all_ok = true;

	// an envelope whose nonce has a hex letter
	let fresh = |label: &str| loop {
		let env = envelope(&create_account_call(label), &key);
		if env["params"]["nonce"]
			.as_str()
			.unwrap()
			.bytes()
			.any(|b| b.is_ascii_lowercase())
		{
			return env;
		}
	};

	// 1. a single flipped bit (0x20) in one byte of the transmitted nonce
	let mut env = fresh("nonce_bitflip");
	let mut n = env["params"]["nonce"].as_str().unwrap().as_bytes().to_vec();
	let pos = n.iter().position(|b| b.is_ascii_lowercase()).unwrap();
	n[pos] ^= 0x20;
	env["params"]["nonce"] = json!(String::from_utf8(n).unwrap());
	all_ok &= expect_refused(
		&mut l,
		&key,
		"one bit flipped in the transmitted nonce",
		&env,
		"nonce_bitflip",
	);

	// 2. bytes appended to the nonce
	let mut env = fresh("nonce_long");
	let n = format!("{}deadbeef", env["params"]["nonce"].as_str().unwrap());
	env["params"]["nonce"] = json!(n);
	all_ok &= expect_refused(&mut l, &key, "4 bytes appended to the nonce", &env, "nonce_long");

	// 3. prefix / whitespace
	let mut env = fresh("nonce_prefix");
	let n = format!(" 0x{}\n", env["params"]["nonce"].as_str().unwrap());
	env["params"]["nonce"] = json!(n);
	all_ok &= expect_refused(&mut l, &key, "nonce with 0x prefix and whitespace", &env, "nonce_prefix");

	// 4. body with its base64 padding removed
	let mut i = 0;
	let mut env;
	let label = loop {
		let label = format!("body_nopad{}", "x".repeat(i));
		env = fresh(&label);
		if env["params"]["body_enc"].as_str().unwrap().ends_with('=') {
			break label;
		}
		i += 1;
	};
	let b = env["params"]["body_enc"]
		.as_str()
		.unwrap()
		.trim_end_matches('=')
		.to_owned();
	env["params"]["body_enc"] = json!(b);
	all_ok &= expect_refused(&mut l, &key, "body_enc with padding stripped", &env, &label);

	assert!(
		all_ok,
		"the owner listener executed requests whose nonce/body differs from what the client sent"
	);
	clean_output_dir(test_dir);
}

/// A key exchange made inside an encrypted batch is answered with a new server key, so the
/// session key it yields is the current one and the key before it is superseded.
#[test]
fn c13_rekey_in_encrypted_batch_supersedes_old_key() {
	let test_dir = "test_output/hunt_c13_rekey";
	let mut l = Listener::new(test_dir);
	let k1 = l.init_secure_api();

	// re-init, sent as a (one element) JSON-RPC batch inside a well-formed envelope under k1
	let batch = json!([{
		"jsonrpc": "2.0",
		"method": "init_secure_api",
		"params": { "ecdh_pubkey": CLIENT_PUB },
		"id": 7
	}]);
	let o = outcome(l.post(&envelope(&batch, &k1)), &k1);
	let inner = o.encrypted_reply.expect("reply to the batch opens under k1");
	println!("reply to the encrypted batch: {}", inner);
	let server_pub = inner[0]["result"]["Ok"]
		.as_str()
		.expect("the key exchange in the batch reports success");
	let k2 = derive_session_key(server_pub);
	assert!(k1 != k2);

	// the listener told the client the exchange succeeded: k2 is current, k1 superseded
	let old_refused = expect_refused(
		&mut l,
		&k2,
		"request under the superseded key k1",
		&envelope(&create_account_call("under_old_key"), &k1),
		"under_old_key",
	);
	let o = outcome(l.post(&envelope(&create_account_call("under_new_key"), &k2)), &k2);
	let new_accepted = !o.answered_with_error
		&& o.encrypted_reply.is_some()
		&& l.account_labels().contains(&"under_new_key".to_owned());
	println!(
		"[{}] request under the new key k2: accepted={} raw={}",
		if new_accepted { "ok" } else { "VIOLATION" },
		new_accepted,
		o.raw
	);
	assert!(
		old_refused && new_accepted,
		"after a successful key exchange the listener still acts on the old session key (old refused: {}, new accepted: {})",
		old_refused,
		new_accepted
	);
	clean_output_dir(test_dir);
}
