#!/bin/sh
# usage: run_demo.sh <checkout of grin-wallet> [cargo target dir]
# Copies the C13 hunt test into the checkout and runs it. Exits non-zero when a test fails
# (on the unmodified tree 4 of the 5 tests fail; c13_control_refused_and_accepted_paths passes).
set -e
HERE="$(cd "$(dirname "$0")" && pwd)"
CHECKOUT="${1:?path to a grin-wallet checkout}"
TARGET="${2:-/tmp/hunt_C13_target}"
cp "$HERE/demo/controller/tests/hunt_c13_1.rs" "$CHECKOUT/controller/tests/hunt_c13_1.rs"
cd "$CHECKOUT"
CARGO_TARGET_DIR="$TARGET" cargo test -p grin_wallet_controller --offline --test hunt_c13_1 -- --nocapture --test-threads=1
