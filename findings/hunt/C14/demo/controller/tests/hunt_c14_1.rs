// C14 hunt, finding 1: `Owner::start_updater` accepts a wrong keychain-mask token.
//
// The call returns Ok, the updater thread it spawned dies at its first pass (with
// InvalidKeychainMask, only logged) and leaves the Owner's `updater_running` flag set for
// good. From then on every `retrieve_*` call made with the RIGHT token has its
// `refresh_from_node = true` silently downgraded to `false`: the wallet never refreshes
// from the node again, i.e. it no longer behaves like an unmasked wallet with the same seed.
//
// The same stuck flag is reached with right tokens only: start_updater(token), close_wallet,
// open_wallet (new token) -> the updater holding the old token dies, the flag stays.
#[macro_use]
extern crate log;
extern crate grin_wallet_api as api;
extern crate grin_wallet_controller as wallet;
extern crate grin_wallet_impls as impls;
extern crate grin_wallet_libwallet as libwallet;

use grin_util::secp::key::SecretKey;
use grin_util::static_secp_instance;
use impls::test_framework::{self, LocalWalletClient};
use std::sync::atomic::Ordering;
use std::thread;
use std::time::Duration;

#[macro_use]
mod common;
use common::{clean_output_dir, create_wallet_proxy, setup, setup_global_chain_type};

fn flip_bit(k: &SecretKey) -> SecretKey {
	let mut b = k.0;
	b[31] ^= 1;
	let secp = static_secp_instance();
	let secp = secp.lock();
	SecretKey::from_slice(&secp, &b).unwrap()
}

fn impl_wrong_token_updater(test_dir: &'static str) -> Result<Vec<String>, libwallet::Error> {
	let mut violations = vec![];
	let mut wallet_proxy = create_wallet_proxy(test_dir);
	let chain = wallet_proxy.chain.clone();
	let stopper = wallet_proxy.running.clone();

	// a MASKED wallet
	create_wallet_and_add!(
		client1,
		wallet1,
		mask1_i,
		test_dir,
		"wallet1",
		None,
		&mut wallet_proxy,
		true
	);
	let mask1 = (&mask1_i).as_ref();
	assert!(mask1.is_some());
	let _ = &client1;

	thread::spawn(move || {
		if let Err(e) = wallet_proxy.run() {
			error!("Wallet Proxy error: {}", e);
		}
	});

	let _ = test_framework::award_blocks_to_wallet(&chain, wallet1.clone(), mask1, 3, false);

	// one Owner instance, as held by the owner API listener for its whole life
	let owner_api = api::Owner::new(wallet1.clone(), None);

	// baseline: the right token refreshes from the node
	let (refreshed, info) = owner_api.retrieve_summary_info(mask1, true, 1)?;
	assert!(refreshed);
	assert_eq!(info.last_confirmed_height, 3);

	// a wrong token (one bit off)
	let wrong = flip_bit(mask1.unwrap());
	// sanity: it is rejected where the token is checked
	match owner_api.accounts(Some(&wrong)) {
		Err(libwallet::Error::InvalidKeychainMask) => {}
		r => panic!("accounts with a wrong token: {:?}", r.map(|_| ())),
	}

	// the updater refreshes outputs, derives keys, writes the wallet's state: with a wrong
	// token the operation has to fail with an invalid-mask error
	let res = owner_api.start_updater(Some(&wrong), Duration::from_millis(200));
	match res {
		Err(libwallet::Error::InvalidKeychainMask) => {}
		Err(e) => violations.push(format!(
			"start_updater(wrong token) failed, but not with InvalidKeychainMask: {}",
			e
		)),
		Ok(()) => violations.push("start_updater(wrong token) returned Ok(())".to_owned()),
	}
	// give the (dead on arrival) updater thread time to run and fail
	thread::sleep(Duration::from_secs(2));

	// the chain moves on
	let _ = test_framework::award_blocks_to_wallet(&chain, wallet1.clone(), mask1, 2, false);

	// with the RIGHT token the wallet must behave as an unmasked wallet would: refresh and
	// see height 5
	let (refreshed, info) = owner_api.retrieve_summary_info(mask1, true, 1)?;
	if !refreshed || info.last_confirmed_height != 5 {
		violations.push(format!(
			"after start_updater(wrong token): retrieve_summary_info(RIGHT token, refresh=true) \
			 -> refreshed={}, last_confirmed_height={} (chain is at 5)",
			refreshed, info.last_confirmed_height
		));
	}
	let (refreshed, _) = owner_api.retrieve_txs(mask1, true, None, None, None)?;
	if !refreshed {
		violations.push(
			"after start_updater(wrong token): retrieve_txs(RIGHT token, refresh=true) did not refresh"
				.to_owned(),
		);
	}
	// ... and since the refresh is skipped, these reads do not look at the token at all any more
	if let Ok((_, txs)) = owner_api.retrieve_txs(Some(&wrong), true, None, None, None) {
		violations.push(format!(
			"after start_updater(wrong token): retrieve_txs(WRONG token, refresh=true) returned {} log entries",
			txs.len()
		));
	}

	owner_api.stop_updater()?;
	stopper.store(false, Ordering::Relaxed);
	thread::sleep(Duration::from_millis(500));
	Ok(violations)
}

fn impl_reopen_updater(
	test_dir: &'static str,
	masked: bool,
) -> Result<Vec<String>, libwallet::Error> {
	let mut violations = vec![];
	let mut wallet_proxy = create_wallet_proxy(test_dir);
	let chain = wallet_proxy.chain.clone();
	let stopper = wallet_proxy.running.clone();

	create_wallet_and_add!(
		client1,
		wallet1,
		mask1_i,
		test_dir,
		"wallet1",
		None,
		&mut wallet_proxy,
		masked
	);
	let mask1 = (&mask1_i).as_ref();
	let _ = &client1;

	thread::spawn(move || {
		if let Err(e) = wallet_proxy.run() {
			error!("Wallet Proxy error: {}", e);
		}
	});

	let _ = test_framework::award_blocks_to_wallet(&chain, wallet1.clone(), mask1, 3, false);

	let owner_api = api::Owner::new(wallet1.clone(), None);
	// only right tokens from here on
	owner_api.start_updater(mask1, Duration::from_millis(200))?;
	thread::sleep(Duration::from_secs(1));

	owner_api.close_wallet(None)?;
	// closed: nothing works
	assert!(owner_api.retrieve_summary_info(mask1, false, 1).is_err());
	assert!(owner_api.accounts(mask1).is_err());
	let mask2_i = owner_api.open_wallet(None, grin_util::ZeroingString::from(""), masked)?;
	let mask2 = (&mask2_i).as_ref();
	assert_eq!(mask2.is_some(), masked);
	if masked {
		assert!(mask2 != mask1);
	}
	// the updater (old token) runs into InvalidKeychainMask now
	thread::sleep(Duration::from_secs(2));

	// mine with the new token (the proxy is not involved in mining)
	let _ = test_framework::award_blocks_to_wallet(&chain, wallet1.clone(), mask2, 2, false);

	// the reopened wallet, right token: an unmasked wallet after the same
	// start_updater / close / open sequence is refreshed (by its updater, which goes on
	// working with `None`); here nothing refreshes any more, and the call does not say so
	thread::sleep(Duration::from_secs(1));
	let (refreshed, info) = owner_api.retrieve_summary_info(mask2, true, 1)?;
	if info.last_confirmed_height != 5 {
		violations.push(format!(
			"start_updater(t1); close; open -> t2: retrieve_summary_info(t2, refresh=true) \
			 -> refreshed={}, last_confirmed_height={} (chain is at 5)",
			refreshed, info.last_confirmed_height
		));
	}

	owner_api.stop_updater()?;
	stopper.store(false, Ordering::Relaxed);
	thread::sleep(Duration::from_millis(500));
	Ok(violations)
}

// (one #[test]: the global chain type the updater thread needs can be initialised only once
// per process)
#[test]
fn hunt_c14_1_updater_token() {
	setup_global_chain_type();
	let run = |name: &'static str,
	           f: &dyn Fn(&'static str) -> Result<Vec<String>, libwallet::Error>|
	 -> Vec<String> {
		setup(name);
		let v = match f(name) {
			Ok(v) => v,
			Err(e) => panic!("Libwallet Error: {}", e),
		};
		clean_output_dir(name);
		v
	};

	// scenario a: a wrong token
	let mut v = run("test_output/hunt_c14_1a", &impl_wrong_token_updater);

	// scenario b, control: the unmasked wallet with the same call sequence is kept up to date
	let c = run("test_output/hunt_c14_1b_unmasked", &|d| {
		impl_reopen_updater(d, false)
	});
	assert!(
		c.is_empty(),
		"control (unmasked wallet) failed:\n - {}",
		c.join("\n - ")
	);
	// scenario b: right tokens only, wallet closed and reopened
	v.extend(run("test_output/hunt_c14_1b", &|d| {
		impl_reopen_updater(d, true)
	}));

	assert!(v.is_empty(), "C14 violations:\n - {}", v.join("\n - "));
}
