// C14 hunt, finding 2: on a masked wallet `retrieve_txs`, `retrieve_summary_info` and
// `retrieve_payment_proof` never look at the keychain-mask token unless they actually
// refresh from the node. With `refresh_from_node = false` (or while the node cannot be
// reached, or while the updater runs) they answer a caller holding a wrong token, or no
// token at all, with the full transaction log, the balances and the payment proof
// (both signatures). Every other read-only owner method (`accounts`, `get_stored_tx`,
// `node_height`, `retrieve_outputs`, ...) fails with InvalidKeychainMask.
#[macro_use]
extern crate log;
extern crate grin_wallet_api as api;
extern crate grin_wallet_controller as wallet;
extern crate grin_wallet_impls as impls;
extern crate grin_wallet_libwallet as libwallet;

use grin_util::secp::key::SecretKey;
use grin_util::static_secp_instance;
use impls::test_framework::{self, LocalWalletClient};
use libwallet::{InitTxArgs, Slate};
use std::sync::atomic::Ordering;
use std::thread;
use std::time::Duration;

#[macro_use]
mod common;
use common::{clean_output_dir, create_wallet_proxy, setup};

fn flip_bit(k: &SecretKey) -> SecretKey {
	let mut b = k.0;
	b[31] ^= 1;
	let secp = static_secp_instance();
	let secp = secp.lock();
	SecretKey::from_slice(&secp, &b).unwrap()
}

fn test_impl(test_dir: &'static str) -> Result<Vec<String>, libwallet::Error> {
	let mut violations = vec![];
	let mut wallet_proxy = create_wallet_proxy(test_dir);
	let chain = wallet_proxy.chain.clone();
	let stopper = wallet_proxy.running.clone();

	// two MASKED wallets
	create_wallet_and_add!(
		client1,
		wallet1,
		mask1_i,
		test_dir,
		"wallet1",
		None,
		&mut wallet_proxy,
		true
	);
	let mask1 = (&mask1_i).as_ref();
	create_wallet_and_add!(
		client2,
		wallet2,
		mask2_i,
		test_dir,
		"wallet2",
		None,
		&mut wallet_proxy,
		true
	);
	let mask2 = (&mask2_i).as_ref();
	let _ = &client2;
	assert!(mask1.is_some() && mask2.is_some());

	thread::spawn(move || {
		if let Err(e) = wallet_proxy.run() {
			error!("Wallet Proxy error: {}", e);
		}
	});

	let _ = test_framework::award_blocks_to_wallet(&chain, wallet1.clone(), mask1, 10, false);

	// a payment with a payment proof, wallet1 -> wallet2
	let mut address = None;
	wallet::controller::owner_single_use(Some(wallet2.clone()), mask2, None, |api, m| {
		address = Some(api.get_slatepack_address(m, 0)?);
		Ok(())
	})?;
	let mut slate = Slate::blank(1, false);
	wallet::controller::owner_single_use(Some(wallet1.clone()), mask1, None, |sender_api, m| {
		let args = InitTxArgs {
			src_acct_name: None,
			amount: 60_000_000_000,
			minimum_confirmations: 2,
			max_outputs: 500,
			num_change_outputs: 1,
			selection_strategy_is_use_all: true,
			payment_proof_recipient_address: address.clone(),
			..Default::default()
		};
		let slate_i = sender_api.init_send_tx(m, args)?;
		slate = client1.send_tx_slate_direct("wallet2", &slate_i)?;
		sender_api.tx_lock_outputs(m, &slate)?;
		slate = sender_api.finalize_tx(m, &slate)?;
		sender_api.post_tx(m, &slate, true)?;
		Ok(())
	})?;
	let _ = test_framework::award_blocks_to_wallet(&chain, wallet1.clone(), mask1, 2, false);

	let owner_api = api::Owner::new(wallet1.clone(), None);
	// right token: everything there
	let (_, txs) = owner_api.retrieve_txs(mask1, true, None, None, None)?;
	assert!(txs.len() >= 13);
	let pp = owner_api.retrieve_payment_proof(mask1, true, None, Some(slate.id))?;
	assert_eq!(pp.amount, 60_000_000_000);

	// the wrong tokens of the property's quantifier
	let off_by_one_bit = flip_bit(mask1.unwrap());
	let wrong_tokens: Vec<(&str, Option<&SecretKey>)> = vec![
		("absent", None),
		("off-by-one-bit", Some(&off_by_one_bit)),
		("another wallet's", mask2),
	];

	for (name, t) in wrong_tokens {
		// sanity: the token is refused by the methods that check it
		match owner_api.accounts(t) {
			Err(libwallet::Error::InvalidKeychainMask) => {}
			r => panic!("accounts({} token): {:?}", name, r.map(|_| ())),
		}
		match owner_api.get_stored_tx(t, None, Some(&slate.id)) {
			Err(libwallet::Error::InvalidKeychainMask) => {}
			r => panic!("get_stored_tx({} token): {:?}", name, r.map(|_| ())),
		}
		match owner_api.retrieve_outputs(t, false, false, None) {
			Err(libwallet::Error::InvalidKeychainMask) => {}
			r => panic!("retrieve_outputs({} token): {:?}", name, r.map(|_| ())),
		}

		match owner_api.retrieve_txs(t, false, None, None, None) {
			Err(libwallet::Error::InvalidKeychainMask) => {}
			Err(e) => violations.push(format!("retrieve_txs({} token): other error {}", name, e)),
			Ok((_, txs)) => violations.push(format!(
				"retrieve_txs({} token) -> Ok, {} log entries (amounts, kernel excesses, slate ids, stored proofs)",
				name,
				txs.len()
			)),
		}
		match owner_api.retrieve_summary_info(t, false, 1) {
			Err(libwallet::Error::InvalidKeychainMask) => {}
			Err(e) => violations.push(format!(
				"retrieve_summary_info({} token): other error {}",
				name, e
			)),
			Ok((_, i)) => violations.push(format!(
				"retrieve_summary_info({} token) -> Ok, total={} spendable={}",
				name, i.total, i.amount_currently_spendable
			)),
		}
		match owner_api.retrieve_payment_proof(t, false, None, Some(slate.id)) {
			Err(libwallet::Error::InvalidKeychainMask) => {}
			Err(e) => violations.push(format!(
				"retrieve_payment_proof({} token): other error {}",
				name, e
			)),
			Ok(p) => violations.push(format!(
				"retrieve_payment_proof({} token) -> Ok, amount={} with sender and recipient signatures",
				name, p.amount
			)),
		}
	}

	stopper.store(false, Ordering::Relaxed);
	thread::sleep(Duration::from_millis(300));
	Ok(violations)
}

#[test]
fn hunt_c14_2_reads_without_token() {
	let test_dir = "test_output/hunt_c14_2";
	setup(test_dir);
	let v = match test_impl(test_dir) {
		Ok(v) => v,
		Err(e) => panic!("Libwallet Error: {}", e),
	};
	clean_output_dir(test_dir);
	assert!(v.is_empty(), "C14 violations:\n - {}", v.join("\n - "));
}
