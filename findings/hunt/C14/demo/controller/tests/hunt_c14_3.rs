// C14 hunt, finding 3 (low severity, needs a token related to the master key): a wrong token
// for which the un-XORed master key is not a valid secp256k1 scalar (zero, or >= the group
// order) does not produce InvalidKeychainMask: `LMDBBackend::keychain` derives the root key
// with `SwitchCommitmentType::Regular` before comparing checksums, and
// `Secp256k1::blind_switch` asserts on the C call's return value -> the owner call PANICS.
#[macro_use]
extern crate log;
extern crate grin_wallet_api as api;
extern crate grin_wallet_controller as wallet;
extern crate grin_wallet_impls as impls;
extern crate grin_wallet_libwallet as libwallet;

use grin_keychain::{ExtKeychain, Keychain, SwitchCommitmentType};
use grin_util::secp::key::SecretKey;
use grin_util::static_secp_instance;
use impls::test_framework::LocalWalletClient;
use std::panic::{catch_unwind, AssertUnwindSafe};
use std::sync::atomic::Ordering;
use std::thread;
use std::time::Duration;

#[macro_use]
mod common;
use common::{clean_output_dir, create_wallet_proxy, setup};

fn test_impl(test_dir: &'static str) -> Result<Vec<String>, libwallet::Error> {
	let mut violations = vec![];
	let mut wallet_proxy = create_wallet_proxy(test_dir);
	let stopper = wallet_proxy.running.clone();

	create_wallet_and_add!(
		client1,
		wallet1,
		mask1_i,
		test_dir,
		"wallet1",
		None,
		&mut wallet_proxy,
		true
	);
	let mask1 = (&mask1_i).as_ref();
	let _ = &client1;
	assert!(mask1.is_some());

	thread::spawn(move || {
		if let Err(e) = wallet_proxy.run() {
			error!("Wallet Proxy error: {}", e);
		}
	});

	// the wallet's master key (depth 0, no switch commitment: the master secret itself)
	let master = {
		wallet_inst!(wallet1, w);
		let k = w.keychain(mask1)?;
		k.derive_key(0, &ExtKeychain::root_key_id(), SwitchCommitmentType::None)?
	};

	// wrong tokens: right token XOR master XOR target, so that un-XORing yields `target`
	let mut candidates: Vec<(&str, SecretKey)> = vec![];
	{
		let secp = static_secp_instance();
		let secp = secp.lock();
		for (name, target) in vec![
			("all-ones master key (>= group order)", [0xffu8; 32]),
			("zero master key", [0u8; 32]),
		] {
			let mut b = [0u8; 32];
			for i in 0..32 {
				b[i] = mask1.unwrap().0[i] ^ master.0[i] ^ target[i];
			}
			// only tokens that are well-formed secret keys (what the JSON-RPC layer accepts)
			if let Ok(t) = SecretKey::from_slice(&secp, &b) {
				candidates.push((name, t));
			}
		}
	}
	assert!(!candidates.is_empty());

	let owner_api = api::Owner::new(wallet1.clone(), None);
	for (name, t) in candidates {
		assert!(Some(&t) != mask1);
		let r = catch_unwind(AssertUnwindSafe(|| {
			owner_api.accounts(Some(&t)).map(|_| ())
		}));
		match r {
			Ok(Err(libwallet::Error::InvalidKeychainMask)) => {}
			Ok(Err(e)) => violations.push(format!(
				"accounts(wrong token giving {}): error is not InvalidKeychainMask: {}",
				name, e
			)),
			Ok(Ok(())) => violations.push(format!(
				"accounts(wrong token giving {}) succeeded",
				name
			)),
			Err(_) => violations.push(format!(
				"accounts(wrong token giving {}) PANICKED instead of returning InvalidKeychainMask",
				name
			)),
		}
	}
	// the right token still works
	owner_api.accounts(mask1)?;

	stopper.store(false, Ordering::Relaxed);
	thread::sleep(Duration::from_millis(300));
	Ok(violations)
}

#[test]
fn hunt_c14_3_wrong_token_panics() {
	let test_dir = "test_output/hunt_c14_3";
	setup(test_dir);
	let v = match test_impl(test_dir) {
		Ok(v) => v,
		Err(e) => panic!("Libwallet Error: {}", e),
	};
	clean_output_dir(test_dir);
	assert!(v.is_empty(), "C14 violations:\n - {}", v.join("\n - "));
}
