#!/bin/sh
# Usage: run_demo.sh [checkout-dir] [test-name ...]
# Copies the demo tests into <checkout>/controller/tests and runs them.
# Exit status is non-zero if any of them fails (they FAIL on the unmodified tree).
HERE="$(cd "$(dirname "$0")" && pwd)"
CHECKOUT="${1:-/tmp/hunt_C14}"
[ $# -gt 0 ] && shift
TESTS="${*:-hunt_c14_1 hunt_c14_2 hunt_c14_3}"
export CARGO_TARGET_DIR="${CARGO_TARGET_DIR:-/tmp/hunt_C14_target}"
cp "$HERE"/demo/controller/tests/hunt_c14_*.rs "$CHECKOUT/controller/tests/" || exit 2
cd "$CHECKOUT" || exit 2
rc=0
for t in $TESTS; do
	echo "=== $t"
	log="$(mktemp)"
	cargo test -p grin_wallet_controller --offline --test "$t" >"$log" 2>&1 || rc=1
	grep -E "^test |test result|C14 violations|^ - |^error" "$log"
	rm -f "$log"
done
exit $rc
