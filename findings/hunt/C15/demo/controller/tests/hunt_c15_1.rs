// C15 hunt, finding 1: a wallet restored from seed hands out derivation paths that are
// already on chain when an output-creating operation runs before the restore scan has
// (completely) run - e.g. the listener receives a payment right after `init -r`, or after a
// restart that follows an interrupted restore. Nothing in next_child() / receive_tx /
// build_output / issue_invoice_tx looks at the wallet's init status (InitNeedsScanning).
//
// The test FAILS on the unmodified tree.

#[macro_use]
extern crate log;
extern crate grin_wallet_controller as wallet;
extern crate grin_wallet_impls as impls;

use grin_core as core;
use grin_util as util;

use self::core::consensus;
use self::core::core::OutputFeatures;
use grin_wallet_libwallet as libwallet;
use impls::test_framework::{self, LocalWalletClient};
use std::collections::HashMap;
use std::sync::atomic::Ordering;
use std::thread;
use std::time::Duration;
use util::ZeroingString;

#[macro_use]
mod common;
use common::{clean_output_dir, create_wallet_proxy, setup};

fn restore_hands_out_used_path_impl(test_dir: &'static str) -> Result<(), libwallet::Error> {
	let seed_phrase = "affair pistol cancel crush garment candy ancient flag work \
	                   market crush dry stand focus mutual weapon offer ceiling rival turn team spring \
	                   where swift";
	let seed_phrase = Some(ZeroingString::from(seed_phrase));
	let no_seed: Option<ZeroingString> = None;

	let mut wallet_proxy = create_wallet_proxy(test_dir);
	let chain = wallet_proxy.chain.clone();
	let stopper = wallet_proxy.running.clone();

	// a miner with a seed of its own: pays the others
	create_wallet_and_add!(
		m_client,
		miner,
		miner_mask_i,
		test_dir,
		"miner",
		no_seed,
		&mut wallet_proxy,
		false
	);
	let miner_mask = (&miner_mask_i).as_ref();

	// the original wallet (seed S)
	create_wallet_and_add!(
		client1,
		wallet1,
		mask1_i,
		test_dir,
		"wallet1",
		seed_phrase,
		&mut wallet_proxy,
		false
	);
	let mask1 = (&mask1_i).as_ref();

	// the wallet restored from seed S later on ("init -r": the database is new, the init
	// status says InitNeedsScanning, the restore scan runs with the first refresh)
	create_wallet_and_add!(
		client2,
		wallet2,
		mask2_i,
		test_dir,
		"wallet2",
		seed_phrase,
		&mut wallet_proxy,
		false
	);
	let mask2 = (&mask2_i).as_ref();

	thread::spawn(move || {
		if let Err(e) = wallet_proxy.run() {
			error!("Wallet Proxy error: {}", e);
		}
	});

	let base = consensus::GRIN_BASE;
	let _ =
		test_framework::award_blocks_to_wallet(&chain, miner.clone(), miner_mask, 10, false);

	// the original wallet receives two payments: paths m/0/0/0 and m/0/0/1, both confirmed
	// and unspent on chain
	test_framework::send_to_dest(
		miner.clone(),
		miner_mask,
		m_client.clone(),
		"wallet1",
		base * 1,
		false,
	)?;
	test_framework::send_to_dest(
		miner.clone(),
		miner_mask,
		m_client.clone(),
		"wallet1",
		base * 2,
		false,
	)?;
	let _ = test_framework::award_blocks_to_wallet(&chain, miner.clone(), miner_mask, 3, false);

	let mut on_chain_paths = vec![];
	wallet::controller::owner_single_use(Some(wallet1.clone()), mask1, None, |api, m| {
		let (refreshed, outputs) = api.retrieve_outputs(m, false, true, None)?;
		assert!(refreshed);
		assert_eq!(outputs.len(), 2);
		for o in outputs {
			assert_eq!(o.output.status, libwallet::OutputStatus::Unspent);
			on_chain_paths.push(o.output.key_id.clone());
		}
		Ok(())
	})?;
	println!("paths of seed S on chain: {:?}", on_chain_paths);

	// Now the restored wallet comes into use. Its listener is up before any owner command
	// has refreshed it (or: the first refresh could not reach the node; or: the restore scan
	// was interrupted and the wallet restarted) and a payment comes in.
	test_framework::send_to_dest(
		miner.clone(),
		miner_mask,
		m_client.clone(),
		"wallet2",
		base * 3,
		false,
	)?;
	// ... and the owner builds an output
	let mut built = None;
	wallet::controller::owner_single_use(Some(wallet2.clone()), mask2, None, |api, m| {
		built = Some(api.build_output(m, OutputFeatures::Plain, base * 4)?.key_id);
		Ok(())
	})?;
	let built = built.unwrap();
	println!("path handed to build_output before the restore scan: {:?}", built);

	let _ = test_framework::award_blocks_to_wallet(&chain, miner.clone(), miner_mask, 3, false);

	// the restore proper: the first refresh runs the full scan
	let mut by_path: HashMap<String, Vec<String>> = HashMap::new();
	wallet::controller::owner_single_use(Some(wallet2.clone()), mask2, None, |api, m| {
		let (refreshed, _) = api.retrieve_summary_info(m, true, 1)?;
		assert!(refreshed);
		let (_, outputs) = api.retrieve_outputs(m, true, false, None)?;
		for o in outputs {
			println!(
				"wallet2 output: {} value {} status {} commit {:?}",
				o.output.key_id, o.output.value, o.output.status, o.commit
			);
			by_path
				.entry(format!("{}", o.output.key_id))
				.or_insert(vec![])
				.push(format!("{:?}", o.commit));
		}
		Ok(())
	})?;

	stopper.store(false, Ordering::Relaxed);
	thread::sleep(Duration::from_millis(200));

	let mut violations: Vec<String> = vec![];
	// C15: no path handed out by the restored wallet is one found on chain ...
	if on_chain_paths.contains(&built) {
		violations.push(format!(
			"build_output on the restored wallet was given path {}, which an unspent output on chain already uses",
			built
		));
	}
	// ... and no two outputs of the wallet share a path
	for (path, commits) in by_path.iter() {
		if commits.len() != 1 {
			violations.push(format!(
				"path {} is used by {} different outputs of the restored wallet: {:?}",
				path,
				commits.len(),
				commits
			));
		}
	}
	assert!(violations.is_empty(), "C15 violated: {:#?}", violations);
	Ok(())
}

#[test]
fn restore_hands_out_used_path() {
	let test_dir = "test_output/hunt_c15_1";
	setup(test_dir);
	if let Err(e) = restore_hands_out_used_path_impl(test_dir) {
		panic!("Libwallet Error: {}", e);
	}
	clean_output_dir(test_dir);
}
