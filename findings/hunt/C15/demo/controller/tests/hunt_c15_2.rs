// C15 hunt, finding 2: build_coinbase reuses a caller-named key id whenever the wallet's
// RECORD of that candidate still says Unconfirmed - without looking at the chain. The record
// is only as fresh as the last refresh of that account (build_coinbase never refreshes), so a
// candidate that has been MINED in the meantime (it is an unspent output on chain) is
// "replaced": the next coinbase gets the same derivation path, and two different outputs on
// chain share a blinding key.
//
// The test FAILS on the unmodified tree.

#[macro_use]
extern crate log;
extern crate grin_wallet_controller as wallet;
extern crate grin_wallet_impls as impls;

use grin_core as core;
use grin_util as util;

use self::core::consensus;
use grin_wallet_libwallet as libwallet;
use impls::test_framework::{self, LocalWalletClient};
use libwallet::api_impl::{foreign, owner};
use libwallet::{BlockFees, InitTxArgs, NodeClient};
use std::collections::HashMap;
use std::sync::atomic::Ordering;
use std::thread;
use std::time::Duration;
use util::ZeroingString;

#[macro_use]
mod common;
use common::{clean_output_dir, create_wallet_proxy, setup};

fn coinbase_reuses_mined_path_impl(test_dir: &'static str) -> Result<(), libwallet::Error> {
	let no_seed: Option<ZeroingString> = None;

	let mut wallet_proxy = create_wallet_proxy(test_dir);
	let chain = wallet_proxy.chain.clone();
	let stopper = wallet_proxy.running.clone();

	// the wallet whose coinbases we look at
	create_wallet_and_add!(
		client1,
		wallet1,
		mask1_i,
		test_dir,
		"wallet1",
		no_seed,
		&mut wallet_proxy,
		false
	);
	let mask1 = (&mask1_i).as_ref();

	// another wallet, only there to produce a transaction with a fee
	create_wallet_and_add!(
		client2,
		wallet2,
		mask2_i,
		test_dir,
		"wallet2",
		no_seed,
		&mut wallet_proxy,
		false
	);
	let mask2 = (&mask2_i).as_ref();

	thread::spawn(move || {
		if let Err(e) = wallet_proxy.run() {
			error!("Wallet Proxy error: {}", e);
		}
	});

	let _ = test_framework::award_blocks_to_wallet(&chain, wallet2.clone(), mask2, 6, false);

	// 1) the mining node asks wallet1 for a coinbase (no key id named) and mines the block
	let height = chain.head_header().unwrap().height + 1;
	let cb1 = {
		let mut w_lock = wallet1.lock();
		let w = w_lock.lc_provider()?.wallet_inst()?;
		foreign::build_coinbase(
			&mut **w,
			mask1,
			&BlockFees {
				fees: 0,
				key_id: None,
				height,
			},
			false,
		)?
	};
	let k1 = cb1.key_id.clone().unwrap();
	let commit1 = cb1.output.commitment();
	test_framework::add_block_with_reward(&chain, &[], cb1.output.clone(), cb1.kernel.clone());
	// the candidate is now a confirmed, unspent output on chain
	assert!(client1
		.get_outputs_from_node(vec![commit1])?
		.contains_key(&commit1));

	// 2) a transaction with a fee for the next block (wallet2 -> wallet1)
	let tx = {
		let mut w_lock = wallet2.lock();
		let w = w_lock.lc_provider()?.wallet_inst()?;
		let args = InitTxArgs {
			src_acct_name: None,
			amount: consensus::GRIN_BASE,
			minimum_confirmations: 2,
			max_outputs: 500,
			num_change_outputs: 1,
			selection_strategy_is_use_all: false,
			..Default::default()
		};
		let slate_i = owner::init_send_tx(&mut **w, mask2, args, false)?;
		let slate = client2.send_tx_slate_direct("wallet1", &slate_i)?;
		owner::tx_lock_outputs(&mut **w, mask2, &slate)?;
		let slate = owner::finalize_tx(&mut **w, mask2, &slate)?;
		slate.tx_or_err()?.clone()
	};
	let fees = tx.fee();
	assert!(fees > 0);

	// 3) the node asks for the coinbase of the next block and names the key id it was given
	// before. Nothing has refreshed wallet1 in between: its record of k1 still says
	// Unconfirmed.
	let height = chain.head_header().unwrap().height + 1;
	let cb2 = {
		let mut w_lock = wallet1.lock();
		let w = w_lock.lc_provider()?.wallet_inst()?;
		foreign::build_coinbase(
			&mut **w,
			mask1,
			&BlockFees {
				fees,
				key_id: Some(k1.clone()),
				height,
			},
			false,
		)?
	};
	let k2 = cb2.key_id.clone().unwrap();
	let commit2 = cb2.output.commitment();
	println!("coinbase 1: path {} commit {:?}", k1, commit1);
	println!("coinbase 2: path {} commit {:?}", k2, commit2);
	assert_ne!(commit1, commit2);
	test_framework::add_block_with_reward(&chain, &[tx], cb2.output.clone(), cb2.kernel.clone());

	// both coinbase outputs are in the UTXO set
	let on_chain = client1.get_outputs_from_node(vec![commit1, commit2])?;
	assert_eq!(on_chain.len(), 2);

	let _ = test_framework::award_blocks_to_wallet(&chain, wallet2.clone(), mask2, 3, false);

	// what the wallet makes of it after a refresh and a scan
	let mut by_path: HashMap<String, Vec<String>> = HashMap::new();
	wallet::controller::owner_single_use(Some(wallet1.clone()), mask1, None, |api, m| {
		let (refreshed, _) = api.retrieve_summary_info(m, true, 1)?;
		assert!(refreshed);
		api.scan(m, None, false)?;
		let (_, outputs) = api.retrieve_outputs(m, true, false, None)?;
		for o in outputs {
			println!(
				"wallet1 output: {} value {} status {} coinbase {} commit {:?}",
				o.output.key_id, o.output.value, o.output.status, o.output.is_coinbase, o.commit
			);
			by_path
				.entry(format!("{}", o.output.key_id))
				.or_insert(vec![])
				.push(format!("{:?}", o.commit));
		}
		Ok(())
	})?;

	stopper.store(false, Ordering::Relaxed);
	thread::sleep(Duration::from_millis(200));

	let mut violations: Vec<String> = vec![];
	// C15: the candidate under k1 is not "still unconfirmed": it is on chain. The second
	// coinbase is a different output and needs a path of its own.
	if k1 == k2 {
		violations.push(format!(
			"two different coinbase outputs on chain ({:?} and {:?}) were built with the same path {}",
			commit1, commit2, k1
		));
	}
	for (path, commits) in by_path.iter() {
		if commits.len() != 1 {
			violations.push(format!(
				"path {} is used by {} different outputs of the wallet: {:?}",
				path,
				commits.len(),
				commits
			));
		}
	}
	assert!(violations.is_empty(), "C15 violated: {:#?}", violations);
	Ok(())
}

#[test]
fn coinbase_reuses_mined_path() {
	let test_dir = "test_output/hunt_c15_2";
	setup(test_dir);
	if let Err(e) = coinbase_reuses_mined_path_impl(test_dir) {
		panic!("Libwallet Error: {}", e);
	}
	clean_output_dir(test_dir);
}
