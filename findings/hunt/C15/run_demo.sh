#!/bin/bash
# Usage: run_demo.sh [checkout-dir] [target-dir]
# Copies the demonstration tests into a checkout of grin-wallet and runs them.
# Exit status is non-zero when a test fails (= the violation is reproduced).
HERE="$(cd "$(dirname "$0")" && pwd)"
CHECKOUT="${1:-/tmp/hunt_C15}"
export CARGO_TARGET_DIR="${2:-/tmp/hunt_C15_target}"
cp "$HERE"/demo/controller/tests/hunt_c15_1.rs "$HERE"/demo/controller/tests/hunt_c15_2.rs "$CHECKOUT"/controller/tests/ || exit 2
cd "$CHECKOUT" || exit 2
rc=0
for t in hunt_c15_1 hunt_c15_2; do
	echo "=== $t ==="
	cargo test -p grin_wallet_controller --offline --test $t -- --nocapture 2>&1 | grep -E "C15 violated|^    \"|wallet[12] output|coinbase [12]:|paths of seed|path handed|test result|^test "
	[ "${PIPESTATUS[0]}" -eq 0 ] || rc=1
done
exit $rc
