// C16 hunt, finding 1:
// `scan` with a start height above the height of a pending send's inputs and
// `delete_unconfirmed = true` cancels the pending transaction (log entry ->
// TxSentCancelled, change output deleted) but leaves that transaction's inputs
// Locked, although they are unspent on the chain. The wallet's balances are not
// repaired to the chain's truth, and nothing but a later full-range scan frees them
// (cancel_tx refuses the already cancelled entry).

#[macro_use]
extern crate log;
extern crate grin_wallet_controller as wallet;
extern crate grin_wallet_impls as impls;

use grin_core as core;

use self::core::global;
use grin_wallet_libwallet as libwallet;
use impls::test_framework::{self, LocalWalletClient};
use libwallet::{InitTxArgs, OutputStatus, TxLogEntryType};
use std::sync::atomic::Ordering;
use std::thread;
use std::time::Duration;

#[macro_use]
mod common;
use common::{clean_output_dir, create_wallet_proxy, setup};

fn partial_scan_drop_pending_impl(test_dir: &'static str) -> Result<(), libwallet::Error> {
	let mut wallet_proxy = create_wallet_proxy(test_dir);
	let chain = wallet_proxy.chain.clone();
	let stopper = wallet_proxy.running.clone();

	create_wallet_and_add!(
		client1,
		wallet1,
		mask1_i,
		test_dir,
		"wallet1",
		None,
		&mut wallet_proxy,
		false
	);
	let mask1 = (&mask1_i).as_ref();

	thread::spawn(move || {
		if let Err(e) = wallet_proxy.run() {
			error!("Wallet Proxy error: {}", e);
		}
	});

	let reward = core::consensus::REWARD;
	let cm = global::coinbase_maturity() as u64;

	// mine some blocks to the wallet
	let bh = 10u64;
	let _ =
		test_framework::award_blocks_to_wallet(&chain, wallet1.clone(), mask1, bh as usize, false);

	// the chain's truth: bh coinbase outputs, (bh - cm) of them mature
	let mut spendable_before = 0;
	wallet::controller::owner_single_use(Some(wallet1.clone()), mask1, None, |api, m| {
		let (refreshed, info) = api.retrieve_summary_info(m, true, 1)?;
		assert!(refreshed);
		assert_eq!(info.total, bh * reward);
		assert_eq!(info.amount_currently_spendable, (bh - cm) * reward);
		assert_eq!(info.amount_locked, 0);
		spendable_before = info.amount_currently_spendable;
		Ok(())
	})?;

	// start a send and reserve its inputs, but never finish it (nothing is broadcast)
	let mut slate_id = None;
	wallet::controller::owner_single_use(Some(wallet1.clone()), mask1, None, |api, m| {
		let args = InitTxArgs {
			src_acct_name: None,
			amount: reward * 2,
			minimum_confirmations: cm,
			max_outputs: 500,
			num_change_outputs: 1,
			selection_strategy_is_use_all: false,
			..Default::default()
		};
		let slate = api.init_send_tx(m, args)?;
		api.tx_lock_outputs(m, &slate)?;
		slate_id = Some(slate.id);
		Ok(())
	})?;

	// the reserved inputs are coinbases well below the tip
	let mut locked_heights = vec![];
	wallet::controller::owner_single_use(Some(wallet1.clone()), mask1, None, |api, m| {
		let (_, info) = api.retrieve_summary_info(m, true, 1)?;
		assert!(info.amount_locked > 0);
		let outs = api.retrieve_outputs(m, false, true, None)?.1;
		for o in outs {
			if o.output.status == OutputStatus::Locked {
				locked_heights.push(o.output.height);
			}
		}
		Ok(())
	})?;
	println!("heights of the reserved inputs: {:?}", locked_heights);
	let start_height = bh - 1;
	assert!(locked_heights.iter().all(|h| *h < start_height));

	// "drop my pending transactions", scanning the recent blocks only
	// (CLI: grin-wallet scan --delete_unconfirmed --start_height <h>)
	wallet::controller::owner_single_use(Some(wallet1.clone()), mask1, None, |api, m| {
		api.scan(m, Some(start_height), true)?;
		Ok(())
	})?;

	let mut locked_after = 0;
	let mut spendable_after = 0;
	let mut total_after = 0;
	let mut n_locked_after = 0;
	let mut n_unconfirmed_after = 0;
	let mut tx_type_after = None;
	let mut cancel_res = None;
	wallet::controller::owner_single_use(Some(wallet1.clone()), mask1, None, |api, m| {
		let (_, info) = api.retrieve_summary_info(m, true, 1)?;
		locked_after = info.amount_locked;
		spendable_after = info.amount_currently_spendable;
		total_after = info.total;
		let outs = api.retrieve_outputs(m, false, true, None)?.1;
		for o in outs {
			match o.output.status {
				OutputStatus::Locked => n_locked_after += 1,
				OutputStatus::Unconfirmed => n_unconfirmed_after += 1,
				_ => {}
			}
		}
		let (_, txs) = api.retrieve_txs(m, true, None, slate_id, None)?;
		tx_type_after = Some(txs[0].tx_type.clone());
		// the owner cannot free them by cancelling either
		cancel_res = Some(api.cancel_tx(m, None, slate_id).is_ok());
		Ok(())
	})?;
	println!(
		"after scan(start_height={}, delete_unconfirmed=true): tx type {:?}, locked outputs {}, \
		 unconfirmed outputs {}, amount_locked {}, spendable {} (chain truth {}), total {} (chain truth {}), \
		 cancel_tx ok: {:?}",
		start_height,
		tx_type_after,
		n_locked_after,
		n_unconfirmed_after,
		locked_after,
		spendable_after,
		spendable_before,
		total_after,
		bh * reward,
		cancel_res
	);

	// a second identical scan changes nothing (it stays wrong)
	wallet::controller::owner_single_use(Some(wallet1.clone()), mask1, None, |api, m| {
		api.scan(m, Some(start_height), true)?;
		let (_, info) = api.retrieve_summary_info(m, true, 1)?;
		assert_eq!(info.amount_locked, locked_after);
		Ok(())
	})?;

	// the pending transaction has been dropped ...
	assert_eq!(tx_type_after, Some(TxLogEntryType::TxSentCancelled));
	assert_eq!(n_unconfirmed_after, 0);
	// ... so, nothing of it being on the chain, every output it had reserved is unspent in the
	// chain's UTXO set and must be spendable again
	assert_eq!(
		locked_after, 0,
		"outputs of the dropped transaction are still reserved"
	);
	assert_eq!(spendable_after, spendable_before);
	assert_eq!(total_after, bh * reward);

	stopper.store(false, Ordering::Relaxed);
	thread::sleep(Duration::from_millis(200));
	Ok(())
}

#[test]
fn partial_scan_drop_pending() {
	let test_dir = "test_output/hunt_c16_1";
	setup(test_dir);
	if let Err(e) = partial_scan_drop_pending_impl(test_dir) {
		panic!("Libwallet Error: {}", e);
	}
	clean_output_dir(test_dir);
}
