// C16 hunt, finding 2:
// When a scan discovers outputs under an account path the wallet has no mapping for, it files
// the path under the generated label "account_<number of accounts>" with set_acct_path, which
// overwrites an existing label of the same name. A wallet recovered from the seed in which the
// owner had already created an account called "account_2" (at m/1/0) loses the mapping of
// m/1/0 as soon as the scan finds outputs under m/2/0: the outputs at m/1/0 are restored, but
// belong to no account any more, and the wallet's accounts together report less than the
// original wallet does.

#[macro_use]
extern crate log;
extern crate grin_wallet_controller as wallet;
extern crate grin_wallet_impls as impls;

use grin_core as core;
use grin_util as util;

use self::core::global;
use grin_wallet_libwallet as libwallet;
use impls::test_framework::{self, LocalWalletClient};
use std::sync::atomic::Ordering;
use std::thread;
use std::time::Duration;
use util::ZeroingString;

#[macro_use]
mod common;
use common::{clean_output_dir, create_wallet_proxy, setup};

fn restore_label_collision_impl(test_dir: &'static str) -> Result<(), libwallet::Error> {
	let seed_phrase = "affair pistol cancel crush garment candy ancient flag work \
	                   market crush dry stand focus mutual weapon offer ceiling rival turn team spring \
	                   where swift";
	let seed_phrase = Some(ZeroingString::from(seed_phrase));

	let mut wallet_proxy = create_wallet_proxy(test_dir);
	let chain = wallet_proxy.chain.clone();
	let stopper = wallet_proxy.running.clone();

	// the original wallet
	create_wallet_and_add!(
		client1,
		wallet1,
		mask1_i,
		test_dir,
		"wallet1",
		seed_phrase,
		&mut wallet_proxy,
		false
	);
	let mask1 = (&mask1_i).as_ref();
	// the wallet recovered from the same phrase
	create_wallet_and_add!(
		client2,
		wallet2,
		mask2_i,
		test_dir,
		"wallet2",
		seed_phrase,
		&mut wallet_proxy,
		false
	);
	let mask2 = (&mask2_i).as_ref();

	thread::spawn(move || {
		if let Err(e) = wallet_proxy.run() {
			error!("Wallet Proxy error: {}", e);
		}
	});

	let reward = core::consensus::REWARD;
	let cm = global::coinbase_maturity() as u64;

	// original wallet: three accounts (m/0/0, m/1/0, m/2/0), each mining some blocks
	wallet::controller::owner_single_use(Some(wallet1.clone()), mask1, None, |api, m| {
		api.create_account_path(m, "savings")?; // m/1/0
		api.create_account_path(m, "business")?; // m/2/0
		Ok(())
	})?;
	let per_acct = 3usize;
	for acct in &["default", "savings", "business"] {
		wallet::controller::owner_single_use(Some(wallet1.clone()), mask1, None, |api, m| {
			api.set_active_account(m, acct)?;
			Ok(())
		})?;
		let _ =
			test_framework::award_blocks_to_wallet(&chain, wallet1.clone(), mask1, per_acct, false);
	}
	// let everything mature
	wallet::controller::owner_single_use(Some(wallet1.clone()), mask1, None, |api, m| {
		api.set_active_account(m, "default")?;
		Ok(())
	})?;
	let _ =
		test_framework::award_blocks_to_wallet(&chain, wallet1.clone(), mask1, cm as usize, false);

	// what the original wallet reports, over all of its accounts
	let mut orig_total = 0;
	let mut orig_outputs = 0;
	let mut orig_paths = vec![];
	wallet::controller::owner_single_use(Some(wallet1.clone()), mask1, None, |api, m| {
		for a in api.accounts(m)? {
			api.set_active_account(m, &a.label)?;
			let (_, info) = api.retrieve_summary_info(m, true, 1)?;
			let outs = api.retrieve_outputs(m, false, true, None)?.1;
			println!(
				"original  {:<10} {:?}: {} outputs, total {}",
				a.label,
				a.path,
				outs.len(),
				info.total
			);
			orig_total += info.total;
			orig_outputs += outs.len();
			orig_paths.push(a.path.clone());
		}
		Ok(())
	})?;
	assert_eq!(orig_total, (3 * per_acct as u64 + cm) * reward);

	// recovered wallet: the owner creates the one extra account he wants to use first, then scans
	wallet::controller::owner_single_use(Some(wallet2.clone()), mask2, None, |api, m| {
		api.create_account_path(m, "account_2")?; // m/1/0
		api.scan(m, None, false)?;
		Ok(())
	})?;

	let mut rest_total = 0;
	let mut rest_outputs = 0;
	let mut rest_paths = vec![];
	let mut all_outputs = 0;
	wallet::controller::owner_single_use(Some(wallet2.clone()), mask2, None, |api, m| {
		for a in api.accounts(m)? {
			api.set_active_account(m, &a.label)?;
			let (_, info) = api.retrieve_summary_info(m, true, 1)?;
			let outs = api.retrieve_outputs(m, false, true, None)?.1;
			println!(
				"recovered {:<10} {:?}: {} outputs, total {}",
				a.label,
				a.path,
				outs.len(),
				info.total
			);
			rest_total += info.total;
			rest_outputs += outs.len();
			rest_paths.push(a.path.clone());
		}
		Ok(())
	})?;
	{
		wallet_inst!(wallet2, w);
		for o in w.iter() {
			if o.status != libwallet::OutputStatus::Spent {
				all_outputs += 1;
				if !rest_paths.contains(&o.root_key_id) {
					println!(
						"recovered output {:?} value {} is filed under {:?}, which no account maps to",
						o.key_id, o.value, o.root_key_id
					);
				}
			}
		}
	}
	println!(
		"original: {} outputs / total {}; recovered (over its accounts): {} outputs / total {}; \
		 recovered records in the database: {}",
		orig_outputs, orig_total, rest_outputs, rest_total, all_outputs
	);

	// a second scan does not settle it either: the generated label is the same again, so the
	// mapping flips to the other path and back with every scan
	wallet::controller::owner_single_use(Some(wallet2.clone()), mask2, None, |api, m| {
		api.scan(m, None, false)?;
		for a in api.accounts(m)? {
			println!("after second scan: {:<10} {:?}", a.label, a.path);
		}
		Ok(())
	})?;

	// every account path of the original wallet is an account of the recovered one
	for p in orig_paths.iter() {
		assert!(
			rest_paths.contains(p),
			"account path {:?} has no account in the recovered wallet",
			p
		);
	}
	// and the recovered wallet reports what the original does
	assert_eq!(rest_outputs, orig_outputs);
	assert_eq!(rest_total, orig_total);

	stopper.store(false, Ordering::Relaxed);
	thread::sleep(Duration::from_millis(200));
	Ok(())
}

#[test]
fn restore_label_collision() {
	let test_dir = "test_output/hunt_c16_2";
	setup(test_dir);
	if let Err(e) = restore_label_collision_impl(test_dir) {
		panic!("Libwallet Error: {}", e);
	}
	clean_output_dir(test_dir);
}
