// C16 hunt, finding 3:
// scan::scan repairs a record that is Spent (or Locked) although its commitment is in the UTXO
// set by flipping the status only; the height the chain reports for the output is not written to
// the record. After a reorganisation in which the sender's transaction is reverted and mined again
// in a later block, the first scan leaves the change output Unspent with the height of the block
// of the abandoned fork (so the wallet counts confirmations the output does not have, and reports
// it spendable under a minimum_confirmations it does not meet), and the SECOND scan - whose
// refresh now includes the record, because it is no longer Spent - changes the record and the
// reported balances. So the first scan neither restores the right height nor is it idempotent.

#[macro_use]
mod common;

use common::{clean_output_dir, create_wallet_proxy, setup};
use grin_core as core;
use grin_core::core::hash::Hashed;
use grin_core::global;
use grin_wallet_controller::controller::owner_single_use as owner;
use grin_wallet_impls::test_framework::*;
use grin_wallet_libwallet as libwallet;
use grin_wallet_libwallet::api_impl::types::InitTxArgs;
use grin_wallet_libwallet::{NodeClient, OutputStatus};
use log::error;
use std::sync::atomic::Ordering;
use std::thread;
use std::time::Duration;

fn reorg_scan_height_impl(test_dir: &'static str) -> Result<(), libwallet::Error> {
	let mut wallet_proxy = create_wallet_proxy(test_dir);
	let stopper = wallet_proxy.running.clone();
	let chain = wallet_proxy.chain.clone();
	let test_dir2 = format!("{}/chain2", test_dir);
	let wallet_proxy2 = create_wallet_proxy(&test_dir2);
	let chain2 = wallet_proxy2.chain.clone();
	let stopper2 = wallet_proxy2.running.clone();

	create_wallet_and_add!(
		client1,
		wallet1,
		mask1_i,
		test_dir,
		"wallet1",
		None,
		&mut wallet_proxy,
		false
	);
	let mask1 = mask1_i.as_ref();
	create_wallet_and_add!(
		client2,
		wallet2,
		mask2_i,
		test_dir,
		"wallet2",
		None,
		&mut wallet_proxy,
		false
	);
	let _mask2 = mask2_i.as_ref();

	std::thread::spawn(move || {
		if let Err(e) = wallet_proxy.run() {
			error!("Wallet Proxy error: {}", e);
		}
	});

	let reward = core::consensus::REWARD;
	let cm = global::coinbase_maturity() as u64;
	let sent = reward * 2;

	let bh = 10u64;
	award_blocks_to_wallet(&chain, wallet1.clone(), mask1, bh as usize, false)?;

	// wallet1 sends to wallet2; the finalized transaction is kept for mining by hand
	let mut tx = None;
	let mut slate_id = None;
	owner(Some(wallet1.clone()), mask1, None, |api, m| {
		let (_, info) = api.retrieve_summary_info(m, true, 1)?;
		assert_eq!(info.total, bh * reward);
		let args = InitTxArgs {
			src_acct_name: None,
			amount: sent,
			minimum_confirmations: cm,
			max_outputs: 500,
			num_change_outputs: 1,
			selection_strategy_is_use_all: false,
			..Default::default()
		};
		let slate = api.init_send_tx(m, args)?;
		api.tx_lock_outputs(m, &slate)?;
		let slate = client1.send_tx_slate_direct("wallet2", &slate)?;
		let slate = api.finalize_tx(m, &slate)?;
		slate_id = Some(slate.id);
		tx = slate.tx;
		Ok(())
	})?;
	let tx = tx.expect("tx from slate");

	// a parallel chain with the same first blocks
	for i in 0..bh {
		let hash = chain.get_header_by_height(i + 1).unwrap().hash();
		let block = chain.get_block(&hash).unwrap();
		process_block(&chain2, block);
	}
	// height 11: with the transaction on the main chain, without it on the parallel one
	let head = chain.head_header().unwrap();
	let block_with =
		create_block_for_wallet(&chain, head.clone(), &[tx.clone()], wallet1.clone(), mask1)?;
	let block_without = create_block_for_wallet(&chain, head, &[], wallet1.clone(), mask1)?;
	process_block(&chain, block_with.clone());
	process_block(&chain2, block_without.clone());
	let h_fork = bh + 1;

	// the sender sees its transaction confirmed: change output Unspent at height 11
	let mut change_key = None;
	owner(Some(wallet1.clone()), mask1, None, |api, m| {
		let (_, _info) = api.retrieve_summary_info(m, true, 1)?;
		let (_, txs) = api.retrieve_txs(m, false, None, slate_id, None)?;
		assert!(txs[0].confirmed);
		let outs = api.retrieve_outputs(m, true, false, Some(txs[0].id))?.1;
		for o in outs {
			if o.output.status == OutputStatus::Unspent {
				assert_eq!(o.output.height, h_fork);
				change_key = Some(o.output.key_id.clone());
			}
		}
		Ok(())
	})?;
	let change_key = change_key.expect("change output");

	// reorganisation: the parallel chain gets longer and replaces block 11; the transaction is gone
	award_block_to_wallet(&chain2, &[], wallet1.clone(), mask1)?;
	let new_head = chain2
		.get_block(&chain2.head_header().unwrap().hash())
		.unwrap();
	process_block(&chain, block_without.clone());
	process_block(&chain, new_head.clone());
	assert_eq!(chain.head_header().unwrap(), new_head.header);
	assert_eq!(chain.head_header().unwrap().height, bh + 2);

	// the owner scans after the reorganisation: balances follow the chain (the send is undone)
	owner(Some(wallet1.clone()), mask1, None, |api, m| {
		api.scan(m, None, false)?;
		let (_, info) = api.retrieve_summary_info(m, true, 1)?;
		assert_eq!(info.total, (bh + 2) * reward);
		Ok(())
	})?;

	// the transaction is mined again (it is still valid), two blocks later than on the old fork
	award_block_to_wallet(&chain, &[tx.clone()], wallet1.clone(), mask1)?;
	let h_real = bh + 3;
	assert_eq!(chain.head_header().unwrap().height, h_real);

	// what the chain says about the change output
	let change_commit = {
		wallet_inst!(wallet1, w);
		let o = w.get(&change_key, &None)?;
		let k = w.keychain(mask1)?;
		use grin_keychain::Keychain;
		k.commit(
			o.value,
			&o.key_id,
			grin_keychain::SwitchCommitmentType::Regular,
		)
		.unwrap()
	};
	let node_view = client1.get_outputs_from_node(vec![change_commit])?;
	let chain_height = node_view.get(&change_commit).expect("change is on chain").1;
	assert_eq!(chain_height, h_real);

	// first scan
	let min_conf = 3;
	let mut info_first = None;
	owner(Some(wallet1.clone()), mask1, None, |api, m| {
		api.scan(m, None, false)?;
		// (no refresh: exactly what the scan left behind)
		info_first = Some(api.retrieve_summary_info(m, false, min_conf)?.1);
		Ok(())
	})?;
	let after_first = {
		wallet_inst!(wallet1, w);
		w.get(&change_key, &None)?
	};
	let info_first = info_first.unwrap();

	// second scan, nothing having happened in between
	let mut info_second = None;
	owner(Some(wallet1.clone()), mask1, None, |api, m| {
		api.scan(m, None, false)?;
		// (no refresh: exactly what the scan left behind)
		info_second = Some(api.retrieve_summary_info(m, false, min_conf)?.1);
		Ok(())
	})?;
	let after_second = {
		wallet_inst!(wallet1, w);
		w.get(&change_key, &None)?
	};
	let info_second = info_second.unwrap();

	println!(
		"change output {}: chain height {}; after first scan: {:?} height {}; after second scan: {:?} height {}",
		change_key, chain_height, after_first.status, after_first.height, after_second.status, after_second.height
	);
	println!(
		"tip {}, minimum_confirmations {}: spendable after first scan {}, after second scan {}; \
		 awaiting confirmation after first scan {}, after second scan {}",
		h_real,
		min_conf,
		info_first.amount_currently_spendable,
		info_second.amount_currently_spendable,
		info_first.amount_awaiting_confirmation,
		info_second.amount_awaiting_confirmation
	);

	assert_eq!(after_first.status, OutputStatus::Unspent);
	// a second scan changes nothing: neither the balances ...
	assert_eq!(
		info_first.amount_currently_spendable, info_second.amount_currently_spendable,
		"the second scan changed the spendable balance the first scan had left"
	);
	// ... nor the record
	assert_eq!(after_first.height, after_second.height);
	// and the repaired record carries the height the chain has the output at
	assert_eq!(
		after_first.height, chain_height,
		"first scan left the height of the abandoned fork on the repaired output"
	);

	stopper.store(false, Ordering::Relaxed);
	stopper2.store(false, Ordering::Relaxed);
	thread::sleep(Duration::from_millis(500));
	Ok(())
}

#[test]
fn reorg_scan_height() {
	let test_dir = "test_output/hunt_c16_3";
	setup(test_dir);
	if let Err(e) = reorg_scan_height_impl(test_dir) {
		panic!("Libwallet Error: {}", e);
	}
	clean_output_dir(test_dir);
}
