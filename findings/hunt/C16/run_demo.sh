#!/bin/bash
# Usage: run_demo.sh <grin-wallet checkout> [cargo target dir]
# Copies the C16 demonstration tests into <checkout>/controller/tests and runs them.
# Every test asserts what property C16 requires, so it FAILS on the unmodified tree.
# Exit status: non-zero when any of the tests fails.
set -u
HERE="$(cd "$(dirname "$0")" && pwd)"
CHECKOUT="${1:?usage: run_demo.sh <checkout> [target dir]}"
export CARGO_TARGET_DIR="${2:-${CARGO_TARGET_DIR:-$CHECKOUT/target}}"
cp "$HERE"/demo/controller/tests/hunt_c16_*.rs "$CHECKOUT/controller/tests/" || exit 2
cd "$CHECKOUT" || exit 2
rc=0
for t in hunt_c16_1 hunt_c16_2 hunt_c16_3; do
	echo "=== $t ==="
	cargo test -p grin_wallet_controller --offline --test "$t" -- --nocapture || rc=1
done
exit $rc
