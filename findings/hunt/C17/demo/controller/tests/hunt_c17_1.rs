// C17 hunt, finding 1: the issuer of an invoice never releases its pending
// transaction when the slate's time-to-live cutoff has passed.
//
// The payer attaches the cutoff while paying (`process_invoice_tx` with
// `ttl_blocks`), the issuer checks it in `finalize_tx` - but the issuer's own
// log entry (written by `issue_invoice_tx`, before any cutoff existed) never
// learns it, so a refresh at or beyond the cutoff leaves the issuer's
// unconfirmed transaction and its output pending for ever, while the payer's
// side of the very same transaction is cancelled.
#[macro_use]
extern crate log;
extern crate grin_wallet_controller as wallet;
extern crate grin_wallet_impls as impls;
extern crate grin_wallet_util;

use grin_core as core;
use grin_wallet_libwallet as libwallet;
use impls::test_framework::{self, LocalWalletClient};
use libwallet::{InitTxArgs, IssueInvoiceTxArgs, Slate, SlateState, TxLogEntryType};
use std::sync::atomic::Ordering;
use std::thread;
use std::time::Duration;

#[macro_use]
mod common;
use common::{clean_output_dir, create_wallet_proxy, setup};

fn hunt_c17_1_impl(test_dir: &'static str) -> Result<(), libwallet::Error> {
	let mut wallet_proxy = create_wallet_proxy(test_dir);
	let chain = wallet_proxy.chain.clone();
	let stopper = wallet_proxy.running.clone();

	create_wallet_and_add!(
		client1,
		wallet1,
		mask1_i,
		test_dir,
		"wallet1",
		None,
		&mut wallet_proxy,
		false
	);
	let mask1 = (&mask1_i).as_ref();
	create_wallet_and_add!(
		client2,
		wallet2,
		mask2_i,
		test_dir,
		"wallet2",
		None,
		&mut wallet_proxy,
		false
	);
	let mask2 = (&mask2_i).as_ref();
	let _ = (&client1, &client2);

	thread::spawn(move || {
		if let Err(e) = wallet_proxy.run() {
			error!("Wallet Proxy error: {}", e);
		}
	});

	let reward = core::consensus::REWARD;

	// wallet 1 (the payer) mines to height 10
	let _ = test_framework::award_blocks_to_wallet(&chain, wallet1.clone(), mask1, 10, false);

	// wallet 2 issues an invoice
	let mut slate = Slate::blank(2, true);
	wallet::controller::owner_single_use(Some(wallet2.clone()), mask2, None, |api, m| {
		let args = IssueInvoiceTxArgs {
			amount: reward * 2,
			..Default::default()
		};
		slate = api.issue_invoice_tx(m, args)?;
		Ok(())
	})?;
	assert_eq!(slate.state, SlateState::Invoice1);

	// wallet 1 pays it, with a time to live of 2 blocks: cutoff height 12
	wallet::controller::owner_single_use(Some(wallet1.clone()), mask1, None, |api, m| {
		let args = InitTxArgs {
			src_acct_name: None,
			amount: slate.amount,
			minimum_confirmations: 2,
			max_outputs: 500,
			num_change_outputs: 1,
			selection_strategy_is_use_all: true,
			ttl_blocks: Some(2),
			..Default::default()
		};
		slate = api.process_invoice_tx(m, &slate, args)?;
		api.tx_lock_outputs(m, &slate)?;
		Ok(())
	})?;
	assert_eq!(slate.state, SlateState::Invoice2);
	assert_eq!(slate.ttl_cutoff_height, 12);

	// wallet 2 finalizes (the cutoff lies ahead: accepted) but nobody posts
	wallet::controller::foreign_single_use(wallet2.clone(), mask2_i.clone(), |api| {
		slate = api.finalize_tx(&slate, false)?;
		Ok(())
	})?;
	assert_eq!(slate.state, SlateState::Invoice3);
	// the finalized slate still carries the cutoff
	assert_eq!(slate.ttl_cutoff_height, 12);

	// the chain moves to height 13, beyond the cutoff; the transaction was never mined
	let _ = test_framework::award_blocks_to_wallet(&chain, wallet1.clone(), mask1, 3, false);

	// payer: a refresh cancels its side and releases the inputs (holds)
	wallet::controller::owner_single_use(Some(wallet1.clone()), mask1, None, |api, m| {
		let (refreshed, txs) = api.retrieve_txs(m, true, None, Some(slate.id), None)?;
		assert!(refreshed);
		assert_eq!(txs.len(), 1);
		assert_eq!(txs[0].ttl_cutoff_height, Some(12));
		assert_eq!(txs[0].tx_type, TxLogEntryType::TxSentCancelled);
		let (_, info) = api.retrieve_summary_info(m, true, 1)?;
		assert_eq!(info.amount_locked, 0);
		Ok(())
	})?;

	// issuer: a refresh at height 13 >= 12 must cancel its still-unconfirmed transaction
	// and drop the output it was waiting for
	let mut issuer_type = None;
	let mut issuer_ttl = None;
	let mut issuer_outputs = 0;
	let mut issuer_awaiting = 0;
	let mut issuer_height = 0;
	wallet::controller::owner_single_use(Some(wallet2.clone()), mask2, None, |api, m| {
		let (refreshed, txs) = api.retrieve_txs(m, true, None, Some(slate.id), None)?;
		assert!(refreshed);
		assert_eq!(txs.len(), 1);
		assert!(!txs[0].confirmed);
		issuer_type = Some(txs[0].tx_type.clone());
		issuer_ttl = txs[0].ttl_cutoff_height;
		issuer_outputs = api.retrieve_outputs(m, false, true, None)?.1.len();
		let (_, info) = api.retrieve_summary_info(m, true, 1)?;
		issuer_awaiting = info.amount_awaiting_finalization + info.amount_awaiting_confirmation;
		issuer_height = info.last_confirmed_height;
		Ok(())
	})?;
	println!(
		"issuer after refresh at height {}: type {:?}, recorded cutoff {:?}, outputs {}, awaiting {}",
		issuer_height, issuer_type, issuer_ttl, issuer_outputs, issuer_awaiting
	);
	assert!(issuer_height >= 12);

	stopper.store(false, Ordering::Relaxed);
	thread::sleep(Duration::from_millis(200));

	assert_eq!(
		issuer_type,
		Some(TxLogEntryType::TxReceivedCancelled),
		"the invoice issuer's pending transaction (slate cutoff 12) survived a refresh at height {}",
		issuer_height
	);
	assert_eq!(issuer_outputs, 0, "the issuer still tracks the expired output");
	assert_eq!(issuer_awaiting, 0);
	Ok(())
}

#[test]
fn hunt_c17_1_invoice_issuer_never_expires() {
	let test_dir = "test_output/hunt_c17_1";
	setup(test_dir);
	if let Err(e) = hunt_c17_1_impl(test_dir) {
		panic!("Libwallet Error: {}", e);
	}
	clean_output_dir(test_dir);
}
