// C17 hunt, finding 2: the height `check_ttl` compares a slate's cutoff with is the
// last confirmed height of whichever account happens to be ACTIVE, not the height
// the wallet has observed (and not even the height observed by the account the
// transaction is received into). A wallet that has refreshed at height 13 accepts a
// slate whose cutoff is 12 as soon as another, less recently refreshed account is the
// active one.
#[macro_use]
extern crate log;
extern crate grin_wallet_controller as wallet;
extern crate grin_wallet_impls as impls;
extern crate grin_wallet_util;

use grin_wallet_libwallet as libwallet;
use impls::test_framework::{self, LocalWalletClient};
use libwallet::{InitTxArgs, Slate, TxLogEntryType};
use std::sync::atomic::Ordering;
use std::thread;
use std::time::Duration;

#[macro_use]
mod common;
use common::{clean_output_dir, create_wallet_proxy, setup};

fn hunt_c17_2_impl(test_dir: &'static str) -> Result<(), libwallet::Error> {
	let mut wallet_proxy = create_wallet_proxy(test_dir);
	let chain = wallet_proxy.chain.clone();
	let stopper = wallet_proxy.running.clone();

	create_wallet_and_add!(
		client1,
		wallet1,
		mask1_i,
		test_dir,
		"wallet1",
		None,
		&mut wallet_proxy,
		false
	);
	let mask1 = (&mask1_i).as_ref();
	create_wallet_and_add!(
		client2,
		wallet2,
		mask2_i,
		test_dir,
		"wallet2",
		None,
		&mut wallet_proxy,
		false
	);
	let mask2 = (&mask2_i).as_ref();
	let _ = (&client1, &client2);

	thread::spawn(move || {
		if let Err(e) = wallet_proxy.run() {
			error!("Wallet Proxy error: {}", e);
		}
	});

	// the recipient wallet has a second account
	wallet::controller::owner_single_use(Some(wallet2.clone()), mask2, None, |api, m| {
		api.create_account_path(m, "acct2")?;
		Ok(())
	})?;

	// the sender mines to height 10 and starts two sends with a time to live of 2 blocks
	let _ = test_framework::award_blocks_to_wallet(&chain, wallet1.clone(), mask1, 10, false);
	let amount = 1_000_000_000;
	let mut slate_a = Slate::blank(2, false);
	let mut slate_b = Slate::blank(2, false);
	wallet::controller::owner_single_use(Some(wallet1.clone()), mask1, None, |api, m| {
		let args = InitTxArgs {
			src_acct_name: None,
			amount,
			minimum_confirmations: 2,
			max_outputs: 500,
			num_change_outputs: 1,
			selection_strategy_is_use_all: false,
			ttl_blocks: Some(2),
			..Default::default()
		};
		slate_a = api.init_send_tx(m, args.clone())?;
		slate_b = api.init_send_tx(m, args)?;
		Ok(())
	})?;
	assert_eq!(slate_a.ttl_cutoff_height, 12);
	assert_eq!(slate_b.ttl_cutoff_height, 12);

	// the chain moves to height 13
	let _ = test_framework::award_blocks_to_wallet(&chain, wallet1.clone(), mask1, 3, false);

	// the recipient wallet refreshes (account "default" is active): it has now observed 13
	wallet::controller::owner_single_use(Some(wallet2.clone()), mask2, None, |api, m| {
		let (refreshed, info) = api.retrieve_summary_info(m, true, 1)?;
		assert!(refreshed);
		assert_eq!(info.last_confirmed_height, 13);
		Ok(())
	})?;

	// sanity: as long as "default" is active the expired slates are refused
	wallet::controller::foreign_single_use(wallet2.clone(), mask2_i.clone(), |api| {
		let res = api.receive_tx(&slate_a, None, None);
		println!("active default, into default: {:?}", res.as_ref().map(|s| s.id));
		assert!(res.is_err());
		Ok(())
	})?;

	// variant A: the very same wallet, a moment later, with account "acct2" active
	{
		wallet_inst!(wallet2, w);
		w.set_parent_key_id_by_name("acct2")?;
	}
	let mut accepted_a = false;
	wallet::controller::foreign_single_use(wallet2.clone(), mask2_i.clone(), |api| {
		let res = api.receive_tx(&slate_a, None, None);
		println!("active acct2, into acct2: {:?}", res.as_ref().map(|s| s.id));
		accepted_a = res.is_ok();
		Ok(())
	})?;

	// variant B: "acct2" still active, the slate is received INTO "default" - the account
	// that itself recorded height 13
	let mut accepted_b = false;
	wallet::controller::foreign_single_use(wallet2.clone(), mask2_i.clone(), |api| {
		let res = api.receive_tx(&slate_b, Some("default"), None);
		println!("active acct2, into default: {:?}", res.as_ref().map(|s| s.id));
		accepted_b = res.is_ok();
		Ok(())
	})?;

	// what the refused step must not have done: no log entry, no output
	let mut entries_default = vec![];
	{
		wallet_inst!(wallet2, w);
		w.set_parent_key_id_by_name("default")?;
	}
	wallet::controller::owner_single_use(Some(wallet2.clone()), mask2, None, |api, m| {
		let (_, txs) = api.retrieve_txs(m, false, None, Some(slate_b.id), None)?;
		entries_default = txs
			.iter()
			.map(|t| (t.tx_type.clone(), t.ttl_cutoff_height))
			.collect();
		let (_, info) = api.retrieve_summary_info(m, false, 1)?;
		println!(
			"account default: last confirmed height {}, entries for slate b {:?}",
			info.last_confirmed_height, entries_default
		);
		assert_eq!(info.last_confirmed_height, 13);
		Ok(())
	})?;

	stopper.store(false, Ordering::Relaxed);
	thread::sleep(Duration::from_millis(200));

	let mut failures = vec![];
	if accepted_a {
		failures.push(
			"A: a wallet that has observed height 13 accepted a slate with cutoff 12 (account acct2 active)"
				.to_owned(),
		);
	}
	if accepted_b {
		failures.push(
			"B: a slate with cutoff 12 was received into account default, whose last confirmed height is 13"
				.to_owned(),
		);
	}
	if entries_default
		.iter()
		.any(|e| e.0 == TxLogEntryType::TxReceived)
	{
		failures.push(format!(
			"B: account default now holds a pending entry for the expired slate: {:?}",
			entries_default
		));
	}
	assert!(failures.is_empty(), "{:#?}", failures);
	Ok(())
}

#[test]
fn hunt_c17_2_observed_height_is_per_active_account() {
	let test_dir = "test_output/hunt_c17_2";
	setup(test_dir);
	if let Err(e) = hunt_c17_2_impl(test_dir) {
		panic!("Libwallet Error: {}", e);
	}
	clean_output_dir(test_dir);
}
