// C17 hunt, finding 3: the cutoff is computed as `current_height + ttl_blocks`
// without overflow handling (libwallet/src/internal/tx.rs new_tx_slate, and
// libwallet/src/api_impl/owner.rs process_invoice_tx). A time to live at the upper
// boundary (u64::MAX blocks: "never expires in practice") panics in a build with
// overflow checks and, in a release build, wraps around to `current_height - 1`:
// a cutoff that lies BEHIND, so the slate is refused by every wallet and the
// sender's own transaction is cancelled by its next refresh.
#[macro_use]
extern crate log;
extern crate grin_wallet_controller as wallet;
extern crate grin_wallet_impls as impls;
extern crate grin_wallet_util;

use grin_core as core;
use grin_wallet_libwallet as libwallet;
use impls::test_framework::{self, LocalWalletClient};
use libwallet::{InitTxArgs, IssueInvoiceTxArgs, Slate};
use std::panic::{catch_unwind, AssertUnwindSafe};
use std::sync::atomic::Ordering;
use std::thread;
use std::time::Duration;

#[macro_use]
mod common;
use common::{clean_output_dir, create_wallet_proxy, setup};

fn describe(height: u64, r: &std::thread::Result<Result<Slate, libwallet::Error>>) -> Option<String> {
	match r {
		// an error is an acceptable answer to an unrepresentable cutoff
		Ok(Err(_)) => None,
		Ok(Ok(s)) => {
			if s.ttl_cutoff_height != 0 && s.ttl_cutoff_height <= height {
				Some(format!(
					"cutoff {} at height {}: the slate is expired the moment it is created",
					s.ttl_cutoff_height, height
				))
			} else if s.ttl_cutoff_height == 0 {
				Some("the requested time to live was dropped (cutoff 0)".to_owned())
			} else {
				None
			}
		}
		Err(p) => {
			let msg = p
				.downcast_ref::<String>()
				.cloned()
				.or_else(|| p.downcast_ref::<&str>().map(|s| s.to_string()))
				.unwrap_or_default();
			Some(format!("panicked: {}", msg))
		}
	}
}

fn hunt_c17_3_impl(test_dir: &'static str) -> Result<(), libwallet::Error> {
	let mut wallet_proxy = create_wallet_proxy(test_dir);
	let chain = wallet_proxy.chain.clone();
	let stopper = wallet_proxy.running.clone();

	create_wallet_and_add!(
		client1,
		wallet1,
		mask1_i,
		test_dir,
		"wallet1",
		None,
		&mut wallet_proxy,
		false
	);
	let mask1 = (&mask1_i).as_ref();
	create_wallet_and_add!(
		client2,
		wallet2,
		mask2_i,
		test_dir,
		"wallet2",
		None,
		&mut wallet_proxy,
		false
	);
	let mask2 = (&mask2_i).as_ref();
	let _ = (&client1, &client2);

	thread::spawn(move || {
		if let Err(e) = wallet_proxy.run() {
			error!("Wallet Proxy error: {}", e);
		}
	});

	let reward = core::consensus::REWARD;
	let height = 10u64;
	let _ =
		test_framework::award_blocks_to_wallet(&chain, wallet1.clone(), mask1, height as usize, false);

	let mut failures = vec![];

	// the largest cutoff that can be expressed works: u64::MAX itself
	wallet::controller::owner_single_use(Some(wallet1.clone()), mask1, None, |api, m| {
		let args = InitTxArgs {
			amount: reward,
			minimum_confirmations: 2,
			max_outputs: 500,
			num_change_outputs: 1,
			ttl_blocks: Some(u64::MAX - height),
			..Default::default()
		};
		let s = api.init_send_tx(m, args)?;
		assert_eq!(s.ttl_cutoff_height, u64::MAX);
		Ok(())
	})?;

	// send: a time to live of u64::MAX blocks
	let r = catch_unwind(AssertUnwindSafe(|| {
		let mut out = Err(libwallet::Error::GenericError("not run".to_owned()));
		let _ = wallet::controller::owner_single_use(
			Some(wallet1.clone()),
			mask1,
			None,
			|api, m| {
				let args = InitTxArgs {
					amount: reward,
					minimum_confirmations: 2,
					max_outputs: 500,
					num_change_outputs: 1,
					ttl_blocks: Some(u64::MAX),
					..Default::default()
				};
				out = api.init_send_tx(m, args);
				Ok(())
			},
		);
		out
	}));
	if let Some(f) = describe(height, &r) {
		failures.push(format!("init_send_tx(ttl_blocks = u64::MAX): {}", f));
	}

	// pay invoice: the same
	let mut invoice = Slate::blank(2, true);
	wallet::controller::owner_single_use(Some(wallet2.clone()), mask2, None, |api, m| {
		let args = IssueInvoiceTxArgs {
			amount: reward,
			..Default::default()
		};
		invoice = api.issue_invoice_tx(m, args)?;
		Ok(())
	})?;
	let r = catch_unwind(AssertUnwindSafe(|| {
		let mut out = Err(libwallet::Error::GenericError("not run".to_owned()));
		let _ = wallet::controller::owner_single_use(
			Some(wallet1.clone()),
			mask1,
			None,
			|api, m| {
				let args = InitTxArgs {
					amount: invoice.amount,
					minimum_confirmations: 2,
					max_outputs: 500,
					num_change_outputs: 1,
					ttl_blocks: Some(u64::MAX),
					..Default::default()
				};
				out = api.process_invoice_tx(m, &invoice, args);
				Ok(())
			},
		);
		out
	}));
	if let Some(f) = describe(height, &r) {
		failures.push(format!("process_invoice_tx(ttl_blocks = u64::MAX): {}", f));
	}

	stopper.store(false, Ordering::Relaxed);
	thread::sleep(Duration::from_millis(200));

	assert!(failures.is_empty(), "{:#?}", failures);
	Ok(())
}

#[test]
fn hunt_c17_3_ttl_blocks_overflow() {
	let test_dir = "test_output/hunt_c17_3";
	setup(test_dir);
	if let Err(e) = hunt_c17_3_impl(test_dir) {
		panic!("Libwallet Error: {}", e);
	}
	clean_output_dir(test_dir);
}
