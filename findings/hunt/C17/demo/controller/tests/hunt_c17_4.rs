// C17 hunt, finding 4: update_wallet_state decides "still unconfirmed" with what the
// node said in steps 1 and 2 (outputs, kernels) but decides "expired" with the chain
// tip it reads afterwards, in step 3. When the block that confirms a pending
// transaction arrives between the two (and takes the chain to the cutoff), the TTL
// step cancels a transaction that IS confirmed at the height it compares with: the
// spent inputs are released as spendable, the change output record is deleted.
//
// The interleaving is produced deterministically with a NodeClient wrapper that
// mines the block just before answering the third get_chain_tip of the refresh.
// The control test (same history, block mined before the refresh starts) passes.
#[macro_use]
extern crate log;
extern crate grin_wallet_controller as wallet;
extern crate grin_wallet_impls as impls;
extern crate grin_wallet_libwallet as libwallet;
extern crate grin_wallet_util;

use grin_core as core;
use grin_keychain as keychain;
use grin_util as util;

use self::core::core::{Transaction, TxKernel};
use self::core::global;
use self::core::global::ChainTypes;
use self::keychain::ExtKeychain;
use impls::test_framework::{self, LocalWalletClient, WalletProxy};
use impls::{DefaultLCProvider, DefaultWalletImpl};
use libwallet::{
	InitTxArgs, NodeClient, NodeVersionInfo, Slate, TxLogEntryType, WalletInst,
};
use std::collections::HashMap;
use std::sync::atomic::Ordering;
use std::sync::Arc;
use std::thread;
use std::time::Duration;
use util::secp::key::SecretKey;
use util::secp::pedersen;
use util::{Mutex, ZeroingString};

/// what to do just before the n-th get_chain_tip is answered
struct Hook {
	countdown: Option<usize>,
	action: Option<Box<dyn FnMut() + Send>>,
	trace: Vec<String>,
}

/// a node client that behaves exactly like the test framework's, except that a block
/// can be made to arrive between two of the wallet's queries
#[derive(Clone)]
struct HookClient {
	inner: LocalWalletClient,
	hook: Arc<Mutex<Hook>>,
}

impl HookClient {
	fn new(inner: LocalWalletClient) -> Self {
		HookClient {
			inner,
			hook: Arc::new(Mutex::new(Hook {
				countdown: None,
				action: None,
				trace: vec![],
			})),
		}
	}
	fn note(&self, s: String) {
		self.hook.lock().trace.push(s);
	}
}

impl NodeClient for HookClient {
	fn node_url(&self) -> &str {
		self.inner.node_url()
	}
	fn node_api_secret(&self) -> Option<String> {
		self.inner.node_api_secret()
	}
	fn set_node_url(&mut self, u: &str) {
		self.inner.set_node_url(u)
	}
	fn set_node_api_secret(&mut self, s: Option<String>) {
		self.inner.set_node_api_secret(s)
	}
	fn get_version_info(&mut self) -> Option<NodeVersionInfo> {
		self.inner.get_version_info()
	}
	fn post_tx(&self, tx: &Transaction, fluff: bool) -> Result<(), libwallet::Error> {
		self.inner.post_tx(tx, fluff)
	}
	fn get_chain_tip(&self) -> Result<(u64, String), libwallet::Error> {
		let action = {
			let mut h = self.hook.lock();
			match h.countdown {
				Some(1) => {
					h.countdown = None;
					h.action.take()
				}
				Some(n) => {
					h.countdown = Some(n - 1);
					None
				}
				None => None,
			}
		};
		if let Some(mut a) = action {
			self.note("  (a block arrives)".to_owned());
			a();
		}
		let r = self.inner.get_chain_tip();
		self.note(format!(
			"get_chain_tip -> {:?}",
			r.as_ref().map(|t| t.0).map_err(|e| e.to_string())
		));
		r
	}
	fn get_kernel(
		&mut self,
		excess: &pedersen::Commitment,
		min_height: Option<u64>,
		max_height: Option<u64>,
	) -> Result<Option<(TxKernel, u64, u64)>, libwallet::Error> {
		let r = self.inner.get_kernel(excess, min_height, max_height);
		self.note(format!(
			"get_kernel -> found: {:?}",
			r.as_ref().map(|k| k.is_some()).map_err(|e| e.to_string())
		));
		r
	}
	fn get_outputs_from_node(
		&self,
		wallet_outputs: Vec<pedersen::Commitment>,
	) -> Result<HashMap<pedersen::Commitment, (String, u64, u64)>, libwallet::Error> {
		let n = wallet_outputs.len();
		let r = self.inner.get_outputs_from_node(wallet_outputs);
		self.note(format!(
			"get_outputs_from_node({} asked) -> {:?} unspent",
			n,
			r.as_ref().map(|m| m.len()).map_err(|e| e.to_string())
		));
		r
	}
	fn get_outputs_by_pmmr_index(
		&self,
		start_height: u64,
		end_height: Option<u64>,
		max_outputs: u64,
	) -> Result<
		(
			u64,
			u64,
			Vec<(pedersen::Commitment, pedersen::RangeProof, bool, u64, u64)>,
		),
		libwallet::Error,
	> {
		self.inner
			.get_outputs_by_pmmr_index(start_height, end_height, max_outputs)
	}
	fn height_range_to_pmmr_indices(
		&self,
		start_height: u64,
		end_height: Option<u64>,
	) -> Result<(u64, u64), libwallet::Error> {
		self.note(format!(
			"height_range_to_pmmr_indices({}, {:?})",
			start_height, end_height
		));
		self.inner
			.height_range_to_pmmr_indices(start_height, end_height)
	}
}

type HookWallet = Arc<
	Mutex<
		Box<
			dyn WalletInst<
				'static,
				DefaultLCProvider<'static, HookClient, ExtKeychain>,
				HookClient,
				ExtKeychain,
			>,
		>,
	>,
>;

fn create_hook_wallet(
	test_dir: &str,
	name: &str,
	client: HookClient,
) -> (HookWallet, Option<SecretKey>) {
	let mut wallet = Box::new(DefaultWalletImpl::<HookClient>::new(client).unwrap())
		as Box<
			dyn WalletInst<
				DefaultLCProvider<'static, HookClient, ExtKeychain>,
				HookClient,
				ExtKeychain,
			>,
		>;
	let lc = wallet.lc_provider().unwrap();
	let _ = lc.set_top_level_directory(&format!("{}/{}", test_dir, name));
	lc.create_wallet(None, None, 32, ZeroingString::from(""), false)
		.unwrap();
	let mask = lc
		.open_wallet(None, ZeroingString::from(""), false, false)
		.unwrap();
	(Arc::new(Mutex::new(wallet)), mask)
}

fn clean_output_dir(test_dir: &str) {
	let path = std::path::Path::new(test_dir);
	if path.is_dir() {
		remove_dir_all::remove_dir_all(test_dir).unwrap();
	}
}

fn setup(test_dir: &str) {
	util::init_test_logger();
	clean_output_dir(test_dir);
	global::set_local_chain_type(ChainTypes::AutomatedTesting);
}

/// `race`: the confirming block (height 12 = the cutoff) arrives in the middle of the
/// sender's refresh instead of just before it
fn hunt_c17_4_impl(test_dir: &'static str, race: bool) -> Result<(), libwallet::Error> {
	let mut wallet_proxy: WalletProxy<
		DefaultLCProvider<HookClient, ExtKeychain>,
		HookClient,
		ExtKeychain,
	> = WalletProxy::new(test_dir);
	let chain = wallet_proxy.chain.clone();
	let stopper = wallet_proxy.running.clone();

	let lclient1 = LocalWalletClient::new("wallet1", wallet_proxy.tx.clone());
	let client1 = HookClient::new(lclient1.clone());
	let (wallet1, mask1_i) = create_hook_wallet(test_dir, "wallet1", client1.clone());
	wallet_proxy.add_wallet(
		"wallet1",
		lclient1.get_send_instance(),
		wallet1.clone(),
		mask1_i.clone(),
	);
	let mask1 = (&mask1_i).as_ref();

	let lclient2 = LocalWalletClient::new("wallet2", wallet_proxy.tx.clone());
	let client2 = HookClient::new(lclient2.clone());
	let (wallet2, mask2_i) = create_hook_wallet(test_dir, "wallet2", client2.clone());
	wallet_proxy.add_wallet(
		"wallet2",
		lclient2.get_send_instance(),
		wallet2.clone(),
		mask2_i.clone(),
	);
	let mask2 = (&mask2_i).as_ref();

	thread::spawn(move || {
		if let Err(e) = wallet_proxy.run() {
			error!("Wallet Proxy error: {}", e);
		}
	});

	let reward = core::consensus::REWARD;
	let amount = reward * 2;

	// height 10
	let _ = test_framework::award_blocks_to_wallet(&chain, wallet1.clone(), mask1, 10, false);

	// wallet 1 sends to wallet 2 with a time to live of 2 blocks (cutoff 12), finalizes
	let mut slate = Slate::blank(2, false);
	wallet::controller::owner_single_use(Some(wallet1.clone()), mask1, None, |api, m| {
		let args = InitTxArgs {
			src_acct_name: None,
			amount,
			minimum_confirmations: 2,
			max_outputs: 500,
			num_change_outputs: 1,
			selection_strategy_is_use_all: false,
			ttl_blocks: Some(2),
			..Default::default()
		};
		slate = api.init_send_tx(m, args)?;
		Ok(())
	})?;
	assert_eq!(slate.ttl_cutoff_height, 12);
	wallet::controller::foreign_single_use(wallet2.clone(), mask2_i.clone(), |api| {
		slate = api.receive_tx(&slate, None, None)?;
		Ok(())
	})?;
	wallet::controller::owner_single_use(Some(wallet1.clone()), mask1, None, |api, m| {
		api.tx_lock_outputs(m, &slate)?;
		slate = api.finalize_tx(m, &slate)?;
		Ok(())
	})?;
	let tx = slate.tx_or_err()?.clone();
	let fee = tx.fee();

	// height 11: the transaction waits in the pool, the sender refreshes, still pending
	let _ = test_framework::award_blocks_to_wallet(&chain, wallet1.clone(), mask1, 1, false);
	wallet::controller::owner_single_use(Some(wallet1.clone()), mask1, None, |api, m| {
		let (refreshed, txs) = api.retrieve_txs(m, true, None, Some(slate.id), None)?;
		assert!(refreshed);
		assert_eq!(txs[0].tx_type, TxLogEntryType::TxSent);
		assert!(!txs[0].confirmed);
		assert_eq!(txs[0].ttl_cutoff_height, Some(12));
		Ok(())
	})?;

	// block 12 contains the transaction (mined by wallet 2)
	let mine = {
		let chain = chain.clone();
		let wallet2 = wallet2.clone();
		let mask2_i = mask2_i.clone();
		let tx = tx.clone();
		move || {
			test_framework::award_block_to_wallet(
				&chain,
				&[tx.clone()],
				wallet2.clone(),
				(&mask2_i).as_ref(),
			)
			.unwrap();
		}
	};
	if race {
		// ... and arrives while the sender's refresh is between its step 2 and its step 3
		let mut h = client1.hook.lock();
		h.countdown = Some(3);
		h.action = Some(Box::new(mine));
		h.trace.clear();
	} else {
		// ... and arrives just before the sender's refresh
		let mut mine = mine;
		mine();
		client1.hook.lock().trace.clear();
	}

	// the sender's refresh
	let mut after_first = None;
	wallet::controller::owner_single_use(Some(wallet1.clone()), mask1, None, |api, m| {
		let (refreshed, txs) = api.retrieve_txs(m, true, None, Some(slate.id), None)?;
		assert!(refreshed);
		after_first = Some((txs[0].tx_type.clone(), txs[0].confirmed));
		Ok(())
	})?;
	println!("node queries of the sender's refresh (race: {}):", race);
	for l in client1.hook.lock().trace.iter() {
		println!("    {}", l);
	}
	println!("sender's entry after that refresh: {:?}", after_first);
	assert_eq!(chain.head().unwrap().height, 12);

	// the transaction is on chain at height 12: the recipient sees its output confirmed
	wallet::controller::owner_single_use(Some(wallet2.clone()), mask2, None, |api, m| {
		let (refreshed, txs) = api.retrieve_txs(m, true, None, Some(slate.id), None)?;
		assert!(refreshed);
		assert_eq!(txs[0].tx_type, TxLogEntryType::TxReceived);
		assert!(txs[0].confirmed);
		Ok(())
	})?;

	// the sender refreshes once more, quietly, at the same height
	let mut after_second = None;
	let mut total = 0;
	let mut locked = 0;
	wallet::controller::owner_single_use(Some(wallet1.clone()), mask1, None, |api, m| {
		let (refreshed, txs) = api.retrieve_txs(m, true, None, Some(slate.id), None)?;
		assert!(refreshed);
		after_second = Some((txs[0].tx_type.clone(), txs[0].confirmed));
		let (_, info) = api.retrieve_summary_info(m, true, 1)?;
		total = info.total;
		locked = info.amount_locked;
		Ok(())
	})?;
	println!(
		"sender's entry after a second refresh: {:?}, total {}, locked {}, (11 rewards - amount - fee = {})",
		after_second,
		total,
		locked,
		11 * reward - amount - fee
	);

	stopper.store(false, Ordering::Relaxed);
	thread::sleep(Duration::from_millis(200));

	// the transaction was confirmed at the height the refresh compared its cutoff with: it is
	// not "still unconfirmed", and must not be cancelled nor its (spent) inputs released
	assert_eq!(
		after_first.as_ref().map(|a| a.0.clone()),
		Some(TxLogEntryType::TxSent),
		"the refresh that saw height 12 cancelled a transaction that is confirmed at height 12"
	);
	assert_eq!(after_second, Some((TxLogEntryType::TxSent, true)));
	assert_eq!(locked, 0);
	assert_eq!(
		total,
		11 * reward - amount - fee,
		"the sender's balance counts coins that are spent on chain"
	);
	Ok(())
}

#[test]
fn hunt_c17_4_control_block_before_refresh() {
	let test_dir = "test_output/hunt_c17_4_control";
	setup(test_dir);
	if let Err(e) = hunt_c17_4_impl(test_dir, false) {
		panic!("Libwallet Error: {}", e);
	}
	clean_output_dir(test_dir);
}

#[test]
fn hunt_c17_4_block_arrives_during_refresh() {
	let test_dir = "test_output/hunt_c17_4_race";
	setup(test_dir);
	if let Err(e) = hunt_c17_4_impl(test_dir, true) {
		panic!("Libwallet Error: {}", e);
	}
	clean_output_dir(test_dir);
}
