#!/bin/bash
# Usage: run_demo.sh [checkout-dir] [test-name ...]
# Copies the C17 hunt tests into a grin-wallet checkout and runs them.
# Exit status is non-zero when any of them fails (they all fail on the unmodified tree;
# hunt_c17_4 contains a control test that passes and the racing test that fails).
HERE="$(cd "$(dirname "$0")" && pwd)"
CHECKOUT="${1:-/tmp/hunt_C17}"
shift
TESTS="${@:-hunt_c17_1 hunt_c17_2 hunt_c17_3 hunt_c17_4}"
export CARGO_TARGET_DIR="${CARGO_TARGET_DIR:-/tmp/hunt_C17_target}"
cp "$HERE"/demo/controller/tests/hunt_c17_*.rs "$CHECKOUT/controller/tests/" || exit 2
cd "$CHECKOUT" || exit 2
rc=0
for t in $TESTS; do
	echo "=== $t"
	cargo test -p grin_wallet_controller --offline --test "$t" -- --nocapture --test-threads=1 || rc=1
done
exit $rc
