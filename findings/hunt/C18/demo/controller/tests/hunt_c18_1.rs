// C18 hunt, finding 1: `scan` only re-checks the outputs of the ACTIVE account.
//
// A wallet with two accounts receives a payment into account "b". The payment is
// confirmed, then the block holding it is replaced by a longer fork without it.
// The owner runs `scan` (documented as "update the wallet state to be consistent
// with what's currently in the UTXO set") while the *other* account is active.
// The scan completes successfully, but the reorganised-away payment in account
// "b" is still reported confirmed, still counted in the total, still spendable,
// and is selected as the input of a new send.

#[macro_use]
mod common;

use common::{clean_output_dir, create_wallet_proxy, setup};
use grin_core as core;
use grin_core::core::hash::Hashed;
use grin_core::global;
use grin_wallet_controller::controller::owner_single_use as owner;
use grin_wallet_impls::test_framework::*;
use grin_wallet_libwallet as libwallet;
use grin_wallet_libwallet::api_impl::types::InitTxArgs;
use log::error;
use std::sync::atomic::Ordering;
use std::thread;
use std::time::Duration;

fn scan_other_account_impl(test_dir: &'static str) -> Result<(), libwallet::Error> {
	let mut wallet_proxy = create_wallet_proxy(test_dir);
	let stopper = wallet_proxy.running.clone();
	let chain = wallet_proxy.chain.clone();
	let test_dir2 = format!("{}/chain2", test_dir);
	let wallet_proxy2 = create_wallet_proxy(&test_dir2);
	let chain2 = wallet_proxy2.chain.clone();
	let stopper2 = wallet_proxy2.running.clone();

	create_wallet_and_add!(
		client1,
		wallet1,
		mask1_i,
		test_dir,
		"wallet1",
		None,
		&mut wallet_proxy,
		false
	);
	let mask1 = mask1_i.as_ref();
	create_wallet_and_add!(
		client2,
		wallet2,
		mask2_i,
		test_dir,
		"wallet2",
		None,
		&mut wallet_proxy,
		false
	);
	let mask2 = mask2_i.as_ref();
	let _ = &client2;

	std::thread::spawn(move || {
		if let Err(e) = wallet_proxy.run() {
			error!("Wallet Proxy error: {}", e);
		}
	});

	// wallet2 has two accounts: "default" and "b"; the payment arrives in "b"
	owner(Some(wallet2.clone()), mask2, None, |api, m| {
		api.create_account_path(m, "b")?;
		api.set_active_account(m, "b")?;
		Ok(())
	})?;

	let reward = core::consensus::REWARD;
	let cm = global::coinbase_maturity() as u64;
	let sent = reward * 2;

	let bh = 10u64;
	award_blocks_to_wallet(&chain, wallet1.clone(), mask1, bh as usize, false)?;

	// wallet1 -> wallet2 (account "b")
	let mut tx = None;
	owner(Some(wallet1.clone()), mask1, None, |api, m| {
		let args = InitTxArgs {
			src_acct_name: None,
			amount: sent,
			minimum_confirmations: cm,
			max_outputs: 500,
			num_change_outputs: 1,
			selection_strategy_is_use_all: false,
			..Default::default()
		};
		let slate = api.init_send_tx(m, args)?;
		api.tx_lock_outputs(m, &slate)?;
		let slate = client1.send_tx_slate_direct("wallet2", &slate)?;
		let slate = api.finalize_tx(m, &slate)?;
		tx = slate.tx;
		Ok(())
	})?;
	let tx = tx.expect("tx from slate");

	// parallel chain with the same first 10 blocks
	for i in 0..bh {
		let hash = chain.get_header_by_height(i + 1).unwrap().hash();
		let block = chain.get_block(&hash).unwrap();
		process_block(&chain2, block);
	}

	// two candidate blocks at height 11: with and without the payment
	let head = chain.head_header().unwrap();
	let block_with =
		create_block_for_wallet(&chain, head.clone(), &[tx.clone()], wallet1.clone(), mask1)?;
	let block_without = create_block_for_wallet(&chain, head, &[], wallet1.clone(), mask1)?;
	process_block(&chain, block_with.clone());
	process_block(&chain2, block_without.clone());
	let bh = bh + 1;

	// the payment is confirmed in account "b"
	owner(Some(wallet2.clone()), mask2, None, |api, m| {
		let (refreshed, info) = api.retrieve_summary_info(m, true, 1)?;
		assert!(refreshed);
		assert_eq!(info.last_confirmed_height, bh);
		assert_eq!(info.total, sent);
		assert_eq!(info.amount_currently_spendable, sent);
		let (_, txs) = api.retrieve_txs(m, true, None, None, None)?;
		assert_eq!(txs.len(), 1);
		assert!(txs[0].confirmed);
		Ok(())
	})?;

	// the owner goes back to the default account
	owner(Some(wallet2.clone()), mask2, None, |api, m| {
		api.set_active_account(m, "default")?;
		Ok(())
	})?;

	// a longer fork without the payment replaces block 11
	award_block_to_wallet(&chain2, &[], wallet1.clone(), mask1)?;
	let new_head = chain2
		.get_block(&chain2.head_header().unwrap().hash())
		.unwrap();
	process_block(&chain, block_without.clone());
	process_block(&chain, new_head.clone());
	assert_eq!(chain.head_header().unwrap(), new_head.header);
	let bh = bh + 1;

	// the wallet's next scan (run while "default" is the active account)
	owner(Some(wallet2.clone()), mask2, None, |api, m| {
		api.scan(m, None, false)?;
		Ok(())
	})?;

	// ... must have found the payment in account "b" reverted
	owner(Some(wallet2.clone()), mask2, None, |api, m| {
		api.set_active_account(m, "b")?;
		let (refreshed, info) = api.retrieve_summary_info(m, true, 1)?;
		assert!(refreshed);
		assert_eq!(info.last_confirmed_height, bh);
		let (_, txs) = api.retrieve_txs(m, true, None, None, None)?;
		println!("account b after scan: {:?}", info);
		println!("account b tx log after scan: {:?}", txs);

		// a wallet never selects a reverted output as an input
		let args = InitTxArgs {
			src_acct_name: None,
			amount: reward,
			minimum_confirmations: 1,
			max_outputs: 500,
			num_change_outputs: 1,
			selection_strategy_is_use_all: false,
			..Default::default()
		};
		let send = api.init_send_tx(m, args);
		println!(
			"init_send_tx from account b after the reorganisation: {:?}",
			send.as_ref().map(|s| s.tx.as_ref().map(|t| t.inputs()))
		);

		assert_eq!(
			info.amount_currently_spendable, 0,
			"the reorganised-away payment is still spendable after a scan"
		);
		assert_eq!(
			info.total, 0,
			"the reorganised-away payment is still in the total after a scan"
		);
		assert_eq!(info.amount_reverted, sent);
		assert_eq!(txs.len(), 1);
		assert_eq!(txs[0].tx_type, libwallet::TxLogEntryType::TxReverted);
		assert!(!txs[0].confirmed);
		assert!(
			send.is_err(),
			"a send was built from an output that no longer exists on chain"
		);
		Ok(())
	})?;

	stopper2.store(false, Ordering::Relaxed);
	stopper.store(false, Ordering::Relaxed);
	thread::sleep(Duration::from_millis(1000));
	Ok(())
}

#[test]
fn hunt_c18_scan_with_other_account_active() {
	let test_dir = "test_output/hunt_c18_1";
	setup(test_dir);
	if let Err(e) = scan_other_account_impl(test_dir) {
		panic!("Libwallet Error: {}", e);
	}
	clean_output_dir(test_dir);
}
