// C18 hunt, finding 3: a reverted payment that is re-mined while a refresh is in
// progress ends up "TxReverted, confirmed" with its output stuck in Reverted.
//
// update_wallet_state first refreshes outputs (step 1) and then looks the kernels of
// the outstanding transactions up (step 2). If the block that re-includes the
// reverted transaction reaches the node between the two node queries of ONE
// refresh, step 1 still sees the output missing, and step 2 (update_txs_via_kernel)
// finds the kernel and only sets `confirmed = true` on the entry: its type stays
// TxReverted and the output stays Reverted. Because the entry is now confirmed it is
// no longer "outstanding", so no later ordinary refresh ever looks at the output
// again: the re-mined payment stays unspendable and reported as reverted.
//
// The test puts a forwarding thread between wallet2's node client and the test
// node; it lets the node accept the new block right after answering the refresh's
// output query, which is a perfectly legal timing for a real node.

#[macro_use]
mod common;

use common::{clean_output_dir, create_wallet_proxy, setup};
use grin_chain as chain;
use grin_core as core;
use grin_core::core::hash::Hashed;
use grin_core::core::{Block, Transaction};
use grin_core::global;
use grin_keychain::ExtKeychain;
use grin_util::secp::key::SecretKey;
use grin_util::Mutex;
use grin_wallet_controller::controller::owner_single_use as owner;
use grin_wallet_impls::test_framework::*;
use grin_wallet_impls::DefaultLCProvider;
use grin_wallet_libwallet as libwallet;
use grin_wallet_libwallet::api_impl::types::InitTxArgs;
use grin_wallet_libwallet::WalletInst;
use log::error;
use std::sync::atomic::{AtomicBool, Ordering};
use std::sync::mpsc::channel;
use std::sync::Arc;
use std::thread;
use std::time::Duration;

type Wallet = Arc<
	Mutex<
		Box<
			dyn WalletInst<
				'static,
				DefaultLCProvider<'static, LocalWalletClient, ExtKeychain>,
				LocalWalletClient,
				ExtKeychain,
			>,
		>,
	>,
>;

struct Env {
	chain: Arc<chain::Chain>,
	chain2: Arc<chain::Chain>,
	stopper: Arc<AtomicBool>,
	stopper2: Arc<AtomicBool>,
	wallet1: Wallet,
	mask1: Option<SecretKey>,
	wallet2: Wallet,
	mask2: Option<SecretKey>,
	sent: u64,
	bh: u64,
	tx: Transaction,
	block_without: Block,
	hook: Hook,
}

/// What the forwarding thread does with wallet2's node requests
struct HookState {
	armed: bool,
	seen_output_query: bool,
	action: Option<Box<dyn FnOnce() + Send>>,
}
type Hook = Arc<Mutex<HookState>>;

/// wallet1 pays wallet2 (account "b"); the payment is mined in block 11 of the main
/// chain and seen confirmed by wallet2. A parallel chain holds a block 11 without it.
fn confirmed_receive(test_dir: &'static str) -> Result<Env, libwallet::Error> {
	let mut wallet_proxy = create_wallet_proxy(test_dir);
	let stopper = wallet_proxy.running.clone();
	let chain = wallet_proxy.chain.clone();
	let test_dir2 = format!("{}/chain2", test_dir);
	let wallet_proxy2 = create_wallet_proxy(&test_dir2);
	let chain2 = wallet_proxy2.chain.clone();
	let stopper2 = wallet_proxy2.running.clone();

	create_wallet_and_add!(
		client1,
		wallet1,
		mask1_i,
		test_dir,
		"wallet1",
		None,
		&mut wallet_proxy,
		false
	);
	let mask1 = mask1_i.as_ref();
	// wallet2's requests go through a forwarding thread (responses come back directly)
	let (itx, irx) = channel();
	let client2 = LocalWalletClient::new("wallet2", itx);
	let (wallet2, mask2_i) =
		common::create_local_wallet(test_dir, "wallet2", None, client2.clone(), false);
	wallet_proxy.add_wallet(
		"wallet2",
		client2.get_send_instance(),
		wallet2.clone(),
		mask2_i.clone(),
	);
	let mask2 = mask2_i.as_ref();
	let hook: Hook = Arc::new(Mutex::new(HookState {
		armed: false,
		seen_output_query: false,
		action: None,
	}));
	{
		let hook = hook.clone();
		let real_tx = wallet_proxy.tx.clone();
		std::thread::spawn(move || {
			// (the chain type is a thread-local setting in tests)
			global::set_local_chain_type(global::ChainTypes::AutomatedTesting);
			for m in irx.iter() {
				let action = {
					let mut st = hook.lock();
					let mut action = None;
					if st.armed {
						if m.method == "get_outputs_from_node" {
							st.seen_output_query = true;
						} else if m.method == "get_chain_tip" && st.seen_output_query {
							// the node has answered the output query of this refresh;
							// before it answers the next request it accepts a new block
							action = st.action.take();
							st.armed = false;
						}
					}
					action
				};
				if let Some(f) = action {
					f();
				}
				if real_tx.send(m).is_err() {
					break;
				}
			}
		});
	}

	std::thread::spawn(move || {
		if let Err(e) = wallet_proxy.run() {
			error!("Wallet Proxy error: {}", e);
		}
	});

	owner(Some(wallet2.clone()), mask2, None, |api, m| {
		api.create_account_path(m, "b")?;
		api.set_active_account(m, "b")?;
		Ok(())
	})?;

	let reward = core::consensus::REWARD;
	let cm = global::coinbase_maturity() as u64;
	let sent = reward * 2;

	let bh = 10u64;
	award_blocks_to_wallet(&chain, wallet1.clone(), mask1, bh as usize, false)?;

	let mut tx = None;
	owner(Some(wallet1.clone()), mask1, None, |api, m| {
		let args = InitTxArgs {
			src_acct_name: None,
			amount: sent,
			minimum_confirmations: cm,
			max_outputs: 500,
			num_change_outputs: 1,
			selection_strategy_is_use_all: false,
			..Default::default()
		};
		let slate = api.init_send_tx(m, args)?;
		api.tx_lock_outputs(m, &slate)?;
		let slate = client1.send_tx_slate_direct("wallet2", &slate)?;
		let slate = api.finalize_tx(m, &slate)?;
		tx = slate.tx;
		Ok(())
	})?;
	let tx = tx.expect("tx from slate");

	for i in 0..bh {
		let hash = chain.get_header_by_height(i + 1).unwrap().hash();
		let block = chain.get_block(&hash).unwrap();
		process_block(&chain2, block);
	}

	let head = chain.head_header().unwrap();
	let block_with =
		create_block_for_wallet(&chain, head.clone(), &[tx.clone()], wallet1.clone(), mask1)?;
	let block_without = create_block_for_wallet(&chain, head, &[], wallet1.clone(), mask1)?;
	process_block(&chain, block_with.clone());
	process_block(&chain2, block_without.clone());
	let bh = bh + 1;

	owner(Some(wallet2.clone()), mask2, None, |api, m| {
		let (refreshed, info) = api.retrieve_summary_info(m, true, 1)?;
		assert!(refreshed);
		assert_eq!(info.last_confirmed_height, bh);
		assert_eq!(info.total, sent);
		assert_eq!(info.amount_currently_spendable, sent);
		let (_, txs) = api.retrieve_txs(m, true, None, None, None)?;
		assert_eq!(txs.len(), 1);
		assert_eq!(txs[0].tx_type, libwallet::TxLogEntryType::TxReceived);
		assert!(txs[0].confirmed);
		Ok(())
	})?;

	Ok(Env {
		chain,
		chain2,
		stopper,
		stopper2,
		wallet1,
		mask1: mask1_i,
		wallet2,
		mask2: mask2_i,
		sent,
		bh,
		tx,
		block_without,
		hook,
	})
}

/// A longer fork without the payment replaces block 11.
fn reorg_away(env: &mut Env) -> Result<(), libwallet::Error> {
	award_block_to_wallet(&env.chain2, &[], env.wallet1.clone(), env.mask1.as_ref())?;
	let new_head = env
		.chain2
		.get_block(&env.chain2.head_header().unwrap().hash())
		.unwrap();
	process_block(&env.chain, env.block_without.clone());
	process_block(&env.chain, new_head.clone());
	assert_eq!(env.chain.head_header().unwrap(), new_head.header);
	env.bh += 1;
	Ok(())
}

fn finish(env: &Env) {
	env.stopper2.store(false, Ordering::Relaxed);
	env.stopper.store(false, Ordering::Relaxed);
	thread::sleep(Duration::from_millis(1000));
}

fn remined_during_refresh_impl(test_dir: &'static str) -> Result<(), libwallet::Error> {
	let mut env = confirmed_receive(test_dir)?;
	reorg_away(&mut env)?;
	let sent = env.sent;

	// the scan finds the payment reverted
	owner(Some(env.wallet2.clone()), env.mask2.as_ref(), None, |api, m| {
		api.scan(m, None, false)?;
		let (_, info) = api.retrieve_summary_info(m, true, 1)?;
		assert_eq!(info.last_confirmed_height, env.bh);
		assert_eq!(info.total, 0);
		assert_eq!(info.amount_currently_spendable, 0);
		assert_eq!(info.amount_reverted, sent);
		let (_, txs) = api.retrieve_txs(m, true, None, None, None)?;
		assert_eq!(txs.len(), 1);
		assert_eq!(txs[0].tx_type, libwallet::TxLogEntryType::TxReverted);
		assert!(!txs[0].confirmed);
		Ok(())
	})?;

	// the transaction is mined again; its block reaches the node while wallet2 is in
	// the middle of an ordinary refresh (after the output query, before the kernel query)
	{
		let chain = env.chain.clone();
		let wallet1 = env.wallet1.clone();
		let mask1 = env.mask1.clone();
		let tx = env.tx.clone();
		let mut st = env.hook.lock();
		st.action = Some(Box::new(move || {
			award_block_to_wallet(&chain, &[tx], wallet1, mask1.as_ref()).unwrap();
		}));
		st.seen_output_query = false;
		st.armed = true;
	}
	owner(Some(env.wallet2.clone()), env.mask2.as_ref(), None, |api, m| {
		let (refreshed, _) = api.retrieve_summary_info(m, true, 1)?;
		assert!(refreshed);
		Ok(())
	})?;
	assert!(env.hook.lock().action.is_none(), "the block was not mined");
	env.bh += 1;
	assert_eq!(env.chain.head_header().unwrap().height, env.bh);

	// from here on the transaction is on chain; ordinary refreshes must report it
	// confirmed and spendable again
	for round in 0..3 {
		if round == 2 {
			// even after more blocks
			award_blocks_to_wallet(&env.chain, env.wallet1.clone(), env.mask1.as_ref(), 2, false)?;
			env.bh += 2;
		}
		let bh = env.bh;
		let last = round == 2;
		owner(Some(env.wallet2.clone()), env.mask2.as_ref(), None, |api, m| {
			let (refreshed, info) = api.retrieve_summary_info(m, true, 1)?;
			assert!(refreshed);
			assert_eq!(info.last_confirmed_height, bh);
			let (_, txs) = api.retrieve_txs(m, true, None, None, None)?;
			let (_, outs) = api.retrieve_outputs(m, true, true, None)?;
			println!("refresh {} after re-mining: {:?}", round, info);
			for t in &txs {
				println!(
					"tx {} {:?} confirmed={} credited={}",
					t.id, t.tx_type, t.confirmed, t.amount_credited
				);
			}
			for o in &outs {
				println!(
					"output value={} status={:?} height={}",
					o.output.value, o.output.status, o.output.height
				);
			}
			if last {
				assert_eq!(txs.len(), 1);
				assert_eq!(
					txs[0].tx_type,
					libwallet::TxLogEntryType::TxReceived,
					"the re-mined transaction is still reported as reverted"
				);
				assert!(txs[0].confirmed);
				assert_eq!(info.amount_reverted, 0);
				assert_eq!(info.total, sent);
				assert_eq!(
					info.amount_currently_spendable, sent,
					"the re-mined payment is not spendable"
				);
			}
			Ok(())
		})?;
	}

	finish(&env);
	Ok(())
}

#[test]
fn hunt_c18_remined_between_output_and_kernel_query() {
	let test_dir = "test_output/hunt_c18_3";
	setup(test_dir);
	if let Err(e) = remined_during_refresh_impl(test_dir) {
		panic!("Libwallet Error: {}", e);
	}
	clean_output_dir(test_dir);
}
