// C18 hunt, finding 4: a reverted incoming payment whose slate carried a TTL is
// silently turned into "received, cancelled" (and its output record deleted) by the
// first refresh after the reorganisation.
//
// The sender gave the slate a TTL (ttl_blocks). The payment was signed, posted and
// CONFIRMED before the cut-off height. The block is then reorganised away and the
// chain tip is now at/after the cut-off. The TTL step of update_wallet_state walks
// every "outstanding" entry - which includes TxReverted - and cancels it: the
// transaction is no longer reported as reverted (amount_reverted = 0, type
// TxReceivedCancelled). A fully signed, already broadcast transaction can of course
// still be mined again (TTL is not a consensus rule): when it is, the original entry
// stays "cancelled" and the money shows up under a new anonymous log entry.

#[macro_use]
mod common;

use common::{clean_output_dir, create_wallet_proxy, setup};
use grin_chain as chain;
use grin_core as core;
use grin_core::core::hash::Hashed;
use grin_core::core::{Block, Transaction};
use grin_core::global;
use grin_keychain::ExtKeychain;
use grin_util::secp::key::SecretKey;
use grin_util::Mutex;
use grin_wallet_controller::controller::owner_single_use as owner;
use grin_wallet_impls::test_framework::*;
use grin_wallet_impls::DefaultLCProvider;
use grin_wallet_libwallet as libwallet;
use grin_wallet_libwallet::api_impl::types::InitTxArgs;
use grin_wallet_libwallet::WalletInst;
use log::error;
use std::sync::atomic::{AtomicBool, Ordering};
use std::sync::Arc;
use std::thread;
use std::time::Duration;

type Wallet = Arc<
	Mutex<
		Box<
			dyn WalletInst<
				'static,
				DefaultLCProvider<'static, LocalWalletClient, ExtKeychain>,
				LocalWalletClient,
				ExtKeychain,
			>,
		>,
	>,
>;

struct Env {
	chain: Arc<chain::Chain>,
	chain2: Arc<chain::Chain>,
	stopper: Arc<AtomicBool>,
	stopper2: Arc<AtomicBool>,
	wallet1: Wallet,
	mask1: Option<SecretKey>,
	wallet2: Wallet,
	mask2: Option<SecretKey>,
	sent: u64,
	bh: u64,
	tx: Transaction,
	block_without: Block,
}

/// wallet1 pays wallet2 (account "b"); the payment is mined in block 11 of the main
/// chain and seen confirmed by wallet2. A parallel chain holds a block 11 without it.
fn confirmed_receive(test_dir: &'static str) -> Result<Env, libwallet::Error> {
	let mut wallet_proxy = create_wallet_proxy(test_dir);
	let stopper = wallet_proxy.running.clone();
	let chain = wallet_proxy.chain.clone();
	let test_dir2 = format!("{}/chain2", test_dir);
	let wallet_proxy2 = create_wallet_proxy(&test_dir2);
	let chain2 = wallet_proxy2.chain.clone();
	let stopper2 = wallet_proxy2.running.clone();

	create_wallet_and_add!(
		client1,
		wallet1,
		mask1_i,
		test_dir,
		"wallet1",
		None,
		&mut wallet_proxy,
		false
	);
	let mask1 = mask1_i.as_ref();
	create_wallet_and_add!(
		client2,
		wallet2,
		mask2_i,
		test_dir,
		"wallet2",
		None,
		&mut wallet_proxy,
		false
	);
	let mask2 = mask2_i.as_ref();
	let _ = &client2;

	std::thread::spawn(move || {
		if let Err(e) = wallet_proxy.run() {
			error!("Wallet Proxy error: {}", e);
		}
	});

	owner(Some(wallet2.clone()), mask2, None, |api, m| {
		api.create_account_path(m, "b")?;
		api.set_active_account(m, "b")?;
		Ok(())
	})?;

	let reward = core::consensus::REWARD;
	let cm = global::coinbase_maturity() as u64;
	let sent = reward * 2;

	let bh = 10u64;
	award_blocks_to_wallet(&chain, wallet1.clone(), mask1, bh as usize, false)?;

	let mut tx = None;
	owner(Some(wallet1.clone()), mask1, None, |api, m| {
		let args = InitTxArgs {
			src_acct_name: None,
			amount: sent,
			minimum_confirmations: cm,
			max_outputs: 500,
			num_change_outputs: 1,
			selection_strategy_is_use_all: false,
			// valid until height 12; it will be mined in block 11
			ttl_blocks: Some(2),
			..Default::default()
		};
		let slate = api.init_send_tx(m, args)?;
		assert_eq!(slate.ttl_cutoff_height, 12);
		api.tx_lock_outputs(m, &slate)?;
		let slate = client1.send_tx_slate_direct("wallet2", &slate)?;
		let slate = api.finalize_tx(m, &slate)?;
		tx = slate.tx;
		Ok(())
	})?;
	let tx = tx.expect("tx from slate");

	for i in 0..bh {
		let hash = chain.get_header_by_height(i + 1).unwrap().hash();
		let block = chain.get_block(&hash).unwrap();
		process_block(&chain2, block);
	}

	let head = chain.head_header().unwrap();
	let block_with =
		create_block_for_wallet(&chain, head.clone(), &[tx.clone()], wallet1.clone(), mask1)?;
	let block_without = create_block_for_wallet(&chain, head, &[], wallet1.clone(), mask1)?;
	process_block(&chain, block_with.clone());
	process_block(&chain2, block_without.clone());
	let bh = bh + 1;

	owner(Some(wallet2.clone()), mask2, None, |api, m| {
		let (refreshed, info) = api.retrieve_summary_info(m, true, 1)?;
		assert!(refreshed);
		assert_eq!(info.last_confirmed_height, bh);
		assert_eq!(info.total, sent);
		assert_eq!(info.amount_currently_spendable, sent);
		let (_, txs) = api.retrieve_txs(m, true, None, None, None)?;
		assert_eq!(txs.len(), 1);
		assert_eq!(txs[0].tx_type, libwallet::TxLogEntryType::TxReceived);
		assert!(txs[0].confirmed);
		Ok(())
	})?;

	Ok(Env {
		chain,
		chain2,
		stopper,
		stopper2,
		wallet1,
		mask1: mask1_i,
		wallet2,
		mask2: mask2_i,
		sent,
		bh,
		tx,
		block_without,
	})
}

/// A longer fork without the payment replaces block 11.
fn reorg_away(env: &mut Env) -> Result<(), libwallet::Error> {
	award_block_to_wallet(&env.chain2, &[], env.wallet1.clone(), env.mask1.as_ref())?;
	let new_head = env
		.chain2
		.get_block(&env.chain2.head_header().unwrap().hash())
		.unwrap();
	process_block(&env.chain, env.block_without.clone());
	process_block(&env.chain, new_head.clone());
	assert_eq!(env.chain.head_header().unwrap(), new_head.header);
	env.bh += 1;
	Ok(())
}

fn finish(env: &Env) {
	env.stopper2.store(false, Ordering::Relaxed);
	env.stopper.store(false, Ordering::Relaxed);
	thread::sleep(Duration::from_millis(1000));
}

fn ttl_impl(test_dir: &'static str) -> Result<(), libwallet::Error> {
	let mut env = confirmed_receive(test_dir)?;
	let sent = env.sent;
	let mut slate_id = None;
	owner(Some(env.wallet2.clone()), env.mask2.as_ref(), None, |api, m| {
		let (_, txs) = api.retrieve_txs(m, true, None, None, None)?;
		assert_eq!(txs[0].ttl_cutoff_height, Some(12));
		slate_id = txs[0].tx_slate_id;
		Ok(())
	})?;

	reorg_away(&mut env)?;
	assert_eq!(env.bh, 12);

	// same checks as the stock tx_revert test: scan, then read the summary with a refresh
	let mut failures: Vec<String> = vec![];
	owner(Some(env.wallet2.clone()), env.mask2.as_ref(), None, |api, m| {
		api.scan(m, None, false)?;
		let (_, txs) = api.retrieve_txs(m, false, None, None, None)?;
		println!(
			"right after scan (no refresh): {:?} confirmed={}",
			txs[0].tx_type, txs[0].confirmed
		);
		let (refreshed, info) = api.retrieve_summary_info(m, true, 1)?;
		assert!(refreshed);
		assert_eq!(info.last_confirmed_height, env.bh);
		let (_, txs) = api.retrieve_txs(m, true, None, None, None)?;
		println!("after scan + refresh: {:?}", info);
		for t in &txs {
			println!(
				"tx {} {:?} confirmed={} credited={} slate={:?}",
				t.id, t.tx_type, t.confirmed, t.amount_credited, t.tx_slate_id
			);
		}
		assert_eq!(info.total, 0);
		assert_eq!(info.amount_currently_spendable, 0);
		if info.amount_reverted != sent {
			failures.push(format!(
				"after the reorganisation amount_reverted is {} instead of {}",
				info.amount_reverted, sent
			));
		}
		if txs[0].tx_type != libwallet::TxLogEntryType::TxReverted {
			failures.push(format!(
				"after the reorganisation the transaction is reported as {:?} instead of TxReverted",
				txs[0].tx_type
			));
		}
		Ok(())
	})?;

	// the transaction is mined again
	award_block_to_wallet(
		&env.chain,
		&[env.tx.clone()],
		env.wallet1.clone(),
		env.mask1.as_ref(),
	)?;
	env.bh += 1;

	owner(Some(env.wallet2.clone()), env.mask2.as_ref(), None, |api, m| {
		let (refreshed, info) = api.retrieve_summary_info(m, true, 1)?;
		assert!(refreshed);
		assert_eq!(info.last_confirmed_height, env.bh);
		let (_, txs) = api.retrieve_txs(m, true, None, None, None)?;
		println!("after re-mining + ordinary refresh: {:?}", info);
		for t in &txs {
			println!(
				"tx {} {:?} confirmed={} credited={} slate={:?}",
				t.id, t.tx_type, t.confirmed, t.amount_credited, t.tx_slate_id
			);
		}
		let orig = txs
			.iter()
			.find(|t| t.tx_slate_id == slate_id)
			.expect("original entry");
		if !(orig.tx_type == libwallet::TxLogEntryType::TxReceived && orig.confirmed) {
			failures.push(format!(
				"after re-mining the transaction is reported as {:?} confirmed={} instead of TxReceived confirmed",
				orig.tx_type, orig.confirmed
			));
		}
		if txs.len() != 1 {
			failures.push(format!(
				"after re-mining the log has {} entries for one payment",
				txs.len()
			));
		}
		if info.amount_currently_spendable != sent {
			failures.push(format!(
				"after re-mining spendable is {} instead of {}",
				info.amount_currently_spendable, sent
			));
		}
		Ok(())
	})?;

	finish(&env);
	assert!(failures.is_empty(), "{:#?}", failures);
	Ok(())
}

#[test]
fn hunt_c18_reverted_payment_with_ttl() {
	let test_dir = "test_output/hunt_c18_4";
	setup(test_dir);
	if let Err(e) = ttl_impl(test_dir) {
		panic!("Libwallet Error: {}", e);
	}
	clean_output_dir(test_dir);
}
