// C18 hunt, finding 5: an incoming payment whose log entry carries no kernel excess
// (every entry of a wallet restored from its seed, and every output that `scan`
// had to restore) is never found reverted.
//
// find_reverted_kernels silently drops entries without `kernel_excess`
// (`filter_map`), so for these outputs "missing from the UTXO set" always means
// "spent": after the reorganisation the scan marks the output Spent and leaves the
// entry "TxReceived, confirmed" (amount_reverted = 0, still summed as confirmed
// income). When the transaction is mined again, the ordinary refresh's look-back
// scan un-spends the output but *cancels* the log entry, so the payment ends up
// spendable under an entry reported as "TxReceivedCancelled, unconfirmed".

#[macro_use]
mod common;

use common::{clean_output_dir, create_wallet_proxy, setup};
use grin_chain as chain;
use grin_core as core;
use grin_core::core::hash::Hashed;
use grin_core::core::{Block, Transaction};
use grin_core::global;
use grin_keychain::ExtKeychain;
use grin_util::secp::key::SecretKey;
use grin_util::{Mutex, ZeroingString};
use grin_wallet_controller::controller::owner_single_use as owner;
use grin_wallet_impls::test_framework::*;
use grin_wallet_impls::DefaultLCProvider;
use grin_wallet_libwallet as libwallet;
use grin_wallet_libwallet::api_impl::types::InitTxArgs;
use grin_wallet_libwallet::WalletInst;
use log::error;
use std::sync::atomic::{AtomicBool, Ordering};
use std::sync::Arc;
use std::thread;
use std::time::Duration;

type Wallet = Arc<
	Mutex<
		Box<
			dyn WalletInst<
				'static,
				DefaultLCProvider<'static, LocalWalletClient, ExtKeychain>,
				LocalWalletClient,
				ExtKeychain,
			>,
		>,
	>,
>;

struct Env {
	chain: Arc<chain::Chain>,
	chain2: Arc<chain::Chain>,
	stopper: Arc<AtomicBool>,
	stopper2: Arc<AtomicBool>,
	wallet1: Wallet,
	mask1: Option<SecretKey>,
	wallet2: Wallet,
	mask2: Option<SecretKey>,
	wallet3: Wallet,
	mask3: Option<SecretKey>,
	sent: u64,
	bh: u64,
	tx: Transaction,
	block_without: Block,
}

/// wallet1 pays wallet2 (account "b"); the payment is mined in block 11 of the main
/// chain and seen confirmed by wallet2. A parallel chain holds a block 11 without it.
fn confirmed_receive(test_dir: &'static str) -> Result<Env, libwallet::Error> {
	let mut wallet_proxy = create_wallet_proxy(test_dir);
	let stopper = wallet_proxy.running.clone();
	let chain = wallet_proxy.chain.clone();
	let test_dir2 = format!("{}/chain2", test_dir);
	let wallet_proxy2 = create_wallet_proxy(&test_dir2);
	let chain2 = wallet_proxy2.chain.clone();
	let stopper2 = wallet_proxy2.running.clone();

	create_wallet_and_add!(
		client1,
		wallet1,
		mask1_i,
		test_dir,
		"wallet1",
		None,
		&mut wallet_proxy,
		false
	);
	let mask1 = mask1_i.as_ref();
	let seed_phrase = "affair pistol cancel crush garment candy ancient flag work \
	                   market crush dry stand focus mutual weapon offer ceiling rival turn team spring \
	                   where swift";
	let seed_phrase = Some(ZeroingString::from(seed_phrase));
	create_wallet_and_add!(
		client2,
		wallet2,
		mask2_i,
		test_dir,
		"wallet2",
		seed_phrase,
		&mut wallet_proxy,
		false
	);
	let mask2 = mask2_i.as_ref();
	let _ = &client2;
	// the same seed, restored into a fresh wallet directory later on
	create_wallet_and_add!(
		client3,
		wallet3,
		mask3_i,
		test_dir,
		"wallet2_restored",
		seed_phrase,
		&mut wallet_proxy,
		false
	);
	let _ = &client3;

	std::thread::spawn(move || {
		if let Err(e) = wallet_proxy.run() {
			error!("Wallet Proxy error: {}", e);
		}
	});

	let reward = core::consensus::REWARD;
	let cm = global::coinbase_maturity() as u64;
	let sent = reward * 2;

	let bh = 10u64;
	award_blocks_to_wallet(&chain, wallet1.clone(), mask1, bh as usize, false)?;

	let mut tx = None;
	owner(Some(wallet1.clone()), mask1, None, |api, m| {
		let args = InitTxArgs {
			src_acct_name: None,
			amount: sent,
			minimum_confirmations: cm,
			max_outputs: 500,
			num_change_outputs: 1,
			selection_strategy_is_use_all: false,
			..Default::default()
		};
		let slate = api.init_send_tx(m, args)?;
		api.tx_lock_outputs(m, &slate)?;
		let slate = client1.send_tx_slate_direct("wallet2", &slate)?;
		let slate = api.finalize_tx(m, &slate)?;
		tx = slate.tx;
		Ok(())
	})?;
	let tx = tx.expect("tx from slate");

	for i in 0..bh {
		let hash = chain.get_header_by_height(i + 1).unwrap().hash();
		let block = chain.get_block(&hash).unwrap();
		process_block(&chain2, block);
	}

	let head = chain.head_header().unwrap();
	let block_with =
		create_block_for_wallet(&chain, head.clone(), &[tx.clone()], wallet1.clone(), mask1)?;
	let block_without = create_block_for_wallet(&chain, head, &[], wallet1.clone(), mask1)?;
	process_block(&chain, block_with.clone());
	process_block(&chain2, block_without.clone());
	let bh = bh + 1;

	owner(Some(wallet2.clone()), mask2, None, |api, m| {
		let (refreshed, info) = api.retrieve_summary_info(m, true, 1)?;
		assert!(refreshed);
		assert_eq!(info.last_confirmed_height, bh);
		assert_eq!(info.total, sent);
		assert_eq!(info.amount_currently_spendable, sent);
		let (_, txs) = api.retrieve_txs(m, true, None, None, None)?;
		assert_eq!(txs.len(), 1);
		assert_eq!(txs[0].tx_type, libwallet::TxLogEntryType::TxReceived);
		assert!(txs[0].confirmed);
		Ok(())
	})?;

	Ok(Env {
		chain,
		chain2,
		stopper,
		stopper2,
		wallet1,
		mask1: mask1_i,
		wallet2,
		mask2: mask2_i,
		wallet3,
		mask3: mask3_i,
		sent,
		bh,
		tx,
		block_without,
	})
}

/// A longer fork without the payment replaces block 11.
fn reorg_away(env: &mut Env) -> Result<(), libwallet::Error> {
	award_block_to_wallet(&env.chain2, &[], env.wallet1.clone(), env.mask1.as_ref())?;
	let new_head = env
		.chain2
		.get_block(&env.chain2.head_header().unwrap().hash())
		.unwrap();
	process_block(&env.chain, env.block_without.clone());
	process_block(&env.chain, new_head.clone());
	assert_eq!(env.chain.head_header().unwrap(), new_head.header);
	env.bh += 1;
	Ok(())
}

fn finish(env: &Env) {
	env.stopper2.store(false, Ordering::Relaxed);
	env.stopper.store(false, Ordering::Relaxed);
	thread::sleep(Duration::from_millis(1000));
}

fn dump(
	what: &str,
	info: &libwallet::WalletInfo,
	txs: &[libwallet::TxLogEntry],
	outs: &[libwallet::OutputCommitMapping],
) {
	println!("{}: {:?}", what, info);
	for t in txs {
		println!(
			"tx {} {:?} confirmed={} credited={} kernel_excess={:?}",
			t.id, t.tx_type, t.confirmed, t.amount_credited, t.kernel_excess
		);
	}
	for o in outs {
		println!(
			"output value={} status={:?} tx_log_entry={:?}",
			o.output.value, o.output.status, o.output.tx_log_entry
		);
	}
}

fn restored_impl(test_dir: &'static str) -> Result<(), libwallet::Error> {
	let mut env = confirmed_receive(test_dir)?;
	let sent = env.sent;
	let _ = (&env.wallet2, &env.mask2);
	let mut failures: Vec<String> = vec![];

	// the owner restores the wallet from its seed: the first refresh scans the chain
	owner(Some(env.wallet3.clone()), env.mask3.as_ref(), None, |api, m| {
		let (refreshed, info) = api.retrieve_summary_info(m, true, 1)?;
		assert!(refreshed);
		let (_, txs) = api.retrieve_txs(m, true, None, None, None)?;
		let (_, outs) = api.retrieve_outputs(m, true, true, None)?;
		dump("restored wallet", &info, &txs, &outs);
		assert_eq!(info.last_confirmed_height, env.bh);
		assert_eq!(info.total, sent);
		assert_eq!(info.amount_currently_spendable, sent);
		assert_eq!(txs.len(), 1);
		assert_eq!(txs[0].tx_type, libwallet::TxLogEntryType::TxReceived);
		assert!(txs[0].confirmed);
		Ok(())
	})?;

	reorg_away(&mut env)?;

	owner(Some(env.wallet3.clone()), env.mask3.as_ref(), None, |api, m| {
		api.scan(m, None, false)?;
		let (refreshed, info) = api.retrieve_summary_info(m, true, 1)?;
		assert!(refreshed);
		assert_eq!(info.last_confirmed_height, env.bh);
		let (_, txs) = api.retrieve_txs(m, true, None, None, None)?;
		let (_, outs) = api.retrieve_outputs(m, true, true, None)?;
		dump("after reorganisation + scan", &info, &txs, &outs);
		assert_eq!(info.total, 0);
		assert_eq!(info.amount_currently_spendable, 0);
		assert_eq!(txs.len(), 1);
		if txs[0].tx_type != libwallet::TxLogEntryType::TxReverted || txs[0].confirmed {
			failures.push(format!(
				"after the reorganisation the scan reports the transaction as {:?} confirmed={} instead of TxReverted",
				txs[0].tx_type, txs[0].confirmed
			));
		}
		if info.amount_reverted != sent {
			failures.push(format!(
				"after the reorganisation amount_reverted is {} instead of {}",
				info.amount_reverted, sent
			));
		}
		let (credited, _) = libwallet::TxLogEntry::sum_confirmed(&txs);
		if credited != 0 {
			failures.push(format!(
				"after the reorganisation the log still sums {} of confirmed income",
				credited
			));
		}
		Ok(())
	})?;

	// mined again
	award_block_to_wallet(
		&env.chain,
		&[env.tx.clone()],
		env.wallet1.clone(),
		env.mask1.as_ref(),
	)?;
	env.bh += 1;

	owner(Some(env.wallet3.clone()), env.mask3.as_ref(), None, |api, m| {
		let (refreshed, info) = api.retrieve_summary_info(m, true, 1)?;
		assert!(refreshed);
		assert_eq!(info.last_confirmed_height, env.bh);
		let (_, txs) = api.retrieve_txs(m, true, None, None, None)?;
		let (_, outs) = api.retrieve_outputs(m, true, true, None)?;
		dump("after re-mining + ordinary refresh", &info, &txs, &outs);
		if info.amount_currently_spendable != sent {
			failures.push(format!(
				"after re-mining spendable is {} instead of {}",
				info.amount_currently_spendable, sent
			));
		}
		let live: Vec<_> = txs
			.iter()
			.filter(|t| t.tx_type == libwallet::TxLogEntryType::TxReceived && t.confirmed)
			.collect();
		if live.len() != 1 {
			failures.push(format!(
				"after re-mining the payment is reported as {:?}",
				txs.iter()
					.map(|t| (t.tx_type.clone(), t.confirmed))
					.collect::<Vec<_>>()
			));
		}
		Ok(())
	})?;

	finish(&env);
	assert!(failures.is_empty(), "{:#?}", failures);
	Ok(())
}

#[test]
fn hunt_c18_restored_wallet_never_reports_reverted() {
	let test_dir = "test_output/hunt_c18_5";
	setup(test_dir);
	if let Err(e) = restored_impl(test_dir) {
		panic!("Libwallet Error: {}", e);
	}
	clean_output_dir(test_dir);
}
