// C18 hunt, finding 6: `scan` ignores the failure of its own output refresh.
//
// owner::scan starts with `update_outputs(wallet, mask, true)?` - the only step
// that can find a payment reverted. update_outputs maps every node error to
// `Ok(false)`, and scan throws that boolean away. So when the node fails the
// kernel look-up of the refresh (a time-out, a node restart, a node build without
// that endpoint) while it answers the rest, the scan carries on, rewrites
// last_scanned_block and returns Ok(()): the owner is told the wallet is now
// consistent with the chain, yet the reorganised-away payment is still confirmed,
// counted and spendable.
//
// The test puts a forwarding thread between wallet2's node client and the test
// node; while armed it answers wallet2's get_kernel request with an invalid body
// (what LocalWalletClient turns into Err(ClientCallback), like a failed HTTP call).

#[macro_use]
mod common;

use common::{clean_output_dir, create_wallet_proxy, setup};
use grin_chain as chain;
use grin_core as core;
use grin_core::core::hash::Hashed;
use grin_core::core::{Block, Transaction};
use grin_core::global;
use grin_keychain::ExtKeychain;
use grin_util::secp::key::SecretKey;
use grin_util::Mutex;
use grin_wallet_controller::controller::owner_single_use as owner;
use grin_wallet_impls::test_framework::*;
use grin_wallet_impls::DefaultLCProvider;
use grin_wallet_libwallet as libwallet;
use grin_wallet_libwallet::api_impl::types::InitTxArgs;
use grin_wallet_libwallet::WalletInst;
use log::error;
use std::sync::atomic::{AtomicBool, Ordering};
use std::sync::mpsc::channel;
use std::sync::Arc;
use std::thread;
use std::time::Duration;

type Wallet = Arc<
	Mutex<
		Box<
			dyn WalletInst<
				'static,
				DefaultLCProvider<'static, LocalWalletClient, ExtKeychain>,
				LocalWalletClient,
				ExtKeychain,
			>,
		>,
	>,
>;

struct Env {
	chain: Arc<chain::Chain>,
	chain2: Arc<chain::Chain>,
	stopper: Arc<AtomicBool>,
	stopper2: Arc<AtomicBool>,
	wallet1: Wallet,
	mask1: Option<SecretKey>,
	wallet2: Wallet,
	mask2: Option<SecretKey>,
	sent: u64,
	bh: u64,
	tx: Transaction,
	block_without: Block,
	hook: Hook,
}

/// What the forwarding thread does with wallet2's node requests
struct HookState {
	fail_get_kernel: bool,
	failed: u32,
}
type Hook = Arc<Mutex<HookState>>;

/// wallet1 pays wallet2 (account "b"); the payment is mined in block 11 of the main
/// chain and seen confirmed by wallet2. A parallel chain holds a block 11 without it.
fn confirmed_receive(test_dir: &'static str) -> Result<Env, libwallet::Error> {
	let mut wallet_proxy = create_wallet_proxy(test_dir);
	let stopper = wallet_proxy.running.clone();
	let chain = wallet_proxy.chain.clone();
	let test_dir2 = format!("{}/chain2", test_dir);
	let wallet_proxy2 = create_wallet_proxy(&test_dir2);
	let chain2 = wallet_proxy2.chain.clone();
	let stopper2 = wallet_proxy2.running.clone();

	create_wallet_and_add!(
		client1,
		wallet1,
		mask1_i,
		test_dir,
		"wallet1",
		None,
		&mut wallet_proxy,
		false
	);
	let mask1 = mask1_i.as_ref();
	// wallet2's requests go through a forwarding thread (responses come back directly)
	let (itx, irx) = channel();
	let client2 = LocalWalletClient::new("wallet2", itx);
	let (wallet2, mask2_i) =
		common::create_local_wallet(test_dir, "wallet2", None, client2.clone(), false);
	wallet_proxy.add_wallet(
		"wallet2",
		client2.get_send_instance(),
		wallet2.clone(),
		mask2_i.clone(),
	);
	let mask2 = mask2_i.as_ref();
	let hook: Hook = Arc::new(Mutex::new(HookState {
		fail_get_kernel: false,
		failed: 0,
	}));
	{
		let hook = hook.clone();
		let real_tx = wallet_proxy.tx.clone();
		let back_to_wallet2 = client2.get_send_instance();
		std::thread::spawn(move || {
			for mut m in irx.iter() {
				let fail = {
					let mut st = hook.lock();
					if st.fail_get_kernel && m.method == "get_kernel" {
						st.failed += 1;
						true
					} else {
						false
					}
				};
				if fail {
					// the node fails this request
					m.dest = m.sender_id.clone();
					m.sender_id = "node".to_owned();
					m.body = "503 Service Unavailable".to_owned();
					if back_to_wallet2.send(m).is_err() {
						break;
					}
					continue;
				}
				if real_tx.send(m).is_err() {
					break;
				}
			}
		});
	}

	std::thread::spawn(move || {
		if let Err(e) = wallet_proxy.run() {
			error!("Wallet Proxy error: {}", e);
		}
	});

	owner(Some(wallet2.clone()), mask2, None, |api, m| {
		api.create_account_path(m, "b")?;
		api.set_active_account(m, "b")?;
		Ok(())
	})?;

	let reward = core::consensus::REWARD;
	let cm = global::coinbase_maturity() as u64;
	let sent = reward * 2;

	let bh = 10u64;
	award_blocks_to_wallet(&chain, wallet1.clone(), mask1, bh as usize, false)?;

	let mut tx = None;
	owner(Some(wallet1.clone()), mask1, None, |api, m| {
		let args = InitTxArgs {
			src_acct_name: None,
			amount: sent,
			minimum_confirmations: cm,
			max_outputs: 500,
			num_change_outputs: 1,
			selection_strategy_is_use_all: false,
			..Default::default()
		};
		let slate = api.init_send_tx(m, args)?;
		api.tx_lock_outputs(m, &slate)?;
		let slate = client1.send_tx_slate_direct("wallet2", &slate)?;
		let slate = api.finalize_tx(m, &slate)?;
		tx = slate.tx;
		Ok(())
	})?;
	let tx = tx.expect("tx from slate");

	for i in 0..bh {
		let hash = chain.get_header_by_height(i + 1).unwrap().hash();
		let block = chain.get_block(&hash).unwrap();
		process_block(&chain2, block);
	}

	let head = chain.head_header().unwrap();
	let block_with =
		create_block_for_wallet(&chain, head.clone(), &[tx.clone()], wallet1.clone(), mask1)?;
	let block_without = create_block_for_wallet(&chain, head, &[], wallet1.clone(), mask1)?;
	process_block(&chain, block_with.clone());
	process_block(&chain2, block_without.clone());
	let bh = bh + 1;

	owner(Some(wallet2.clone()), mask2, None, |api, m| {
		let (refreshed, info) = api.retrieve_summary_info(m, true, 1)?;
		assert!(refreshed);
		assert_eq!(info.last_confirmed_height, bh);
		assert_eq!(info.total, sent);
		assert_eq!(info.amount_currently_spendable, sent);
		let (_, txs) = api.retrieve_txs(m, true, None, None, None)?;
		assert_eq!(txs.len(), 1);
		assert_eq!(txs[0].tx_type, libwallet::TxLogEntryType::TxReceived);
		assert!(txs[0].confirmed);
		Ok(())
	})?;

	Ok(Env {
		chain,
		chain2,
		stopper,
		stopper2,
		wallet1,
		mask1: mask1_i,
		wallet2,
		mask2: mask2_i,
		sent,
		bh,
		tx,
		block_without,
		hook,
	})
}

/// A longer fork without the payment replaces block 11.
fn reorg_away(env: &mut Env) -> Result<(), libwallet::Error> {
	award_block_to_wallet(&env.chain2, &[], env.wallet1.clone(), env.mask1.as_ref())?;
	let new_head = env
		.chain2
		.get_block(&env.chain2.head_header().unwrap().hash())
		.unwrap();
	process_block(&env.chain, env.block_without.clone());
	process_block(&env.chain, new_head.clone());
	assert_eq!(env.chain.head_header().unwrap(), new_head.header);
	env.bh += 1;
	Ok(())
}

fn finish(env: &Env) {
	env.stopper2.store(false, Ordering::Relaxed);
	env.stopper.store(false, Ordering::Relaxed);
	thread::sleep(Duration::from_millis(1000));
}

fn scan_swallows_refresh_failure_impl(test_dir: &'static str) -> Result<(), libwallet::Error> {
	let mut env = confirmed_receive(test_dir)?;
	reorg_away(&mut env)?;
	let sent = env.sent;
	let _ = (&env.tx, &env.wallet1);

	// the node fails kernel look-ups while this scan runs
	env.hook.lock().fail_get_kernel = true;
	let mut scan_res = None;
	owner(Some(env.wallet2.clone()), env.mask2.as_ref(), None, |api, m| {
		scan_res = Some(api.scan(m, None, false));
		Ok(())
	})?;
	let scan_res = scan_res.unwrap();
	{
		let mut st = env.hook.lock();
		st.fail_get_kernel = false;
		println!("kernel look-ups failed by the node during the scan: {}", st.failed);
		assert!(st.failed > 0);
	}
	println!("scan returned {:?}", scan_res);

	// Either the scan reports the failure, or it has done its job.
	if scan_res.is_ok() {
		owner(Some(env.wallet2.clone()), env.mask2.as_ref(), None, |api, m| {
			// (ordinary refresh, node healthy again)
			let (refreshed, info) = api.retrieve_summary_info(m, true, 1)?;
			assert!(refreshed);
			assert_eq!(info.last_confirmed_height, env.bh);
			let (_, txs) = api.retrieve_txs(m, true, None, None, None)?;
			println!("after the 'successful' scan: {:?}", info);
			for t in &txs {
				println!(
					"tx {} {:?} confirmed={} credited={}",
					t.id, t.tx_type, t.confirmed, t.amount_credited
				);
			}
			assert_eq!(
				info.amount_currently_spendable, 0,
				"scan returned Ok but the reorganised-away payment is still spendable"
			);
			assert_eq!(info.total, 0);
			assert_eq!(info.amount_reverted, sent);
			assert_eq!(txs[0].tx_type, libwallet::TxLogEntryType::TxReverted);
			Ok(())
		})?;
	}

	finish(&env);
	Ok(())
}

#[test]
fn hunt_c18_scan_swallows_refresh_failure() {
	let test_dir = "test_output/hunt_c18_6";
	setup(test_dir);
	if let Err(e) = scan_swallows_refresh_failure_impl(test_dir) {
		panic!("Libwallet Error: {}", e);
	}
	clean_output_dir(test_dir);
}
