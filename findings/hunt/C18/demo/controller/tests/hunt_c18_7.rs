// C18 hunt, finding 7: create_mwixnet_req takes a REVERTED output as the input of a
// mixnet swap and re-labels it Locked.
//
// create_mwixnet_req looks the named commitment up among all non-Spent outputs of
// the account and never looks at its status. For an output whose transaction was
// reorganised away (status Reverted) it happily builds the swap request (a
// commitment signature + onion spending an output that does not exist on chain)
// and, with lock_output = true, overwrites the status Reverted -> Locked. The next
// refresh turns the Locked output (missing on chain) into Spent, so the wallet no
// longer shows any reverted amount, and when the transaction is mined again the
// ordinary refresh cannot bring the transaction back: apply_api_outputs only
// re-confirms entries through outputs that are Unconfirmed/Reverted, so the entry
// stays TxReverted for good.

#[macro_use]
mod common;

use common::{clean_output_dir, create_wallet_proxy, setup};
use grin_chain as chain;
use grin_core as core;
use grin_core::core::hash::Hashed;
use grin_core::core::{Block, Transaction};
use grin_core::global;
use grin_keychain::ExtKeychain;
use grin_util::secp::key::SecretKey;
use grin_util::Mutex;
use grin_wallet_controller::controller::owner_single_use as owner;
use grin_wallet_impls::test_framework::*;
use grin_wallet_impls::DefaultLCProvider;
use grin_wallet_libwallet as libwallet;
use grin_wallet_libwallet::api_impl::types::InitTxArgs;
use grin_wallet_libwallet::mwixnet::MixnetReqCreationParams;
use grin_wallet_libwallet::WalletInst;
use log::error;
use std::sync::atomic::{AtomicBool, Ordering};
use std::sync::Arc;
use std::thread;
use std::time::Duration;

type Wallet = Arc<
	Mutex<
		Box<
			dyn WalletInst<
				'static,
				DefaultLCProvider<'static, LocalWalletClient, ExtKeychain>,
				LocalWalletClient,
				ExtKeychain,
			>,
		>,
	>,
>;

struct Env {
	chain: Arc<chain::Chain>,
	chain2: Arc<chain::Chain>,
	stopper: Arc<AtomicBool>,
	stopper2: Arc<AtomicBool>,
	wallet1: Wallet,
	mask1: Option<SecretKey>,
	wallet2: Wallet,
	mask2: Option<SecretKey>,
	sent: u64,
	bh: u64,
	tx: Transaction,
	block_without: Block,
}

/// wallet1 pays wallet2 (account "b"); the payment is mined in block 11 of the main
/// chain and seen confirmed by wallet2. A parallel chain holds a block 11 without it.
fn confirmed_receive(test_dir: &'static str) -> Result<Env, libwallet::Error> {
	let mut wallet_proxy = create_wallet_proxy(test_dir);
	let stopper = wallet_proxy.running.clone();
	let chain = wallet_proxy.chain.clone();
	let test_dir2 = format!("{}/chain2", test_dir);
	let wallet_proxy2 = create_wallet_proxy(&test_dir2);
	let chain2 = wallet_proxy2.chain.clone();
	let stopper2 = wallet_proxy2.running.clone();

	create_wallet_and_add!(
		client1,
		wallet1,
		mask1_i,
		test_dir,
		"wallet1",
		None,
		&mut wallet_proxy,
		false
	);
	let mask1 = mask1_i.as_ref();
	create_wallet_and_add!(
		client2,
		wallet2,
		mask2_i,
		test_dir,
		"wallet2",
		None,
		&mut wallet_proxy,
		false
	);
	let mask2 = mask2_i.as_ref();
	let _ = &client2;

	std::thread::spawn(move || {
		if let Err(e) = wallet_proxy.run() {
			error!("Wallet Proxy error: {}", e);
		}
	});

	owner(Some(wallet2.clone()), mask2, None, |api, m| {
		api.create_account_path(m, "b")?;
		api.set_active_account(m, "b")?;
		Ok(())
	})?;

	let reward = core::consensus::REWARD;
	let cm = global::coinbase_maturity() as u64;
	let sent = reward * 2;

	let bh = 10u64;
	award_blocks_to_wallet(&chain, wallet1.clone(), mask1, bh as usize, false)?;

	let mut tx = None;
	owner(Some(wallet1.clone()), mask1, None, |api, m| {
		let args = InitTxArgs {
			src_acct_name: None,
			amount: sent,
			minimum_confirmations: cm,
			max_outputs: 500,
			num_change_outputs: 1,
			selection_strategy_is_use_all: false,
			..Default::default()
		};
		let slate = api.init_send_tx(m, args)?;
		api.tx_lock_outputs(m, &slate)?;
		let slate = client1.send_tx_slate_direct("wallet2", &slate)?;
		let slate = api.finalize_tx(m, &slate)?;
		tx = slate.tx;
		Ok(())
	})?;
	let tx = tx.expect("tx from slate");

	for i in 0..bh {
		let hash = chain.get_header_by_height(i + 1).unwrap().hash();
		let block = chain.get_block(&hash).unwrap();
		process_block(&chain2, block);
	}

	let head = chain.head_header().unwrap();
	let block_with =
		create_block_for_wallet(&chain, head.clone(), &[tx.clone()], wallet1.clone(), mask1)?;
	let block_without = create_block_for_wallet(&chain, head, &[], wallet1.clone(), mask1)?;
	process_block(&chain, block_with.clone());
	process_block(&chain2, block_without.clone());
	let bh = bh + 1;

	owner(Some(wallet2.clone()), mask2, None, |api, m| {
		let (refreshed, info) = api.retrieve_summary_info(m, true, 1)?;
		assert!(refreshed);
		assert_eq!(info.last_confirmed_height, bh);
		assert_eq!(info.total, sent);
		assert_eq!(info.amount_currently_spendable, sent);
		let (_, txs) = api.retrieve_txs(m, true, None, None, None)?;
		assert_eq!(txs.len(), 1);
		assert_eq!(txs[0].tx_type, libwallet::TxLogEntryType::TxReceived);
		assert!(txs[0].confirmed);
		Ok(())
	})?;

	Ok(Env {
		chain,
		chain2,
		stopper,
		stopper2,
		wallet1,
		mask1: mask1_i,
		wallet2,
		mask2: mask2_i,
		sent,
		bh,
		tx,
		block_without,
	})
}

/// A longer fork without the payment replaces block 11.
fn reorg_away(env: &mut Env) -> Result<(), libwallet::Error> {
	award_block_to_wallet(&env.chain2, &[], env.wallet1.clone(), env.mask1.as_ref())?;
	let new_head = env
		.chain2
		.get_block(&env.chain2.head_header().unwrap().hash())
		.unwrap();
	process_block(&env.chain, env.block_without.clone());
	process_block(&env.chain, new_head.clone());
	assert_eq!(env.chain.head_header().unwrap(), new_head.header);
	env.bh += 1;
	Ok(())
}

fn finish(env: &Env) {
	env.stopper2.store(false, Ordering::Relaxed);
	env.stopper.store(false, Ordering::Relaxed);
	thread::sleep(Duration::from_millis(1000));
}

fn mwixnet_impl(test_dir: &'static str) -> Result<(), libwallet::Error> {
	let mut env = confirmed_receive(test_dir)?;
	reorg_away(&mut env)?;
	let sent = env.sent;
	let mut failures: Vec<String> = vec![];

	owner(Some(env.wallet2.clone()), env.mask2.as_ref(), None, |api, m| {
		api.scan(m, None, false)?;
		let (_, info) = api.retrieve_summary_info(m, true, 1)?;
		assert_eq!(info.amount_reverted, sent);
		assert_eq!(info.amount_currently_spendable, 0);
		let (_, outs) = api.retrieve_outputs(m, false, false, None)?;
		assert_eq!(outs.len(), 1);
		assert_eq!(outs[0].output.status, libwallet::OutputStatus::Reverted);

		// the owner asks for a mixnet swap of that output
		let params = {
			let secp_locked = grin_util::static_secp_instance();
			let secp = secp_locked.lock();
			let keys = [
				"97444ae673bb92c713c1a2f7b8882ffbfc1c67401a280a775dce1a8651584332",
				"0c9414341f2140ed34a5a12a6479bf5a6404820d001ab81d9d3e8cc38f049b4e",
				"b58ece97d60e71bb7e53218400b0d67bfe6a3cb7d3b4a67a44f8fb7c525cbca5",
			];
			MixnetReqCreationParams {
				server_keys: keys
					.iter()
					.map(|k| SecretKey::from_slice(&secp, &grin_util::from_hex(k).unwrap()).unwrap())
					.collect(),
				fee_per_hop: 50_000_000,
			}
		};
		let res = api.create_mwixnet_req(m, &params, &outs[0].commit, true);
		println!(
			"create_mwixnet_req over the reverted output: {}",
			match &res {
				Ok(_) => "Ok(SwapReq)".to_owned(),
				Err(e) => format!("Err({})", e),
			}
		);
		if res.is_ok() {
			failures.push("a mixnet swap request was built from a reverted output".to_owned());
		}
		let (_, outs) = api.retrieve_outputs(m, true, false, None)?;
		println!("output status right after the request: {:?}", outs[0].output.status);
		let (_, info) = api.retrieve_summary_info(m, true, 1)?;
		let (_, outs) = api.retrieve_outputs(m, true, false, None)?;
		let (_, txs) = api.retrieve_txs(m, false, None, None, None)?;
		println!("after the request + refresh: {:?}", info);
		println!(
			"tx {:?} confirmed={}, output {:?}",
			txs[0].tx_type, txs[0].confirmed, outs[0].output.status
		);
		if info.amount_reverted != sent {
			failures.push(format!(
				"after the request amount_reverted is {} (locked {}), the output is {:?}",
				info.amount_reverted, info.amount_locked, outs[0].output.status
			));
		}
		Ok(())
	})?;

	// the transaction is mined again
	award_block_to_wallet(
		&env.chain,
		&[env.tx.clone()],
		env.wallet1.clone(),
		env.mask1.as_ref(),
	)?;
	env.bh += 1;

	owner(Some(env.wallet2.clone()), env.mask2.as_ref(), None, |api, m| {
		let (refreshed, info) = api.retrieve_summary_info(m, true, 1)?;
		assert!(refreshed);
		assert_eq!(info.last_confirmed_height, env.bh);
		let (_, txs) = api.retrieve_txs(m, true, None, None, None)?;
		let (_, outs) = api.retrieve_outputs(m, true, false, None)?;
		println!("after re-mining + ordinary refresh: {:?}", info);
		println!(
			"tx {:?} confirmed={}, output {:?}",
			txs[0].tx_type, txs[0].confirmed, outs[0].output.status
		);
		if !(txs[0].tx_type == libwallet::TxLogEntryType::TxReceived && txs[0].confirmed) {
			failures.push(format!(
				"after re-mining the transaction is reported as {:?} confirmed={}",
				txs[0].tx_type, txs[0].confirmed
			));
		}
		Ok(())
	})?;

	finish(&env);
	assert!(failures.is_empty(), "{:#?}", failures);
	Ok(())
}

#[test]
fn hunt_c18_mwixnet_req_over_reverted_output() {
	let test_dir = "test_output/hunt_c18_7";
	setup(test_dir);
	if let Err(e) = mwixnet_impl(test_dir) {
		panic!("Libwallet Error: {}", e);
	}
	clean_output_dir(test_dir);
}
