#!/bin/bash
# Usage: run_demo.sh <grin-wallet checkout> [test name ...]
# Copies the demo tests into <checkout>/controller/tests and runs them.
# Every test asserts what property C18 requires, so on the unmodified tree each of
# them FAILS; the script exits non-zero when at least one test fails.
set -u
HERE="$(cd "$(dirname "$0")" && pwd)"
CHECKOUT="${1:?usage: run_demo.sh <checkout> [test ...]}"
shift
TESTS=("$@")
if [ ${#TESTS[@]} -eq 0 ]; then
	TESTS=(hunt_c18_1 hunt_c18_2 hunt_c18_3 hunt_c18_4 hunt_c18_5 hunt_c18_6 hunt_c18_7)
fi
cp "$HERE"/demo/controller/tests/hunt_c18_*.rs "$CHECKOUT/controller/tests/" || exit 2
cd "$CHECKOUT" || exit 2
export CARGO_TARGET_DIR="${CARGO_TARGET_DIR:-/tmp/hunt_C18_target}"
rc=0
for t in "${TESTS[@]}"; do
	echo "=== $t"
	if ! timeout 1800 cargo test -p grin_wallet_controller --offline --test "$t" -- --nocapture; then
		echo "=== $t FAILED (property violated)"
		rc=1
	fi
done
rm -rf "$CHECKOUT/controller/test_output"/hunt_c18_*
exit $rc
