// C19 hunt, candidate 1: a transaction-log query that supplies a confirmation-time
// range (min_confirmed_timestamp / max_confirmed_timestamp) must return exactly the
// entries whose confirmation time lies in that range. Entries that have NO confirmation
// time (never confirmed: outstanding sends, cancelled sends) do not satisfy the criterion,
// yet the unmodified code lets every one of them through.

#[macro_use]
extern crate log;
extern crate grin_wallet_controller as wallet;
extern crate grin_wallet_impls as impls;
extern crate grin_wallet_libwallet as libwallet;

use chrono::{Duration as CDuration, TimeZone, Utc};
use impls::test_framework::{self, LocalWalletClient};
use libwallet::{InitTxArgs, RetrieveTxQueryArgs, RetrieveTxQuerySortField, TxLogEntryType};
use std::sync::atomic::Ordering;
use std::thread;
use std::time::Duration;

#[macro_use]
mod common;
use common::{clean_output_dir, create_wallet_proxy, setup};

fn hunt_c19_1_impl(test_dir: &'static str) -> Result<(), libwallet::Error> {
	let mut wallet_proxy = create_wallet_proxy(test_dir);
	let chain = wallet_proxy.chain.clone();
	let stopper = wallet_proxy.running.clone();

	create_wallet_and_add!(
		client1,
		wallet1,
		mask1_i,
		test_dir,
		"wallet1",
		None,
		&mut wallet_proxy,
		false
	);
	let mask1 = (&mask1_i).as_ref();
	create_wallet_and_add!(
		client2,
		wallet2,
		mask2_i,
		test_dir,
		"wallet2",
		None,
		&mut wallet_proxy,
		false
	);
	let _mask2 = (&mask2_i).as_ref();
	let _ = &client2;
	let _ = &wallet2;

	thread::spawn(move || {
		if let Err(e) = wallet_proxy.run() {
			error!("Wallet Proxy error: {}", e);
		}
	});

	let t_start = Utc::now() - CDuration::seconds(5);

	// 8 blocks to wallet1: after a refresh, 8 ConfirmedCoinbase entries, each with a
	// confirmation time
	let _ = test_framework::award_blocks_to_wallet(&chain, wallet1.clone(), mask1, 8, false);

	wallet::controller::owner_single_use(Some(wallet1.clone()), mask1, None, |api, m| {
		let (refreshed, _) = api.retrieve_summary_info(m, true, 1)?;
		assert!(refreshed);

		// an outstanding send: locked and finalized but never posted => unconfirmed,
		// confirmation_ts == None
		let args = InitTxArgs {
			src_acct_name: None,
			amount: 1_000_000_000,
			minimum_confirmations: 1,
			max_outputs: 500,
			num_change_outputs: 1,
			selection_strategy_is_use_all: false,
			..Default::default()
		};
		let slate = api.init_send_tx(m, args)?;
		let slate = client1.send_tx_slate_direct("wallet2", &slate)?;
		api.tx_lock_outputs(m, &slate)?;
		let _ = api.finalize_tx(m, &slate)?;

		// a cancelled send => TxSentCancelled, confirmation_ts == None
		let args = InitTxArgs {
			src_acct_name: None,
			amount: 2_000_000_000,
			minimum_confirmations: 1,
			max_outputs: 500,
			num_change_outputs: 1,
			selection_strategy_is_use_all: false,
			..Default::default()
		};
		let slate = api.init_send_tx(m, args)?;
		let slate = client1.send_tx_slate_direct("wallet2", &slate)?;
		api.tx_lock_outputs(m, &slate)?;
		api.cancel_tx(m, None, Some(slate.id))?;
		Ok(())
	})?;

	wallet::controller::owner_single_use(Some(wallet1.clone()), mask1, None, |api, m| {
		// the whole log, for reference
		let (_, all) = api.retrieve_txs(m, false, None, None, None)?;
		println!("---- whole log of the active account ----");
		for t in all.iter() {
			println!(
				"id {} type {:?} confirmed {} confirmation_ts {:?}",
				t.id, t.tx_type, t.confirmed, t.confirmation_ts
			);
		}
		let with_ts = all.iter().filter(|t| t.confirmation_ts.is_some()).count();
		let without_ts = all.iter().filter(|t| t.confirmation_ts.is_none()).count();
		assert_eq!(with_ts, 8, "the 8 coinbases carry a confirmation time");
		assert_eq!(
			without_ts, 2,
			"the outstanding and the cancelled send carry no confirmation time"
		);
		assert!(all
			.iter()
			.any(|t| t.tx_type == TxLogEntryType::TxSent && !t.confirmed));
		assert!(all
			.iter()
			.any(|t| t.tx_type == TxLogEntryType::TxSentCancelled));

		let t_end = Utc::now() + CDuration::seconds(5);

		// Query A: confirmation time within [t_start, t_end]. Expected: exactly the entries
		// of the log with Some(confirmation_ts) in that range (the 8 coinbases).
		let mut q = RetrieveTxQueryArgs::default();
		q.min_confirmed_timestamp = Some(t_start);
		q.max_confirmed_timestamp = Some(t_end);
		q.sort_field = Some(RetrieveTxQuerySortField::Id);
		let (_, res_a) = api.retrieve_txs(m, false, None, None, Some(q))?;
		let expected_a: Vec<u32> = all
			.iter()
			.filter(|t| match t.confirmation_ts {
				Some(ts) => ts >= t_start && ts <= t_end,
				None => false,
			})
			.map(|t| t.id)
			.collect();
		let mut expected_a_sorted = expected_a.clone();
		expected_a_sorted.sort();
		let got_a: Vec<u32> = res_a.iter().map(|t| t.id).collect();
		println!("query A expected ids {:?}", expected_a_sorted);
		println!("query A returned ids {:?}", got_a);

		// Query B: confirmation time no later than 1 Jan 2000. Nothing in this log was
		// confirmed then: expected empty.
		let mut q = RetrieveTxQueryArgs::default();
		q.max_confirmed_timestamp = Some(Utc.with_ymd_and_hms(2000, 1, 1, 0, 0, 0).unwrap());
		let (_, res_b) = api.retrieve_txs(m, false, None, None, Some(q))?;
		let got_b: Vec<(u32, TxLogEntryType)> =
			res_b.iter().map(|t| (t.id, t.tx_type.clone())).collect();
		println!("query B (confirmed before 2000-01-01) returned {:?}", got_b);

		// Query C: confirmation time no earlier than a moment in the future: expected empty.
		let mut q = RetrieveTxQueryArgs::default();
		q.min_confirmed_timestamp = Some(Utc::now() + CDuration::days(365));
		let (_, res_c) = api.retrieve_txs(m, false, None, None, Some(q))?;
		let got_c: Vec<(u32, TxLogEntryType)> =
			res_c.iter().map(|t| (t.id, t.tx_type.clone())).collect();
		println!("query C (confirmed a year from now or later) returned {:?}", got_c);

		assert_eq!(
			got_a, expected_a_sorted,
			"query A: a confirmation-time range must return exactly the entries confirmed within it"
		);
		assert!(
			res_b.is_empty(),
			"query B: nothing was confirmed before 2000-01-01, got {:?}",
			got_b
		);
		assert!(
			res_c.is_empty(),
			"query C: nothing is confirmed in the future, got {:?}",
			got_c
		);
		Ok(())
	})?;

	stopper.store(false, Ordering::Relaxed);
	thread::sleep(Duration::from_millis(200));
	Ok(())
}

#[test]
fn hunt_c19_1_confirmed_ts_range_returns_unconfirmed() {
	let test_dir = "test_output/hunt_c19_1";
	clean_output_dir(test_dir);
	setup(test_dir);
	if let Err(e) = hunt_c19_1_impl(test_dir) {
		panic!("Libwallet Error: {}", e);
	}
	clean_output_dir(test_dir);
}
