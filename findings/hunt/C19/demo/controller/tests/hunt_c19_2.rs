// C19 hunt, candidate 2: a look-up by log id must concern the entry of the ACTIVE account.
// Log ids are allocated per account, so two accounts of one wallet both have an entry
// with id N. owner::get_stored_tx(tx_id = N) resolves the id with
// `w.tx_log_iter().find(|t| t.id == i)` - no account filter - and so picks the entry of
// whichever account iterates first (the default account), returning the stored transaction
// of ANOTHER account's payment for the active account's log id.

#[macro_use]
extern crate log;
extern crate grin_wallet_controller as wallet;
extern crate grin_wallet_impls as impls;
extern crate grin_wallet_libwallet as libwallet;

use impls::test_framework::{self, LocalWalletClient};
use libwallet::{InitTxArgs, TxLogEntryType};
use std::sync::atomic::Ordering;
use std::thread;
use std::time::Duration;

#[macro_use]
mod common;
use common::{clean_output_dir, create_wallet_proxy, setup};

fn hunt_c19_2_impl(test_dir: &'static str) -> Result<(), libwallet::Error> {
	let mut wallet_proxy = create_wallet_proxy(test_dir);
	let chain = wallet_proxy.chain.clone();
	let stopper = wallet_proxy.running.clone();

	create_wallet_and_add!(
		client1,
		wallet1,
		mask1_i,
		test_dir,
		"wallet1",
		None,
		&mut wallet_proxy,
		false
	);
	let mask1 = (&mask1_i).as_ref();
	create_wallet_and_add!(
		client2,
		wallet2,
		mask2_i,
		test_dir,
		"wallet2",
		None,
		&mut wallet_proxy,
		false
	);
	let mask2 = (&mask2_i).as_ref();
	let _ = &client2;

	thread::spawn(move || {
		if let Err(e) = wallet_proxy.run() {
			error!("Wallet Proxy error: {}", e);
		}
	});

	wallet::controller::owner_single_use(Some(wallet1.clone()), mask1, None, |api, m| {
		api.create_account_path(m, "account1")?;
		Ok(())
	})?;

	// 5 blocks to account1, 5 blocks to default, then 4 to wallet2 so that everything matures
	{
		wallet_inst!(wallet1, w);
		w.set_parent_key_id_by_name("account1")?;
	}
	let _ = test_framework::award_blocks_to_wallet(&chain, wallet1.clone(), mask1, 5, false);
	{
		wallet_inst!(wallet1, w);
		w.set_parent_key_id_by_name("default")?;
	}
	let _ = test_framework::award_blocks_to_wallet(&chain, wallet1.clone(), mask1, 5, false);
	let _ = test_framework::award_blocks_to_wallet(&chain, wallet2.clone(), mask2, 4, false);

	// default account: ids 0..4 are coinbases, id 5 is a payment of 1 grin
	let mut slate_default = None;
	wallet::controller::owner_single_use(Some(wallet1.clone()), mask1, None, |api, m| {
		let (refreshed, _) = api.retrieve_summary_info(m, true, 1)?;
		assert!(refreshed);
		let args = InitTxArgs {
			src_acct_name: None,
			amount: 1_000_000_000,
			minimum_confirmations: 1,
			max_outputs: 500,
			num_change_outputs: 1,
			selection_strategy_is_use_all: false,
			..Default::default()
		};
		let slate = api.init_send_tx(m, args)?;
		let slate = client1.send_tx_slate_direct("wallet2", &slate)?;
		api.tx_lock_outputs(m, &slate)?;
		let slate = api.finalize_tx(m, &slate)?;
		slate_default = Some(slate.id);
		Ok(())
	})?;
	let slate_default = slate_default.unwrap();

	// account1: ids 0..4 are coinbases, id 5 is a payment of 2 grin
	{
		wallet_inst!(wallet1, w);
		w.set_parent_key_id_by_name("account1")?;
	}
	let mut slate_acct1 = None;
	wallet::controller::owner_single_use(Some(wallet1.clone()), mask1, None, |api, m| {
		let (refreshed, _) = api.retrieve_summary_info(m, true, 1)?;
		assert!(refreshed);
		let args = InitTxArgs {
			src_acct_name: None,
			amount: 2_000_000_000,
			minimum_confirmations: 1,
			max_outputs: 500,
			num_change_outputs: 1,
			selection_strategy_is_use_all: false,
			..Default::default()
		};
		let slate = api.init_send_tx(m, args)?;
		let slate = client1.send_tx_slate_direct("wallet2", &slate)?;
		api.tx_lock_outputs(m, &slate)?;
		let slate = api.finalize_tx(m, &slate)?;
		slate_acct1 = Some(slate.id);
		Ok(())
	})?;
	let slate_acct1 = slate_acct1.unwrap();
	assert_ne!(slate_default, slate_acct1);

	// account1 is the active account. Look up its log id 5.
	wallet::controller::owner_single_use(Some(wallet1.clone()), mask1, None, |api, m| {
		let (_, txs) = api.retrieve_txs(m, false, Some(5), None, None)?;
		assert_eq!(txs.len(), 1);
		let entry = &txs[0];
		println!(
			"active account1, log id 5: type {:?} slate {:?} debited {} credited {}",
			entry.tx_type, entry.tx_slate_id, entry.amount_debited, entry.amount_credited
		);
		assert_eq!(entry.tx_type, TxLogEntryType::TxSent);
		assert_eq!(entry.tx_slate_id, Some(slate_acct1));

		// look-up of the stored transaction by slate id: the right one
		let by_slate = api
			.get_stored_tx(m, None, Some(&slate_acct1))?
			.expect("stored tx of account1's payment");
		// look-up of the stored transaction by the same entry's log id
		let by_id = api
			.get_stored_tx(m, Some(entry.id), None)?
			.expect("stored tx for log id 5");
		println!(
			"get_stored_tx(slate {}) -> slate id {}",
			slate_acct1, by_slate.id
		);
		println!("get_stored_tx(log id {}) -> slate id {}", entry.id, by_id.id);
		println!("(default account's payment has slate id {})", slate_default);

		assert_eq!(by_slate.id, slate_acct1);
		assert_eq!(
			by_id.id, slate_acct1,
			"get_stored_tx by log id returned the stored transaction of another account's entry \
			 (default account's slate {}), not the active account's entry {}",
			slate_default, slate_acct1
		);
		assert_eq!(
			by_id.tx.as_ref().unwrap().kernels()[0].excess,
			by_slate.tx.as_ref().unwrap().kernels()[0].excess,
			"stored transaction looked up by log id differs from the one looked up by the entry's slate id"
		);
		Ok(())
	})?;

	stopper.store(false, Ordering::Relaxed);
	thread::sleep(Duration::from_millis(200));
	Ok(())
}

#[test]
fn hunt_c19_2_get_stored_tx_by_id_crosses_accounts() {
	let test_dir = "test_output/hunt_c19_2";
	clean_output_dir(test_dir);
	setup(test_dir);
	if let Err(e) = hunt_c19_2_impl(test_dir) {
		panic!("Libwallet Error: {}", e);
	}
	clean_output_dir(test_dir);
}
