// C19 hunt, candidate 3 (differential sweep): synthetic transaction logs (all entry types,
// two accounts, boundary amounts 0 / u64::MAX, tied timestamps, confirmed and unconfirmed
// entries) are written through the wallet backend and random queries over all 18 fields are
// compared with an independent oracle of the property's statement.
//
// Two counters are kept: mismatches of queries that carry a confirmation-time bound (the
// defect of hunt_c19_1) and mismatches of every other query (none were found).

#[macro_use]
extern crate log;
extern crate grin_wallet_controller as wallet;
extern crate grin_wallet_impls as impls;
extern crate grin_wallet_libwallet as libwallet;

use chrono::{DateTime, Duration as CDuration, TimeZone, Utc};
use grin_keychain::{ExtKeychain, Keychain};
use impls::test_framework::LocalWalletClient;
use libwallet::{
	RetrieveTxQueryArgs, RetrieveTxQuerySortField, RetrieveTxQuerySortOrder, TxLogEntry,
	TxLogEntryType,
};
use std::sync::atomic::Ordering;
use std::thread;
use std::time::Duration;

#[macro_use]
mod common;
use common::{clean_output_dir, create_wallet_proxy, setup};

struct Rng(u64);
impl Rng {
	fn next(&mut self) -> u64 {
		let mut x = self.0;
		x ^= x << 13;
		x ^= x >> 7;
		x ^= x << 17;
		self.0 = x;
		x
	}
	fn below(&mut self, n: u64) -> u64 {
		self.next() % n
	}
	fn coin(&mut self) -> bool {
		self.below(2) == 0
	}
	fn pick<T: Clone>(&mut self, v: &[T]) -> T {
		v[self.below(v.len() as u64) as usize].clone()
	}
}

fn is_sent(t: &TxLogEntry) -> bool {
	t.tx_type == TxLogEntryType::TxSent || t.tx_type == TxLogEntryType::TxSentCancelled
}

fn total(t: &TxLogEntry) -> i128 {
	if is_sent(t) {
		t.amount_debited as i128 - t.amount_credited as i128
	} else {
		t.amount_credited as i128 - t.amount_debited as i128
	}
}

fn oracle_filter(t: &TxLogEntry, q: &RetrieveTxQueryArgs) -> bool {
	let cancelled = t.tx_type == TxLogEntryType::TxSentCancelled
		|| t.tx_type == TxLogEntryType::TxReceivedCancelled;
	if q.exclude_cancelled == Some(true) && cancelled {
		return false;
	}
	if q.include_outstanding_only == Some(true) && t.confirmed {
		return false;
	}
	if q.include_confirmed_only == Some(true) && !t.confirmed {
		return false;
	}
	if q.include_sent_only == Some(true) && !is_sent(t) {
		return false;
	}
	if q.include_received_only == Some(true)
		&& !(t.tx_type == TxLogEntryType::TxReceived
			|| t.tx_type == TxLogEntryType::TxReceivedCancelled)
	{
		return false;
	}
	if q.include_coinbase_only == Some(true) && t.tx_type != TxLogEntryType::ConfirmedCoinbase {
		return false;
	}
	if q.include_reverted_only == Some(true) && t.tx_type != TxLogEntryType::TxReverted {
		return false;
	}
	if let Some(v) = q.min_id {
		if t.id < v {
			return false;
		}
	}
	if let Some(v) = q.max_id {
		if t.id > v {
			return false;
		}
	}
	if let Some(v) = q.min_amount {
		if total(t) < v as i128 {
			return false;
		}
	}
	if let Some(v) = q.max_amount {
		if total(t) > v as i128 {
			return false;
		}
	}
	if let Some(v) = q.min_creation_timestamp {
		if t.creation_ts < v {
			return false;
		}
	}
	if let Some(v) = q.max_creation_timestamp {
		if t.creation_ts > v {
			return false;
		}
	}
	// HUNT_C19_LENIENT=1 switches the oracle to the code's reading (an entry without a
	// confirmation time passes any confirmation-time bound); used to show that this is the
	// only deviation.
	let lenient = std::env::var("HUNT_C19_LENIENT").is_ok();
	if let Some(v) = q.min_confirmed_timestamp {
		match t.confirmation_ts {
			Some(c) if c >= v => {}
			None if lenient => {}
			_ => return false,
		}
	}
	if let Some(v) = q.max_confirmed_timestamp {
		match t.confirmation_ts {
			Some(c) if c <= v => {}
			None if lenient => {}
			_ => return false,
		}
	}
	true
}

#[derive(Clone, Debug, PartialEq, Eq, PartialOrd, Ord)]
enum Key {
	U(u64),
	I(i128),
	T(DateTime<Utc>),
	OT(Option<DateTime<Utc>>),
}

fn sort_key(t: &TxLogEntry, f: &Option<RetrieveTxQuerySortField>) -> Key {
	match f {
		None | Some(RetrieveTxQuerySortField::Id) => Key::U(t.id as u64),
		Some(RetrieveTxQuerySortField::CreationTimestamp) => Key::T(t.creation_ts),
		Some(RetrieveTxQuerySortField::ConfirmationTimestamp) => Key::OT(t.confirmation_ts),
		Some(RetrieveTxQuerySortField::TotalAmount) => Key::I(total(t)),
		Some(RetrieveTxQuerySortField::AmountCredited) => Key::U(t.amount_credited),
		Some(RetrieveTxQuerySortField::AmountDebited) => Key::U(t.amount_debited),
	}
}

fn describe(q: &RetrieveTxQueryArgs) -> String {
	serde_json::to_string(q).unwrap()
}

fn hunt_c19_3_impl(test_dir: &'static str) -> Result<(), libwallet::Error> {
	let mut wallet_proxy = create_wallet_proxy(test_dir);
	let stopper = wallet_proxy.running.clone();

	create_wallet_and_add!(
		client1,
		wallet1,
		mask1_i,
		test_dir,
		"wallet1",
		None,
		&mut wallet_proxy,
		false
	);
	let mask1 = (&mask1_i).as_ref();
	let _ = &client1;

	thread::spawn(move || {
		if let Err(e) = wallet_proxy.run() {
			error!("Wallet Proxy error: {}", e);
		}
	});

	wallet::controller::owner_single_use(Some(wallet1.clone()), mask1, None, |api, m| {
		api.create_account_path(m, "account1")?;
		Ok(())
	})?;

	let parents = vec![
		ExtKeychain::derive_key_id(2, 0, 0, 0, 0),
		ExtKeychain::derive_key_id(2, 1, 0, 0, 0),
	];
	let names = vec!["default", "account1"];
	let base = Utc.with_ymd_and_hms(2024, 1, 1, 0, 0, 0).unwrap();
	let times: Vec<DateTime<Utc>> = (0..5).map(|i| base + CDuration::seconds(i)).collect();
	let amounts: Vec<u64> = vec![0, 1, 5, 10, u64::MAX - 1, u64::MAX];
	let types = vec![
		TxLogEntryType::ConfirmedCoinbase,
		TxLogEntryType::TxReceived,
		TxLogEntryType::TxSent,
		TxLogEntryType::TxReceivedCancelled,
		TxLogEntryType::TxSentCancelled,
		TxLogEntryType::TxReverted,
	];

	let mut rng = Rng(0x9E3779B97F4A7C15);
	let mut model: Vec<TxLogEntry> = vec![];

	// build the log
	{
		wallet_inst!(wallet1, w);
		let mut batch = w.batch(mask1)?;
		for p in parents.iter() {
			for _ in 0..14 {
				let id = batch.next_tx_log_id(p)?;
				let mut t = TxLogEntry::new(p.clone(), rng.pick(&types), id);
				t.creation_ts = rng.pick(&times);
				t.confirmed = rng.coin();
				t.confirmation_ts = if rng.below(3) == 0 {
					None
				} else {
					Some(rng.pick(&times))
				};
				t.amount_credited = rng.pick(&amounts);
				t.amount_debited = rng.pick(&amounts);
				if rng.coin() {
					t.tx_slate_id = Some(uuid::Uuid::new_v4());
				}
				model.push(t.clone());
				batch.save_tx_log_entry(t, p)?;
			}
		}
		batch.commit()?;
	}

	let mut other_mismatches: Vec<String> = vec![];
	let mut conf_ts_mismatches = 0usize;
	let mut conf_ts_example: Option<String> = None;
	let mut lookup_mismatches: Vec<String> = vec![];
	let mut n_queries = 0usize;

	for (ai, name) in names.iter().enumerate() {
		{
			wallet_inst!(wallet1, w);
			w.set_parent_key_id_by_name(name)?;
		}
		let active = parents[ai].clone();
		let acct_model: Vec<TxLogEntry> = model
			.iter()
			.filter(|t| t.parent_key_id == active)
			.cloned()
			.collect();

		wallet::controller::owner_single_use(Some(wallet1.clone()), mask1, None, |api, m| {
			// look-ups by log id and by slate id
			for id in 0..16u32 {
				let (_, got) = api.retrieve_txs(m, false, Some(id), None, None)?;
				let exp: Vec<u32> = acct_model
					.iter()
					.filter(|t| t.id == id)
					.map(|t| t.id)
					.collect();
				let g: Vec<u32> = got.iter().map(|t| t.id).collect();
				if g != exp || got.iter().any(|t| t.parent_key_id != active) {
					lookup_mismatches.push(format!("{} id {}: {:?} vs {:?}", name, id, g, exp));
				}
			}
			for t in model.iter() {
				if let Some(s) = t.tx_slate_id {
					let (_, got) = api.retrieve_txs(m, false, None, Some(s), None)?;
					let exp: Vec<u32> = acct_model
						.iter()
						.filter(|x| x.tx_slate_id == Some(s))
						.map(|x| x.id)
						.collect();
					let g: Vec<u32> = got.iter().map(|t| t.id).collect();
					if g != exp || got.iter().any(|t| t.parent_key_id != active) {
						lookup_mismatches
							.push(format!("{} slate {}: {:?} vs {:?}", name, s, g, exp));
					}
				}
			}

			// random queries
			for _ in 0..4000 {
				n_queries += 1;
				let ob = |r: &mut Rng| match r.below(4) {
					0 => Some(true),
					1 => Some(false),
					_ => None,
				};
				let q = RetrieveTxQueryArgs {
					min_id: if rng.below(3) == 0 {
						Some(rng.below(16) as u32)
					} else {
						None
					},
					max_id: if rng.below(3) == 0 {
						Some(rng.below(16) as u32)
					} else {
						None
					},
					limit: if rng.below(3) == 0 {
						Some(rng.below(16) as u32)
					} else {
						None
					},
					exclude_cancelled: ob(&mut rng),
					include_outstanding_only: ob(&mut rng),
					include_confirmed_only: ob(&mut rng),
					include_sent_only: ob(&mut rng),
					include_received_only: ob(&mut rng),
					include_coinbase_only: ob(&mut rng),
					include_reverted_only: ob(&mut rng),
					min_amount: if rng.below(3) == 0 {
						Some(rng.pick(&amounts))
					} else {
						None
					},
					max_amount: if rng.below(3) == 0 {
						Some(rng.pick(&amounts))
					} else {
						None
					},
					min_creation_timestamp: if rng.below(4) == 0 {
						Some(rng.pick(&times))
					} else {
						None
					},
					max_creation_timestamp: if rng.below(4) == 0 {
						Some(rng.pick(&times))
					} else {
						None
					},
					min_confirmed_timestamp: if rng.below(6) == 0 {
						Some(rng.pick(&times))
					} else {
						None
					},
					max_confirmed_timestamp: if rng.below(6) == 0 {
						Some(rng.pick(&times))
					} else {
						None
					},
					sort_field: match rng.below(7) {
						0 => None,
						1 => Some(RetrieveTxQuerySortField::Id),
						2 => Some(RetrieveTxQuerySortField::CreationTimestamp),
						3 => Some(RetrieveTxQuerySortField::ConfirmationTimestamp),
						4 => Some(RetrieveTxQuerySortField::TotalAmount),
						5 => Some(RetrieveTxQuerySortField::AmountCredited),
						_ => Some(RetrieveTxQuerySortField::AmountDebited),
					},
					sort_order: match rng.below(3) {
						0 => None,
						1 => Some(RetrieveTxQuerySortOrder::Asc),
						_ => Some(RetrieveTxQuerySortOrder::Desc),
					},
				};
				let has_conf_ts =
					q.min_confirmed_timestamp.is_some() || q.max_confirmed_timestamp.is_some();
				let desc = match q.sort_order {
					Some(RetrieveTxQuerySortOrder::Desc) => true,
					_ => false,
				};

				let (_, got) = api.retrieve_txs(m, false, None, None, Some(q.clone()))?;

				let exp_set: Vec<&TxLogEntry> =
					acct_model.iter().filter(|t| oracle_filter(t, &q)).collect();
				let mut exp_keys: Vec<Key> =
					exp_set.iter().map(|t| sort_key(t, &q.sort_field)).collect();
				exp_keys.sort();
				if desc {
					exp_keys.reverse();
				}
				let exp_len = match q.limit {
					Some(l) => std::cmp::min(l as usize, exp_set.len()),
					None => exp_set.len(),
				};
				exp_keys.truncate(exp_len);

				let mut problem: Option<String> = None;
				let got_keys: Vec<Key> = got.iter().map(|t| sort_key(t, &q.sort_field)).collect();
				if got.iter().any(|t| t.parent_key_id != active) {
					problem = Some("entry of another account".to_owned());
				} else if let Some(t) = got.iter().find(|t| !oracle_filter(t, &q)) {
					problem = Some(format!(
						"returned entry id {} ({:?}, confirmed {}, conf_ts {:?}) does not satisfy the query",
						t.id, t.tx_type, t.confirmed, t.confirmation_ts
					));
				} else if got.len() != exp_len {
					problem = Some(format!("{} entries, expected {}", got.len(), exp_len));
				} else if got_keys != exp_keys {
					problem = Some(format!(
						"sort keys {:?}, expected {:?}",
						got_keys, exp_keys
					));
				} else {
					// no duplicates
					let mut ids: Vec<u32> = got.iter().map(|t| t.id).collect();
					ids.sort();
					ids.dedup();
					if ids.len() != got.len() {
						problem = Some("duplicate entries".to_owned());
					}
				}
				if let Some(p) = problem {
					let msg = format!("[{}] {} :: {}", name, describe(&q), p);
					if has_conf_ts {
						conf_ts_mismatches += 1;
						if conf_ts_example.is_none() {
							conf_ts_example = Some(msg);
						}
					} else {
						other_mismatches.push(msg);
					}
				}
			}
			Ok(())
		})?;
	}

	println!("queries run: {}", n_queries);
	println!("look-up mismatches: {}", lookup_mismatches.len());
	for l in lookup_mismatches.iter().take(5) {
		println!("  {}", l);
	}
	println!(
		"mismatches among queries WITHOUT a confirmation-time bound: {}",
		other_mismatches.len()
	);
	for l in other_mismatches.iter().take(10) {
		println!("  {}", l);
	}
	println!(
		"mismatches among queries WITH a confirmation-time bound: {}",
		conf_ts_mismatches
	);
	if let Some(e) = conf_ts_example.as_ref() {
		println!("  e.g. {}", e);
	}

	stopper.store(false, Ordering::Relaxed);
	thread::sleep(Duration::from_millis(200));

	assert!(lookup_mismatches.is_empty());
	assert!(other_mismatches.is_empty());
	assert_eq!(conf_ts_mismatches, 0);
	Ok(())
}

#[test]
fn hunt_c19_3_differential_sweep() {
	let test_dir = "test_output/hunt_c19_3";
	clean_output_dir(test_dir);
	setup(test_dir);
	if let Err(e) = hunt_c19_3_impl(test_dir) {
		panic!("Libwallet Error: {}", e);
	}
	clean_output_dir(test_dir);
}
