#!/bin/bash
# Usage: run_demo.sh [checkout_dir]   (default: /tmp/hunt_C19)
# Copies the demonstration tests into <checkout>/controller/tests and runs them against the
# unmodified code. Exits non-zero when any of them fails (i.e. when a violation reproduces).
set -u
HERE="$(cd "$(dirname "$0")" && pwd)"
CHECKOUT="${1:-/tmp/hunt_C19}"
export CARGO_TARGET_DIR="${CARGO_TARGET_DIR:-/tmp/hunt_C19_target}"
cp "$HERE"/demo/controller/tests/hunt_c19_*.rs "$CHECKOUT/controller/tests/" || exit 2
cd "$CHECKOUT" || exit 2
rc=0
for t in hunt_c19_1 hunt_c19_2 hunt_c19_3; do
  echo "=== $t ==="
  LOG="$(mktemp)"
  cargo test -p grin_wallet_controller --offline --test "$t" -- --nocapture > "$LOG" 2>&1
  st=$?
  grep -v '^20[0-9][0-9]-' "$LOG" | grep -A40 '^running 1 test' | grep -v '^ *[0-9]*: \|^ *at '
  rm -f "$LOG"
  if [ "$st" -ne 0 ]; then rc=1; echo "=== $t FAILED (violation reproduced) ==="; else echo "=== $t passed ==="; fi
done
exit $rc
