// C20 hunt #1: one refresh run + the node event "block mined".
//
// update_wallet_state refreshes the outputs (step 1, one wallet-lock acquisition) and then
// looks up the kernels of outstanding transactions (step 2, further acquisitions). When the
// block carrying a received payment is mined between the two, step 2 marks the TxReceived
// entry confirmed while its output stays Unconfirmed (step 1 saw the older chain). No serial
// order of {refresh, block mined} yields that state, and it does not heal: later refreshes
// only query outputs that belong to an *outstanding* log entry, so the output is never
// looked at again and the received funds never become spendable.
#[macro_use]
extern crate log;
extern crate grin_wallet_controller as wallet;
extern crate grin_wallet_impls as impls;

use grin_wallet_libwallet as libwallet;
use impls::test_framework;
use libwallet::{InitTxArgs, OutputStatus, Slate, TxLogEntryType};
use std::sync::atomic::Ordering;
use std::thread;
use std::time::Duration;

mod hunt_c20_harness;
use hunt_c20_harness::*;

fn kernel_confirm_split_impl(test_dir: &'static str, race: bool) -> Result<(), libwallet::Error> {
	let mut proxy = create_proxy(test_dir);
	let chain = proxy.chain.clone();
	let stopper = proxy.running.clone();

	let (client1, wallet1, mask1_i) = create_wallet(test_dir, "wallet1", &mut proxy);
	let (client2, wallet2, mask2_i) = create_wallet(test_dir, "wallet2", &mut proxy);
	let (_client3, miner, mask3_i) = create_wallet(test_dir, "miner", &mut proxy);
	let mask1 = (&mask1_i).as_ref();
	let mask2 = (&mask2_i).as_ref();

	thread::spawn(move || {
		if let Err(e) = proxy.run() {
			error!("Wallet Proxy error: {}", e);
		}
	});

	// funds for the sender
	let _ = test_framework::award_blocks_to_wallet(&chain, wallet1.clone(), mask1, 10, false);

	// wallet1 pays wallet2: initiate, receive, reserve, finalize - not posted yet
	let amount = 60_000_000_000;
	let mut slate = Slate::blank(1, false);
	wallet::controller::owner_single_use(Some(wallet1.clone()), mask1, None, |api, m| {
		let args = InitTxArgs {
			src_acct_name: None,
			amount,
			minimum_confirmations: 2,
			max_outputs: 500,
			num_change_outputs: 1,
			selection_strategy_is_use_all: true,
			..Default::default()
		};
		let slate_i = api.init_send_tx(m, args)?;
		slate = client1.inner.send_tx_slate_direct("wallet2", &slate_i)?;
		api.tx_lock_outputs(m, &slate)?;
		slate = api.finalize_tx(m, &slate)?;
		Ok(())
	})?;
	let tx = slate.tx_or_err()?.clone();

	// the recipient's refresh; the payment is mined (by a third wallet, nothing of wallet2 is
	// touched) right before the refresh asks for the chain tip a second time, i.e. after
	// update_outputs (step 1) released the wallet lock and before the kernel lookups of step 2
	if !race {
		// control: the serial order (block mined; refresh)
		test_framework::award_block_to_wallet(
			&chain,
			&[tx.clone()],
			miner.clone(),
			(&mask3_i).as_ref(),
		)?;
	}
	{
		let chain_h = chain.clone();
		let miner_h = miner.clone();
		let mask3_h = mask3_i.clone();
		client2.arm(Box::new(move |method, n| {
			if race && method == "get_chain_tip" && n == 2 {
				test_framework::award_block_to_wallet(
					&chain_h,
					&[tx.clone()],
					miner_h.clone(),
					(&mask3_h).as_ref(),
				)
				.unwrap();
			}
		}));
	}

	let mut entry_confirmed = false;
	let mut entry_type = TxLogEntryType::TxReceivedCancelled;
	let mut out_status = OutputStatus::Spent;
	wallet::controller::owner_single_use(Some(wallet2.clone()), mask2, None, |api, m| {
		let (refreshed, txs) = api.retrieve_txs(m, true, None, Some(slate.id), None)?;
		assert!(refreshed);
		client2.disarm();
		println!("node calls of the refresh: {:?}", client2.calls());
		assert_eq!(txs.len(), 1);
		entry_confirmed = txs[0].confirmed;
		entry_type = txs[0].tx_type.clone();
		let (_, outs) = api.retrieve_outputs(m, true, false, Some(txs[0].id))?;
		assert_eq!(outs.len(), 1);
		out_status = outs[0].output.status.clone();
		Ok(())
	})?;
	println!(
		"after the interleaved refresh: entry {:?} confirmed={}, its output {:?}",
		entry_type, entry_confirmed, out_status
	);

	// what later, undisturbed refreshes make of it (5 more blocks, two more refreshes)
	let _ = test_framework::award_blocks_to_wallet(
		&chain,
		miner.clone(),
		(&mask3_i).as_ref(),
		5,
		false,
	);
	let mut later_status = OutputStatus::Spent;
	let mut later_confirmed = false;
	let mut spendable = 0;
	let mut awaiting_finalization = 0;
	wallet::controller::owner_single_use(Some(wallet2.clone()), mask2, None, |api, m| {
		let _ = api.retrieve_txs(m, true, None, None, None)?;
		let (refreshed, txs) = api.retrieve_txs(m, true, None, Some(slate.id), None)?;
		assert!(refreshed);
		later_confirmed = txs[0].confirmed;
		let (_, outs) = api.retrieve_outputs(m, true, false, Some(txs[0].id))?;
		later_status = outs[0].output.status.clone();
		let (_, info) = api.retrieve_summary_info(m, true, 1)?;
		spendable = info.amount_currently_spendable;
		awaiting_finalization = info.amount_awaiting_finalization;
		Ok(())
	})?;
	println!(
		"after 5 more blocks and 3 more refreshes: entry confirmed={}, output {:?}, spendable {}, awaiting finalization {}",
		later_confirmed, later_status, spendable, awaiting_finalization
	);

	stopper.store(false, Ordering::Relaxed);
	thread::sleep(Duration::from_millis(200));

	// serial order (refresh; block): entry unconfirmed, output Unconfirmed
	// serial order (block; refresh): entry confirmed, output Unspent
	let serial_a = !entry_confirmed && out_status == OutputStatus::Unconfirmed;
	let serial_b = entry_confirmed && out_status == OutputStatus::Unspent;
	assert!(
		serial_a || serial_b,
		"no serial order of (refresh, block mined) leaves the TxReceived entry confirmed={} with its output {:?}",
		entry_confirmed,
		out_status
	);
	// and in any case the payment, 6 blocks deep, must be spendable after further refreshes
	assert_eq!(later_status, OutputStatus::Unspent);
	assert_eq!(spendable, amount);
	Ok(())
}

#[test]
fn hunt_c20_kernel_confirm_split() {
	let test_dir = "test_output/hunt_c20_1";
	setup(test_dir);
	if let Err(e) = kernel_confirm_split_impl(test_dir, true) {
		panic!("Libwallet Error: {}", e);
	}
	clean_output_dir(test_dir);
}

/// control: the same scenario and assertions with the block mined before the refresh starts
#[test]
fn hunt_c20_kernel_confirm_split_control_serial() {
	let test_dir = "test_output/hunt_c20_1_control";
	setup(test_dir);
	if let Err(e) = kernel_confirm_split_impl(test_dir, false) {
		panic!("Libwallet Error: {}", e);
	}
	clean_output_dir(test_dir);
}
