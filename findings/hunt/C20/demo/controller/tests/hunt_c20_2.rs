// C20 hunt #2: one refresh run + the node event "block mined".
//
// update_wallet_state checks the transactions against the chain in steps 1 and 2 and reads
// the chain tip again for step 3; step 5 then cancels every transaction of the list read
// before step 2 whose TTL cutoff is <= that later tip, if the stored entry is still
// unconfirmed. A finalized, posted payment that is mined in the block that reaches its TTL
// cutoff, between the checks and the tip read, is therefore cancelled by the very refresh
// that runs while it confirms: TxSentCancelled, inputs Unspent (they are spent on chain),
// change output deleted (it is on chain). Neither serial order of {refresh, block mined}
// cancels it, and later refreshes never undo the cancellation.
#[macro_use]
extern crate log;
extern crate grin_wallet_controller as wallet;
extern crate grin_wallet_impls as impls;

use grin_wallet_libwallet as libwallet;
use impls::test_framework;
use libwallet::{InitTxArgs, NodeClient, OutputStatus, Slate, TxLogEntryType};
use std::sync::atomic::Ordering;
use std::thread;
use std::time::Duration;

mod hunt_c20_harness;
use hunt_c20_harness::*;

fn ttl_cancels_mined_tx_impl(test_dir: &'static str, race: bool) -> Result<(), libwallet::Error> {
	let mut proxy = create_proxy(test_dir);
	let chain = proxy.chain.clone();
	let stopper = proxy.running.clone();

	let (client1, wallet1, mask1_i) = create_wallet(test_dir, "wallet1", &mut proxy);
	let (_client2, _wallet2, _mask2_i) = create_wallet(test_dir, "wallet2", &mut proxy);
	let (_client3, miner, mask3_i) = create_wallet(test_dir, "miner", &mut proxy);
	let mask1 = (&mask1_i).as_ref();
	let mask3 = (&mask3_i).as_ref();

	thread::spawn(move || {
		if let Err(e) = proxy.run() {
			error!("Wallet Proxy error: {}", e);
		}
	});

	// funds for the sender: chain height 10
	let _ = test_framework::award_blocks_to_wallet(&chain, wallet1.clone(), mask1, 10, false);

	// wallet1 pays wallet2 with a TTL of 2 blocks (cutoff height 12): initiate, receive,
	// reserve, finalize; the transaction is broadcast but not mined yet
	let amount = 60_000_000_000;
	let mut slate = Slate::blank(1, false);
	wallet::controller::owner_single_use(Some(wallet1.clone()), mask1, None, |api, m| {
		let args = InitTxArgs {
			src_acct_name: None,
			amount,
			minimum_confirmations: 2,
			max_outputs: 500,
			num_change_outputs: 1,
			selection_strategy_is_use_all: true,
			ttl_blocks: Some(2),
			..Default::default()
		};
		let slate_i = api.init_send_tx(m, args)?;
		slate = client1.inner.send_tx_slate_direct("wallet2", &slate_i)?;
		api.tx_lock_outputs(m, &slate)?;
		slate = api.finalize_tx(m, &slate)?;
		let (_, txs) = api.retrieve_txs(m, false, None, Some(slate.id), None)?;
		assert_eq!(txs[0].ttl_cutoff_height, Some(12));
		Ok(())
	})?;
	let tx = slate.tx_or_err()?.clone();
	let excess = tx.kernels()[0].excess;

	// height 11, the payment still sits in the pool
	let _ = test_framework::award_blocks_to_wallet(&chain, miner.clone(), mask3, 1, false);

	// the sender's refresh; block 12, carrying the payment, is mined right before the refresh
	// reads the chain tip for the third time (step 3), i.e. after the output refresh (step 1)
	// and the kernel lookups (step 2) and outside any wallet-lock acquisition
	if !race {
		// control: the serial order (block mined; refresh)
		test_framework::award_block_to_wallet(&chain, &[tx.clone()], miner.clone(), mask3)?;
	}
	{
		let chain_h = chain.clone();
		let miner_h = miner.clone();
		let mask3_h = mask3_i.clone();
		let tx_h = tx.clone();
		client1.arm(Box::new(move |method, n| {
			if race && method == "get_chain_tip" && n == 3 {
				test_framework::award_block_to_wallet(
					&chain_h,
					&[tx_h.clone()],
					miner_h.clone(),
					(&mask3_h).as_ref(),
				)
				.unwrap();
			}
		}));
	}

	let mut entry_type = TxLogEntryType::TxReceived;
	let mut entry_confirmed = false;
	let mut outs_after: Vec<(u64, OutputStatus)> = vec![];
	wallet::controller::owner_single_use(Some(wallet1.clone()), mask1, None, |api, m| {
		let (refreshed, txs) = api.retrieve_txs(m, true, None, Some(slate.id), None)?;
		assert!(refreshed);
		client1.disarm();
		println!("node calls of the refresh: {:?}", client1.calls());
		assert_eq!(txs.len(), 1);
		entry_type = txs[0].tx_type.clone();
		entry_confirmed = txs[0].confirmed;
		let (_, outs) = api.retrieve_outputs(m, true, false, Some(txs[0].id))?;
		outs_after = outs
			.iter()
			.map(|o| (o.output.value, o.output.status.clone()))
			.collect();
		Ok(())
	})?;
	let mut c = client1.inner.clone();
	let kernel_on_chain = c.get_kernel(&excess, None, None)?.is_some();
	println!(
		"after the interleaved refresh: entry {:?} confirmed={}, outputs of the entry {:?}, kernel on chain: {}",
		entry_type, entry_confirmed, outs_after, kernel_on_chain
	);

	// later undisturbed refreshes
	let _ = test_framework::award_blocks_to_wallet(&chain, miner.clone(), mask3, 3, false);
	let mut later_type = TxLogEntryType::TxReceived;
	let mut later_confirmed = false;
	let mut all_txs = vec![];
	wallet::controller::owner_single_use(Some(wallet1.clone()), mask1, None, |api, m| {
		let _ = api.retrieve_txs(m, true, None, None, None)?;
		let (_, txs) = api.retrieve_txs(m, true, None, Some(slate.id), None)?;
		later_type = txs[0].tx_type.clone();
		later_confirmed = txs[0].confirmed;
		let (_, txs) = api.retrieve_txs(m, false, None, None, None)?;
		all_txs = txs
			.iter()
			.filter(|t| t.tx_type != TxLogEntryType::ConfirmedCoinbase)
			.map(|t| {
				format!(
					"#{} {:?} confirmed={} credited={} debited={}",
					t.id, t.tx_type, t.confirmed, t.amount_credited, t.amount_debited
				)
			})
			.collect();
		Ok(())
	})?;
	println!(
		"after 3 more blocks and 2 more refreshes: entry {:?} confirmed={}; non-coinbase log: {:?}",
		later_type, later_confirmed, all_txs
	);

	stopper.store(false, Ordering::Relaxed);
	thread::sleep(Duration::from_millis(200));

	assert!(kernel_on_chain, "the payment was mined");
	// serial order (refresh; block): tip 11 < 12, entry stays an outstanding TxSent
	// serial order (block; refresh): the change output confirms the entry, nothing to expire
	assert_eq!(
		entry_type,
		TxLogEntryType::TxSent,
		"a payment that is on chain was cancelled by the refresh that ran while it was mined"
	);
	assert_eq!(later_type, TxLogEntryType::TxSent);
	assert!(later_confirmed);
	Ok(())
}

#[test]
fn hunt_c20_ttl_cancels_mined_tx() {
	let test_dir = "test_output/hunt_c20_2";
	setup(test_dir);
	if let Err(e) = ttl_cancels_mined_tx_impl(test_dir, true) {
		panic!("Libwallet Error: {}", e);
	}
	clean_output_dir(test_dir);
}

/// control: the same scenario and assertions with the block mined before the refresh starts
#[test]
fn hunt_c20_ttl_cancels_mined_tx_control_serial() {
	let test_dir = "test_output/hunt_c20_2_control";
	setup(test_dir);
	if let Err(e) = ttl_cancels_mined_tx_impl(test_dir, false) {
		panic!("Libwallet Error: {}", e);
	}
	clean_output_dir(test_dir);
}
