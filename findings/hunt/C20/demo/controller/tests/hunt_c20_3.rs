// C20 hunt #3: one refresh run + the owner operation set_active_account.
//
// update_wallet_state reads the active account once at its start and collects that
// account's outstanding transactions; its last step (TTL expiry) re-reads the active account
// under a new wallet-lock acquisition and cancels "transaction <id> of the account that is
// active NOW" for every expired entry of the list it collected for the account that was
// active THEN. Log ids are per account, so when the user switches accounts while the
// (background) refresh runs, the refresh cancels an unrelated pending transaction of the other
// account that happens to have the same log id - one that has no TTL at all - and leaves
// the expired one alone.
#[macro_use]
extern crate log;
extern crate grin_wallet_controller as wallet;
extern crate grin_wallet_impls as impls;

use grin_wallet_libwallet as libwallet;
use impls::test_framework;
use libwallet::{InitTxArgs, OutputStatus, TxLogEntryType};
use std::sync::atomic::Ordering;
use std::thread;
use std::time::Duration;

mod hunt_c20_harness;
use hunt_c20_harness::*;

fn set_account(wallet: &HWallet, name: &str) -> Result<(), libwallet::Error> {
	let mut w_lock = wallet.lock();
	let w = w_lock.lc_provider()?.wallet_inst()?;
	w.set_parent_key_id_by_name(name)
}

fn account_switch_impl(test_dir: &'static str, race: bool) -> Result<(), libwallet::Error> {
	let mut proxy = create_proxy(test_dir);
	let chain = proxy.chain.clone();
	let stopper = proxy.running.clone();

	let (client1, wallet1, mask1_i) = create_wallet(test_dir, "wallet1", &mut proxy);
	let (_client3, miner, mask3_i) = create_wallet(test_dir, "miner", &mut proxy);
	let mask1 = (&mask1_i).as_ref();
	let mask3 = (&mask3_i).as_ref();

	thread::spawn(move || {
		if let Err(e) = proxy.run() {
			error!("Wallet Proxy error: {}", e);
		}
	});

	wallet::controller::owner_single_use(Some(wallet1.clone()), mask1, None, |api, m| {
		api.create_account_path(m, "acct2")?;
		Ok(())
	})?;

	// 5 blocks for each of the two accounts (height 10), then a refresh of each account:
	// both now have the log entries 0..4 (their coinbases)
	let _ = test_framework::award_blocks_to_wallet(&chain, wallet1.clone(), mask1, 5, false);
	set_account(&wallet1, "acct2")?;
	let _ = test_framework::award_blocks_to_wallet(&chain, wallet1.clone(), mask1, 5, false);
	wallet::controller::owner_single_use(Some(wallet1.clone()), mask1, None, |api, m| {
		let (_, txs) = api.retrieve_txs(m, true, None, None, None)?;
		assert_eq!(txs.len(), 5);
		Ok(())
	})?;
	set_account(&wallet1, "default")?;
	wallet::controller::owner_single_use(Some(wallet1.clone()), mask1, None, |api, m| {
		let (_, txs) = api.retrieve_txs(m, true, None, None, None)?;
		assert_eq!(txs.len(), 5);
		Ok(())
	})?;

	// account default: payment A with a TTL of 2 blocks (cutoff 12), initiated and reserved
	let mut id_a = 0;
	wallet::controller::owner_single_use(Some(wallet1.clone()), mask1, None, |api, m| {
		let args = InitTxArgs {
			src_acct_name: None,
			amount: 30_000_000_000,
			minimum_confirmations: 2,
			max_outputs: 500,
			num_change_outputs: 1,
			selection_strategy_is_use_all: false,
			ttl_blocks: Some(2),
			..Default::default()
		};
		let slate = api.init_send_tx(m, args)?;
		api.tx_lock_outputs(m, &slate)?;
		let (_, txs) = api.retrieve_txs(m, false, None, Some(slate.id), None)?;
		assert_eq!(txs[0].ttl_cutoff_height, Some(12));
		id_a = txs[0].id;
		Ok(())
	})?;

	// account acct2: payment B without any TTL, initiated and reserved
	set_account(&wallet1, "acct2")?;
	let mut id_b = 0;
	let mut slate_b_id = None;
	wallet::controller::owner_single_use(Some(wallet1.clone()), mask1, None, |api, m| {
		let args = InitTxArgs {
			src_acct_name: None,
			amount: 30_000_000_000,
			minimum_confirmations: 2,
			max_outputs: 500,
			num_change_outputs: 1,
			selection_strategy_is_use_all: false,
			ttl_blocks: None,
			..Default::default()
		};
		let slate = api.init_send_tx(m, args)?;
		api.tx_lock_outputs(m, &slate)?;
		let (_, txs) = api.retrieve_txs(m, false, None, Some(slate.id), None)?;
		assert_eq!(txs[0].ttl_cutoff_height, None);
		id_b = txs[0].id;
		slate_b_id = Some(slate.id);
		Ok(())
	})?;
	println!("log id of A (default): {}, of B (acct2): {}", id_a, id_b);
	assert_eq!(id_a, id_b);
	set_account(&wallet1, "default")?;

	// two more blocks: A is past its TTL
	let _ = test_framework::award_blocks_to_wallet(&chain, miner.clone(), mask3, 2, false);

	// the refresh of account default; the user switches to acct2 while it runs (right before
	// the refresh reads the chain tip for step 3: no wallet lock is held at that point)
	if !race {
		// control, serial order (switch; refresh)
		set_account(&wallet1, "acct2")?;
	}
	{
		let wallet_h = wallet1.clone();
		client1.arm(Box::new(move |method, n| {
			if race && method == "get_chain_tip" && n == 3 {
				set_account(&wallet_h, "acct2").unwrap();
			}
		}));
	}
	let mut b_type = TxLogEntryType::TxReceived;
	let mut b_outputs: Vec<(u64, OutputStatus)> = vec![];
	wallet::controller::owner_single_use(Some(wallet1.clone()), mask1, None, |api, m| {
		let (refreshed, _) = api.retrieve_txs(m, true, None, None, None)?;
		assert!(refreshed);
		client1.disarm();
		// (acct2 is the active account now)
		let (_, txs) = api.retrieve_txs(m, false, None, slate_b_id, None)?;
		assert_eq!(txs.len(), 1);
		b_type = txs[0].tx_type.clone();
		let (_, outs) = api.retrieve_outputs(m, true, false, Some(txs[0].id))?;
		b_outputs = outs
			.iter()
			.map(|o| (o.output.value, o.output.status.clone()))
			.collect();
		Ok(())
	})?;
	set_account(&wallet1, "default")?;
	let mut a_type = TxLogEntryType::TxReceived;
	wallet::controller::owner_single_use(Some(wallet1.clone()), mask1, None, |api, m| {
		let (_, txs) = api.retrieve_txs(m, false, Some(id_a), None, None)?;
		a_type = txs[0].tx_type.clone();
		Ok(())
	})?;
	println!(
		"after the refresh: A (default, TTL expired) is {:?}; B (acct2, no TTL) is {:?} with outputs {:?}",
		a_type, b_type, b_outputs
	);

	stopper.store(false, Ordering::Relaxed);
	thread::sleep(Duration::from_millis(200));

	// (refresh default; switch) cancels A only, (switch; refresh acct2) cancels nothing:
	// B, which never expires, is an outstanding TxSent in every serial order
	assert_eq!(
		b_type,
		TxLogEntryType::TxSent,
		"the refresh of account default cancelled a transaction of account acct2"
	);
	Ok(())
}

#[test]
fn hunt_c20_account_switch_ttl_cancel() {
	let test_dir = "test_output/hunt_c20_3";
	setup(test_dir);
	if let Err(e) = account_switch_impl(test_dir, true) {
		panic!("Libwallet Error: {}", e);
	}
	clean_output_dir(test_dir);
}

/// control: the same scenario and assertion with the switch before the refresh starts
#[test]
fn hunt_c20_account_switch_ttl_cancel_control_serial() {
	let test_dir = "test_output/hunt_c20_3_control";
	setup(test_dir);
	if let Err(e) = account_switch_impl(test_dir, false) {
		panic!("Libwallet Error: {}", e);
	}
	clean_output_dir(test_dir);
}
