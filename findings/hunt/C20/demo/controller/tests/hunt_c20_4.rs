// C20 hunt #4: one scan run (owner scan with delete_unconfirmed) + three owner operations
// (cancel, initiate, reserve), interleaved at the granularity of wallet-lock acquisitions.
//
// scan::scan takes one snapshot of the wallet's outputs and later, under new wallet-lock
// acquisitions, writes whole OutputData records of that snapshot back ("unlock" of locked
// outputs that are still in the UTXO set). Operations that completed after the snapshot are
// overwritten: here the input is released by cancel_tx, selected and locked again by a new
// payment B - and then the scan saves its stale copy (status Unspent, tx_log_entry of the
// cancelled payment A). B stays an outstanding TxSent while its input is spendable again.
//
// Needs the lock-granularity hook that the repository itself provides behind
// `--cfg grin_wallet_verif` (libwallet::verif_hooks::set_before_lock, called by wallet_lock!
// right before the wallet mutex is taken); no code is changed.
// (without the cfg this file compiles to nothing)
#![cfg(grin_wallet_verif)]
#[macro_use]
extern crate log;
extern crate grin_wallet_controller as wallet;
extern crate grin_wallet_impls as impls;

use grin_wallet_libwallet as libwallet;
use impls::test_framework;
use libwallet::{InitTxArgs, OutputStatus, TxLogEntryType};
use std::sync::atomic::{AtomicBool, AtomicUsize, Ordering};
use std::sync::Arc;
use std::thread;
use std::time::Duration;
use uuid::Uuid;

mod hunt_c20_harness;
use hunt_c20_harness::*;

fn send_args(amount: u64) -> InitTxArgs {
	InitTxArgs {
		src_acct_name: None,
		amount,
		minimum_confirmations: 2,
		max_outputs: 500,
		num_change_outputs: 1,
		selection_strategy_is_use_all: false,
		..Default::default()
	}
}

/// `at_lock`: the operations cancel(A), initiate(B), reserve(B) run right before the scan's
/// n-th wallet-lock acquisition (0: before the scan starts, i.e. a serial order)
fn scan_stale_unlock_impl(test_dir: &'static str, at_lock: usize) -> Result<(), libwallet::Error> {
	let mut proxy = create_proxy(test_dir);
	let chain = proxy.chain.clone();
	let stopper = proxy.running.clone();

	let (_client1, wallet1, mask1_i) = create_wallet(test_dir, "wallet1", &mut proxy);
	let (_client3, miner, mask3_i) = create_wallet(test_dir, "miner", &mut proxy);
	let mask1 = (&mask1_i).as_ref();
	let mask3 = (&mask3_i).as_ref();

	thread::spawn(move || {
		if let Err(e) = proxy.run() {
			error!("Wallet Proxy error: {}", e);
		}
	});

	// wallet1 owns exactly one output X (60 grin, mature at height 5)
	let _ = test_framework::award_blocks_to_wallet(&chain, wallet1.clone(), mask1, 1, false);
	let _ = test_framework::award_blocks_to_wallet(&chain, miner.clone(), mask3, 4, false);

	// payment A: initiated and reserved (X Locked, a change output Unconfirmed)
	let mut slate_a = Uuid::nil();
	wallet::controller::owner_single_use(Some(wallet1.clone()), mask1, None, |api, m| {
		let (_, outs) = api.retrieve_outputs(m, false, true, None)?;
		assert_eq!(outs.len(), 1);
		let slate = api.init_send_tx(m, send_args(30_000_000_000))?;
		api.tx_lock_outputs(m, &slate)?;
		slate_a = slate.id;
		Ok(())
	})?;

	// the three operations that run while the scan does
	let slate_b = Arc::new(grin_util::Mutex::new(Uuid::nil()));
	let ops = {
		let wallet_h = wallet1.clone();
		let mask_h = mask1_i.clone();
		let slate_b = slate_b.clone();
		move || {
			wallet::controller::owner_single_use(
				Some(wallet_h.clone()),
				(&mask_h).as_ref(),
				None,
				|api, m| {
					api.cancel_tx(m, None, Some(slate_a))?;
					let slate = api.init_send_tx(m, send_args(20_000_000_000))?;
					api.tx_lock_outputs(m, &slate)?;
					*slate_b.lock() = slate.id;
					Ok(())
				},
			)
			.unwrap();
		}
	};

	let count = Arc::new(AtomicUsize::new(0));
	let in_hook = Arc::new(AtomicBool::new(false));
	if at_lock == 0 {
		ops();
	} else {
		let count = count.clone();
		let in_hook = in_hook.clone();
		libwallet::verif_hooks::set_before_lock(Some(Arc::new(move || {
			if in_hook.load(Ordering::SeqCst) {
				return;
			}
			let n = count.fetch_add(1, Ordering::SeqCst) + 1;
			if n == at_lock {
				in_hook.store(true, Ordering::SeqCst);
				ops();
				in_hook.store(false, Ordering::SeqCst);
			}
		})));
	}

	// the scan (lock acquisitions: 1 output refresh, 2 chain tip, 3 keychain/client,
	// 4 the snapshot of the wallet's outputs, 5.. the repairs)
	wallet::controller::owner_single_use(Some(wallet1.clone()), mask1, None, |api, m| {
		api.scan(m, Some(1), true)?;
		Ok(())
	})?;
	libwallet::verif_hooks::set_before_lock(None);
	println!(
		"wallet-lock acquisitions of the scan: {}",
		count.load(Ordering::SeqCst)
	);

	let slate_b = *slate_b.lock();
	let mut a_type = TxLogEntryType::TxReceived;
	let mut b_type = TxLogEntryType::TxReceived;
	let mut b_id = 0;
	let mut outs_now = vec![];
	wallet::controller::owner_single_use(Some(wallet1.clone()), mask1, None, |api, m| {
		let (_, txs) = api.retrieve_txs(m, false, None, Some(slate_a), None)?;
		a_type = txs[0].tx_type.clone();
		let (_, txs) = api.retrieve_txs(m, false, None, Some(slate_b), None)?;
		b_type = txs[0].tx_type.clone();
		b_id = txs[0].id;
		let (_, outs) = api.retrieve_outputs(m, true, false, None)?;
		outs_now = outs
			.iter()
			.map(|o| {
				(
					o.output.value,
					o.output.status.clone(),
					o.output.tx_log_entry,
					o.output.is_coinbase,
				)
			})
			.collect();
		Ok(())
	})?;
	println!(
		"after the scan: A {:?}, B (log id {}) {:?}, outputs (value, status, log entry, coinbase): {:?}",
		a_type, b_id, b_type, outs_now
	);

	stopper.store(false, Ordering::Relaxed);
	thread::sleep(Duration::from_millis(200));

	// every serial order of {scan, cancel A < initiate B < reserve B} ends with either
	//  - B outstanding and X Locked for B (scan anywhere before reserve B), or
	//  - B cancelled and X Unspent (scan last)
	let x = outs_now.iter().find(|o| o.3).unwrap();
	let serial_1 = b_type == TxLogEntryType::TxSent
		&& x.1 == OutputStatus::Locked
		&& x.2 == Some(b_id);
	let serial_2 = b_type == TxLogEntryType::TxSentCancelled && x.1 == OutputStatus::Unspent;
	assert!(
		serial_1 || serial_2,
		"B is {:?} but its input is {:?} (log entry {:?}): the completed reservation was overwritten with the scan's stale copy",
		b_type,
		x.1,
		x.2
	);
	Ok(())
}

#[test]
fn hunt_c20_scan_stale_unlock() {
	let test_dir = "test_output/hunt_c20_4";
	setup(test_dir);
	// right before the scan's 5th wallet-lock acquisition: after its snapshot, before its repairs
	if let Err(e) = scan_stale_unlock_impl(test_dir, 5) {
		panic!("Libwallet Error: {}", e);
	}
	clean_output_dir(test_dir);
}

/// control: the operations complete before the scan starts
#[test]
fn hunt_c20_scan_stale_unlock_control_serial() {
	let test_dir = "test_output/hunt_c20_4_control";
	setup(test_dir);
	if let Err(e) = scan_stale_unlock_impl(test_dir, 0) {
		panic!("Libwallet Error: {}", e);
	}
	clean_output_dir(test_dir);
}

/// control: the operations run right before the scan takes its snapshot (4th acquisition)
#[test]
fn hunt_c20_scan_stale_unlock_control_before_snapshot() {
	let test_dir = "test_output/hunt_c20_4_control2";
	setup(test_dir);
	if let Err(e) = scan_stale_unlock_impl(test_dir, 4) {
		panic!("Libwallet Error: {}", e);
	}
	clean_output_dir(test_dir);
}
