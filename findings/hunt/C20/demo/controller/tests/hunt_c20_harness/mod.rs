// Test harness for the C20 hunts: a NodeClient that wraps the test framework's
// LocalWalletClient and runs a test-supplied callback right before chosen node calls.
// Node calls are the points at which "node events" (a block is mined) and other wallet
// operations can be placed deterministically between two wallet-lock acquisitions of a
// refresh: nothing in the wallet code is changed.
#![allow(dead_code)]

extern crate grin_wallet_impls as impls;
extern crate grin_wallet_libwallet as libwallet;

use grin_core as core;
use grin_keychain as keychain;
use grin_util as util;

use self::core::core::{Transaction, TxKernel};
use self::core::global;
use self::core::global::ChainTypes;
use self::keychain::ExtKeychain;
use self::libwallet::{NodeClient, NodeVersionInfo, WalletInst};
use impls::test_framework::{LocalWalletClient, WalletProxy};
use impls::{DefaultLCProvider, DefaultWalletImpl};
use std::collections::HashMap;
use std::sync::Arc;
use util::secp::key::SecretKey;
use util::secp::pedersen;
use util::{Mutex, ZeroingString};

/// callback: (method name, how many top level calls of that method since `arm`)
pub type Hook = Box<dyn FnMut(&str, usize) + Send>;

#[derive(Clone)]
pub struct HookClient {
	pub inner: LocalWalletClient,
	hook: Arc<Mutex<Option<Hook>>>,
	counts: Arc<Mutex<HashMap<String, usize>>>,
	log: Arc<Mutex<Vec<String>>>,
}

impl HookClient {
	pub fn new(inner: LocalWalletClient) -> Self {
		HookClient {
			inner,
			hook: Arc::new(Mutex::new(None)),
			counts: Arc::new(Mutex::new(HashMap::new())),
			log: Arc::new(Mutex::new(vec![])),
		}
	}
	/// install a callback and reset the call counters
	pub fn arm(&self, h: Hook) {
		self.counts.lock().clear();
		self.log.lock().clear();
		*self.hook.lock() = Some(h);
	}
	pub fn disarm(&self) {
		*self.hook.lock() = None;
	}
	/// the node calls seen since `arm`
	pub fn calls(&self) -> Vec<String> {
		self.log.lock().clone()
	}
	fn fire(&self, method: &str) {
		// node calls made from inside the callback (nested wallet operations) are not
		// counted and do not re-enter the callback
		let h = self.hook.lock().take();
		if let Some(mut h) = h {
			let n = {
				let mut c = self.counts.lock();
				let e = c.entry(method.to_owned()).or_insert(0);
				*e += 1;
				*e
			};
			self.log.lock().push(format!("{}#{}", method, n));
			h(method, n);
			let mut slot = self.hook.lock();
			if slot.is_none() {
				*slot = Some(h);
			}
		}
	}
}

impl NodeClient for HookClient {
	fn node_url(&self) -> &str {
		"node"
	}
	fn node_api_secret(&self) -> Option<String> {
		None
	}
	fn set_node_url(&mut self, _node_url: &str) {}
	fn set_node_api_secret(&mut self, _node_api_secret: Option<String>) {}
	fn get_version_info(&mut self) -> Option<NodeVersionInfo> {
		None
	}
	fn post_tx(&self, tx: &Transaction, fluff: bool) -> Result<(), libwallet::Error> {
		self.fire("post_tx");
		self.inner.post_tx(tx, fluff)
	}
	fn get_chain_tip(&self) -> Result<(u64, String), libwallet::Error> {
		self.fire("get_chain_tip");
		self.inner.get_chain_tip()
	}
	fn get_outputs_from_node(
		&self,
		wallet_outputs: Vec<pedersen::Commitment>,
	) -> Result<HashMap<pedersen::Commitment, (String, u64, u64)>, libwallet::Error> {
		self.fire("get_outputs_from_node");
		self.inner.get_outputs_from_node(wallet_outputs)
	}
	fn get_kernel(
		&mut self,
		excess: &pedersen::Commitment,
		min_height: Option<u64>,
		max_height: Option<u64>,
	) -> Result<Option<(TxKernel, u64, u64)>, libwallet::Error> {
		self.fire("get_kernel");
		self.inner.get_kernel(excess, min_height, max_height)
	}
	fn get_outputs_by_pmmr_index(
		&self,
		start_height: u64,
		end_height: Option<u64>,
		max_outputs: u64,
	) -> Result<
		(
			u64,
			u64,
			Vec<(pedersen::Commitment, pedersen::RangeProof, bool, u64, u64)>,
		),
		libwallet::Error,
	> {
		self.fire("get_outputs_by_pmmr_index");
		self.inner
			.get_outputs_by_pmmr_index(start_height, end_height, max_outputs)
	}
	fn height_range_to_pmmr_indices(
		&self,
		start_height: u64,
		end_height: Option<u64>,
	) -> Result<(u64, u64), libwallet::Error> {
		self.fire("height_range_to_pmmr_indices");
		self.inner
			.height_range_to_pmmr_indices(start_height, end_height)
	}
}

pub type HWallet = Arc<
	Mutex<
		Box<
			dyn WalletInst<
				'static,
				DefaultLCProvider<'static, HookClient, ExtKeychain>,
				HookClient,
				ExtKeychain,
			>,
		>,
	>,
>;

pub type HProxy =
	WalletProxy<'static, DefaultLCProvider<'static, HookClient, ExtKeychain>, HookClient, ExtKeychain>;

pub fn clean_output_dir(test_dir: &str) {
	let path = std::path::Path::new(test_dir);
	if path.is_dir() {
		remove_dir_all::remove_dir_all(test_dir).unwrap();
	}
}

pub fn setup(test_dir: &str) {
	util::init_test_logger();
	clean_output_dir(test_dir);
	global::set_local_chain_type(ChainTypes::AutomatedTesting);
}

pub fn create_proxy(test_dir: &str) -> HProxy {
	WalletProxy::new(test_dir)
}

/// create a wallet whose node client is a HookClient and register it with the proxy
pub fn create_wallet(
	test_dir: &str,
	name: &str,
	proxy: &mut HProxy,
) -> (HookClient, HWallet, Option<SecretKey>) {
	let local = LocalWalletClient::new(name, proxy.tx.clone());
	let client = HookClient::new(local.clone());
	let mut wallet = Box::new(DefaultWalletImpl::<HookClient>::new(client.clone()).unwrap())
		as Box<
			dyn WalletInst<
				'static,
				DefaultLCProvider<'static, HookClient, ExtKeychain>,
				HookClient,
				ExtKeychain,
			>,
		>;
	let lc = wallet.lc_provider().unwrap();
	let _ = lc.set_top_level_directory(&format!("{}/{}", test_dir, name));
	lc.create_wallet(None, None, 32, ZeroingString::from(""), false)
		.unwrap();
	let mask = lc
		.open_wallet(None, ZeroingString::from(""), false, false)
		.unwrap();
	let wallet = Arc::new(Mutex::new(wallet));
	proxy.add_wallet(name, local.get_send_instance(), wallet.clone(), mask.clone());
	(client, wallet, mask)
}
