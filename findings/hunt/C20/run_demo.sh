#!/bin/bash
# Usage: run_demo.sh [CHECKOUT_DIR] [CARGO_TARGET_DIR]
# Copies the hunt tests into a checkout of grin-wallet (default: a fresh worktree of /repo HEAD
# under /tmp/hunt_C20_demo) and runs them. Nothing in the wallet code is changed.
# Exits non-zero when any of the tests fails (they all fail on the unmodified tree; each file
# also contains control tests - same scenario in a serial order - which pass).
HERE="$(cd "$(dirname "$0")" && pwd)"
CHECKOUT="${1:-/tmp/hunt_C20_demo}"
TARGET="${2:-/tmp/hunt_C20_target}"
if [ ! -d "$CHECKOUT" ]; then
	git -C /repo worktree add "$CHECKOUT" HEAD || exit 2
fi
mkdir -p "$CHECKOUT/controller/tests/hunt_c20_harness"
cp "$HERE/demo/controller/tests/hunt_c20_harness/mod.rs" "$CHECKOUT/controller/tests/hunt_c20_harness/mod.rs"
cp "$HERE"/demo/controller/tests/hunt_c20_*.rs "$CHECKOUT/controller/tests/"
cd "$CHECKOUT" || exit 2
rc=0
filter() { grep -v "DEBUG\|INFO\|WARN\|TRACE" | grep -E "^test |test result|^after |^node calls|^log id|^wallet-lock|panicked|^assertion|^  left|^ right|^B is|^no serial|^a payment|^the refresh|^error"; }
# findings 1-3: plain build, interleavings placed at the refresh's node calls by a wrapping NodeClient
for t in hunt_c20_1 hunt_c20_2 hunt_c20_3; do
	echo "=== $t"
	CARGO_TARGET_DIR="$TARGET" cargo test -p grin_wallet_controller --offline --test $t -- --nocapture --test-threads 1 2>&1 | filter
	[ "${PIPESTATUS[0]}" -ne 0 ] && rc=1
done
# finding 4: needs the repository's own lock-granularity hook (libwallet::verif_hooks, compiled
# with --cfg grin_wallet_verif); separate target dir because the flag rebuilds everything
echo "=== hunt_c20_4 (RUSTFLAGS=--cfg grin_wallet_verif)"
RUSTFLAGS="--cfg grin_wallet_verif" CARGO_TARGET_DIR="$TARGET/verif" cargo test -p grin_wallet_controller --offline --test hunt_c20_4 -- --nocapture --test-threads 1 2>&1 | filter
[ "${PIPESTATUS[0]}" -ne 0 ] && rc=1
exit $rc
