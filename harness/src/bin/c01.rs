//! C01 correspondence + oracle runner: drives libwallet's coin selection / change
//! arithmetic (through hook H1) on generated wallets and parameters, prints for each case
//! the canonical result of the implementation and the verdict of the property oracle.
//!
//! result encoding (shared with coq/theories/Select.v `enc_result`):
//!   Ok    : [0, amount', fee, total, n_in, idx.., n_change, change..]
//!   Err   : [1, class]          (1 NotEnoughFunds, 2 Generic, 3 Fee, 21 other)
//!   Panic : [2]
use grin_core::libtx::proof::ProofBuilder;
use grin_core::libtx::tx_fee;
use grin_keychain::ExtKeychain;
use serde_json::json;
use vharness::libwallet::verif_hooks::selection;
use vharness::libwallet::{OutputData, OutputStatus, Slate};
use vharness::mem::{acct_id, out_id, MemBackend};
use vharness::prng::{seed_from_env, Prng};
use vharness::*;

#[derive(Clone, Debug)]
struct O {
	acct: u32,
	value: u64,
	status: u8, // 0 Unconfirmed 1 Unspent 2 Locked 3 Spent 4 Reverted
	height: u64,
	lock_height: u64,
	cb: bool,
}
#[derive(Clone, Debug)]
struct Case {
	outs: Vec<O>,
	amount: u64,
	aif: bool,
	h: u64,
	minconf: u64,
	max_outputs: u64,
	change_outputs: u64,
	all: bool,
	parent: u32,
}

fn status_of(s: u8) -> OutputStatus {
	match s {
		0 => OutputStatus::Unconfirmed,
		1 => OutputStatus::Unspent,
		2 => OutputStatus::Locked,
		3 => OutputStatus::Spent,
		_ => OutputStatus::Reverted,
	}
}

fn mk_backend(c: &Case) -> MemBackend {
	let mut w = MemBackend::new(c.parent);
	for (i, o) in c.outs.iter().enumerate() {
		let key_id = out_id(o.acct, i as u32);
		w.outputs.push(OutputData {
			root_key_id: acct_id(o.acct),
			key_id,
			n_child: i as u32,
			commit: None,
			mmr_index: None,
			value: o.value,
			status: status_of(o.status),
			height: o.height,
			lock_height: o.lock_height,
			is_coinbase: o.cb,
			tx_log_entry: None,
		});
	}
	w
}

fn idx_of(w: &MemBackend, id: &grin_keychain::Identifier) -> u64 {
	w.outputs
		.iter()
		.position(|o| o.key_id == *id)
		.map(|p| p as u64)
		.unwrap_or(999_999)
}

/// What the property needs to see of a successful construction.
struct Built {
	amount2: u64,
	fee: u64,
	total: u128,
	inputs: Vec<u64>,
	changes: Vec<u64>,
}

fn enc(r: &Result<Result<Built, vharness::libwallet::Error>, String>) -> Vec<u128> {
	match r {
		Err(_) => vec![2],
		Ok(Err(e)) => vec![1, err_class(e) as u128],
		Ok(Ok(b)) => {
			let mut v = vec![0, b.amount2 as u128, b.fee as u128, b.total, b.inputs.len() as u128];
			v.extend(b.inputs.iter().map(|x| *x as u128));
			v.push(b.changes.len() as u128);
			v.extend(b.changes.iter().map(|x| *x as u128));
			v
		}
	}
}

fn run_l1(c: &Case) -> (Result<Result<Built, vharness::libwallet::Error>, String>, u64) {
	let mut w = mk_backend(c);
	let parent = acct_id(c.parent);
	let r = guarded(|| {
		let (coins, _total, amount2, fee) = selection::select_coins_and_fee(
			&mut w,
			c.amount,
			c.aif,
			c.h,
			c.minconf,
			c.max_outputs as usize,
			c.change_outputs as usize,
			c.all,
			&parent,
		)?;
		// (callers put the fee into the slate's fee field without a further check: init_send_tx's
		// estimate unwraps the conversion)
		if fee == 0 || fee > (1u64 << 40) - 1 {
			return Err(vharness::libwallet::Error::GenericError(format!(
				"ORACLE: select_coins_and_fee accepted a selection of {} inputs whose fee {} is outside the range of the slate's fee field",
				coins.len(), fee
			)));
		}
		let (_parts, changes) = selection::inputs_and_change::<_, _, _, ProofBuilder<ExtKeychain>>(
			&coins,
			&mut w,
			None,
			amount2,
			fee,
			c.change_outputs as usize,
			false,
		)?;
		Ok(Built {
			amount2,
			fee,
			total: coins.iter().map(|x| x.value as u128).sum(),
			inputs: coins.iter().map(|x| idx_of(&w, &x.key_id)).collect(),
			changes: changes.iter().map(|x| x.0).collect(),
		})
	});
	(r, w.next_child_calls)
}

fn run_l2(c: &Case) -> (Result<Result<Built, vharness::libwallet::Error>, String>, u64) {
	run_l2_fixed(c, None)
}

/// build_send_tx as the late-locked finalize calls it: with the fee fixed when the send was initiated
fn run_l2_fixed(c: &Case, fixed: Option<u64>) -> (Result<Result<Built, vharness::libwallet::Error>, String>, u64) {
	let mut w = mk_backend(c);
	let parent = acct_id(c.parent);
	let kc = w.keychain.clone();
	let r = guarded(|| {
		let mut slate = Slate::blank(2, false);
		slate.amount = c.amount;
		let ctx = selection::build_send_tx(
			&mut w,
			&kc,
			None,
			&mut slate,
			c.h,
			c.minconf,
			c.max_outputs as usize,
			c.change_outputs as usize,
			c.all,
			fixed,
			parent.clone(),
			true,
			true,
			c.aif,
		)?;
		let ins = ctx.get_inputs();
		let outs = ctx.get_outputs();
		let fee = slate.fee_fields.fee();
		let mut oracle_extra = vec![];
		if ctx.amount != slate.amount {
			oracle_extra.push("context.amount != slate.amount");
		}
		if ctx.fee.map(|f| f.fee()) != Some(fee) || slate.fee_fields.fee_shift() != 0 {
			oracle_extra.push("context.fee != slate.fee");
		}
		if !oracle_extra.is_empty() {
			return Err(vharness::libwallet::Error::GenericError(format!(
				"ORACLE:{:?}",
				oracle_extra
			)));
		}
		Ok(Built {
			amount2: slate.amount,
			fee,
			total: ins.iter().map(|x| x.2 as u128).sum(),
			inputs: ins.iter().map(|x| idx_of(&w, &x.0)).collect(),
			changes: outs.iter().map(|x| x.2).collect(),
		})
	});
	(r, w.next_child_calls)
}

/// Independent reading of "currently spendable output of the source account".
fn spendable(o: &O, c: &Case) -> bool {
	if o.acct != c.parent {
		return false;
	}
	if o.lock_height > c.h {
		return false;
	}
	match o.status {
		1 => {
			// confirmations: 1 + (h - height) when height <= h
			if o.height > c.h {
				c.minconf == 0
			} else {
				(1u128 + (c.h - o.height) as u128) >= c.minconf as u128
			}
		}
		0 => !o.cb && c.minconf == 0,
		_ => false,
	}
}

fn oracle(
	c: &Case,
	r: &Result<Result<Built, vharness::libwallet::Error>, String>,
	next_child_calls: u64,
) -> Vec<String> {
	let mut f = vec![];
	match r {
		Err(m) => f.push(format!("panic: {}", m)),
		Ok(Err(e)) => {
			if let vharness::libwallet::Error::GenericError(s) = e {
				if s.starts_with("ORACLE:") {
					f.push(s.clone());
				}
			}
			let _ = next_child_calls; // key-index bumps reserve no funds
		}
		Ok(Ok(b)) => {
			let mut seen = std::collections::HashSet::new();
			for i in &b.inputs {
				if !seen.insert(*i) {
					f.push(format!("input {} selected twice", i));
				}
				match c.outs.get(*i as usize) {
					None => f.push(format!("input {} is not a wallet output", i)),
					Some(o) => {
						if !spendable(o, c) {
							f.push(format!("input {} not spendable in source account", i));
						}
					}
				}
			}
			let sum_in: u128 = b
				.inputs
				.iter()
				.filter_map(|i| c.outs.get(*i as usize))
				.map(|o| o.value as u128)
				.sum();
			let sum_ch: u128 = b.changes.iter().map(|x| *x as u128).sum();
			if sum_in != b.amount2 as u128 + b.fee as u128 + sum_ch {
				f.push(format!(
					"value not conserved: inputs {} != amount {} + fee {} + change {}",
					sum_in, b.amount2, b.fee, sum_ch
				));
			}
			if c.aif {
				if b.amount2 as u128 + b.fee as u128 != c.amount as u128 {
					f.push("amount-includes-fee: amount' + fee != A".into());
				}
			} else if b.amount2 != c.amount {
				f.push("amount changed".into());
			}
			let min_fee = tx_fee(b.inputs.len(), b.changes.len() + 1, 1);
			if b.fee < min_fee {
				f.push(format!("fee {} below network minimum {}", b.fee, min_fee));
			}
			if b.fee == 0 || b.fee > (1u64 << 40) - 1 {
				f.push("fee outside FeeFields range".into());
			}
			if b.changes.iter().any(|x| *x == 0) {
				f.push("zero-value change output".into());
			}
			if !(b.changes.is_empty() || b.changes.len() as u64 == c.change_outputs) {
				f.push("number of change outputs differs from the requested one".into());
			}
		}
	}
	f
}

const FEE1: u64 = 12_500_000; // tx_fee(1,1,1)
fn gen_case(p: &mut Prng, big: bool) -> Case {
	let h = *p.pick(&[0u64, 1, 5, 5, 5, 100, 100, 100, 1000, 1000, 1000, u64::MAX]);
	let n = match p.below(100) {
		0..=1 => 0,
		2..=16 => 1,
		17..=36 => 2,
		37..=56 => 3,
		57..=71 => 4,
		72..=91 => p.range(5, 8),
		_ => {
			if big && p.chance(1, 4) {
				p.range(495, 610)
			} else {
				p.range(9, 40)
			}
		}
	};
	let parent = p.below(2) as u32;
	let valpha: [u64; 16] = [
		1,
		2,
		3,
		5,
		7,
		10,
		FEE1,
		23_000_000,
		FEE1 + 7,
		1_000_000_000,
		60_000_000_000,
		60_000_000_000,
		1 << 40,
		1 << 63,
		u64::MAX,
		0,
	];
	let mut outs = vec![];
	for _ in 0..n {
		let value = if p.chance(1, 5) {
			p.range(1, 200_000_000_000)
		} else if n > 8 {
			*p.pick(&valpha[0..12])
		} else {
			*p.pick(&valpha)
		};
		let status = match p.below(20) {
			0..=13 => 1,
			14..=15 => 0,
			16..=17 => 2,
			18 => 3,
			_ => 4,
		};
		let height = match p.below(12) {
			0 => 0,
			1 => h.saturating_sub(1),
			2 => h,
			3 => h.saturating_add(1),
			_ => p.below(h.saturating_add(1).max(1)),
		};
		let lock_height = match p.below(16) {
			0 => h,
			1 => h.saturating_add(1),
			2 => height.saturating_add(3),
			_ => 0,
		};
		outs.push(O {
			acct: if p.chance(17, 20) { parent } else { 1 - parent },
			value,
			status,
			height,
			lock_height,
			cb: p.chance(1, 5),
		});
	}
	let minconf = *p.pick(&[0u64, 0, 0, 1, 1, 1, 1, 1, 2, 2, 10, u64::MAX]);
	let change_outputs = match p.below(40) {
		0..=3 => 0,
		4..=19 => 1,
		20..=24 => 2,
		25..=28 => 3,
		29..=31 => 4,
		32..=33 => 5,
		34..=35 => 7,
		36 => 100,
		37 => {
			if big {
				104_714
			} else {
				300
			}
		}
		38 => 104_715,
		_ => u32::MAX as u64,
	};
	let max_outputs = *p.pick(&[0u64, 1, 2, 2, 3, 3, 4, 500, 500, 500, u32::MAX as u64]);
	let all = p.coin();
	let aif = p.chance(2, 5);
	let mut c = Case {
		outs,
		amount: 0,
		aif,
		h,
		minconf,
		max_outputs,
		change_outputs,
		all,
		parent,
	};
	// amounts: boundaries relative to what is spendable
	let sp: Vec<u64> = c
		.outs
		.iter()
		.filter(|o| spendable(o, &c))
		.map(|o| o.value)
		.collect();
	let total: u128 = sp.iter().map(|x| *x as u128).sum();
	let total64 = if total > u64::MAX as u128 {
		u64::MAX
	} else {
		total as u64
	};
	let nsp = sp.len();
	let fee_c = tx_fee(nsp.max(1), (change_outputs.min(1_000_000) + 1) as usize, 1);
	let fee_1 = tx_fee(nsp.max(1), 1, 1);
	let d = p.below(24);
	c.amount = match p.below(24) {
		0 => 0,
		1 => 1,
		2 => u64::MAX,
		3 => u64::MAX - p.below(30_000_000),
		4 => total64,
		5 => total64.saturating_add(1),
		6 | 7 | 8 => total64.saturating_sub(fee_c).saturating_sub(d),
		9 => total64.saturating_sub(fee_c).saturating_add(d % 3),
		10 | 11 => total64.saturating_sub(fee_1).saturating_sub(d % 4),
		12 => total64.saturating_sub(fee_1).saturating_add(d % 3),
		13 => {
			// partial: smallest few
			let mut s = sp.clone();
			s.sort();
			let k = p.below(s.len() as u64 + 1) as usize;
			let part: u128 = s.iter().take(k).map(|x| *x as u128).sum();
			(part.min(u64::MAX as u128) as u64).saturating_sub(d)
		}
		_ => p.below(total64.max(1)),
	};
	c
}

fn case_json(c: &Case) -> serde_json::Value {
	json!({
		"outs": c.outs.iter().map(|o| json!([o.acct, o.value.to_string(), o.status, o.height.to_string(), o.lock_height.to_string(), o.cb])).collect::<Vec<_>>(),
		"amount": c.amount.to_string(), "aif": c.aif, "h": c.h.to_string(), "minconf": c.minconf.to_string(),
		"max_outputs": c.max_outputs, "change_outputs": c.change_outputs, "all": c.all, "parent": c.parent
	})
}
fn case_from_json(v: &serde_json::Value) -> Case {
	let u = |x: &serde_json::Value| -> u64 {
		x.as_str()
			.map(|s| s.parse().unwrap())
			.or(x.as_u64())
			.unwrap()
	};
	Case {
		outs: v["outs"]
			.as_array()
			.unwrap()
			.iter()
			.map(|o| O {
				acct: u(&o[0]) as u32,
				value: u(&o[1]),
				status: u(&o[2]) as u8,
				height: u(&o[3]),
				lock_height: u(&o[4]),
				cb: o[5].as_bool().unwrap(),
			})
			.collect(),
		amount: u(&v["amount"]),
		aif: v["aif"].as_bool().unwrap(),
		h: u(&v["h"]),
		minconf: u(&v["minconf"]),
		max_outputs: u(&v["max_outputs"]),
		change_outputs: u(&v["change_outputs"]),
		all: v["all"].as_bool().unwrap(),
		parent: u(&v["parent"]) as u32,
	}
}

fn strs(v: &[u128]) -> Vec<String> {
	v.iter().map(|x| x.to_string()).collect()
}

fn emit(out: &mut Out, id: u64, c: &Case, do_l2: bool) {
	// (the whole transaction is built only for change-output counts whose range proofs take seconds, not hours)
	let do_l2 = do_l2 && c.change_outputs <= 2000;
	let (r1, nc1) = run_l1(c);
	let mut fails = oracle(c, &r1, nc1);
	let e1 = enc(&r1);
	let mut e2 = None;
	if do_l2 {
		let (r2, nc2) = run_l2(c);
		for f in oracle(c, &r2, nc2) {
			fails.push(format!("build_send_tx: {}", f));
		}
		e2 = Some(enc(&r2));
	}
	// late lock: the same selection against a fee fixed earlier — the fee this selection needs, the
	// fee of a selection with one input more, or one input less (so equal, higher and lower occur)
	let mut e3 = None;
	let mut fixed = None;
	if do_l2 && id % 4 != 0 {
		let base = match &r1 {
			Ok(Ok(b)) => (b.fee, b.inputs.len(), b.changes.len()),
			_ => (FEE1, 1, 0),
		};
		let f = match id % 4 {
			1 => base.0,
			2 => tx_fee(base.1 + 1, base.2 + 1, 1),
			_ => tx_fee(base.1.saturating_sub(1).max(1), base.2 + 1, 1).min(base.0.saturating_sub(1).max(1)),
		};
		let (r3, nc3) = run_l2_fixed(c, Some(f));
		for x in oracle(c, &r3, nc3) {
			fails.push(format!("build_send_tx(fixed fee): {}", x));
		}
		if let Ok(Ok(b)) = &r3 {
			if b.fee != f {
				fails.push(format!(
					"build_send_tx(fixed fee): agreed to build with fee {} although the fee fixed earlier is {}",
					b.fee, f
				));
			}
		}
		e3 = Some(enc(&r3));
		fixed = Some(f);
	}
	out.line(&json!({"id": id, "case": case_json(c), "l1": strs(&e1),
		"l2": e2.map(|e| strs(&e)), "l3": e3.map(|e| strs(&e)), "fixed": fixed.map(|f| f.to_string()),
		"oracle": fails}));
}

fn main() {
	quiet_panics();
	grin_core::global::set_local_chain_type(grin_core::global::ChainTypes::AutomatedTesting);
	let out_path = arg("out").expect("--out");
	let mut out = Out::create(&out_path);
	if let Some(replay) = arg("replay") {
		// replay file: JSON with a "case" (or a list under "cases")
		let v: serde_json::Value =
			serde_json::from_str(&std::fs::read_to_string(&replay).unwrap()).unwrap();
		let cases: Vec<serde_json::Value> = if v.get("cases").is_some() {
			v["cases"].as_array().unwrap().clone()
		} else {
			vec![v["case"].clone()]
		};
		for (i, cj) in cases.iter().enumerate() {
			emit(&mut out, i as u64, &case_from_json(cj), true);
		}
		out.finish();
		return;
	}
	let n = arg_u64("n", 2000);
	let n_l2 = arg_u64("l2", 200);
	let big = arg_u64("big", 0) == 1;
	let maxc = arg_u64("maxc", u64::MAX);
	let mut p = Prng::new(seed_from_env());
	for id in 0..n {
		let mut c = gen_case(&mut p, big);
		c.change_outputs = c.change_outputs.min(maxc);
		// l2 builds range proofs per change output: keep it to small change counts
		let do_l2 = id < n_l2 && c.change_outputs <= 7;
		emit(&mut out, id, &c, do_l2);
	}
	out.finish();
}
