//! C02 correspondence + oracle runner.
//!
//! Drives real two-wallet exchanges (send, send locked with the reply, late-locked send,
//! self-send, invoice) on real LMDB wallets and a real in-process chain, applies a catalogue
//! of mutations to the reply slate (at the level of the wire record SlateV4, then through
//! the JSON wire format) and calls finalize_tx. For every case it prints
//!   * the abstract image of the case as a Coq term (`Proto.case`) for the model,
//!   * the implementation's verdict in the encoding of `Proto.run_case`
//!       Ok [0, #in, #out, kernel fee, kernel feature, stored 0/1] | Err [1, class, log changed] | Panic [2]
//!   * the failures of the property oracle, which looks only at the implementation's outputs.
use ed25519_dalek::{Keypair as DalekKeypair, PublicKey as DalekPublicKey, SecretKey as DalekSecretKey, Signature as DalekSignature, Signer, Verifier};
use serde_json::{json, Value};
use std::convert::TryFrom;
use uuid::Uuid;
use vharness::core::core::{
	FeeFields, Input, KernelFeatures, Output, OutputFeatures, Transaction, Weighting,
};
use vharness::core::libtx::{build, proof::ProofBuilder, tx_fee};
use vharness::core::core::hash::Hashed;
use vharness::core::ser as gser;
use vharness::keychain::{
	BlindSum, BlindingFactor, ExtKeychain, Identifier, Keychain, SwitchCommitmentType,
};
use vharness::libwallet::api_impl::{foreign, owner};
use vharness::libwallet::slate_versions::v4::{
	CommitsV4, KernelFeaturesArgsV4, OutputFeaturesV4, ParticipantDataV4, PaymentInfoV4, SlateStateV4,
	SlateV4,
};
use vharness::libwallet::{address, PaymentProof, SlatepackAddress};
use vharness::libwallet::{
	BlockFees, Context, Error, InitTxArgs, IssueInvoiceTxArgs, OutputData, OutputStatus, Slate, SlateState,
	TxLogEntryType, WalletBackend,
};
use vharness::prng::{seed_from_env, Prng};
use vharness::scen::*;
use vharness::util::secp::key::{PublicKey, SecretKey};
use vharness::util::secp::pedersen::{Commitment, RangeProof};
use vharness::util::secp::Signature;
use vharness::util::ToHex;
use vharness::*;

const A: usize = 0; // the wallet under test (sender / invoice issuer)
const R: usize = 1; // counterparty
const R2: usize = 2; // counterparty of the second exchange / source of "other" values
const ACCT1: &str = "acct1";

// ------------------------------------------------------------------ scripts

#[derive(Clone, Debug, PartialEq)]
enum Flow {
	Send,    // lock with the first slate, then the reply arrives
	Sync,    // lock with the (mutated) reply, then finalize (synchronous send)
	Late,    // late lock
	Invoice, // A issues an invoice, R pays, A finalizes
}

#[derive(Clone, Debug, PartialEq)]
enum ForgeKind {
	Honest,          // the real counterparty wallet produces the reply
	Redo,            // a knowledgeable counterparty builds the same kind of reply itself
	AmountPlus(i64), // ... claiming amount+d
	Split(u64),      // ... splitting the amount over n outputs
	ZeroOutput,      // ... adding an output of value 0
	NegInput,        // ... one input committing to -amount, no output
	Payjoin(u64),    // ... one input of value v and one output amount+v
	HeightLock(u64), // ... signing a height-locked kernel
	StateI2,         // ... claiming the invoice state and signing over the sender's fee
	TwoEntries,      // ... with two participant entries
	FeeCut(i64),     // ... signing over a fee lowered by d (raised if d<0) and claiming amount+d
}

#[derive(Clone, Debug, PartialEq)]
enum Mut {
	None,
	Amount(u64),
	Fee(u64),
	TtlRel(i64), // last confirmed height + d
	Ttl(u64),
	NumParts(u8),
	State(u8),
	Feat(u8, Option<u64>),
	IdOther,
	IdUnknown,
	OffAdd,
	OffZero,
	OffOther,
	OffNeg,
	SigsDrop,
	SigsDup,
	SigXsOther,
	SigNonceOther,
	SigNone,
	SigOther,
	SigSAdd,
	SigRAdd,
	SigsSwapKeyNonce,
	SigsAddSender(bool),
	SigsAddStranger,
	ComsNone,
	ComsEmpty,
	ComsDup,
	ComsOther,
	ComsProofOther,
	ComsProofGarbage,
	ComsCoinbase,
	ComsValueAdd(i64),
	ComsAddOutput(u64),
	ComsAddInput(i64),
	ComsAddChange(bool),
	ComsAddSenderInput,
	ComsUnsorted,
	// payment-proof field of the reply (C11)
	PPStrip,
	/// downgrade: the proof is dropped AND the reply is relabelled as the other flow's reply
	/// (Standard2 <-> Invoice2), the state the foreign finalize dispatches on
	PPStripRelabel,
	/// the same, after the counterparty has planted a received entry under the slate id in the
	/// finalizing wallet (a fresh send slate with its id overwritten, delivered to its foreign receive_tx)
	PPStripRelabelPlanted,
	PPNoSig,
	PPResign(bool),            // signed by another wallet's address key; true: its address put in as well
	PPOver(i64, bool, bool),   // right key, over amount+d / another excess / another sender address
	/// the reply announces amount+d in its amount field and carries the recipient's signature over that amount
	PPOverAnnounce(i64),
	PPSaddr,
	PPRaddr,
	PPAdd,
}

/// alterations of an exported payment proof (C11)
#[derive(Clone, Debug, PartialEq)]
enum PMut {
	None,
	Amount(i64),
	Excess,
	Raddr,
	Saddr,
	Rsig,
	Ssig,
	SwapSigs,
	SwapAddrs,
}
impl PMut {
	fn name(&self) -> String {
		format!("{:?}", self)
	}
	fn to_coq(&self) -> String {
		match self {
			PMut::None => "PNone".into(),
			PMut::Amount(d) => if *d < 0 { format!("(PAmount ({})%Z)", d) } else { format!("(PAmount {}%Z)", d) },
			PMut::Excess => "PExcess".into(),
			PMut::Raddr => format!("(PRaddr {}%Z)", ADDR_R2),
			PMut::Saddr => format!("(PSaddr {}%Z)", ADDR_R2),
			PMut::Rsig => format!("(PRsig {}%Z)", ADDR_R2),
			PMut::Ssig => format!("(PSsig {}%Z)", ADDR_R2),
			PMut::SwapSigs => "PSwapSigs".into(),
			PMut::SwapAddrs => "PSwapAddrs".into(),
		}
	}
}
/// abstract address keys (Proto.c_addr_sk parent 0): wallet A account a -> a, R -> 10, R2 -> 20
const ADDR_BASE: i64 = 5_000_000_007;
const ADDR_R: i64 = ADDR_BASE + 10_000;
const ADDR_R2: i64 = ADDR_BASE + 20_000;

#[derive(Clone, Debug)]
struct Script {
	flow: Flow,
	self_send: bool,
	src_acct: u32,       // account the coins come from / the invoice goes to
	use_src_name: bool,  // pass src_acct_name instead of switching the active account
	active_ok: bool,     // active account == src account when finalize is called
	exact_slack: Option<u32>, // Some(k): amount = coin - fee(k+1 outputs), no change, slack for k outputs
	permille: u64,       // otherwise amount = permille/1000 of one coinbase (may exceed 1000)
	n_change: u32,
	minconf: u64,
	use_all: bool,
	ttl_blocks: Option<u64>,
	with_b: bool,
	forge: ForgeKind,
	muts: Vec<Mut>,
	end_cancel: bool, // if nothing was accepted: cancel at the end (else finalize the unmutated reply)
	pp: u8,           // payment proof: 0 none, 1 requested for the counterparty's address, 2 for a third party's
}

fn state_name(s: u8) -> &'static str {
	["StUnknown", "StS1", "StS2", "StS3", "StI1", "StI2", "StI3"][s as usize]
}

impl Mut {
	fn to_json(&self) -> Value {
		match self {
			Mut::None => json!(["None"]),
			Mut::Amount(n) => json!(["Amount", n.to_string()]),
			Mut::Fee(n) => json!(["Fee", n.to_string()]),
			Mut::TtlRel(d) => json!(["TtlRel", d]),
			Mut::Ttl(n) => json!(["Ttl", n.to_string()]),
			Mut::NumParts(n) => json!(["NumParts", n]),
			Mut::State(s) => json!(["State", s]),
			Mut::Feat(f, a) => json!(["Feat", f, a.map(|x| x.to_string())]),
			Mut::IdOther => json!(["IdOther"]),
			Mut::IdUnknown => json!(["IdUnknown"]),
			Mut::OffAdd => json!(["OffAdd"]),
			Mut::OffZero => json!(["OffZero"]),
			Mut::OffOther => json!(["OffOther"]),
			Mut::OffNeg => json!(["OffNeg"]),
			Mut::SigsDrop => json!(["SigsDrop"]),
			Mut::SigsDup => json!(["SigsDup"]),
			Mut::SigXsOther => json!(["SigXsOther"]),
			Mut::SigNonceOther => json!(["SigNonceOther"]),
			Mut::SigNone => json!(["SigNone"]),
			Mut::SigOther => json!(["SigOther"]),
			Mut::SigSAdd => json!(["SigSAdd"]),
			Mut::SigRAdd => json!(["SigRAdd"]),
			Mut::SigsSwapKeyNonce => json!(["SigsSwapKeyNonce"]),
			Mut::SigsAddSender(b) => json!(["SigsAddSender", b]),
			Mut::SigsAddStranger => json!(["SigsAddStranger"]),
			Mut::ComsNone => json!(["ComsNone"]),
			Mut::ComsEmpty => json!(["ComsEmpty"]),
			Mut::ComsDup => json!(["ComsDup"]),
			Mut::ComsOther => json!(["ComsOther"]),
			Mut::ComsProofOther => json!(["ComsProofOther"]),
			Mut::ComsProofGarbage => json!(["ComsProofGarbage"]),
			Mut::ComsCoinbase => json!(["ComsCoinbase"]),
			Mut::ComsValueAdd(d) => json!(["ComsValueAdd", d]),
			Mut::ComsAddOutput(v) => json!(["ComsAddOutput", v.to_string()]),
			Mut::ComsAddInput(v) => json!(["ComsAddInput", v]),
			Mut::ComsAddChange(b) => json!(["ComsAddChange", b]),
			Mut::ComsAddSenderInput => json!(["ComsAddSenderInput"]),
			Mut::ComsUnsorted => json!(["ComsUnsorted"]),
			Mut::PPStrip => json!(["PPStrip"]),
			Mut::PPStripRelabel => json!(["PPStripRelabel"]),
			Mut::PPStripRelabelPlanted => json!(["PPStripRelabelPlanted"]),
			Mut::PPNoSig => json!(["PPNoSig"]),
			Mut::PPResign(b) => json!(["PPResign", b]),
			Mut::PPOver(d, e, x) => json!(["PPOver", d, e, x]),
			Mut::PPOverAnnounce(d) => json!(["PPOverAnnounce", d]),
			Mut::PPSaddr => json!(["PPSaddr"]),
			Mut::PPRaddr => json!(["PPRaddr"]),
			Mut::PPAdd => json!(["PPAdd"]),
		}
	}
	fn from_json(v: &Value) -> Mut {
		let name = v[0].as_str().unwrap();
		let u = |i: usize| -> u64 {
			match &v[i] {
				Value::String(s) => s.parse().unwrap(),
				x => x.as_u64().unwrap(),
			}
		};
		let i = |k: usize| -> i64 { v[k].as_i64().unwrap() };
		let b = |k: usize| -> bool { v[k].as_bool().unwrap() };
		match name {
			"None" => Mut::None,
			"Amount" => Mut::Amount(u(1)),
			"Fee" => Mut::Fee(u(1)),
			"TtlRel" => Mut::TtlRel(i(1)),
			"Ttl" => Mut::Ttl(u(1)),
			"NumParts" => Mut::NumParts(u(1) as u8),
			"State" => Mut::State(u(1) as u8),
			"Feat" => Mut::Feat(u(1) as u8, if v[2].is_null() { None } else { Some(u(2)) }),
			"IdOther" => Mut::IdOther,
			"IdUnknown" => Mut::IdUnknown,
			"OffAdd" => Mut::OffAdd,
			"OffZero" => Mut::OffZero,
			"OffOther" => Mut::OffOther,
			"OffNeg" => Mut::OffNeg,
			"SigsDrop" => Mut::SigsDrop,
			"SigsDup" => Mut::SigsDup,
			"SigXsOther" => Mut::SigXsOther,
			"SigNonceOther" => Mut::SigNonceOther,
			"SigNone" => Mut::SigNone,
			"SigOther" => Mut::SigOther,
			"SigSAdd" => Mut::SigSAdd,
			"SigRAdd" => Mut::SigRAdd,
			"SigsSwapKeyNonce" => Mut::SigsSwapKeyNonce,
			"SigsAddSender" => Mut::SigsAddSender(b(1)),
			"SigsAddStranger" => Mut::SigsAddStranger,
			"ComsNone" => Mut::ComsNone,
			"ComsEmpty" => Mut::ComsEmpty,
			"ComsDup" => Mut::ComsDup,
			"ComsOther" => Mut::ComsOther,
			"ComsProofOther" => Mut::ComsProofOther,
			"ComsProofGarbage" => Mut::ComsProofGarbage,
			"ComsCoinbase" => Mut::ComsCoinbase,
			"ComsValueAdd" => Mut::ComsValueAdd(i(1)),
			"ComsAddOutput" => Mut::ComsAddOutput(u(1)),
			"ComsAddInput" => Mut::ComsAddInput(i(1)),
			"ComsAddChange" => Mut::ComsAddChange(b(1)),
			"ComsAddSenderInput" => Mut::ComsAddSenderInput,
			"ComsUnsorted" => Mut::ComsUnsorted,
			"PPStrip" => Mut::PPStrip,
			"PPStripRelabel" => Mut::PPStripRelabel,
			"PPStripRelabelPlanted" => Mut::PPStripRelabelPlanted,
			"PPNoSig" => Mut::PPNoSig,
			"PPResign" => Mut::PPResign(b(1)),
			"PPOver" => Mut::PPOver(i(1), b(2), b(3)),
			"PPOverAnnounce" => Mut::PPOverAnnounce(i(1)),
			"PPSaddr" => Mut::PPSaddr,
			"PPRaddr" => Mut::PPRaddr,
			"PPAdd" => Mut::PPAdd,
			x => panic!("unknown mutation {}", x),
		}
	}
	/// the Coq constructor (Proto.mutation)
	fn to_coq(&self, conf_h: u64, id_other: u64) -> String {
		let z = |x: i64| if x < 0 { format!("({})%Z", x) } else { format!("{}%Z", x) };
		match self {
			Mut::None => "MNone".into(),
			Mut::Amount(n) => format!("(MAmount {}%N)", n),
			Mut::Fee(n) => format!("(MFee {}%N)", n),
			Mut::TtlRel(d) => format!("(MTtl {}%N)", (conf_h as i64 + d).max(0)),
			Mut::Ttl(n) => format!("(MTtl {}%N)", n),
			Mut::NumParts(n) => format!("(MNumParts {}%N)", n),
			Mut::State(s) => format!("(MState {})", state_name(*s)),
			Mut::Feat(f, a) => format!(
				"(MFeat {}%N {})",
				f,
				match a {
					Some(x) => format!("(Some {}%N)", x),
					None => "None".into(),
				}
			),
			Mut::IdOther => format!("(MId {}%N)", id_other),
			Mut::IdUnknown => "(MId 9%N)".into(),
			Mut::OffAdd => "(MOffAdd 1%Z)".into(),
			Mut::OffZero => "MOffZero".into(),
			Mut::OffOther => "MOffOther".into(),
			Mut::OffNeg => "MOffNeg".into(),
			Mut::SigsDrop => "MSigsDrop".into(),
			Mut::SigsDup => "MSigsDup".into(),
			Mut::SigXsOther => "MSigXsOther".into(),
			Mut::SigNonceOther => "MSigNonceOther".into(),
			Mut::SigNone => "MSigNone".into(),
			Mut::SigOther => "MSigOther".into(),
			Mut::SigSAdd => "(MSigSAdd 1%Z)".into(),
			Mut::SigRAdd => "(MSigRAdd 1%Z)".into(),
			Mut::SigsSwapKeyNonce => "MSigsSwapKeyNonce".into(),
			Mut::SigsAddSender(b) => format!("(MSigsAddSender {})", b),
			Mut::SigsAddStranger => "MSigsAddStranger".into(),
			Mut::ComsNone => "MComsNone".into(),
			Mut::ComsEmpty => "MComsEmpty".into(),
			Mut::ComsDup => "MComsDup".into(),
			Mut::ComsOther => "MComsOther".into(),
			Mut::ComsProofOther => "MComsProofOther".into(),
			Mut::ComsProofGarbage => "MComsProofGarbage".into(),
			Mut::ComsCoinbase => "MComsCoinbase".into(),
			Mut::ComsValueAdd(d) => format!("(MComsValueAdd {})", z(*d)),
			Mut::ComsAddOutput(v) => format!("(MComsAddOutput {}%N)", v),
			Mut::ComsAddInput(v) => format!("(MComsAddInput {})", z(*v)),
			Mut::ComsAddChange(b) => format!("(MComsAddChange {})", b),
			Mut::ComsAddSenderInput => "MComsAddSenderInput".into(),
			Mut::ComsUnsorted => "MComsUnsorted".into(),
			Mut::PPStrip => "MPPStrip".into(),
			Mut::PPStripRelabel | Mut::PPStripRelabelPlanted => "MPPStripRelabel".into(),
			Mut::PPNoSig => "MPPNoSig".into(),
			Mut::PPResign(b) => format!("(MPPResign {}%Z {})", ADDR_R2, b),
			Mut::PPOver(d, e, x) => format!("(MPPOver {} {} {})", z(*d), e, x),
			Mut::PPOverAnnounce(d) => format!("(MPPOverAnnounce {})", z(*d)),
			Mut::PPSaddr => format!("(MPPSaddr {}%Z)", ADDR_R2),
			Mut::PPRaddr => format!("(MPPRaddr {}%Z)", ADDR_R2),
			Mut::PPAdd => format!("(MPPAdd {}%Z)", ADDR_R),
		}
	}
}

impl ForgeKind {
	fn to_json(&self) -> Value {
		match self {
			ForgeKind::Honest => json!(["Honest"]),
			ForgeKind::Redo => json!(["Redo"]),
			ForgeKind::AmountPlus(d) => json!(["AmountPlus", d]),
			ForgeKind::Split(n) => json!(["Split", n]),
			ForgeKind::ZeroOutput => json!(["ZeroOutput"]),
			ForgeKind::NegInput => json!(["NegInput"]),
			ForgeKind::Payjoin(v) => json!(["Payjoin", v]),
			ForgeKind::HeightLock(h) => json!(["HeightLock", h]),
			ForgeKind::StateI2 => json!(["StateI2"]),
			ForgeKind::TwoEntries => json!(["TwoEntries"]),
			ForgeKind::FeeCut(d) => json!(["FeeCut", d]),
		}
	}
	fn from_json(v: &Value) -> ForgeKind {
		match v[0].as_str().unwrap() {
			"Honest" => ForgeKind::Honest,
			"Redo" => ForgeKind::Redo,
			"AmountPlus" => ForgeKind::AmountPlus(v[1].as_i64().unwrap()),
			"Split" => ForgeKind::Split(v[1].as_u64().unwrap()),
			"ZeroOutput" => ForgeKind::ZeroOutput,
			"NegInput" => ForgeKind::NegInput,
			"Payjoin" => ForgeKind::Payjoin(v[1].as_u64().unwrap()),
			"HeightLock" => ForgeKind::HeightLock(v[1].as_u64().unwrap()),
			"StateI2" => ForgeKind::StateI2,
			"TwoEntries" => ForgeKind::TwoEntries,
			"FeeCut" => ForgeKind::FeeCut(v[1].as_i64().unwrap()),
			x => panic!("unknown forge {}", x),
		}
	}
}

impl Script {
	fn to_json(&self) -> Value {
		json!({
			"flow": match self.flow { Flow::Send => "send", Flow::Sync => "sync", Flow::Late => "late", Flow::Invoice => "invoice" },
			"self_send": self.self_send, "src_acct": self.src_acct, "use_src_name": self.use_src_name,
			"active_ok": self.active_ok, "exact_slack": self.exact_slack, "permille": self.permille,
			"n_change": self.n_change, "minconf": self.minconf, "use_all": self.use_all,
			"ttl_blocks": self.ttl_blocks, "with_b": self.with_b, "forge": self.forge.to_json(),
			"muts": self.muts.iter().map(|m| m.to_json()).collect::<Vec<_>>(),
			"end_cancel": self.end_cancel, "pp": self.pp,
		})
	}
	fn from_json(v: &Value) -> Script {
		Script {
			flow: match v["flow"].as_str().unwrap() {
				"send" => Flow::Send,
				"sync" => Flow::Sync,
				"late" => Flow::Late,
				_ => Flow::Invoice,
			},
			self_send: v["self_send"].as_bool().unwrap(),
			src_acct: v["src_acct"].as_u64().unwrap() as u32,
			use_src_name: v["use_src_name"].as_bool().unwrap(),
			active_ok: v["active_ok"].as_bool().unwrap(),
			exact_slack: v["exact_slack"].as_u64().map(|x| x as u32),
			permille: v["permille"].as_u64().unwrap(),
			n_change: v["n_change"].as_u64().unwrap() as u32,
			minconf: v["minconf"].as_u64().unwrap(),
			use_all: v["use_all"].as_bool().unwrap(),
			ttl_blocks: v["ttl_blocks"].as_u64(),
			with_b: v["with_b"].as_bool().unwrap(),
			forge: ForgeKind::from_json(&v["forge"]),
			muts: v["muts"].as_array().unwrap().iter().map(Mut::from_json).collect(),
			end_cancel: v["end_cancel"].as_bool().unwrap(),
			pp: v["pp"].as_u64().unwrap_or(0) as u8,
		}
	}
}

// ------------------------------------------------------------------ generation

fn rejected_catalogue(flow: &Flow) -> Vec<Mut> {
	// mutations expected (by reading the code) to be refused or to be harmless; what actually
	// happens is decided by the implementation and compared with the model
	let mut v = vec![
		Mut::OffAdd,
		Mut::OffZero,
		Mut::OffOther,
		Mut::OffNeg,
		Mut::TtlRel(0),
		Mut::TtlRel(-1),
		Mut::Ttl(1),
		Mut::NumParts(1),
		Mut::State(0),
		Mut::State(1),
		Mut::State(3),
		Mut::State(4),
		Mut::State(6),
		Mut::Feat(1, None),
		Mut::Feat(2, None),
		Mut::Feat(2, Some(7)),
		Mut::Feat(3, Some(5)),
		Mut::Feat(3, Some(0)),
		Mut::Feat(3, Some(20000)),
		Mut::Feat(4, None),
		Mut::Feat(255, Some(1)),
		Mut::IdOther,
		Mut::IdUnknown,
		Mut::SigsDrop,
		Mut::SigsDup,
		Mut::SigXsOther,
		Mut::SigNonceOther,
		Mut::SigNone,
		Mut::SigOther,
		Mut::SigSAdd,
		Mut::SigRAdd,
		Mut::SigsSwapKeyNonce,
		Mut::SigsAddSender(true),
		Mut::SigsAddStranger,
		Mut::ComsNone,
		Mut::ComsEmpty,
		Mut::ComsDup,
		Mut::ComsOther,
		Mut::ComsProofOther,
		Mut::ComsProofGarbage,
		Mut::ComsCoinbase,
		Mut::ComsValueAdd(1),
		Mut::ComsValueAdd(-1),
		Mut::ComsAddOutput(0),
		Mut::ComsAddOutput(1),
		Mut::ComsAddInput(5),
		Mut::ComsAddInput(-5),
		Mut::ComsAddChange(false),
		Mut::ComsAddSenderInput,
	];
	match flow {
		Flow::Invoice => v.push(Mut::State(2)),
		_ => v.push(Mut::State(5)),
	}
	v
}

fn accepted_catalogue() -> Vec<Mut> {
	vec![
		Mut::None,
		Mut::Amount(1),
		Mut::Amount(u64::MAX),
		Mut::Fee(1),
		Mut::Fee(1 << 41),
		Mut::Ttl(0),
		Mut::TtlRel(1),
		Mut::TtlRel(1000),
		Mut::NumParts(0),
		Mut::NumParts(3),
		Mut::NumParts(255),
		Mut::Feat(0, Some(9)),
		Mut::SigsAddSender(false),
		Mut::ComsAddChange(true),
	]
}

fn pp_catalogue() -> Vec<Mut> {
	vec![
		Mut::PPStrip,
		Mut::PPStripRelabel,
		Mut::PPStripRelabelPlanted,
		Mut::PPStripRelabelPlanted,
		Mut::PPNoSig,
		Mut::PPResign(false),
		Mut::PPResign(true),
		Mut::PPOver(1, false, false),
		Mut::PPOver(-1, false, false),
		Mut::PPOver(0, true, false),
		Mut::PPOver(0, false, true),
		Mut::PPOverAnnounce(-1000),
		Mut::PPOverAnnounce(7),
		Mut::PPSaddr,
		Mut::PPRaddr,
	]
}

/// C11: proof-carrying sends over amounts / accounts / change shapes, mutations of the proof
/// fields of the reply (plus a few others), then the exported proof
fn gen_script_c11(p: &mut Prng, k: u64, thorough: bool) -> Script {
	let mut sc = gen_script(p, k, thorough);
	sc.flow = match k % 4 {
		0 | 1 => Flow::Send,
		2 => Flow::Sync,
		_ => Flow::Late,
	};
	sc.self_send = false;
	sc.with_b = false;
	if sc.flow == Flow::Late {
		sc.exact_slack = None;
		if sc.n_change == 0 {
			sc.n_change = 1;
		}
	}
	sc.pp = match p.below(10) {
		0 => 0,
		1 => 2,
		_ => 1,
	};
	sc.forge = match p.below(8) {
		0 => ForgeKind::Redo,
		1 => ForgeKind::AmountPlus(1),
		_ => ForgeKind::Honest,
	};
	let single = sc.flow != Flow::Send;
	let ppc = pp_catalogue();
	let mut muts = vec![];
	if sc.pp == 0 {
		muts.push(if p.coin() { Mut::PPAdd } else { Mut::None });
	} else if single {
		muts.push(if p.chance(3, 5) { p.pick(&ppc).clone() } else { Mut::None });
	} else {
		for _ in 0..p.range(2, 6) {
			muts.push(p.pick(&ppc).clone());
		}
		if p.chance(1, 4) {
			muts.push(p.pick(&rejected_catalogue(&sc.flow)).clone());
		}
		if p.chance(4, 5) {
			muts.push(Mut::None);
		}
	}
	sc.muts = muts;
	sc
}

fn gen_script(p: &mut Prng, k: u64, thorough: bool) -> Script {
	let flow = match k % 8 {
		0 | 1 | 2 | 3 => Flow::Send,
		4 => Flow::Sync,
		5 => Flow::Late,
		6 => Flow::Invoice,
		_ => {
			if p.coin() {
				Flow::Send
			} else {
				Flow::Sync
			}
		}
	};
	let self_send = flow == Flow::Send && p.chance(1, 6);
	let src_acct = if p.chance(1, 4) { 1 } else { 0 };
	let use_src_name = src_acct == 1 && p.coin() && flow != Flow::Late;
	let active_ok = !use_src_name || p.chance(3, 4);
	let exact_slack = if flow != Flow::Invoice && flow != Flow::Late && p.chance(1, 4) {
		Some(p.below(3) as u32)
	} else {
		None
	};
	let permille = *p.pick(&[3u64, 40, 333, 700, 980, 1300, 2050]);
	let n_change = match exact_slack {
		Some(k) => k,
		None => 1 + p.below(3) as u32,
	};
	let minconf = if p.chance(1, 5) { 0 } else { 1 };
	let use_all = p.chance(1, 4) && permille < 1000;
	let ttl_blocks = if p.chance(1, 3) { Some(p.range(2, 50)) } else { None };
	let with_b = flow == Flow::Send && p.chance(1, 2);
	let forge = if flow == Flow::Invoice {
		ForgeKind::Honest
	} else {
		match p.below(20) {
			0 => ForgeKind::Redo,
			1 => ForgeKind::AmountPlus(1),
			2 => ForgeKind::AmountPlus(-1),
			3 => ForgeKind::Split(2),
			4 => ForgeKind::ZeroOutput,
			5 => ForgeKind::NegInput,
			6 => ForgeKind::Payjoin(1000),
			7 => ForgeKind::HeightLock(1),
			8 => ForgeKind::StateI2,
			9 => ForgeKind::TwoEntries,
			10 if exact_slack.is_some() => ForgeKind::Split(3),
			11 | 12 if exact_slack.map(|k| k > 0).unwrap_or(false) => ForgeKind::FeeCut(10_500_000),
			11 => ForgeKind::FeeCut(500_000),
			12 | 13 => ForgeKind::FeeCut(-500_000),
			_ => ForgeKind::Honest,
		}
	};
	let forge = if self_send { ForgeKind::Honest } else { forge };
	// mutation list: several expected-refused ones, then possibly one expected-harmless one
	let mut muts = vec![];
	let rej = rejected_catalogue(&flow);
	let acc = accepted_catalogue();
	let single = flow == Flow::Late || flow == Flow::Sync;
	let n_rej = if single { 0 } else { p.range(3, if thorough { 14 } else { 9 }) };
	for _ in 0..n_rej {
		muts.push(p.pick(&rej).clone());
	}
	if single {
		if p.chance(2, 3) {
			muts.push(p.pick(&rej).clone());
		} else {
			muts.push(p.pick(&acc).clone());
		}
	} else if p.chance(3, 4) {
		muts.push(p.pick(&acc).clone());
	}
	if let ForgeKind::Split(_) = forge {
		if p.coin() {
			muts.insert(0, Mut::ComsUnsorted);
		}
	}
	Script {
		flow,
		self_send,
		src_acct,
		use_src_name,
		active_ok,
		exact_slack,
		permille,
		n_change,
		minconf,
		use_all,
		ttl_blocks,
		with_b,
		forge,
		muts,
		end_cancel: p.coin(),
		pp: 0,
	}
}

// ------------------------------------------------------------------ helpers

fn classify(e: &Error) -> u64 {
	use vharness::core::core::transaction::Error as TxE;
	match e {
		Error::Fee(_) => 3,
		Error::Secp(_) | Error::Commit(_) | Error::Signature(_) => 17,
		Error::LibTX(vharness::core::libtx::Error::Signature(_)) => 17,
		Error::LibTX(vharness::core::libtx::Error::Secp { .. }) => 17,
		Error::Transaction(TxE::InvalidNRDRelativeHeight) => 21,
		Error::Transaction(_) | Error::Committed(_) => 15,
		Error::SlateState => 4,
		Error::TransactionExpired => 7,
		Error::GenericError(_) => 2,
		Error::PaymentProof(_) => 16,
		Error::TransactionDoesntExist(_) => 9,
		Error::NotEnoughFunds { .. } => 1,
		_ => 21,
	}
}

fn addr_keys(kc: &ExtKeychain, parent: &Identifier) -> DalekKeypair {
	let sk = address::address_from_derivation_path(kc, parent, 0).unwrap();
	let secret = DalekSecretKey::from_bytes(&sk.0).unwrap();
	let public: DalekPublicKey = (&secret).into();
	DalekKeypair { secret, public }
}

/// amount (8 bytes BE) ‖ excess (33 bytes) ‖ sender address (32 bytes) — written here from the
/// specification, not taken from the wallet
fn pp_msg(amount: u64, excess: &Commitment, saddr: &DalekPublicKey) -> Vec<u8> {
	let mut m = amount.to_be_bytes().to_vec();
	m.extend_from_slice(&excess.0);
	m.extend_from_slice(saddr.as_bytes());
	m
}

fn acct_id(a: u32) -> Identifier {
	ExtKeychain::derive_key_id(2, a, 0, 0, 0)
}

fn acct_name(a: u32) -> &'static str {
	if a == 0 {
		"default"
	} else {
		ACCT1
	}
}

fn set_active(s: &Scen, w: usize, a: u32) {
	s.with(w, |b, _| owner::set_active_account(b, acct_name(a))).unwrap();
}

fn refresh(s: &Scen, w: usize) {
	let _ = owner::retrieve_summary_info(s.wallets[w].inst.clone(), s.wallets[w].mask.as_ref(), &None, true, 1);
}

fn keychain_of(s: &Scen, w: usize) -> ExtKeychain {
	s.with(w, |b, m| b.keychain(m)).unwrap()
}

/// key ids of forged commitments: unique per exchange (a commitment may exist only once on chain)
static EXCHANGE_NO: std::sync::atomic::AtomicU32 = std::sync::atomic::AtomicU32::new(0);
fn label_id(label: u32) -> Identifier {
	ExtKeychain::derive_key_id(3, 77, EXCHANGE_NO.load(std::sync::atomic::Ordering::Relaxed), label, 0)
}

fn to_v4(sl: &Slate) -> SlateV4 {
	SlateV4::from(sl)
}

/// the wire: SlateV4 -> JSON text -> Slate (what the finalizing wallet would receive)
fn through_wire(v: &SlateV4) -> Result<Slate, String> {
	let txt = serde_json::to_string(v).map_err(|e| format!("ser: {}", e))?;
	match guarded(|| Slate::deserialize_upgrade(&txt)) {
		Ok(Ok(s)) => Ok(s),
		Ok(Err(e)) => Err(format!("deser: {:?}", e)),
		Err(p) => Err(format!("deser panic: {}", p)),
	}
}

fn sort_coms(coms: &mut Vec<CommitsV4>) {
	// inputs first, then outputs, each in consensus order (as Slate -> coms produces them)
	let mut ins: Vec<Input> = coms.iter().filter(|c| c.p.is_none()).map(|c| Input::new(c.f.into(), c.c)).collect();
	let mut outs: Vec<Output> = coms
		.iter()
		.filter(|c| c.p.is_some())
		.map(|c| Output::new(c.f.into(), c.c, c.p.unwrap()))
		.collect();
	ins.sort_unstable();
	outs.sort_unstable();
	let mut v: Vec<CommitsV4> = ins.iter().map(|i| i.into()).collect();
	v.extend(outs.iter().map(|o| CommitsV4::from(o)));
	*coms = v;
}

fn flip(sig: &Signature, byte: usize) -> Signature {
	let mut raw = sig.to_raw_data();
	raw[byte] ^= 1;
	Signature::from_raw_data(&raw).unwrap()
}

fn garbage_proof() -> RangeProof {
	let mut p = RangeProof::zero();
	p.plen = 675;
	for i in 0..675 {
		p.proof[i] = (i * 7 + 3) as u8;
	}
	p
}

/// what the harness knows about one output of a reply (to recompute it independently)
#[derive(Clone)]
struct KnownOut {
	key: Identifier,
	value: u64,
	blind_value: u64, // the value the blinding factor was derived for
	label: u64,
}
impl KnownOut {
	fn commit(&self, kc: &ExtKeychain) -> Commitment {
		let blind = kc.derive_key(self.blind_value, &self.key, SwitchCommitmentType::Regular).unwrap();
		kc.secp().commit(self.value, blind).unwrap()
	}
}

/// a reply together with its abstract description
#[derive(Clone)]
struct Reply {
	slate: SlateV4,
	outs: Vec<KnownOut>,      // outputs the counterparty holds
	ins: Vec<(u64, i128)>,    // (label, value) of inputs it holds
	fee: Option<u64>,
	feat: u8,
	feat_args: Option<u64>,
	state: u8,
	entries: u8,
	kc: ExtKeychain,
}

impl Reply {
	fn forge_coq(&self) -> String {
		let outs: Vec<String> = self.outs.iter().map(|o| format!("({}%N, {}%N)", o.label, o.value)).collect();
		let ins: Vec<String> = self
			.ins
			.iter()
			.map(|(l, v)| {
				if *v < 0 {
					format!("({}%N, ({})%Z)", l, v)
				} else {
					format!("({}%N, {}%Z)", l, v)
				}
			})
			.collect();
		format!(
			"(mkForge [{}] [{}] {} {}%N {} {} {}%N)",
			outs.join("; "),
			ins.join("; "),
			match self.fee {
				Some(f) => format!("(Some {}%N)", f),
				None => "None".into(),
			},
			self.feat,
			match self.feat_args {
				Some(a) => format!("(Some {}%N)", a),
				None => "None".into(),
			},
			state_name(self.state),
			self.entries
		)
	}
}

/// A counterparty that knows the protocol builds a reply to `s1` by hand (keychain `kc`):
/// outputs with proper range proofs, raw inputs (any integer value), its own participant
/// entries with partial signatures over the message it chose, and the offset that balances.
fn forge(
	kc: &ExtKeychain,
	s1: &Slate,
	outs: &[(u64, u64)],   // (label, value)
	ins: &[(u64, i128)],   // (label, value)
	fee: Option<u64>,
	feat: u8,
	feat_args: Option<u64>,
	state: u8,
	entries: u8,
) -> Reply {
	let secp = kc.secp();
	let mut v = to_v4(s1);
	if let Some(f) = fee {
		v.fee = FeeFields::try_from(f).unwrap();
	}
	v.feat = feat;
	v.feat_args = feat_args.map(|l| KernelFeaturesArgsV4 { lock_hgt: l });
	let mut sl: Slate = Slate::from(v);
	sl.tx = Some(Slate::empty_transaction());
	// outputs
	let mut known = vec![];
	let mut elems = vec![];
	for (label, value) in outs {
		let id = label_id(*label as u32);
		elems.push(build::output(*value, id.clone()));
		known.push(KnownOut { key: id, value: *value, blind_value: *value, label: *label });
	}
	// add_transaction_elements needs a valid kernel feature; the body does not depend on it
	let keep = (sl.kernel_features, sl.kernel_features_args.clone());
	sl.kernel_features = 0;
	sl.add_transaction_elements(kc, &ProofBuilder::new(kc), elems).unwrap();
	sl.kernel_features = keep.0;
	sl.kernel_features_args = keep.1;
	let mut sum = BlindSum::new().add_blinding_factor(s1.offset.clone());
	for o in &known {
		sum = sum.add_key_id(o.key.to_value_path(o.value));
	}
	// raw inputs
	let mut tx = sl.tx.clone().unwrap();
	for (label, value) in ins {
		let id = label_id(*label as u32);
		let abs = value.unsigned_abs() as u64;
		let blind = kc.derive_key(abs, &id, SwitchCommitmentType::Regular).unwrap();
		let c0 = secp.commit(0, blind.clone()).unwrap();
		let c = if *value == 0 {
			c0
		} else if *value > 0 {
			secp.commit_sum(vec![c0, secp.commit_value(abs).unwrap()], vec![]).unwrap()
		} else {
			secp.commit_sum(vec![c0], vec![secp.commit_value(abs).unwrap()]).unwrap()
		};
		tx = tx.with_input(Input::new(OutputFeatures::Plain, c));
		sum = sum.sub_blinding_factor(BlindingFactor::from_secret_key(blind));
	}
	sl.tx = Some(tx);
	// participant entries
	let parent = ExtKeychain::derive_key_id(2, 0, 0, 0, 0);
	let mut ctxs = vec![];
	for _ in 0..entries {
		let mut c = Context::new(secp, &parent, false, false);
		sl.fill_round_1(kc, &mut c).unwrap();
		sum = sum.sub_blinding_factor(BlindingFactor::from_secret_key(c.sec_key.clone()));
		ctxs.push(c);
	}
	let signable = guarded(|| sl.msg_to_sign()).map(|r| r.is_ok()).unwrap_or(false);
	if signable {
		// fill_round_2 looks for its own entry among the first num_participants entries only
		let keep_n = sl.num_participants;
		sl.num_participants = 1 + entries;
		for c in &ctxs {
			sl.fill_round_2(kc, &c.sec_key, &c.sec_nonce).unwrap();
		}
		sl.num_participants = keep_n;
	}
	sl.offset = kc.blind_sum(&sum).unwrap();
	// the kernel excess as the finalizing wallet will compute it (all entries present here)
	let excess = sl.calc_excess(secp).ok();
	// keep only my entries
	let mine: Vec<(PublicKey, PublicKey)> = ctxs
		.iter()
		.map(|c| {
			(
				PublicKey::from_secret_key(secp, &c.sec_key).unwrap(),
				PublicKey::from_secret_key(secp, &c.sec_nonce).unwrap(),
			)
		})
		.collect();
	sl.participant_data = sl
		.participant_data
		.iter()
		.filter(|p| mine.iter().any(|(k, n)| *k == p.public_blind_excess && *n == p.public_nonce))
		.cloned()
		.collect();
	// payment proof requested: sign (amount on the slate, excess, sender address) with my address key
	sl.amount = 0;
	let mut v = to_v4(&sl);
	if let (Some(pr), Some(ex)) = (v.proof.as_mut(), excess) {
		let kp = addr_keys(kc, &acct_id(0));
		pr.rsig = Some(kp.sign(&pp_msg(s1.amount, &ex, &pr.saddr)));
	}
	v.sta = match state {
		5 => SlateStateV4::Invoice2,
		_ => SlateStateV4::Standard2,
	};
	if fee.is_none() {
		v.fee = FeeFields::zero();
	}
	if let Some(c) = v.coms.as_mut() {
		sort_coms(c);
	}
	Reply {
		slate: v,
		outs: known,
		ins: ins.to_vec(),
		fee,
		feat,
		feat_args,
		state,
		entries,
		kc: kc.clone(),
	}
}

fn out_coq(o: &OutputData, key: u64) -> String {
	let st = match o.status {
		OutputStatus::Unconfirmed => "Unconfirmed",
		OutputStatus::Unspent => "Unspent",
		OutputStatus::Locked => "Locked",
		OutputStatus::Spent => "Spent",
		OutputStatus::Reverted => "Reverted",
	};
	format!(
		"mkOut {}%N {}%N {}%N {} {}%N {}%N {}",
		key_pair(&o.root_key_id).0,
		key,
		o.value,
		st,
		o.height,
		o.lock_height,
		o.is_coinbase
	)
}

/// abstract description of one exchange of the wallet under test
struct ExchInfo {
	id: u64,
	sender: i64,
	parent: u64,
	inputs: Vec<(u64, u64)>,
	outputs: Vec<(u64, u64)>,
	amount: u64,
	fee: Option<u64>,
	late: Option<(u64, u64, u64, bool)>,
	ttl: u64,
	invoice: bool,
	pp: Option<i64>, // requested recipient address (abstract)
}
impl ExchInfo {
	fn to_coq(&self) -> String {
		let pl = |v: &Vec<(u64, u64)>| v.iter().map(|(a, b)| format!("({}%N, {}%N)", a, b)).collect::<Vec<_>>().join("; ");
		format!(
			"(mkExch {}%N {}%Z {}%N [{}] [{}] {}%N {} {} {} {}%N {})",
			self.id,
			self.sender,
			self.parent,
			pl(&self.inputs),
			pl(&self.outputs),
			self.amount,
			match self.fee {
				Some(f) => format!("(Some {}%N)", f),
				None => "None".into(),
			},
			match self.pp {
				Some(a) => format!("(Some (0%N, {}%Z))", a),
				None => "None".into(),
			},
			match self.late {
				Some((mc, mo, co, all)) => format!("(Some (mkLate {}%N {}%N {}%N {}))", mc, mo, co, all),
				None => "None".into(),
			},
			self.ttl,
			self.invoice
		)
	}
}

fn ser_tx(tx: &Transaction) -> Vec<u8> {
	gser::ser_vec(tx, gser::ProtocolVersion(2)).unwrap()
}

// ------------------------------------------------------------------ world

struct World {
	s: Scen,
	dir: String,
}

fn new_world(dir: &str) -> World {
	let mut s = Scen::new(dir);
	s.add_wallet("a", None, false);
	s.add_wallet("r", None, true);
	s.add_wallet("r2", None, false);
	s.with(A, |b, m| owner::create_account_path(b, m, ACCT1)).unwrap();
	s.with(R, |b, m| owner::create_account_path(b, m, ACCT1)).unwrap();
	s.mine(A, 9);
	set_active(&s, A, 1);
	s.mine(A, 6);
	set_active(&s, A, 0);
	s.mine(R, 5);
	s.mine(R2, 5);
	s.mine(A, 4);
	World { s, dir: dir.to_owned() }
}

fn spendable(s: &Scen, w: usize, acct: u32) -> u64 {
	let h = s.node.height();
	s.with(w, |b, _| {
		b.iter()
			.filter(|o| key_pair(&o.root_key_id).0 == acct as u64 && o.eligible_to_spend(h, 1))
			.map(|o| o.value)
			.sum()
	})
}

fn top_up(w: &World, acct: u32, need: u64) {
	let s = &w.s;
	refresh(s, A);
	let mut guard = 0;
	while spendable(s, A, acct) < need && guard < 40 {
		set_active(s, A, acct);
		s.mine(A, 2);
		set_active(s, A, 0);
		s.mine(R2, 2);
		refresh(s, A);
		guard += 1;
	}
}

const COIN: u64 = 60_000_000_000;

// ------------------------------------------------------------------ one exchange

struct Ctx2 {
	inputs: Vec<(Identifier, Option<u64>, u64)>,
	outputs: Vec<(Identifier, Option<u64>, u64)>,
	amount: u64,
	fee: Option<u64>,
	parent: Identifier,
}

fn read_ctx(s: &Scen, w: usize, id: &Uuid) -> Option<Ctx2> {
	s.with(w, |b, m| b.get_private_context(m, id.as_bytes()))
		.ok()
		.map(|c| Ctx2 {
			inputs: c.get_inputs(),
			outputs: c.get_outputs(),
			amount: c.amount,
			fee: c.fee.map(|f| u64::from(f)),
			parent: c.parent_key_id.clone(),
		})
}

fn stored_bytes(s: &Scen, w: usize, id: &Uuid) -> Option<Vec<u8>> {
	match guarded(|| s.with(w, |b, _| b.get_stored_tx(&format!("{}", id)))) {
		Ok(Ok(Some(t))) => Some(ser_tx(&t)),
		_ => None,
	}
}

fn n_log(s: &Scen, w: usize) -> usize {
	s.with(w, |b, _| b.tx_log_iter().count())
}

/// Apply a mutation to a reply (wire record). `other` is another reply, `ctx` the finalizing
/// wallet's context, `kc_a` its keychain.
fn apply_mut(
	m: &Mut,
	r: &Reply,
	other: &SlateV4,
	ctx: &Option<Ctx2>,
	kc_a: &ExtKeychain,
	conf_h: u64,
	id_other: Uuid,
	pp: &PpEnv,
) -> Option<(SlateV4, Vec<KnownOut>)> {
	let mut v = r.slate.clone();
	let mut known = r.outs.clone();
	let secp = r.kc.secp();
	let first_out = |c: &Option<Vec<CommitsV4>>| -> Option<usize> {
		c.as_ref().and_then(|c| c.iter().position(|x| x.p.is_some()))
	};
	match m {
		Mut::None => {}
		Mut::Amount(n) => v.amt = *n,
		Mut::Fee(n) => v.fee = FeeFields::try_from(*n).unwrap_or_else(|_| {
			// values outside 1..2^40: build through the JSON form
			serde_json::from_value(json!(n)).unwrap()
		}),
		Mut::TtlRel(d) => v.ttl = (conf_h as i64 + d).max(0) as u64,
		Mut::Ttl(n) => v.ttl = *n,
		Mut::NumParts(n) => v.num_parts = *n,
		Mut::State(s) => {
			v.sta = match s {
				0 => SlateStateV4::Unknown,
				1 => SlateStateV4::Standard1,
				2 => SlateStateV4::Standard2,
				3 => SlateStateV4::Standard3,
				4 => SlateStateV4::Invoice1,
				5 => SlateStateV4::Invoice2,
				_ => SlateStateV4::Invoice3,
			}
		}
		Mut::Feat(f, a) => {
			v.feat = *f;
			v.feat_args = a.map(|l| KernelFeaturesArgsV4 { lock_hgt: l });
		}
		Mut::IdOther => v.id = id_other,
		Mut::IdUnknown => v.id = Uuid::from_bytes([9; 16]),
		Mut::OffAdd => {
			let one = SecretKey::from_slice(secp, &{
				let mut b = [0u8; 32];
				b[31] = 1;
				b
			})
			.unwrap();
			v.off = r
				.kc
				.blind_sum(
					&BlindSum::new()
						.add_blinding_factor(v.off.clone())
						.add_blinding_factor(BlindingFactor::from_secret_key(one)),
				)
				.unwrap();
		}
		Mut::OffZero => v.off = BlindingFactor::zero(),
		Mut::OffOther => v.off = other.off.clone(),
		Mut::OffNeg => {
			v.off = r
				.kc
				.blind_sum(&BlindSum::new().sub_blinding_factor(v.off.clone()))
				.unwrap()
		}
		Mut::SigsDrop => v.sigs.clear(),
		Mut::SigsDup => {
			let c = v.sigs.clone();
			v.sigs.extend(c);
		}
		Mut::SigXsOther => {
			if v.sigs.is_empty() || other.sigs.is_empty() {
				return None;
			}
			v.sigs[0].xs = other.sigs[0].xs;
		}
		Mut::SigNonceOther => {
			if v.sigs.is_empty() || other.sigs.is_empty() {
				return None;
			}
			v.sigs[0].nonce = other.sigs[0].nonce;
		}
		Mut::SigNone => {
			if v.sigs.is_empty() {
				return None;
			}
			v.sigs[0].part = None;
		}
		Mut::SigOther => {
			if v.sigs.is_empty() || other.sigs.is_empty() {
				return None;
			}
			v.sigs[0].part = other.sigs[0].part;
		}
		Mut::SigSAdd => {
			if v.sigs.is_empty() || v.sigs[0].part.is_none() {
				return None;
			}
			v.sigs[0].part = Some(flip(v.sigs[0].part.as_ref().unwrap(), 40));
		}
		Mut::SigRAdd => {
			if v.sigs.is_empty() || v.sigs[0].part.is_none() {
				return None;
			}
			v.sigs[0].part = Some(flip(v.sigs[0].part.as_ref().unwrap(), 8));
		}
		Mut::SigsSwapKeyNonce => {
			if v.sigs.is_empty() {
				return None;
			}
			let t = v.sigs[0].xs;
			v.sigs[0].xs = v.sigs[0].nonce;
			v.sigs[0].nonce = t;
		}
		Mut::SigsAddSender(_) | Mut::SigsAddStranger => {
			// handled by the caller (needs the finalizing wallet's secret context)
			return None;
		}
		Mut::ComsNone => v.coms = None,
		Mut::ComsEmpty => v.coms = Some(vec![]),
		Mut::ComsDup => {
			let i = first_out(&v.coms)?;
			let c = v.coms.as_mut().unwrap();
			let x = c[i];
			c.insert(i, x);
		}
		Mut::ComsOther => {
			let i = first_out(&v.coms)?;
			let j = first_out(&other.coms)?;
			v.coms.as_mut().unwrap()[i] = other.coms.as_ref().unwrap()[j];
			sort_coms(v.coms.as_mut().unwrap());
		}
		Mut::ComsProofOther => {
			let i = first_out(&v.coms)?;
			let j = first_out(&other.coms)?;
			v.coms.as_mut().unwrap()[i].p = other.coms.as_ref().unwrap()[j].p;
		}
		Mut::ComsProofGarbage => {
			let i = first_out(&v.coms)?;
			v.coms.as_mut().unwrap()[i].p = Some(garbage_proof());
		}
		Mut::ComsCoinbase => {
			let i = first_out(&v.coms)?;
			v.coms.as_mut().unwrap()[i].f = OutputFeaturesV4(1);
			sort_coms(v.coms.as_mut().unwrap());
		}
		Mut::ComsValueAdd(d) => {
			// same blinding factor, value + d, with a proper proof for the new commitment
			let i = first_out(&v.coms)?;
			let c = v.coms.as_ref().unwrap()[i].c;
			let ki = r.outs.iter().position(|o| o.commit(&r.kc) == c)?;
			let k = r.outs[ki].clone();
			let nv = k.value as i64 + d;
			if nv < 0 {
				return None;
			}
			known[ki].value = nv as u64;
			let blind = r.kc.derive_key(k.blind_value, &k.key, SwitchCommitmentType::Regular).unwrap();
			let nc = secp.commit(nv as u64, blind.clone()).unwrap();
			let nonce = SecretKey::from_slice(secp, &[7u8; 32]).unwrap();
			let proof = secp.bullet_proof(nv as u64, blind, nonce.clone(), nonce, None, None);
			let e = &mut v.coms.as_mut().unwrap()[i];
			e.c = nc;
			e.p = Some(proof);
			sort_coms(v.coms.as_mut().unwrap());
		}
		Mut::ComsAddOutput(val) => {
			let c = v.coms.as_mut()?;
			let id = label_id(7777);
			let commit = r.kc.commit(*val, &id, SwitchCommitmentType::Regular).unwrap();
			let proof = vharness::core::libtx::proof::create(
				&r.kc,
				&ProofBuilder::new(&r.kc),
				*val,
				&id,
				SwitchCommitmentType::Regular,
				commit,
				None,
			)
			.unwrap();
			c.push(CommitsV4 { f: OutputFeaturesV4(0), c: commit, p: Some(proof) });
			sort_coms(c);
		}
		Mut::ComsAddInput(val) => {
			let c = v.coms.as_mut()?;
			let blind = r.kc.derive_key(0, &label_id(7778), SwitchCommitmentType::Regular).unwrap();
			let c0 = secp.commit(0, blind).unwrap();
			let abs = val.unsigned_abs();
			let commit = if *val >= 0 {
				secp.commit_sum(vec![c0, secp.commit_value(abs).unwrap()], vec![]).unwrap()
			} else {
				secp.commit_sum(vec![c0], vec![secp.commit_value(abs).unwrap()]).unwrap()
			};
			c.push(CommitsV4 { f: OutputFeaturesV4(0), c: commit, p: None });
			sort_coms(c);
		}
		Mut::ComsAddChange(good) => {
			let c = v.coms.as_mut()?;
			let cx = ctx.as_ref()?;
			let (id, _, val) = cx.outputs.get(0)?.clone();
			let commit = kc_a.commit(val, &id, SwitchCommitmentType::Regular).unwrap();
			let proof = if *good {
				vharness::core::libtx::proof::create(
					kc_a,
					&ProofBuilder::new(kc_a),
					val,
					&id,
					SwitchCommitmentType::Regular,
					commit,
					None,
				)
				.unwrap()
			} else {
				garbage_proof()
			};
			c.push(CommitsV4 { f: OutputFeaturesV4(0), c: commit, p: Some(proof) });
			sort_coms(c);
		}
		Mut::ComsAddSenderInput => {
			let c = v.coms.as_mut()?;
			let cx = ctx.as_ref()?;
			let (id, _, val) = cx.inputs.get(0)?.clone();
			let commit = kc_a.commit(val, &id, SwitchCommitmentType::Regular).unwrap();
			let proof = vharness::core::libtx::proof::create(
				kc_a,
				&ProofBuilder::new(kc_a),
				val,
				&id,
				SwitchCommitmentType::Regular,
				commit,
				None,
			)
			.unwrap();
			c.push(CommitsV4 { f: OutputFeaturesV4(0), c: commit, p: Some(proof) });
			sort_coms(c);
		}
		Mut::PPStrip => {
			v.proof.as_ref()?;
			v.proof = None;
		}
		Mut::PPStripRelabel | Mut::PPStripRelabelPlanted => {
			v.proof = None;
			v.sta = match v.sta {
				SlateStateV4::Standard2 => SlateStateV4::Invoice2,
				SlateStateV4::Invoice2 => SlateStateV4::Standard2,
				_ => return None,
			};
			// the fee is public (it travelled on the first slate): a branch that does not refill it
			// from the context gets it from the forged reply
			if let Some(f) = ctx.as_ref().and_then(|c| c.fee) {
				if let Ok(ff) = FeeFields::try_from(f) {
					v.fee = ff;
				}
			}
		}
		Mut::PPNoSig => v.proof.as_mut()?.rsig = None,
		Mut::PPResign(newaddr) => {
			let ex = pp.excess_for(&v)?;
			let pr = v.proof.as_mut()?;
			pr.rsig = Some(pp.other.sign(&pp_msg(pp.amount, &ex, &pr.saddr)));
			if *newaddr {
				pr.raddr = pp.other.public;
			}
		}
		Mut::PPOver(d, oe, os) => {
			let ex = if *oe { pp.other_excess } else { pp.excess_for(&v)? };
			let pr = v.proof.as_mut()?;
			let sa = if *os { pp.other.public } else { pr.saddr };
			pr.rsig = Some(pp.counter.sign(&pp_msg((pp.amount as i64 + d) as u64, &ex, &sa)));
		}
		Mut::PPOverAnnounce(d) => {
			let ex = pp.excess_for(&v)?;
			let n = (pp.amount as i64 + d) as u64;
			v.amt = n;
			let pr = v.proof.as_mut()?;
			let sa = pr.saddr;
			pr.rsig = Some(pp.counter.sign(&pp_msg(n, &ex, &sa)));
		}
		Mut::PPSaddr => v.proof.as_mut()?.saddr = pp.other.public,
		Mut::PPRaddr => v.proof.as_mut()?.raddr = pp.other.public,
		Mut::PPAdd => {
			if v.proof.is_some() {
				return None;
			}
			let ex = pp.excess_for(&v)?;
			v.proof = Some(PaymentInfoV4 {
				saddr: pp.sender_addr,
				raddr: pp.counter.public,
				rsig: Some(pp.counter.sign(&pp_msg(pp.amount, &ex, &pp.sender_addr))),
			});
		}
		Mut::ComsUnsorted => {
			let c = v.coms.as_mut()?;
			let outs: Vec<usize> = c.iter().enumerate().filter(|(_, x)| x.p.is_some()).map(|(i, _)| i).collect();
			if outs.len() < 2 {
				return None;
			}
			c.swap(outs[0], outs[1]);
		}
	}
	Some((v, known))
}

/// what the payment-proof mutations and oracles need
struct PpEnv {
	amount: u64,
	sender_pub: PublicKey,          // the finalizing wallet's public excess for this slate
	sender_addr: DalekPublicKey,    // its payment-proof address (account of the context, index 0)
	counter: DalekKeypair,          // the counterparty's address key
	other: DalekKeypair,            // a third wallet's address key
	other_excess: Commitment,       // some other kernel excess that is on chain
	requested: Option<DalekPublicKey>,
}
impl PpEnv {
	/// the excess the finalizing wallet will compute: its own key plus the keys on the reply
	fn excess_for(&self, v: &SlateV4) -> Option<Commitment> {
		let secp = vharness::util::static_secp_instance();
		let secp = secp.lock();
		let mut keys: Vec<&PublicKey> = v.sigs.iter().map(|p| &p.xs).collect();
		keys.push(&self.sender_pub);
		let sum = PublicKey::from_combination(&secp, keys).ok()?;
		Commitment::from_pubkey(&secp, &sum).ok()
	}
}

struct Oracle {
	fails: Vec<String>,
}
impl Oracle {
	fn check(&mut self, ok: bool, what: &str) {
		if !ok {
			self.fails.push(what.to_owned());
		}
	}
}

/// Everything the property says about an accepted result, recomputed here from the context as
/// it was before the call, the keychains, grin_core and the chain — not from the wallet's word.
fn oracle_accepted(
	w: &World,
	sc: &Script,
	fin: &Slate,
	id: &Uuid,
	ctx_before: &Option<Ctx2>,
	reply: &Reply,
	ttl_expired: bool,
	counter_wallet: usize,
	pp: Option<(&PpEnv, &SlateV4, &str, u32)>, // env, the accepted wire record, the case term, active account
) -> (Vec<String>, Value, Vec<Value>) {
	let s = &w.s;
	let mut o = Oracle { fails: vec![] };
	let mut vrows: Vec<Value> = vec![];
	let kc_a = keychain_of(s, A);
	let tx = match fin.tx.as_ref() {
		Some(t) => t.clone(),
		None => return (vec!["accepted without a transaction".into()], json!({}), vec![]),
	};
	// ---- C11: accepted only if the reply carried the requested recipient's genuine signature
	if let Some((env, wire, _, _)) = pp {
		if sc.pp > 0 {
			let excess = tx.kernels()[0].excess;
			match (&wire.proof, &env.requested) {
				(Some(pr), Some(req)) => {
					o.check(pr.raddr == *req, "accepted a proof naming another recipient than the one requested");
					o.check(pr.saddr == env.sender_addr, "accepted a proof naming another sender address");
					let msg = pp_msg(env.amount, &excess, &env.sender_addr);
					let good = pr.rsig.as_ref().map(|sg| req.verify(&msg, sg).is_ok()).unwrap_or(false);
					o.check(good, "accepted a reply without the requested recipient's signature over (amount, excess, sender)");
				}
				(None, _) => o.check(false, "a payment proof was requested but a reply without proof was accepted"),
				_ => {}
			}
		}
	}
	o.check(!ttl_expired, "a reply whose ttl had passed was accepted");
	// valid under consensus rules
	let val = guarded(|| tx.validate(Weighting::AsTransaction));
	o.check(matches!(val, Ok(Ok(()))), &format!("Transaction::validate: {:?}", val));
	o.check(tx.kernels().len() == 1, "not exactly one kernel");
	if tx.kernels().len() == 1 {
		o.check(tx.kernels()[0].verify().is_ok(), "kernel signature does not verify");
	}
	let n_in = tx.inputs().len();
	let min_fee = tx_fee(n_in, tx.outputs().len(), tx.kernels().len());
	o.check(tx.fee() >= min_fee, &format!("fee {} below minimum {}", tx.fee(), min_fee));
	let in_commits: Vec<Commitment> = {
		use vharness::core::core::committed::Committed;
		tx.inputs_committed()
	};
	let out_commits: Vec<Commitment> = tx.outputs().iter().map(|x| x.commitment()).collect();
	let mut info = json!({"n_in": n_in, "n_out": out_commits.len(), "fee": tx.fee().to_string()});
	// the context as completed (late lock: read the wallet's reserved outputs instead)
	let entry = s.with(A, |b, _| {
		b.tx_log_iter().find(|t| {
			t.tx_slate_id == Some(*id)
				&& t.tx_type == if sc.flow == Flow::Invoice { TxLogEntryType::TxReceived } else { TxLogEntryType::TxSent }
		})
	});
	o.check(entry.is_some(), "no tx log entry for the finalized slate");
	if sc.flow != Flow::Invoice {
		let cx = ctx_before.as_ref();
		let agreed_amount = cx.map(|c| c.amount).unwrap_or(0);
		let agreed_fee = cx.and_then(|c| c.fee).unwrap_or(0);
		o.check(tx.fee() == agreed_fee & 0xff_ffff_ffff, &format!("kernel fee {} != agreed fee {}", tx.fee(), agreed_fee));
		// reserved coins: outputs of this wallet that are Locked under this tx log entry
		let log_id = entry.as_ref().map(|e| e.id);
		let reserved: Vec<OutputData> = s.with(A, |b, _| {
			let parent = entry.as_ref().map(|e| e.parent_key_id.clone());
			b.iter()
				.filter(|x| x.status == OutputStatus::Locked && x.tx_log_entry == log_id && log_id.is_some() && Some(x.root_key_id.clone()) == parent)
				.collect()
		});
		let mut reserved_commits: Vec<Commitment> = reserved
			.iter()
			.map(|x| kc_a.commit(x.value, &x.key_id, SwitchCommitmentType::Regular).unwrap())
			.collect();
		let mut ic = in_commits.clone();
		ic.sort();
		reserved_commits.sort();
		o.check(ic == reserved_commits, &format!("inputs ({}) are not exactly the reserved outputs ({})", ic.len(), reserved_commits.len()));
		if sc.flow != Flow::Late {
			if let Some(c) = cx {
				let mut want: Vec<Commitment> = c
					.inputs
					.iter()
					.map(|(k, _, v)| kc_a.commit(*v, k, SwitchCommitmentType::Regular).unwrap())
					.collect();
				want.sort();
				o.check(ic == want, "inputs differ from the context's inputs");
			}
		}
		// change: the outputs of this wallet created under this tx log entry
		let change: Vec<OutputData> = s.with(A, |b, _| {
			b.iter()
				.filter(|x| x.tx_log_entry == log_id && log_id.is_some() && x.status != OutputStatus::Locked && !x.is_coinbase)
				.filter(|x| Some(x.root_key_id.clone()) == entry.as_ref().map(|e| e.parent_key_id.clone()))
				.collect()
		});
		let change: Vec<OutputData> = if sc.self_send {
			// the received output is recorded under another entry; keep only change
			change
		} else {
			change
		};
		let change_commits: Vec<Commitment> = change
			.iter()
			.map(|x| kc_a.commit(x.value, &x.key_id, SwitchCommitmentType::Regular).unwrap())
			.collect();
		if sc.flow != Flow::Late {
			if let Some(c) = cx {
				let mut want: Vec<Commitment> =
					c.outputs.iter().map(|(k, _, v)| kc_a.commit(*v, k, SwitchCommitmentType::Regular).unwrap()).collect();
				want.sort();
				let mut have = change_commits.clone();
				have.sort();
				o.check(have == want, "recorded change differs from the context's change");
			}
		}
		for c in &change_commits {
			o.check(out_commits.contains(c), "a recorded change output is missing from the transaction");
		}
		// the rest must be worth exactly the agreed amount: values from the counterparty's own
		// records (honest) or from what the forging counterparty built, each re-derived here
		let rest: Vec<Commitment> = out_commits.iter().filter(|c| !change_commits.contains(c)).cloned().collect();
		let mut total: u128 = 0;
		let mut unknown = 0;
		let kc_r = keychain_of(s, counter_wallet);
		let recs: Vec<OutputData> = s.with(counter_wallet, |b, _| b.iter().collect());
		for c in &rest {
			let mut found = None;
			for k in &reply.outs {
				if k.commit(&reply.kc) == *c {
					found = Some(k.value);
				}
			}
			if found.is_none() {
				for x in &recs {
					if kc_r.commit(x.value, &x.key_id, SwitchCommitmentType::Regular).unwrap() == *c {
						found = Some(x.value);
					}
				}
			}
			match found {
				Some(v) => total += v as u128,
				None => unknown += 1,
			}
		}
		o.check(unknown == 0, "an output is neither recorded change nor a known counterparty output");
		o.check(total == agreed_amount as u128, &format!("counterparty outputs carry {} but the agreed amount is {}", total, agreed_amount));
		// conservation, independently: reserved = amount + fee + change
		let sum_in: u128 = reserved.iter().map(|x| x.value as u128).sum();
		let sum_change: u128 = change.iter().map(|x| x.value as u128).sum();
		o.check(sum_in == agreed_amount as u128 + tx.fee() as u128 + sum_change, "reserved != amount + fee + change");
		info["amount"] = json!(agreed_amount.to_string());
	} else {
		// invoice: my output (from the context) is in the transaction, worth the invoiced amount
		if let Some(c) = ctx_before {
			for (k, _, v) in &c.outputs {
				let cm = kc_a.commit(*v, k, SwitchCommitmentType::Regular).unwrap();
				o.check(out_commits.contains(&cm), "the invoiced output is missing from the transaction");
				o.check(*v == c.amount, "the invoiced output is not worth the invoiced amount");
			}
		}
	}
	// byte-for-byte the stored transaction
	let stored = guarded(|| s.with(A, |b, _| owner::get_stored_tx(b, None, Some(id))));
	match stored {
		Ok(Ok(Some(st))) => {
			let same = st.tx.as_ref().map(|t| ser_tx(t) == ser_tx(&tx)).unwrap_or(false);
			o.check(same, "get_stored_tx differs from the returned transaction");
		}
		other => o.check(false, &format!("get_stored_tx failed: {:?}", other.map(|r| r.map(|x| x.is_some())))),
	}
	// the context is gone (the exchange is complete)
	o.check(read_ctx(s, A, id).is_none(), "context still present after a successful finalize");
	// the chain takes it (kernel-feature arguments aside: only plain kernels, or a lock height already reached)
	let feat_ok = match tx.kernels()[0].features {
		KernelFeatures::Plain { .. } => true,
		KernelFeatures::HeightLocked { lock_height, .. } => lock_height <= s.node.height() + 1,
		_ => false,
	};
	let inputs_on_chain = in_commits.iter().all(|c| matches!(s.node.chain.get_unspent(*c), Ok(Some(_))));
	info["inputs_on_chain"] = json!(inputs_on_chain);
	// ---- C11: the kernel is not on chain yet: the exported proof must not verify
	if let Some((env, _, coq, active)) = pp {
		if sc.pp > 0 && o.fails.is_empty() {
			vrows.extend(verify_rows(w, env, id, coq, active, false, false, &[PMut::None], &tx, &mut o));
		}
	}
	if feat_ok && inputs_on_chain && o.fails.is_empty() {
		let client = s.node.client();
		let _ = owner::post_tx(&client, &tx, false);
		let mined = guarded(|| s.mine_pool(R2));
		let ok = matches!(mined, Ok(Ok(1)));
		o.check(ok, &format!("the chain refuses the transaction: {:?}", mined.map(|r| r.map_err(|e| format!("{:?}", e)))));
		s.node.pool.lock().clear();
		if ok {
			let k = s.node.chain.get_kernel_height(&tx.kernels()[0].excess, None, None);
			o.check(matches!(k, Ok(Some(_))), "kernel not found on chain after mining");
		}
		info["mined"] = json!(ok);
		if let Some((env, _, coq, active)) = pp {
			if sc.pp > 0 && ok {
				let all = [
					PMut::None, PMut::Amount(1), PMut::Amount(-1), PMut::Excess, PMut::Raddr, PMut::Saddr,
					PMut::Rsig, PMut::Ssig, PMut::SwapSigs, PMut::SwapAddrs,
				];
				vrows.extend(verify_rows(w, env, id, coq, active, true, false, &all, &tx, &mut o));
				// ---- C11: ... and once both parties have seen it confirmed, the block that carried it is
				// replaced by a longer branch without the transaction: the proof must be refused again by both
				// (one exchange in two; afterwards the transaction is mined again on the new branch, so that
				// the exchanges that follow find the chain the wallets know)
				if s.node.height() % 2 == 0 && o.fails.is_empty() {
					refresh(s, A);
					refresh(s, R);
					let tip = s.node.height();
					let mut prev = s.node.chain.get_header_by_height(tip - 1).unwrap();
					let mut replaced = true;
					for _ in 0..2 {
						let bf = BlockFees { fees: 0, key_id: None, height: prev.height + 1 };
						let cb = s.with(R2, |b, m| foreign::build_coinbase(b, m, &bf, false)).unwrap();
						match s.node.try_build_block(&prev, &[], (cb.output, cb.kernel)) {
							Ok(b) => {
								let hdr = b.header.clone();
								if s.node.process(b).is_err() {
									replaced = false;
									break;
								}
								prev = hdr;
							}
							Err(_) => {
								replaced = false;
								break;
							}
						}
					}
					let gone = !matches!(s.node.chain.get_kernel_height(&tx.kernels()[0].excess, None, None), Ok(Some(_)));
					info["reorged"] = json!(replaced && gone);
					if replaced && gone {
						vrows.extend(verify_rows(w, env, id, coq, active, false, true, &[PMut::None], &tx, &mut o));
						let _ = owner::post_tx(&client, &tx, false);
						let again = guarded(|| s.mine_pool(R2));
						o.check(matches!(again, Ok(Ok(1))), "the transaction could not be mined again after the reorganisation");
						s.node.pool.lock().clear();
						refresh(s, A);
						refresh(s, R);
					}
				}
			}
		}
	}
	(o.fails, info, vrows)
}

fn apply_pmut(m: &PMut, p: &PaymentProof, env: &PpEnv) -> PaymentProof {
	let mut q = p.clone();
	let msg = |q: &PaymentProof| pp_msg(q.amount, &q.excess, &q.sender_address.pub_key);
	match m {
		PMut::None => {}
		PMut::Amount(d) => q.amount = (q.amount as i64 + d) as u64,
		PMut::Excess => q.excess = env.other_excess,
		PMut::Raddr => q.recipient_address = SlatepackAddress::new(&env.other.public),
		PMut::Saddr => q.sender_address = SlatepackAddress::new(&env.other.public),
		PMut::Rsig => q.recipient_sig = env.other.sign(&msg(&q)),
		PMut::Ssig => q.sender_sig = env.other.sign(&msg(&q)),
		PMut::SwapSigs => {
			let t = q.recipient_sig;
			q.recipient_sig = q.sender_sig;
			q.sender_sig = t;
		}
		PMut::SwapAddrs => {
			let t = q.recipient_address.clone();
			q.recipient_address = q.sender_address.clone();
			q.sender_address = t;
		}
	}
	q
}

/// export the proof from the sender's wallet, alter it, verify it in the three wallets; the
/// oracle decides validity with ed25519-dalek and the chain, independently of the wallet
fn verify_rows(
	w: &World,
	env: &PpEnv,
	id: &Uuid,
	coq: &str,
	active: u32,
	mined: bool,
	after_reorg: bool,
	pmuts: &[PMut],
	tx: &Transaction,
	o: &mut Oracle,
) -> Vec<Value> {
	let s = &w.s;
	let mut rows = vec![];
	// the sender looks the transaction up in the account it was sent from
	let src = s.with(A, |b, _| {
		b.tx_log_iter()
			.find(|t| t.tx_slate_id == Some(*id) && t.tx_type == TxLogEntryType::TxSent)
			.map(|t| key_pair(&t.parent_key_id).0 as u32)
	});
	if let Some(a) = src {
		set_active(s, A, a);
	}
	// (by slate id; by the sent entry's log id when another entry of the account carries the slate id
	// too — export by slate id then answers "doesn't exist": listed finding C11-self-send-export-by-slate-id,
	// which a counterparty can also bring about by delivering a slate with this id to receive_tx)
	let sent_ids: Vec<(u32, usize)> = s.with(A, |b, _| {
		let pk = b.parent_key_id();
		let n = b.tx_log_iter().filter(|t| t.tx_slate_id == Some(*id) && t.parent_key_id == pk).count();
		b.tx_log_iter()
			.filter(|t| t.tx_slate_id == Some(*id) && t.parent_key_id == pk && t.tx_type == TxLogEntryType::TxSent)
			.map(|t| (t.id, n))
			.collect()
	});
	let by_id = match sent_ids.first() {
		Some((tid, n)) if *n > 1 => Some(*tid),
		_ => None,
	};
	let exported = guarded(|| {
		owner::retrieve_payment_proof(
			s.wallets[A].inst.clone(),
			s.wallets[A].mask.as_ref(),
			&None,
			true,
			by_id,
			if by_id.is_some() { None } else { Some(*id) },
		)
	});
	set_active(s, A, active);
	let proof = match exported {
		Ok(Ok(p)) => p,
		other => {
			o.check(false, &format!("retrieve_payment_proof failed after an accepted finalize: {:?}", other.map(|r| r.map(|_| ()).map_err(|e| format!("{:?}", e)))));
			return rows;
		}
	};
	if mined {
		// the exported proof states exactly what was agreed
		o.check(proof.amount == env.amount, &format!("exported amount {} != agreed amount {}", proof.amount, env.amount));
		o.check(proof.excess == tx.kernels()[0].excess, "exported excess is not the excess of the finalized kernel");
		if let Some(req) = &env.requested {
			o.check(proof.recipient_address.pub_key == *req, "exported recipient address is not the requested one");
		}
		o.check(proof.sender_address.pub_key == env.sender_addr, "exported sender address is not the sender's address");
	}
	for pm in pmuts {
		let q = apply_pmut(pm, &proof, env);
		let msg = pp_msg(q.amount, &q.excess, &q.sender_address.pub_key);
		let on_chain = matches!(s.node.chain.get_kernel_height(&q.excess, None, None), Ok(Some(_)));
		let genuine = on_chain
			&& q.recipient_address.pub_key.verify(&msg, &q.recipient_sig).is_ok()
			&& q.sender_address.pub_key.verify(&msg, &q.sender_sig).is_ok();
		let verifiers: Vec<(usize, i64)> = if *pm == PMut::None && mined {
			vec![(A, active as i64), (R, 10), (R2, 20)]
		} else if after_reorg {
			// both parties have seen the payment confirmed; the block that carried it is gone
			vec![(A, active as i64), (R, 10)]
		} else {
			vec![(A, active as i64)]
		};
		for (vw, vparent) in verifiers {
			let r = guarded(|| owner::verify_payment_proof(s.wallets[vw].inst.clone(), s.wallets[vw].mask.as_ref(), &q));
			let mut fails: Vec<String> = vec![];
			let imp: Vec<i64> = match &r {
				Err(_) => {
					fails.push("verify_payment_proof panicked".into());
					vec![2]
				}
				Ok(Err(e)) => {
					if genuine {
						fails.push(format!("a genuine payment proof was refused: {:?}", e));
					}
					vec![1, classify(e) as i64]
				}
				Ok(Ok((a, b))) => {
					if !genuine {
						fails.push(format!("a payment proof that is not genuine was accepted (alteration {})", pm.name()));
					}
					vec![0, *a as i64, *b as i64]
				}
			};
			if *pm == PMut::None && mined && vw == A && imp[0] != 0 {
				fails.push("the proof exported after an honest exchange does not verify".into());
			}
			rows.push(json!({
				"verify": {"pm": pm.name(), "kernel_on_chain": on_chain, "verifier": vw, "genuine": genuine, "after_reorg": after_reorg},
				"coqv": format!("({}, {}, Some {}, {}%N)", coq, pm.to_coq(), on_chain, vparent),
				"impl": imp.iter().map(|x| x.to_string()).collect::<Vec<_>>(),
				"oracle": fails,
			}));
		}
	}
	rows
}

struct CaseOut {
	coq: String,
	imp: Vec<i128>,
	oracle: Vec<String>,
	info: Value,
	accepted: bool,
}

fn run_exchange(w: &World, sc: &Script, k: u64, out: &mut Vec<Value>, shard: u64) {
	let s = &w.s;
	EXCHANGE_NO.fetch_add(1, std::sync::atomic::Ordering::Relaxed);
	let counter = if sc.self_send { A } else { R };
	let late = sc.flow == Flow::Late;
	// ---- funds and accounts
	let need = COIN * (sc.permille / 1000 + 2) + if sc.with_b { COIN } else { 0 };
	if sc.flow == Flow::Invoice {
		refresh(s, R);
		if spendable(s, R, 0) < need {
			s.mine(R, 3);
			s.mine(R2, 3);
		}
	} else {
		top_up(w, sc.src_acct, need);
	}
	// bring the records of the source account up to date (a refresh only covers the active account)
	set_active(s, A, sc.src_acct);
	refresh(s, A);
	if sc.use_src_name {
		set_active(s, A, 0);
		refresh(s, A);
	}
	// ---- the wallet's outputs before anything is locked
	let os: Vec<OutputData> = s.with(A, |b, _| b.iter().collect());
	let key_of = |id: &Identifier, extra: &Vec<(Identifier, u64)>| -> u64 {
		if let Some(p) = os.iter().position(|o| o.key_id == *id) {
			return p as u64;
		}
		extra.iter().find(|(i, _)| i == id).map(|(_, l)| *l).unwrap_or(999_999_999)
	};
	let mut extra: Vec<(Identifier, u64)> = vec![];
	let src_name = if sc.use_src_name { Some(acct_name(sc.src_acct).to_owned()) } else { None };
	let tip0 = s.node.height();
	// ---- second exchange (source of "other" values, a second pending context)
	let mut b_info: Option<(ExchInfo, Uuid)> = None;
	let mut other: Option<SlateV4> = None;
	let mut other_reply: Option<Reply> = None;
	if sc.with_b {
		let args = InitTxArgs {
			src_acct_name: src_name.clone(),
			amount: 1_234_000_000,
			minimum_confirmations: 1,
			max_outputs: 500,
			num_change_outputs: 1,
			selection_strategy_is_use_all: false,
			..Default::default()
		};
		if let Ok(s1b) = s.with(A, |b, m| owner::init_send_tx(b, m, args, false)) {
			s.with(A, |b, m| owner::tx_lock_outputs(b, m, &s1b)).unwrap();
			let rb = s.with(R2, |b, m| foreign::receive_tx(b, m, &s1b, None, false)).unwrap();
			let cb = read_ctx(s, A, &s1b.id).unwrap();
			for (j, (id, _, _)) in cb.outputs.iter().enumerate() {
				extra.push((id.clone(), 600_000 + j as u64));
			}
			let info = ExchInfo {
				id: 2,
				sender: 10,
				parent: key_pair(&cb.parent).0,
				inputs: cb.inputs.iter().map(|(i, _, v)| (key_of(i, &extra), *v)).collect(),
				outputs: cb.outputs.iter().map(|(i, _, v)| (key_of(i, &extra), *v)).collect(),
				amount: cb.amount,
				fee: cb.fee,
				late: None,
				ttl: s1b.ttl_cutoff_height,
				invoice: false,
				pp: None,
			};
			let kc2 = keychain_of(s, R2);
			other_reply = Some(Reply {
				slate: to_v4(&rb),
				outs: vec![],
				ins: vec![],
				fee: None,
				feat: 0,
				feat_args: None,
				state: 2,
				entries: 1,
				kc: kc2,
			});
			other_reply.as_mut().unwrap().outs = vec![KnownOut { key: label_id(0), value: cb.amount, blind_value: cb.amount, label: 2_000_000 }];
			other = Some(to_v4(&rb));
			b_info = Some((info, s1b.id));
		}
	}
	// ---- the exchange under test: first slate
	let one_coin_fee = |outs: u32| tx_fee(1, outs as usize, 1);
	let (amount, n_change) = match sc.exact_slack {
		Some(kk) => (COIN - one_coin_fee(kk + 1), kk),
		None => ((COIN as u128 * sc.permille as u128 / 1000) as u64, sc.n_change),
	};
	let s1: Slate;
	let mut payer_ctx: Option<Ctx2> = None;
	if sc.flow == Flow::Invoice {
		let args = IssueInvoiceTxArgs {
			dest_acct_name: src_name.clone(),
			amount,
			target_slate_version: None,
		};
		s1 = match s.with(A, |b, m| owner::issue_invoice_tx(b, m, args, false)) {
			Ok(x) => x,
			Err(_) => return,
		};
	} else {
		let args = InitTxArgs {
			src_acct_name: src_name.clone(),
			amount,
			minimum_confirmations: sc.minconf,
			max_outputs: 500,
			num_change_outputs: n_change,
			selection_strategy_is_use_all: sc.use_all,
			ttl_blocks: sc.ttl_blocks,
			late_lock: if late { Some(true) } else { None },
			payment_proof_recipient_address: match sc.pp {
				1 => Some(SlatepackAddress::new(&addr_keys(&keychain_of(s, R), &acct_id(0)).public)),
				2 => Some(SlatepackAddress::new(&addr_keys(&keychain_of(s, R2), &acct_id(0)).public)),
				_ => None,
			},
			..Default::default()
		};
		s1 = match s.with(A, |b, m| owner::init_send_tx(b, m, args, false)) {
			Ok(x) => x,
			Err(_) => return, // not enough funds etc.: not a C02 case
		};
	}
	let id = s1.id;
	if sc.flow == Flow::Send {
		if s.with(A, |b, m| owner::tx_lock_outputs(b, m, &s1)).is_err() {
			return;
		}
	}
	// ---- the counterparty's reply
	let kc_r = keychain_of(s, R);
	let ctx0 = read_ctx(s, A, &id);
	let agreed_fee = ctx0.as_ref().and_then(|c| c.fee);
	let reply: Reply = if sc.flow == Flow::Invoice {
		let args = InitTxArgs {
			src_acct_name: None,
			amount: 0,
			minimum_confirmations: 1,
			max_outputs: 500,
			num_change_outputs: sc.n_change,
			selection_strategy_is_use_all: false,
			..Default::default()
		};
		let r = match s.with(R, |b, m| owner::process_invoice_tx(b, m, &s1, args, false)) {
			Ok(x) => x,
			Err(_) => return,
		};
		s.with(R, |b, m| owner::tx_lock_outputs(b, m, &r)).unwrap();
		let pc = read_ctx(s, R, &id).unwrap();
		let rep = Reply {
			slate: to_v4(&r),
			outs: pc.outputs.iter().enumerate().map(|(j, (i, _, v))| KnownOut { key: i.clone(), value: *v, blind_value: *v, label: 1_000_000 + j as u64 }).collect(),
			ins: pc.inputs.iter().enumerate().map(|(j, (_, _, v))| (1_100_000 + j as u64, *v as i128)).collect(),
			fee: pc.fee.map(|f| f & 0xff_ffff_ffff),
			feat: 0,
			feat_args: None,
			state: 5,
			entries: 1,
			kc: kc_r.clone(),
		};
		payer_ctx = Some(pc);
		rep
	} else {
		let l = 1_000_000u64;
		match &sc.forge {
			ForgeKind::Honest => {
				let dest = if sc.self_send && sc.src_acct == 0 { Some(ACCT1) } else { None };
				let r = match s.with(counter, |b, m| foreign::receive_tx(b, m, &s1, dest, false)) {
					Ok(x) => x,
					Err(_) => return,
				};
				// find the received output's key in the counterparty's records
				let c = r.tx.as_ref().unwrap().outputs()[0].commitment();
				let kc_c = keychain_of(s, counter);
				let rec = s.with(counter, |b, _| {
					b.iter().find(|x| kc_c.commit(x.value, &x.key_id, SwitchCommitmentType::Regular).unwrap() == c)
				});
				let rec = rec.expect("received output not recorded");
				Reply {
					slate: to_v4(&r),
					outs: vec![KnownOut { key: rec.key_id.clone(), value: rec.value, blind_value: rec.value, label: l }],
					ins: vec![],
					fee: None,
					feat: 0,
					feat_args: None,
					state: 2,
					entries: 1,
					kc: kc_c,
				}
			}
			ForgeKind::Redo => forge(&kc_r, &s1, &[(l, amount)], &[], None, 0, None, 2, 1),
			ForgeKind::AmountPlus(d) => forge(&kc_r, &s1, &[(l, (amount as i64 + d) as u64)], &[], None, 0, None, 2, 1),
			ForgeKind::Split(n) => {
				let part = amount / n;
				let mut v: Vec<(u64, u64)> = (0..*n).map(|j| (l + j, part)).collect();
				v[*n as usize - 1].1 = amount - part * (n - 1);
				forge(&kc_r, &s1, &v, &[], None, 0, None, 2, 1)
			}
			ForgeKind::ZeroOutput => forge(&kc_r, &s1, &[(l, amount), (l + 1, 0)], &[], None, 0, None, 2, 1),
			ForgeKind::NegInput => forge(&kc_r, &s1, &[], &[(1_100_000, -(amount as i128))], None, 0, None, 2, 1),
			ForgeKind::Payjoin(v) => forge(&kc_r, &s1, &[(l, amount + v)], &[(1_100_000, *v as i128)], None, 0, None, 2, 1),
			ForgeKind::HeightLock(h) => forge(&kc_r, &s1, &[(l, amount)], &[], None, 2, Some(*h), 2, 1),
			ForgeKind::StateI2 => forge(&kc_r, &s1, &[(l, amount)], &[], agreed_fee.map(|f| f & 0xff_ffff_ffff), 0, None, 5, 1),
			ForgeKind::TwoEntries => forge(&kc_r, &s1, &[(l, amount)], &[], None, 0, None, 2, 2),
			ForgeKind::FeeCut(d) => {
				let f = agreed_fee.map(|f| f & 0xff_ffff_ffff).unwrap_or(1_000_000) as i64;
				forge(&kc_r, &s1, &[(l, (amount as i64 + d) as u64)], &[], Some((f - d).max(1) as u64), 0, None, 2, 1)
			}
		}
	};
	// "other" reply when there is no second exchange: a second, independent answer to s1
	if other.is_none() {
		let kc2 = keychain_of(s, R2);
		let o = if sc.flow == Flow::Invoice {
			let args = InitTxArgs { minimum_confirmations: 1, max_outputs: 500, num_change_outputs: 1, ..Default::default() };
			match s.with(R2, |b, m| owner::process_invoice_tx(b, m, &s1, args, false)) {
				Ok(r) => {
					let pc = read_ctx(s, R2, &id).unwrap();
					Reply {
						slate: to_v4(&r),
						outs: pc.outputs.iter().enumerate().map(|(j, (i, _, v))| KnownOut { key: i.clone(), value: *v, blind_value: *v, label: 2_000_000 + j as u64 }).collect(),
						ins: pc.inputs.iter().enumerate().map(|(j, (_, _, v))| (2_100_000 + j as u64, *v as i128)).collect(),
						fee: pc.fee.map(|f| f & 0xff_ffff_ffff),
						feat: 0,
						feat_args: None,
						state: 5,
						entries: 1,
						kc: kc2,
					}
				}
				Err(_) => return,
			}
		} else {
			forge(&kc2, &s1, &[(2_000_000, amount)], &[], None, 0, None, 2, 1)
		};
		other = Some(o.slate.clone());
		other_reply = Some(o);
	}
	let other = other.unwrap();
	let other_reply = other_reply.unwrap();
	// ---- abstract description of the exchange under test
	let ctx_abs = |c: &Option<Ctx2>, extra: &mut Vec<(Identifier, u64)>| -> ExchInfo {
		let c = c.as_ref().unwrap();
		for (j, (i, _, _)) in c.outputs.iter().enumerate() {
			extra.push((i.clone(), 500_000 + j as u64));
		}
		ExchInfo {
			id: 1,
			sender: 0,
			parent: key_pair(&c.parent).0,
			inputs: c.inputs.iter().map(|(i, _, v)| (key_of(i, extra), *v)).collect(),
			outputs: c.outputs.iter().map(|(i, _, v)| (key_of(i, extra), *v)).collect(),
			amount: c.amount,
			fee: c.fee,
			late: if late { Some((sc.minconf, 500, n_change as u64, sc.use_all)) } else { None },
			ttl: s1.ttl_cutoff_height,
			invoice: sc.flow == Flow::Invoice,
			pp: match sc.pp {
				1 => Some(ADDR_R),
				2 => Some(ADDR_R2),
				_ => None,
			},
		}
	};
	if ctx0.is_none() {
		return;
	}
	let a_info = ctx_abs(&ctx0, &mut extra);
	let kc_a = keychain_of(s, A);
	let ppenv = {
		let c = s.with(A, |b, mm| b.get_private_context(mm, id.as_bytes())).unwrap();
		let head = s.node.chain.head_header().unwrap();
		let blk = s.node.chain.get_block(&head.hash()).unwrap();
		PpEnv {
			amount: c.amount,
			sender_pub: PublicKey::from_secret_key(kc_a.secp(), &c.sec_key).unwrap(),
			sender_addr: addr_keys(&kc_a, &c.parent_key_id).public,
			counter: addr_keys(&keychain_of(s, counter), &acct_id(0)),
			other: addr_keys(&keychain_of(s, R2), &acct_id(0)),
			other_excess: blk.kernels()[0].excess,
			requested: match sc.pp {
				1 => Some(addr_keys(&keychain_of(s, R), &acct_id(0)).public),
				2 => Some(addr_keys(&keychain_of(s, R2), &acct_id(0)).public),
				_ => None,
			},
		}
	};
	// active account at finalize time
	let active = if sc.use_src_name && !sc.active_ok { 0 } else { sc.src_acct };
	set_active(s, A, active);
	let os_coq: Vec<String> = os.iter().enumerate().map(|(i, o)| out_coq(o, i as u64)).collect();
	let mut consumed = false;
	let mut muts = sc.muts.clone();
	if muts.is_empty() {
		muts.push(Mut::None);
	}
	for (j, m) in muts.iter().enumerate() {
		if consumed {
			break;
		}
		let conf_h = s.with(A, |b, _| b.last_confirmed_height()).unwrap_or(0);
		let id_other = b_info.as_ref().map(|x| x.1).unwrap_or(Uuid::from_bytes([8; 16]));
		let id_other_abs = if b_info.is_some() { 2 } else { 8 };
		let cur_ctx = read_ctx(s, A, &id);
		let mut mreply = reply.clone();
		// build the mutated wire record
		let v = match m {
			Mut::SigsAddSender(bogus) => {
				let c = s.with(A, |b, mm| b.get_private_context(mm, id.as_bytes())).unwrap();
				let secp = kc_a.secp();
				let mut v = reply.slate.clone();
				let part = if *bogus { v.sigs.get(0).and_then(|p| p.part) } else { None };
				v.sigs.insert(
					0,
					ParticipantDataV4 {
						xs: PublicKey::from_secret_key(secp, &c.sec_key).unwrap(),
						nonce: PublicKey::from_secret_key(secp, &c.sec_nonce).unwrap(),
						part,
					},
				);
				Some(v)
			}
			Mut::SigsAddStranger => {
				let secp = kc_a.secp();
				let mut v = reply.slate.clone();
				let k1 = SecretKey::new(secp, &mut rand::thread_rng());
				let k2 = SecretKey::new(secp, &mut rand::thread_rng());
				v.sigs.push(ParticipantDataV4 {
					xs: PublicKey::from_secret_key(secp, &k1).unwrap(),
					nonce: PublicKey::from_secret_key(secp, &k2).unwrap(),
					part: None,
				});
				Some(v)
			}
			_ => match apply_mut(m, &reply, &other, &cur_ctx, &kc_a, conf_h, id_other, &ppenv) {
				Some((v, known)) => {
					mreply.outs = known;
					Some(v)
				}
				None => None,
			},
		};
		let v = match v {
			Some(v) => v,
			None => continue, // not applicable to this reply
		};
		if std::env::var("C02_DEBUG").is_ok() {
			eprintln!("REPLY  {}", serde_json::to_string(&reply.slate).unwrap());
			eprintln!("OTHER  {}", serde_json::to_string(&other).unwrap());
			eprintln!("MUTANT {}", serde_json::to_string(&v).unwrap());
			if let Ok(c) = s.with(A, |b, mm| b.get_private_context(mm, id.as_bytes())) {
				let secp = kc_a.secp();
				let my_n = PublicKey::from_secret_key(secp, &c.sec_nonce).unwrap();
				let my_k = PublicKey::from_secret_key(secp, &c.sec_key).unwrap();
				for (name, sl) in &[("reply", &reply.slate), ("mutant", &v)] {
					if sl.sigs.is_empty() { continue; }
					let ns = PublicKey::from_combination(secp, vec![&sl.sigs[0].nonce, &my_n]).unwrap();
					let ks = PublicKey::from_combination(secp, vec![&sl.sigs[0].xs, &my_k]).unwrap();
					let msg = KernelFeatures::Plain { fee: c.fee.unwrap() }.kernel_sig_msg().unwrap();
					let r = vharness::core::libtx::aggsig::verify_partial_sig(secp, sl.sigs[0].part.as_ref().unwrap(), &ns, &sl.sigs[0].xs, Some(&ks), &msg);
					eprintln!("VERIFY {} nonce_sum {:?} -> {:?}", name, ns, r);
				}
			}
		}
		let wire = match through_wire(&v) {
			Ok(x) => x,
			Err(e) => {
				out.push(json!({"k": k, "j": j, "shard": shard, "undeliverable": e, "mut": m.to_json()}));
				continue;
			}
		};
		if sc.flow == Flow::Sync {
			let _ = guarded(|| s.with(A, |b, mm| owner::tx_lock_outputs(b, mm, &wire)));
		}
		if *m == Mut::PPStripRelabelPlanted && sc.flow != Flow::Invoice {
			// the counterparty plants a received entry under this slate id in the wallet under test
			let planted = guarded(|| -> Result<(), Error> {
				let args = InitTxArgs { amount: 1_000_000, minimum_confirmations: 1, max_outputs: 500,
					num_change_outputs: 1, selection_strategy_is_use_all: false, ..Default::default() };
				let mut fresh = s.with(R, |b, mm| owner::init_send_tx(b, mm, args, false))?;
				let fresh_id = fresh.id;
				fresh.id = id;
				let _ = s.with(A, |b, mm| foreign::receive_tx(b, mm, &fresh, None, false))?;
				let pk = s.with(R, |b, _| b.parent_key_id());
				let _ = s.with(R, |b, mm| vharness::libwallet::verif_hooks::tx::cancel_tx(b, mm, &pk, None, Some(fresh_id)));
				Ok(())
			});
			let _ = planted;
		}
		// ---- the call under test
		let snap_before = s.snapshot(A);
		let stored_before = stored_bytes(s, A, &id);
		let nlog_before = n_log(s, A);
		let ctx_before = read_ctx(s, A, &id);
		let ctx_exists = s.with(A, |b, mm| b.get_private_context(mm, wire.id.as_bytes())).is_ok();
		let ttl_expired = wire.ttl_cutoff_height != 0 && conf_h >= wire.ttl_cutoff_height;
		let tip = s.node.height();
		// ---- the abstract case
		let lock_mode = match sc.flow {
			Flow::Send => 0,
			Flow::Sync => 1,
			_ => 2,
		};
		let coq = format!(
			"(mkCase {}%N {}%N {}%N {}%N [{}] {} {} {}%N {} {} {} 10%N {})",
			active,
			conf_h,
			tip,
			vharness::core::global::max_tx_weight(),
			os_coq.join("; "),
			a_info.to_coq(),
			match &b_info {
				Some((b, _)) => format!("(Some {})", b.to_coq()),
				None => "None".into(),
			},
			lock_mode,
			sc.self_send,
			reply.forge_coq(),
			other_reply.forge_coq(),
			m.to_coq(conf_h, id_other_abs)
		);
		let res = guarded(|| {
			s.with(A, |b, mm| {
				if sc.flow == Flow::Invoice {
					foreign::finalize_tx(b, mm, &wire, false)
				} else {
					owner::finalize_tx(b, mm, &wire)
				}
			})
		});
		let nlog_after = n_log(s, A);
		let mut oracle: Vec<String> = vec![];
		let mut info = json!({});
		let mut vrows: Vec<Value> = vec![];
		let imp: Vec<i128> = match &res {
			Err(_) => {
				oracle.push("finalize_tx panicked".into());
				vec![2]
			}
			Ok(Err(e)) => {
				let class = if !ctx_exists { 8 } else { classify(e) };
				info = json!({"error": format!("{:?}", e).chars().take(160).collect::<String>()});
				// a refused reply: nothing may have changed (late lock: it may have locked)
				let snap_after = s.snapshot(A);
				if !late {
					if snap_after != snap_before {
						oracle.push("wallet state changed although finalize_tx failed".into());
					}
					if stored_bytes(s, A, &id) != stored_before {
						oracle.push("stored transaction changed although finalize_tx failed".into());
					}
				}
				if ctx_before.is_some() && read_ctx(s, A, &id).is_none() {
					oracle.push("context lost although finalize_tx failed".into());
				}
				vec![1, class as i128, if nlog_after != nlog_before { 1 } else { 0 }]
			}
			Ok(Ok(fin)) => {
				if std::env::var("C02_DEBUG").is_ok() {
					eprintln!("FINAL {}", serde_json::to_string(&to_v4(fin)).unwrap());
					eprintln!("KERNEL {:?}", fin.tx.as_ref().unwrap().kernels()[0]);
				}
				consumed = true;
				let (f, i, vr) = oracle_accepted(w, sc, fin, &id, &ctx_before, &mreply, ttl_expired, counter, Some((&ppenv, &v, &coq, active)));
				oracle = f;
				info = i;
				vrows = vr;
				let tx = fin.tx.as_ref();
				let feat = tx
					.map(|t| match t.kernels()[0].features {
						KernelFeatures::Plain { .. } => 0,
						KernelFeatures::HeightLocked { .. } => 2,
						KernelFeatures::NoRecentDuplicate { .. } => 3,
						_ => 1,
					})
					.unwrap_or(-1);
				vec![
					0,
					tx.map(|t| t.inputs().len() as i128).unwrap_or(-1),
					tx.map(|t| t.outputs().len() as i128).unwrap_or(-1),
					tx.map(|t| t.fee() as i128).unwrap_or(-1),
					feat,
					if stored_bytes(s, A, &id).is_some() { 1 } else { 0 },
				]
			}
		};
		let _ = tip0;
		out.push(json!({
			"k": k, "j": j, "shard": shard, "script": sc.to_json(), "mut": m.to_json(),
			"coq": coq, "impl": imp.iter().map(|x| x.to_string()).collect::<Vec<_>>(),
			"oracle": oracle, "info": info,
		}));
		for mut vr in vrows {
			vr["k"] = json!(k);
			vr["j"] = json!(j);
			vr["shard"] = json!(shard);
			vr["script"] = sc.to_json();
			vr["mut"] = m.to_json();
			out.push(vr);
		}
		if late && !consumed {
			break; // the context changed (inputs selected, maybe locked): one mutation per late-locked send
		}
	}
	// ---- the end of the exchange
	if !consumed {
		let mut end_fail: Vec<String> = vec![];
		let has_entry = s.with(A, |b, _| b.tx_log_iter().any(|t| t.tx_slate_id == Some(id) && t.tx_type == TxLogEntryType::TxSent));
		if sc.flow == Flow::Invoice {
			// the issuer's pending receive can be cancelled as before
			set_active(s, A, sc.src_acct);
			let r = owner::cancel_tx(s.wallets[A].inst.clone(), s.wallets[A].mask.as_ref(), &None, None, Some(id));
			if r.is_err() {
				end_fail.push(format!("cancel_tx of the pending invoice failed: {:?}", r));
			}
			let _ = owner::cancel_tx(s.wallets[R].inst.clone(), s.wallets[R].mask.as_ref(), &None, None, Some(id));
		} else if has_entry {
			set_active(s, A, ctx0.as_ref().map(|c| key_pair(&c.parent).0 as u32).unwrap_or(0));
			if sc.end_cancel || late {
				let txid = s.with(A, |b, _| {
					b.tx_log_iter().find(|t| t.tx_slate_id == Some(id) && t.tx_type == TxLogEntryType::TxSent).map(|t| t.id)
				});
				// (by log id when the slate id is ambiguous in the account — a self-send, or a planted entry:
				// listed finding C05-ambiguous-slate-id)
				let ambiguous = s.with(A, |b, _| b.tx_log_iter().filter(|t| t.tx_slate_id == Some(id)).count() > 1);
				let r = if sc.self_send || ambiguous {
					owner::cancel_tx(s.wallets[A].inst.clone(), s.wallets[A].mask.as_ref(), &None, txid, None)
				} else {
					owner::cancel_tx(s.wallets[A].inst.clone(), s.wallets[A].mask.as_ref(), &None, None, Some(id))
				};
				// (an entry whose ttl has passed is cancelled by the refresh inside cancel_tx itself:
				// it is then already TxSentCancelled, which is the same end state)
				let auto_cancelled = s.with(A, |b, _| {
					b.tx_log_iter().any(|t| t.tx_slate_id == Some(id) && t.tx_type == TxLogEntryType::TxSentCancelled)
				});
				if r.is_err() && !auto_cancelled {
					end_fail.push(format!("cancel_tx after refused replies failed: {:?}", r));
				}
				// the reserved coins are free again
				let par = ctx0.as_ref().map(|c| c.parent.clone());
				let still = s.with(A, |b, _| {
					b.iter().filter(|x| x.status == OutputStatus::Locked && x.tx_log_entry == txid && Some(x.root_key_id.clone()) == par).count()
				});
				if still != 0 {
					end_fail.push("outputs still locked after cancel".into());
				}
			} else if !late {
				// the unmutated reply is still good after all the refused ones
				if let Ok(wire) = through_wire(&reply.slate) {
					let acceptable = matches!(sc.forge, ForgeKind::Honest | ForgeKind::Redo) && sc.pp != 2;
					let r = guarded(|| s.with(A, |b, mm| owner::finalize_tx(b, mm, &wire)));
					if acceptable && sc.active_ok && sc.flow != Flow::Sync {
						match r {
							Ok(Ok(fin)) => {
								let cb = read_ctx(s, A, &id);
								let _ = cb;
								let (f, _, _) = oracle_accepted(w, sc, &fin, &id, &ctx0, &reply, false, counter, None);
								end_fail.extend(f);
							}
							// (a transaction over the weight limit — every output of a large account
							// as input — is refused whatever came before: not a trace of the mutants)
							Ok(Err(Error::Transaction(ref e))) if format!("{:?}", e).contains("TooHeavy") => {}
							other => end_fail.push(format!(
								"the honest reply was refused after refused mutations: {:?}",
								other.map(|r| r.map(|_| ()).map_err(|e| format!("{:?}", e)))
							)),
						}
					}
				}
			}
		}
		if !end_fail.is_empty() {
			out.push(json!({"k": k, "j": -1, "shard": shard, "script": sc.to_json(), "end": true, "oracle": end_fail}));
		} else {
			out.push(json!({"k": k, "j": -1, "shard": shard, "end": true, "oracle": []}));
		}
	}
	let _ = payer_ctx;
	set_active(s, A, 0);
}

#[allow(dead_code)]
fn main() {
	run_main(false)
}

pub fn run_main(c11: bool) {
	quiet_panics();
	let out_path = arg("out").expect("--out");
	let n = arg_u64("n", 20);
	let shard = arg_u64("shard", 0);
	let thorough = arg_u64("thorough", 0) == 1;
	let tag = if c11 { "c11" } else { "c02" };
	let dir = format!("/tmp/vh_{}_{}/s{}", tag, std::process::id(), shard);
	let w = new_world(&dir);
	let mut out = Out::create(&out_path);
	let mut rows: Vec<Value> = vec![];
	if let Some(f) = arg("replay") {
		let v: Value = serde_json::from_str(&std::fs::read_to_string(&f).expect("replay file")).expect("json");
		let scripts: Vec<Value> = match v.get("scripts") {
			Some(Value::Array(a)) => a.clone(),
			_ => vec![v.get("script").cloned().unwrap_or(v.clone())],
		};
		for (k, sc) in scripts.iter().enumerate() {
			let sc = Script::from_json(sc);
			run_exchange(&w, &sc, k as u64, &mut rows, shard);
		}
	} else {
		let seed = seed_from_env();
		for k in 0..n {
			let mut p = Prng::new(seed.wrapping_mul(1_000_003).wrapping_add(shard * 7919 + k));
			let sc = if c11 { gen_script_c11(&mut p, k + shard, thorough) } else { gen_script(&mut p, k + shard, thorough) };
			run_exchange(&w, &sc, k, &mut rows, shard);
		}
	}
	for r in &rows {
		out.line(r);
	}
	out.finish();
	drop(w.s);
	let _ = std::fs::remove_dir_all(format!("/tmp/vh_{}_{}", tag, std::process::id()));
	let _ = w.dir;
}
