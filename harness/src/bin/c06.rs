//! C06 crash/fault enumeration: every operation of representative scenarios is run once with
//! the backend's effect hook copying the wallet directory at every persistent-effect boundary
//! (before/after each LMDB commit, before/after each stored-tx write); every such crash state
//! (plus truncations of the stored-tx file) is reopened with a fresh backend and checked by the
//! Recoverable oracle; then the operation is re-run from the same base state with effect k
//! failing, for every k. The recorded effect sequence and the per-commit snapshots are compared
//! with coq/theories/Effects.v by the check.
use grin_util::secp::pedersen::Commitment;
use serde_json::{json, Value};
use std::sync::{Arc, Mutex as StdMutex};
use uuid::Uuid;
use vharness::impls::verif_effects;
use vharness::libwallet::api_impl::{foreign, owner};
use vharness::libwallet::verif_hooks::{tx as itx, updater};
use vharness::libwallet::{
	BlockFees, Error, InitTxArgs, IssueInvoiceTxArgs, OutputStatus, Slate, TxLogEntryType,
};
use vharness::prng::{seed_from_env, Prng};
use vharness::scen::*;
use vharness::*;

#[derive(Clone)]
enum Mode {
	Off,
	Snapshot { src: String, dst: String },
	FailAt(usize),
}
struct HookState {
	mode: Mode,
	events: Vec<String>,
	n_begin: usize,
}

fn copy_dir(src: &str, dst: &str) {
	let _ = std::fs::remove_dir_all(dst);
	let rc = std::process::Command::new("cp").args(&["-r", src, dst]).status().unwrap();
	assert!(rc.success());
}

fn install(state: Arc<StdMutex<HookState>>) {
	verif_effects::set(Some(Arc::new(move |kind: &str| {
		let mut st = state.lock().unwrap();
		let idx = st.events.len();
		st.events.push(kind.to_owned());
		match st.mode.clone() {
			Mode::Off => true,
			Mode::Snapshot { src, dst } => {
				copy_dir(&src, &format!("{}/e{}", dst, idx));
				true
			}
			Mode::FailAt(k) => {
				if kind.ends_with("_begin") {
					let n = st.n_begin;
					st.n_begin += 1;
					n != k
				} else {
					true
				}
			}
		}
	})));
}

struct Ctx {
	s: Scen,
	p: Prng,
	hook: Arc<StdMutex<HookState>>,
	slate_nums: std::collections::HashMap<Uuid, u64>,
	/// Some(original wallet) while an interrupted restore of it is being enumerated
	rescan_of: Option<usize>,
}

fn rc_of<T>(r: &Result<Result<T, Error>, String>) -> Vec<u64> {
	match r {
		Err(_) => vec![2],
		Ok(Err(e)) => vec![1, err_class(e)],
		Ok(Ok(_)) => vec![0],
	}
}

impl Ctx {
	fn num(&mut self, id: Uuid) -> u64 {
		let n = self.slate_nums.len() as u64;
		*self.slate_nums.entry(id).or_insert(n)
	}
	fn wallet_dir(&self, i: usize) -> String {
		format!("{}/{}", self.s.dir, self.s.wallets[i].name)
	}
	fn snap(&self, i: usize) -> Value {
		let mut snap = self.s.snapshot(i);
		if let Some(txs) = snap["txs"].as_array_mut() {
			for t in txs {
				if let Some(s) = t["slate"].as_str() {
					let u = Uuid::parse_str(s).unwrap();
					t["slate"] = json!(self.slate_nums.get(&u).cloned());
				}
			}
		}
		let mut ctxs = vec![];
		for (id, n) in &self.slate_nums {
			if self.s.with(i, |b, m| b.get_private_context(m, id.as_bytes()).is_ok()) {
				ctxs.push(*n);
			}
		}
		ctxs.sort();
		snap["contexts"] = json!(ctxs);
		snap["info"] = json!([]);
		snap
	}
	fn node_view(&self, i: usize) -> Value {
		let chain = self.s.node.chain.clone();
		let tip = self.s.node.height();
		self.s.with(i, |b, _| {
			let mut presence = vec![];
			for o in b.iter() {
				if let Some(c) = &o.commit {
					let commit = Commitment::from_vec(grin_util::from_hex(c).unwrap());
					if chain.get_unspent(commit).unwrap().is_some() {
						let h = chain.get_header_for_output(commit).unwrap().height;
						let (a, c) = key_pair(&o.key_id);
						presence.push(json!([a, c, o.mmr_index, h]));
					}
				}
			}
			let mut missing = vec![];
			for t in b.tx_log_iter() {
				if let Some(e) = t.kernel_excess {
					if chain.get_kernel_height(&e, t.kernel_lookup_min_height, None).unwrap().is_none() {
						missing.push(json!([key_pair(&t.parent_key_id).0, t.id]));
					}
				}
			}
			json!({"tip": tip, "presence": presence, "kernel_missing": missing})
		})
	}

	/// Recovery of an interrupted restore: the user runs the scan again. Afterwards every record's
	/// account exists, every path recorded lies below its account's next-child index, and every
	/// output of the seed in the UTXO set (as the original wallet `orig` knows them) is there.
	fn rescan_recovers(&mut self, i: usize, orig: usize) -> Vec<String> {
		let mut f = vec![];
		let inst = self.s.wallets[i].inst.clone();
		let r = guarded(|| owner::scan(inst.clone(), None, Some(1), false, &None));
		if rc_of(&r) != vec![0] {
			f.push(format!("scan after the interrupted restore fails: {:?}", rc_of(&r)));
			return f;
		}
		let chain = self.s.node.chain.clone();
		let want: Vec<(u64, u64, u64)> = self.s.with(orig, |b, _| {
			b.iter()
				.filter(|o| {
					o.commit.as_ref().map(|c| {
						let commit = Commitment::from_vec(grin_util::from_hex(c).unwrap());
						chain.get_unspent(commit).unwrap().is_some()
					}).unwrap_or(false)
				})
				.map(|o| { let (a, c) = key_pair(&o.key_id); (a, c, o.value) })
				.collect()
		});
		self.s.with(i, |b, _| {
			let accts: Vec<Identifier> = b.acct_path_iter().map(|m| m.path).collect();
			let outs: Vec<_> = b.iter().collect();
			for o in outs.iter() {
				if !accts.contains(&o.root_key_id) {
					f.push(format!("record {:?} belongs to no account of the wallet", key_pair(&o.key_id)));
				}
				let next = b.current_child_index(&o.root_key_id).unwrap_or(0);
				if next <= o.n_child {
					f.push(format!(
						"next child index {} of account {} is not beyond the recorded path {:?} [interrupted-restore-index]",
						next, key_pair(&o.key_id).0, key_pair(&o.key_id)
					));
				}
			}
			for (a, c, v) in want.iter() {
				if !outs.iter().any(|o| key_pair(&o.key_id) == (*a, *c) && o.value == *v && o.status == OutputStatus::Unspent) {
					f.push(format!("unspent output ({}, {}) of the seed is not restored", a, c));
				}
			}
		});
		f.sort();
		f.dedup();
		f.truncate(4);
		f
	}

	/// The Recoverable oracle on wallet `i` as it is now (freshly opened). Returns failures.
	fn recoverable(&mut self, i: usize, pre_spendable: Option<u64>) -> Vec<String> {
		if let Some(orig) = self.rescan_of {
			if i != orig {
				return self.rescan_recovers(i, orig);
			}
		}
		let mut f = vec![];
		let wallet_dir = format!("{}/{}", self.s.dir, self.s.wallets[i].name);
		let r = guarded(|| {
			self.s.with(i, |b, m| -> Result<(), Error> {
				let outs: Vec<_> = b.iter().collect();
				let txs: Vec<_> = b.tx_log_iter().collect();
				let pk = b.parent_key_id();
				updater::retrieve_info(b, &pk, 1)?;
				updater::retrieve_txs(b, None, None, None, Some(&pk), false)?;
				updater::retrieve_outputs(b, m, true, None, None)?;
				let mut fails = vec![];
				// every reserved output belongs to a live logged sent transaction
				for o in outs.iter().filter(|o| o.status == OutputStatus::Locked) {
					let ok = txs.iter().any(|t| {
						Some(t.id) == o.tx_log_entry
							&& t.parent_key_id == o.root_key_id
							&& t.tx_type == TxLogEntryType::TxSent
							&& !t.confirmed
					});
					if !ok {
						fails.push(format!("Locked output {:?} not held by a live sent entry", key_pair(&o.key_id)));
					}
				}
				// reservation all-or-nothing: a live sent entry has exactly num_inputs linked
				// Locked/Spent records and num_outputs linked change records
				for t in txs.iter().filter(|t| t.tx_type == TxLogEntryType::TxSent && !t.confirmed) {
					let linked: Vec<_> = outs
						.iter()
						.filter(|o| o.tx_log_entry == Some(t.id) && o.root_key_id == t.parent_key_id)
						.collect();
					let n_in = linked
						.iter()
						.filter(|o| o.status == OutputStatus::Locked || o.status == OutputStatus::Spent)
						.count();
					if n_in != t.num_inputs {
						fails.push(format!("sent entry {} has {} reserved inputs, {} recorded", t.id, n_in, t.num_inputs));
					}
				}
				// stored transactions: a value or an error, never a crash — through the backend and
				// through the owner API call (by log id and by slate id); a file that exists but is
				// incomplete is an error, never "no stored transaction"
				for t in txs.iter() {
					if let Some(u) = t.tx_slate_id {
						if t.stored_tx.is_some() {
							let path = format!("{}/wallet_data/saved_txs/{}.grintx", wallet_dir, u);
							let exists = std::path::Path::new(&path).exists();
							let r0 = b.get_stored_tx(&format!("{}", u));
							if exists {
								if let Ok(None) = r0 {
									fails.push(format!(
										"stored transaction file of entry {} exists ({} bytes) but is read back as absent",
										t.id,
										std::fs::metadata(&path).map(|m| m.len()).unwrap_or(0)
									));
								}
							}
							let _ = vharness::libwallet::api_impl::owner::get_stored_tx(&mut *b, Some(t.id), None);
							let _ = vharness::libwallet::api_impl::owner::get_stored_tx(&mut *b, None, Some(&u));
						}
					}
				}
				if !fails.is_empty() {
					return Err(Error::GenericError(format!("ORACLE:{}", fails.join("; "))));
				}
				Ok(())
			})
		});
		match r {
			Err(m) => f.push(format!("query panicked after reopen: {}", m)),
			Ok(Err(Error::GenericError(s))) if s.starts_with("ORACLE:") => f.push(s),
			Ok(Err(e)) => f.push(format!("query failed after reopen: {:?}", e)),
			Ok(Ok(())) => {}
		}
		// every pending transaction can still be cancelled, restoring the pre-operation spendable
		let pending: Vec<(Identifier, u32)> = self.s.with(i, |b, _| {
			b.tx_log_iter()
				.filter(|t| {
					!t.confirmed
						&& (t.tx_type == TxLogEntryType::TxSent || t.tx_type == TxLogEntryType::TxReceived)
				})
				.map(|t| (t.parent_key_id.clone(), t.id))
				.collect()
		});
		for (pk, id) in pending {
			let r = guarded(|| self.s.with(i, |b, m| itx::cancel_tx(b, m, &pk, Some(id), None)));
			if rc_of(&r) != vec![0] {
				f.push(format!("pending entry {} cannot be cancelled: {:?}", id, rc_of(&r)));
			}
		}
		if let Some(want) = pre_spendable {
			let got = self.s.with(i, |b, _| {
				b.iter()
					.filter(|o| o.status == OutputStatus::Unspent)
					.map(|o| o.value as u128)
					.sum::<u128>()
			});
			if got != want as u128 {
				f.push(format!("after cancelling everything pending, unspent total {} != pre-operation total {}", got, want));
			}
		}
		f
	}
}

use grin_keychain::Identifier;

/// (file name, length, content) of every stored transaction under a wallet directory
fn stored_files(wallet_dir: &str) -> Vec<(String, usize, Vec<u8>)> {
	let mut v = vec![];
	if let Ok(rd) = std::fs::read_dir(format!("{}/wallet_data/saved_txs", wallet_dir)) {
		for e in rd.flatten() {
			let b = std::fs::read(e.path()).unwrap_or_default();
			v.push((e.file_name().to_string_lossy().to_string(), b.len(), b));
		}
	}
	v.sort();
	v
}

fn unspent_total(c: &Ctx, i: usize) -> u64 {
	c.s.with(i, |b, _| {
		b.iter()
			.filter(|o| o.status == OutputStatus::Unspent || o.status == OutputStatus::Locked)
			.map(|o| o.value)
			.sum()
	})
}

/// Run `op` on wallet i: (1) once with snapshots at every effect boundary, every snapshot
/// reopened and checked; (2) from the same base state once per begin-event with that effect
/// failing. Emits one JSON line.
fn enumerate(
	c: &mut Ctx,
	out: &mut Out,
	i: usize,
	name: &str,
	model_op: Value,
	prefix_ops: &[Value],
	op: &mut dyn FnMut(&mut Ctx) -> Vec<u64>,
	cancel_restores: bool,
) {
	let wdir = c.wallet_dir(i);
	let work = format!("{}/crash_{}", c.s.dir, name);
	let _ = std::fs::remove_dir_all(&work);
	std::fs::create_dir_all(&work).unwrap();
	let base = format!("{}/base", work);
	// close so that the copy is consistent, copy, reopen
	c.s.reopen(i);
	copy_dir(&wdir, &base);
	let pre_total = unspent_total(c, i);
	let before = c.snap(i);
	// ---- (1) snapshot run
	{
		let mut st = c.hook.lock().unwrap();
		st.events.clear();
		st.n_begin = 0;
		st.mode = Mode::Snapshot { src: wdir.clone(), dst: work.clone() };
	}
	let rc = op(c);
	let events: Vec<String> = {
		let mut st = c.hook.lock().unwrap();
		st.mode = Mode::Off;
		st.events.clone()
	};
	let after = c.snap(i);
	let final_dir = format!("{}/final", work);
	c.s.reopen(i);
	copy_dir(&wdir, &final_dir);
	// crash states: e0..e(n-1) (+ truncations of the stored tx after store_tx_end)
	let mut crash_results = vec![];
	let mut n_states = 0;
	for (k, ev) in events.iter().enumerate() {
		let mut dirs = vec![(format!("{}/e{}", work, k), ev.clone())];
		if ev == "store_tx_end" {
			// partial writes of the file just written
			let d = format!("{}/e{}", work, k);
			let txdir = format!("{}/wallet_data/saved_txs", d);
			if let Ok(rd) = std::fs::read_dir(&txdir) {
				let mut newest: Option<(std::time::SystemTime, std::path::PathBuf)> = None;
				for e in rd.flatten() {
					let m = e.metadata().unwrap().modified().unwrap();
					if newest.as_ref().map(|n| m > n.0).unwrap_or(true) {
						newest = Some((m, e.path()));
					}
				}
				if let Some((_, path)) = newest {
					let content = std::fs::read(&path).unwrap();
					let n = content.len();
					for len in &[0usize, 1, 2, n / 2, n / 2 + 1, n.saturating_sub(1)] {
						if *len >= n {
							continue;
						}
						let dd = format!("{}_t{}", d, len);
						copy_dir(&d, &dd);
						let rel = path.strip_prefix(&d).unwrap();
						std::fs::write(std::path::Path::new(&dd).join(rel), &content[..*len]).unwrap();
						dirs.push((dd, format!("store_tx_partial_{}", len)));
					}
				}
			}
		}
		for (d, label) in dirs {
			// put the crash state in place of the wallet and open it with a fresh backend
			{
				let mut l = c.s.wallets[i].inst.lock();
				let lc = l.lc_provider().unwrap();
				let _ = vharness::libwallet::WalletLCProvider::close_wallet(lc, None);
			}
			copy_dir(&d, &wdir);
			let opened = guarded(|| c.s.reopen(i));
			n_states += 1;
			let snap = if opened.is_ok() { c.snap(i) } else { json!(null) };
			let fails = match opened {
				Err(m) => vec![format!("wallet does not open after crash: {}", m)],
				Ok(()) => c.recoverable(i, if cancel_restores { Some(pre_total) } else { None }),
			};
			crash_results.push(json!({"k": k, "event": label, "snap": snap, "fails": fails}));
		}
	}
	// ---- (2) fault run: effect k returns an error
	let n_begin = events.iter().filter(|e| e.ends_with("_begin")).count();
	let mut fault_results = vec![];
	for k in 0..n_begin {
		{
			let mut l = c.s.wallets[i].inst.lock();
			let lc = l.lc_provider().unwrap();
			let _ = vharness::libwallet::WalletLCProvider::close_wallet(lc, None);
		}
		copy_dir(&base, &wdir);
		c.s.reopen(i);
		{
			let mut st = c.hook.lock().unwrap();
			st.events.clear();
			st.n_begin = 0;
			st.mode = Mode::FailAt(k);
		}
		let rc_f = op(c);
		{
			let mut st = c.hook.lock().unwrap();
			st.mode = Mode::Off;
		}
		c.s.reopen(i);
		// an operation that reports success although one of its writes failed must have left what the
		// complete run leaves: the same records and the same stored transactions
		let mut claims = vec![];
		if rc_f == vec![0] {
			let got = c.snap(i);
			if got["outputs"] != after["outputs"] || got["txs"] != after["txs"] || got["contexts"] != after["contexts"] {
				claims.push("the operation reported success although a write failed, and the wallet is not in the state the complete operation leaves".to_owned());
			}
			if got["child"] != after["child"] {
				claims.push(format!(
					"the operation reported success although a write failed, and the key indices are {} instead of {} (the next key handed out is one already in use)",
					got["child"], after["child"]
				));
			}
			let want_files = stored_files(&format!("{}/final", work));
			let got_files = stored_files(&wdir);
			if want_files != got_files {
				claims.push(format!(
					"the operation reported success although a write failed, and the stored transactions differ from those of the complete operation: {:?} instead of {:?}",
					got_files.iter().map(|x| (x.0.clone(), x.1)).collect::<Vec<_>>(),
					want_files.iter().map(|x| (x.0.clone(), x.1)).collect::<Vec<_>>()
				));
			}
		}
		let mut fails = c.recoverable(i, if cancel_restores { Some(pre_total) } else { None });
		fails.extend(claims);
		fault_results.push(json!({"k": k, "rc": rc_f, "fails": fails}));
	}
	// leave the wallet in the state after the complete operation
	{
		let mut l = c.s.wallets[i].inst.lock();
		let lc = l.lc_provider().unwrap();
		let _ = vharness::libwallet::WalletLCProvider::close_wallet(lc, None);
	}
	copy_dir(&final_dir, &wdir);
	c.s.reopen(i);
	out.line(&json!({"name": name, "wallet": i, "rc": rc, "events": events, "before": before, "after": after,
		"model_op": model_op, "prefix_ops": prefix_ops, "crash": crash_results, "fault": fault_results,
		"n_states": n_states}));
	let _ = std::fs::remove_dir_all(&work);
}

/// Restore of wallet 0 from its recovery phrase into a new database, interrupted at every
/// persistent-effect boundary of the scan (and with every write failing in turn); recovery = the
/// scan run again (C15: "across restarts and crashes ... after a restore from seed the next path
/// lies beyond every path found on chain"; C16: scanning is idempotent).
fn restore_scan_enum(c: &mut Ctx, out: &mut Out) {
	let phrase: String = {
		let mut l = c.s.wallets[0].inst.lock();
		let lc = l.lc_provider().unwrap();
		(&*vharness::libwallet::WalletLCProvider::get_mnemonic(lc, None, grin_util::ZeroingString::from("")).unwrap()).to_owned()
	};
	let i = c.s.add_wallet("w0_restored", Some(&phrase), false);
	c.rescan_of = Some(0);
	let mut f = |c: &mut Ctx| {
		let inst = c.s.wallets[i].inst.clone();
		rc_of(&guarded(|| owner::scan(inst.clone(), None, Some(1), false, &None)))
	};
	enumerate(c, out, i, "restore_scan", json!(null), &[], &mut f, false);
	c.rescan_of = None;
}

fn main() {
	quiet_panics();
	init_thread();
	let out_path = arg("out").expect("--out");
	let n = arg_u64("n", 1);
	let shard = arg_u64("shard", 0);
	let only_restore = arg_u64("only-restore", 0) == 1;
	let base = format!("/tmp/vh_c06_{}_{}", std::process::id(), shard);
	let mut out = Out::create(&out_path);
	let seed = seed_from_env();
	let hook = Arc::new(StdMutex::new(HookState { mode: Mode::Off, events: vec![], n_begin: 0 }));
	install(hook.clone());
	for h in 0..n {
		let hseed = seed.wrapping_mul(1_000_003).wrapping_add(shard * 10_007 + h);
		let dir = format!("{}/h{}", base, h);
		let mut s = Scen::new(&dir);
		s.add_wallet("w0", None, false);
		s.add_wallet("w1", None, false);
		let mut c = Ctx { s, p: Prng::new(hseed), hook: hook.clone(), slate_nums: Default::default(), rescan_of: None };
		// model prefix: every operation on wallet 0 so far, in Ledger.v vocabulary
		let mut ops0: Vec<Value> = vec![];
		let warm = c.p.range(4, 6);
		for _ in 0..warm {
			let h = c.s.node.height() + 1;
			c.s.mine(0, 1);
			ops0.push(json!({"k": "coinbase", "fees": "0", "height": h, "key": null}));
		}
		c.s.mine(1, 3);
		if only_restore {
			// a second account with outputs of its own, then the interrupted restore alone
			c.s.with(0, |b, m| owner::create_account_path(b, m, "account_1")).unwrap();
			c.s.with(0, |b, _| owner::set_active_account(b, "account_1")).unwrap();
			let k = c.p.range(1, 3) as usize;
			c.s.mine(0, k);
			c.s.with(0, |b, _| owner::set_active_account(b, "default")).unwrap();
			c.s.mine(1, 2);
			for a in &["default", "account_1"] {
				c.s.with(0, |b, _| owner::set_active_account(b, a)).unwrap();
				c.s.with(0, |b, m| { let pk = b.parent_key_id(); updater::refresh_outputs(b, m, &pk, true) }).unwrap();
			}
			c.s.with(0, |b, _| owner::set_active_account(b, "default")).unwrap();
			restore_scan_enum(&mut c, &mut out);
			drop(c);
			let _ = std::fs::remove_dir_all(&dir);
			continue;
		}
		let view = c.node_view(0);
		c.s.with(0, |b, m| { let pk = b.parent_key_id(); updater::refresh_outputs(b, m, &pk, false) }).unwrap();
		ops0.push(json!({"k": "refresh", "parent": 0, "all": false, "view": view}));

		// ---- build_coinbase
		{
			let height = c.s.node.height() + 1;
			let mop = json!({"k": "coinbase", "fees": "0", "height": height, "key": null});
			let mut f = |c: &mut Ctx| {
				let bf = BlockFees { fees: 0, key_id: None, height };
				rc_of(&guarded(|| c.s.with(0, |b, m| foreign::build_coinbase(b, m, &bf, false))))
			};
			enumerate(&mut c, &mut out, 0, "coinbase", mop.clone(), &ops0.clone(), &mut f, false);
			ops0.push(mop);
		}
		// ---- init_send (2-3 change outputs)
		let change = c.p.range(1, 3) as u32;
		let amount = c.p.range(1_000_000_000, 50_000_000_000);
		let tip = c.s.node.height();
		let args = InitTxArgs {
			amount, minimum_confirmations: 1, max_outputs: 500, num_change_outputs: change,
			selection_strategy_is_use_all: false, ..Default::default()
		};
		let slate_cell: Arc<StdMutex<Option<Slate>>> = Arc::new(StdMutex::new(None));
		{
			let view = c.node_view(0);
			let sc = slate_cell.clone();
			let a2 = args.clone();
			let mut f = |c: &mut Ctx| {
				let r = guarded(|| c.s.with(0, |b, m| owner::init_send_tx(b, m, a2.clone(), false)));
				if let Ok(Ok(s)) = &r { *sc.lock().unwrap() = Some(s.clone()); }
				rc_of(&r)
			};
			// init_send_tx = refresh of the source account, then selection + context
			// (the slate number is assigned after the run: the first slate is number 0)
			let mop = json!({"k": "init_send", "slate": 0, "src": null, "parent": 0, "view": view, "late": false,
				"p": {"amount": amount.to_string(), "aif": false, "h": tip, "minconf": 1, "max_outputs": 500,
					"change_outputs": change, "all": false}});
			enumerate(&mut c, &mut out, 0, "init_send", mop.clone(), &ops0.clone(), &mut f, true);
			ops0.push(mop);
		}
		// (what travels between the wallets is the V4 wire form of the slate)
		let s1 = wire(&slate_cell.lock().unwrap().clone().expect("init_send failed"));
		let n1 = c.num(s1.id);
		assert_eq!(n1, 0);
		// ---- receive_tx on wallet 1 (recipient side enumerated too)
		let reply_cell: Arc<StdMutex<Option<Slate>>> = Arc::new(StdMutex::new(None));
		{
			let rcell = reply_cell.clone();
			let s1c = s1.clone();
			let mut f = |c: &mut Ctx| {
				let r = guarded(|| c.s.with(1, |b, m| foreign::receive_tx(b, m, &s1c, None, false)));
				if let Ok(Ok(s)) = &r { *rcell.lock().unwrap() = Some(s.clone()); }
				rc_of(&r)
			};
			enumerate(&mut c, &mut out, 1, "receive", json!(null), &[], &mut f, true);
		}
		let s2 = wire(&reply_cell.lock().unwrap().clone().expect("receive failed"));
		// ---- tx_lock_outputs
		{
			let tip = c.s.node.height();
			let s2c = s2.clone();
			let mut f = |c: &mut Ctx| rc_of(&guarded(|| c.s.with(0, |b, m| owner::tx_lock_outputs(b, m, &s2c))));
			let mop = json!({"k": "lock", "slate": 0, "ttl": s2.ttl_cutoff_height, "tip": tip, "has_tx": s2.tx.is_some()});
			enumerate(&mut c, &mut out, 0, "lock", mop.clone(), &ops0.clone(), &mut f, true);
			ops0.push(mop);
		}
		// ---- finalize_tx
		let fin_cell: Arc<StdMutex<Option<Slate>>> = Arc::new(StdMutex::new(None));
		{
			let tip = c.s.node.height();
			let s2c = s2.clone();
			let fc = fin_cell.clone();
			let mut f = |c: &mut Ctx| {
				let r = guarded(|| c.s.with(0, |b, m| owner::finalize_tx(b, m, &s2c)));
				if let Ok(Ok(s)) = &r { *fc.lock().unwrap() = Some(s.clone()); }
				rc_of(&r)
			};
			let mop = json!({"k": "finalize", "slate": 0, "ttl": s2.ttl_cutoff_height, "tip": tip, "state_ok": true, "crypto_ok": true});
			enumerate(&mut c, &mut out, 0, "finalize", mop.clone(), &ops0.clone(), &mut f, true);
			ops0.push(mop);
		}
		// ---- post, mine, refresh (enumerated)
		if let Some(fin) = fin_cell.lock().unwrap().clone() {
			let cl = c.s.node.client();
			let _ = owner::post_tx(&cl, fin.tx_or_err().unwrap(), false);
			let _ = c.s.mine_pool(1);
			c.s.mine(1, 1);
		}
		{
			let view = c.node_view(0);
			let mut f = |c: &mut Ctx| {
				rc_of(&guarded(|| c.s.with(0, |b, m| { let pk = b.parent_key_id(); updater::refresh_outputs(b, m, &pk, true) })))
			};
			let mop = json!({"k": "refresh", "parent": 0, "all": true, "view": view});
			enumerate(&mut c, &mut out, 0, "refresh", mop.clone(), &ops0.clone(), &mut f, false);
			ops0.push(mop);
		}
		// ---- a second send, locked, then cancelled (cancel enumerated)
		{
			let args2 = InitTxArgs { amount: 2_000_000_000, minimum_confirmations: 1, max_outputs: 500,
				num_change_outputs: 1, selection_strategy_is_use_all: false, ..Default::default() };
			let view = c.node_view(0);
			let tip = c.s.node.height();
			let sl = c.s.with(0, |b, m| owner::init_send_tx(b, m, args2, false));
			if let Ok(sl) = sl {
				let nn = c.num(sl.id);
				ops0.push(json!({"k": "refresh", "parent": 0, "all": false, "view": view}));
				ops0.push(json!({"k": "init_send_only", "slate": nn, "src": null, "late": false,
					"p": {"amount": "2000000000", "aif": false, "h": tip, "minconf": 1, "max_outputs": 500, "change_outputs": 1, "all": false}}));
				let tip = c.s.node.height();
				if c.s.with(0, |b, m| owner::tx_lock_outputs(b, m, &sl)).is_ok() {
					ops0.push(json!({"k": "lock", "slate": nn, "ttl": 0, "tip": tip, "has_tx": sl.tx.is_some()}));
					let id = sl.id;
					let mut f = |c: &mut Ctx| {
						rc_of(&guarded(|| c.s.with(0, |b, m| { let pk = b.parent_key_id(); itx::cancel_tx(b, m, &pk, None, Some(id)) })))
					};
					let mop = json!({"k": "cancel", "id": null, "slate": nn});
					enumerate(&mut c, &mut out, 0, "cancel", mop.clone(), &ops0.clone(), &mut f, false);
					ops0.push(mop);
				}
			}
		}
		// ---- invoice: issue (enumerated on wallet 0)
		{
			let tip = c.s.node.height();
			let amount = 3_000_000_000u64;
			let icell: Arc<StdMutex<Option<Slate>>> = Arc::new(StdMutex::new(None));
			let ic = icell.clone();
			let mut f = |c: &mut Ctx| {
				let a = IssueInvoiceTxArgs { dest_acct_name: None, amount, target_slate_version: None };
				let r = guarded(|| c.s.with(0, |b, m| owner::issue_invoice_tx(b, m, a, false)));
				if let Ok(Ok(s)) = &r { *ic.lock().unwrap() = Some(s.clone()); }
				rc_of(&r)
			};
			let nn = c.slate_nums.len() as u64;
			let mop = json!({"k": "issue_invoice", "slate": nn, "amount": amount.to_string(), "tip": tip, "dest": null});
			enumerate(&mut c, &mut out, 0, "issue_invoice", mop.clone(), &ops0.clone(), &mut f, true);
			if let Some(s) = icell.lock().unwrap().clone() { let got = c.num(s.id); assert_eq!(got, nn); }
			ops0.push(mop);
			// ---- the payer's side of the invoice on wallet 1 (pay, reserve), then the issuer's finalize:
			// effects and recovery only (no model comparison)
			let inv_opt = icell.lock().unwrap().clone();
			if let Some(inv) = inv_opt {
				let inv = wire(&inv);
				c.s.with(1, |b, m| { let pk = b.parent_key_id(); updater::refresh_outputs(b, m, &pk, true) }).unwrap();
				let pcell: Arc<StdMutex<Option<Slate>>> = Arc::new(StdMutex::new(None));
				{
					let pc = pcell.clone();
					let invc = inv.clone();
					let mut f = |c: &mut Ctx| {
						let a = InitTxArgs { src_acct_name: None, amount: invc.amount, minimum_confirmations: 1, max_outputs: 500,
							num_change_outputs: 2, selection_strategy_is_use_all: false, ..Default::default() };
						let r = guarded(|| c.s.with(1, |b, m| owner::process_invoice_tx(b, m, &invc, a, false)));
						if let Ok(Ok(s)) = &r { *pc.lock().unwrap() = Some(s.clone()); }
						rc_of(&r)
					};
					enumerate(&mut c, &mut out, 1, "process_invoice", json!(null), &[], &mut f, true);
				}
				let paid_opt = pcell.lock().unwrap().clone();
				if let Some(paid) = paid_opt {
					let paid = wire(&paid);
					{
						let pd = paid.clone();
						let mut f = |c: &mut Ctx| rc_of(&guarded(|| c.s.with(1, |b, m| owner::tx_lock_outputs(b, m, &pd))));
						enumerate(&mut c, &mut out, 1, "lock_invoice", json!(null), &[], &mut f, true);
					}
					{
						let pd = paid.clone();
						let mut f = |c: &mut Ctx| rc_of(&guarded(|| c.s.with(0, |b, m| foreign::finalize_tx(b, m, &pd, false))));
						enumerate(&mut c, &mut out, 0, "finalize_invoice", json!(null), &[], &mut f, false);
					}
				}
			}
		}
		// ---- a late-locked send: nothing is selected or reserved until finalize_tx, which then selects,
		// reserves, signs, stores and consumes the context in one call
		{
			let args3 = InitTxArgs { amount: 1_500_000_000, minimum_confirmations: 1, max_outputs: 500,
				num_change_outputs: 2, selection_strategy_is_use_all: false, late_lock: Some(true), ..Default::default() };
			let sl = c.s.with(0, |b, m| owner::init_send_tx(b, m, args3, false));
			if let Ok(sl) = sl {
				let sl = wire(&sl);
				let _ = c.num(sl.id);
				if let Ok(reply) = c.s.with(1, |b, m| foreign::receive_tx(b, m, &sl, None, false)) {
					let reply = wire(&reply);
					let mut f = |c: &mut Ctx| rc_of(&guarded(|| c.s.with(0, |b, m| owner::finalize_tx(b, m, &reply))));
					enumerate(&mut c, &mut out, 0, "finalize_late_lock", json!(null), &[], &mut f, true);
				}
			}
		}
		// ---- update_wallet_state (refresh + kernel lookups + scan + ttl), effects only, no model
		{
			let mut f = |c: &mut Ctx| {
				let inst = c.s.wallets[0].inst.clone();
				let r = guarded(|| owner::update_wallet_state(inst.clone(), None, &None, false));
				match r { Err(_) => vec![2], Ok(Err(e)) => vec![1, err_class(&e)], Ok(Ok(_)) => vec![0] }
			};
			enumerate(&mut c, &mut out, 0, "update_state", json!(null), &[], &mut f, false);
		}
		// ---- a scan that drops pending transactions (delete_unconfirmed) while a send is reserved
		{
			let args4 = InitTxArgs { amount: 70_000_000_000, minimum_confirmations: 1, max_outputs: 500,
				num_change_outputs: 1, selection_strategy_is_use_all: false, ..Default::default() };
			let pending = guarded(|| -> Result<(), Error> {
				let sl = c.s.with(0, |b, m| owner::init_send_tx(b, m, args4, false))?;
				let _ = c.num(sl.id);
				c.s.with(0, |b, m| owner::tx_lock_outputs(b, m, &sl))?;
				Ok(())
			});
			if let Ok(Ok(())) = pending {
				let mut f = |c: &mut Ctx| {
					let inst = c.s.wallets[0].inst.clone();
					rc_of(&guarded(|| owner::scan(inst.clone(), None, Some(1), true, &None)))
				};
				enumerate(&mut c, &mut out, 0, "scan_drop", json!(null), &[], &mut f, false);
			}
		}
		// ---- restore from the recovery phrase, interrupted
		restore_scan_enum(&mut c, &mut out);
		drop(c);
		let _ = std::fs::remove_dir_all(&dir);
	}
	verif_effects::set(None);
	let _ = std::fs::remove_dir_all(&base);
	out.finish();
}
