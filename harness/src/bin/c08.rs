//! C08 correspondence + oracle runner: structural generator over V4 slates (every optional
//! field, all seven states, kernel features 0..3 and invalid ones, boundary integers, 0..many
//! participants and commitments), slatepacks, encrypted metadata and addresses. For every case
//! the REAL encoders' output (binary slate, V4 JSON field map, binary slatepack, armor text,
//! the plaintext handed to age) is printed for the byte-for-byte comparison with the Coq models
//! (CodecSlate.v, CodecSlatepack.v, CodecArmor.v), the real decoders' results both ways, and the
//! verdict of the property oracle: encode-then-decode returns the same slate on every path
//! (binary, JSON, Slate<->SlateV4, slatepack binary / JSON / armored, plain and encrypted) and
//! all paths agree.
//!
//! case kinds (field "k"): 1 V4 slate, 2 slatepack, 3 encrypted metadata + payload,
//! 4 addresses (slatepack / onion v3), 5 stored wallet records
#[path = "codec_common/mod.rs"]
mod common;
use common::*;

use grin_core::core::KernelFeatures;
use serde_json::{json, Value};
use std::convert::TryFrom;
use vharness::libwallet::slate_versions::v4::SlateV4;
use vharness::libwallet::slate_versions::v4_bin::SlateV4Bin;
use vharness::libwallet::{
	Slate, Slatepack, SlatepackAddress, SlatepackArmor, SlatepackBin, Slatepacker, SlatepackerArgs,
	VersionedSlate,
};
use vharness::prng::{seed_from_env, Prng};
use vharness::*;

fn set_chain(p: u64) {
	use grin_core::global::{set_local_chain_type, ChainTypes};
	set_local_chain_type(if p == 1 {
		ChainTypes::Mainnet
	} else {
		ChainTypes::AutomatedTesting
	});
}

fn res_json<T, F: FnOnce(T) -> Value>(r: Result<Result<T, String>, String>, f: F) -> Value {
	match r {
		Ok(Ok(v)) => f(v),
		Ok(Err(e)) => json!({ "err": e.chars().take(120).collect::<String>() }),
		Err(p) => json!({ "panic": p.chars().take(120).collect::<String>() }),
	}
}

/// kernel of a slate's transaction: [tag, argument] (0 plain, 2 height locked, 3 NRD, 1 coinbase)
fn kernel_of(sl: &Slate) -> Value {
	match &sl.tx {
		None => Value::Null,
		Some(tx) => match tx.kernels().get(0).map(|k| k.features) {
			Some(KernelFeatures::Plain { .. }) => json!([0, 0]),
			Some(KernelFeatures::HeightLocked { lock_height, .. }) => json!([2, lock_height]),
			Some(KernelFeatures::NoRecentDuplicate { relative_height, .. }) => {
				json!([3, u64::from(relative_height)])
			}
			Some(KernelFeatures::Coinbase) => json!([1, 0]),
			None => Value::Null,
		},
	}
}

fn packer<'a>(
	sender: Option<SlatepackAddress>,
	recipients: Vec<SlatepackAddress>,
	key: Option<&'a ed25519_dalek::SecretKey>,
) -> Slatepacker<'a> {
	Slatepacker::new(SlatepackerArgs {
		sender,
		recipients,
		dec_key: key,
	})
}

fn run_v4(case: &Value, pools: &Pools) -> (Value, Vec<String>, Value) {
	let canon: Vec<u64> = case["v4"]
		.as_array()
		.unwrap()
		.iter()
		.map(|x| x.as_u64().or_else(|| x.as_str().and_then(|s| s.parse().ok())).unwrap())
		.collect();
	let v = v4_from_canon(&canon);
	let sender = case["sender"].as_u64().map(|i| pools.addrs[i as usize].clone());
	let wf = is_wf_v4(&v);
	let known = known_classes(&v);
	let mut fails: Vec<String> = vec![];
	let want = json!(canon);
	// oracle: the decoded slate equals the encoded one
	fn check_eq(fails: &mut Vec<String>, want: &Value, name: &str, got: &Value) {
		if got != want {
			let why = if got.get("err").is_some() || got.get("panic").is_some() {
				got.to_string()
			} else {
				"decoded slate differs".to_string()
			};
			fails.push(format!("{}: {}", name, why));
		}
	}

	// binary
	let bin = guarded(|| grin_wallet_util::byte_ser::to_bytes(&SlateV4Bin(v.clone())).map_err(|e| e.to_string()));
	let bin_hex = res_json(bin.clone(), |b| json!(hex(&b)));
	let bin_dec = match &bin {
		Ok(Ok(b)) => res_json(
			guarded(|| {
				grin_wallet_util::byte_ser::from_bytes::<SlateV4Bin>(b)
					.map(|s| canon_v4(&s.0))
					.map_err(|e| e.to_string())
			}),
			|c| json!(c),
		),
		_ => Value::Null,
	};
	check_eq(&mut fails, &want, "binary", &bin_dec);

	// JSON
	let js = guarded(|| serde_json::to_string(&VersionedSlate::V4(v.clone())).map_err(|e| e.to_string()));
	let (json_fields, json_dec) = match &js {
		Ok(Ok(text)) => {
			let doc: Value = serde_json::from_str(text).unwrap();
			let f = fields_of_json(&doc).map(|x| json!(x)).unwrap_or(Value::Null);
			let d = res_json(
				guarded(|| {
					serde_json::from_str::<VersionedSlate>(text)
						.map(|vs| match vs {
							VersionedSlate::V4(s) => canon_v4(&s),
						})
						.map_err(|e| e.to_string())
				}),
				|c| json!(c),
			);
			(f, d)
		}
		_ => (Value::Null, Value::Null),
	};
	check_eq(&mut fails, &want, "json", &json_dec);
	if bin_dec != json_dec {
		fails.push("binary and JSON forms decode to different slates".to_string());
	}

	// Slate <-> SlateV4
	let conv = guarded(|| {
		let sl = Slate::from(v.clone());
		let v2 = SlateV4::from(&sl);
		Ok::<_, String>((canon_v4(&v2), kernel_of(&sl)))
	});
	let (conv_canon, kernel) = match &conv {
		Ok(Ok((c, k))) => (json!(c), k.clone()),
		Ok(Err(e)) => (json!({ "err": e }), Value::Null),
		Err(p) => (json!({ "panic": p }), Value::Null),
	};
	check_eq(&mut fails, &want, "Slate<->V4", &conv_canon);

	// the slate as the wallet holds it (kernel built by the wallet for its kernel features)
	// must come back with the same kernel
	let mut wallet_kernel = Value::Null;
	let mut back_kernel = Value::Null;
	if let Ok(Ok(_)) = &conv {
		let r = guarded(|| {
			let mut sl = Slate::from(v.clone());
			if sl.tx.is_none() {
				return Ok(None);
			}
			if sl.update_kernel().is_err() {
				return Ok(None);
			}
			let wk = kernel_of(&sl);
			let text = serde_json::to_string(&sl).map_err(|e| e.to_string())?;
			let back = Slate::deserialize_upgrade(&text).map_err(|e| e.to_string())?;
			Ok::<_, String>(Some((wk, kernel_of(&back))))
		});
		match r {
			Ok(Ok(Some((wk, bk)))) => {
				if wk != bk {
					fails.push(format!("wallet slate kernel {} comes back as {}", wk, bk));
				}
				wallet_kernel = wk;
				back_kernel = bk;
			}
			Ok(Ok(None)) => {}
			Ok(Err(e)) => fails.push(format!("wallet slate JSON round trip: {}", e)),
			Err(p) => fails.push(format!("wallet slate JSON round trip: panic {}", p)),
		}
	}

	// slatepack stack: plain binary / JSON / armored and encrypted armored
	let key = pools.my_key();
	let mut stack = serde_json::Map::new();
	let sl = Slate::from(v.clone());
	let paths: [(&str, bool); 4] = [("sp-bin", false), ("sp-json", false), ("sp-armor", false), ("sp-armor-enc", true)];
	for (name, enc) in paths.iter() {
		let r = guarded(|| {
			set_chain(1);
			let recipients = if *enc { vec![pools.my_addr.clone()] } else { vec![] };
			let p = packer(sender.clone(), recipients, Some(&key));
			let sp = p.create_slatepack(&sl).map_err(|e| e.to_string())?;
			let wire: Vec<u8> = match *name {
				"sp-bin" => grin_wallet_util::byte_ser::to_bytes(&SlatepackBin(sp.clone())).map_err(|e| e.to_string())?,
				"sp-json" => serde_json::to_vec(&sp).map_err(|e| e.to_string())?,
				_ => p.armor_slatepack(&sp).map_err(|e| e.to_string())?.into_bytes(),
			};
			let sp2 = p.deser_slatepack(&wire, true).map_err(|e| e.to_string())?;
			let back = p.get_slate(&sp2).map_err(|e| e.to_string())?;
			let sender_back = sp2.sender.as_ref().map(|a| addr_string(a));
			let sender_want = sender.as_ref().map(|a| addr_string(a));
			if sender_back != sender_want {
				return Err(format!("sender {:?} came back as {:?}", sender_want, sender_back));
			}
			Ok::<_, String>(canon_v4(&SlateV4::from(&back)))
		});
		set_chain(0);
		let val = res_json(r, |c| json!(c));
		// bin/JSON slatepacks under 15 bytes or over max_size are refused by design; the
		// generated slates are far from both
		check_eq(&mut fails, &want, name, &val);
		stack.insert(name.to_string(), if val == json!(canon) { json!("same") } else { val });
	}

	let imp = json!({
		"bin": bin_hex, "bin_dec": bin_dec, "json_fields": json_fields, "json_dec": json_dec,
		"conv": conv_canon, "kernel": kernel, "wallet_kernel": wallet_kernel, "back_kernel": back_kernel,
		"stack": Value::Object(stack),
	});
	(imp, fails, json!({"wf": wf, "known": known}))
}

fn sp_from_case(case: &Value, pools: &Pools) -> Slatepack {
	let mut sp = Slatepack::default();
	sp.slatepack.major = case["major"].as_u64().unwrap() as u8;
	sp.slatepack.minor = case["minor"].as_u64().unwrap() as u8;
	sp.mode = case["mode"].as_u64().unwrap() as u8;
	sp.sender = case["sender"].as_u64().map(|i| pools.addrs[i as usize].clone());
	sp.payload = unhex(case["payload"].as_str().unwrap());
	sp
}

fn run_sp(case: &Value, pools: &Pools) -> (Value, Vec<String>, Value) {
	let sp = sp_from_case(case, pools);
	let want = canon_sp(&sp);
	let mut fails = vec![];
	let bin = guarded(|| grin_wallet_util::byte_ser::to_bytes(&SlatepackBin(sp.clone())).map_err(|e| e.to_string()));
	let bin_dec = match &bin {
		Ok(Ok(b)) => res_json(
			guarded(|| {
				grin_wallet_util::byte_ser::from_bytes::<SlatepackBin>(b)
					.map(|s| canon_sp(&s.0))
					.map_err(|e| e.to_string())
			}),
			|c| json!(c),
		),
		_ => Value::Null,
	};
	if bin_dec != json!(want) {
		fails.push(format!("binary slatepack: {}", if bin_dec.is_array() { "decoded slatepack differs".into() } else { bin_dec.to_string() }));
	}
	let armor = guarded(|| SlatepackArmor::encode(&sp).map_err(|e| e.to_string()));
	let armor_dec = match &armor {
		Ok(Ok(a)) => res_json(
			guarded(|| {
				SlatepackArmor::decode(a.as_bytes())
					.map(|b| hex(&b))
					.map_err(|e| e.to_string())
			}),
			|c| json!(c),
		),
		_ => Value::Null,
	};
	if let Ok(Ok(b)) = &bin {
		if armor_dec != json!(hex(b)) {
			fails.push(format!("armor: {}", armor_dec));
		}
	}
	let js = guarded(|| serde_json::to_string(&sp).map_err(|e| e.to_string()));
	let json_dec = match &js {
		Ok(Ok(t)) => res_json(
			guarded(|| serde_json::from_str::<Slatepack>(t).map(|s| canon_sp(&s)).map_err(|e| e.to_string())),
			|c| json!(c),
		),
		_ => Value::Null,
	};
	if json_dec != json!(want) {
		fails.push(format!("JSON slatepack: {}", if json_dec.is_array() { "decoded slatepack differs".into() } else { json_dec.to_string() }));
	}
	// through the dispatcher (size window: only when it applies)
	let imp = json!({
		"bin": res_json(bin, |b| json!(hex(&b))), "bin_dec": bin_dec,
		"armor": res_json(armor, |a| json!(hex(a.as_bytes()))), "armor_dec": armor_dec, "json_dec": json_dec,
		"sender_text": sp.sender.as_ref().map(|a| hex(addr_string(a).as_bytes())),
	});
	(imp, fails, json!({"wf": sp.mode <= 1 && sp.payload.len() <= 100_000, "known": []}))
}

fn run_meta(case: &Value, pools: &Pools) -> (Value, Vec<String>, Value) {
	let mut sp = Slatepack::default();
	sp.sender = case["sender"].as_u64().map(|i| pools.addrs[i as usize].clone());
	for r in case["recipients"].as_array().unwrap() {
		sp.add_recipient(pools.addrs[r.as_u64().unwrap() as usize].clone());
	}
	sp.payload = unhex(case["payload"].as_str().unwrap());
	let want = canon_sp_meta(&sp);
	let mut fails = vec![];
	let key = pools.my_key();
	let r = guarded(|| {
		let mut e = sp.clone();
		e.try_encrypt_payload(vec![pools.my_addr.clone()]).map_err(|x| x.to_string())?;
		if e.mode != 1 || e.sender.is_some() {
			return Err("encryption left mode/sender in clear".to_string());
		}
		let plain = age_decrypt_with(&pools.my_ed_secret, &e.payload).ok_or("harness could not decrypt")?;
		let mut d = e.clone();
		d.try_decrypt_payload(Some(&key)).map_err(|x| x.to_string())?;
		Ok::<_, String>((hex(&plain), canon_sp_meta(&d)))
	});
	let (plain, dec) = match r {
		Ok(Ok((p, d))) => (json!(p), json!(d)),
		Ok(Err(e)) => (Value::Null, json!({ "err": e })),
		Err(p) => (Value::Null, json!({ "panic": p })),
	};
	if dec != json!(want) {
		fails.push(format!("encrypted metadata round trip: {}", if dec.is_array() { "differs".into() } else { dec.to_string() }));
	}
	let rt: Vec<String> = sp.recipients().iter().map(|a| hex(addr_string(a).as_bytes())).collect();
	(
		json!({"plain": plain, "dec": dec, "want": want,
			"sender_text": sp.sender.as_ref().map(|a| hex(addr_string(a).as_bytes())), "recipients_text": rt}),
		fails,
		json!({"wf": true, "known": []}),
	)
}

fn run_addr(case: &Value, pools: &Pools) -> (Value, Vec<String>, Value) {
	let mut fails = vec![];
	let i = case["addr"].as_u64().unwrap() as usize;
	let a = pools.addrs[i % pools.addrs.len()].clone();
	let r = guarded(|| {
		let s = String::try_from(&a).map_err(|e| e.to_string())?;
		let b = SlatepackAddress::try_from(s.as_str()).map_err(|e| e.to_string())?;
		if a != b {
			return Err("bech32 text round trip differs".to_string());
		}
		let up = SlatepackAddress::try_from(s.to_uppercase().as_str()).map_err(|e| e.to_string())?;
		if a != up {
			return Err("upper-case bech32 text decodes to a different address".to_string());
		}
		let js = serde_json::to_string(&a).map_err(|e| e.to_string())?;
		let c: SlatepackAddress = serde_json::from_str(&js).map_err(|e| e.to_string())?;
		if a != c {
			return Err("JSON round trip differs".to_string());
		}
		// onion v3
		let o = grin_wallet_util::OnionV3Address::from(&a);
		let os = o.to_ov3_str();
		for t in [os.clone(), o.to_http_str(), os.to_uppercase(), hex(o.as_bytes())].iter() {
			let o2 = grin_wallet_util::OnionV3Address::try_from(t.as_str()).map_err(|e| format!("{:?}", e))?;
			if o2 != o {
				return Err(format!("onion address text {} decodes to a different key", t));
			}
		}
		let back = SlatepackAddress::try_from(o.clone()).map_err(|e| e.to_string())?;
		if back.pub_key != a.pub_key {
			return Err("onion -> slatepack address changes the key".to_string());
		}
		Ok::<_, String>(s)
	});
	let v = match r {
		Ok(Ok(s)) => json!(s),
		Ok(Err(e)) => {
			fails.push(e.clone());
			json!({ "err": e })
		}
		Err(p) => {
			fails.push(format!("panic {}", p));
			json!({ "panic": p })
		}
	};
	(json!({ "text": v }), fails, json!({"wf": true, "known": []}))
}

/// stored wallet records: grin ser (Writeable = JSON inside a length-prefixed blob) round trip
fn run_records(case: &Value, _pools: &Pools) -> (Value, Vec<String>, Value) {
	use grin_core::ser as gser;
	use vharness::libwallet::{OutputData, OutputStatus, TxLogEntry, TxLogEntryType};
	let mut fails = vec![];
	let seed = case["seed"].as_u64().unwrap();
	let mut p = Prng::new(seed);
	let r = guarded(|| {
		let o = OutputData {
			root_key_id: vharness::mem::acct_id(p.below(3) as u32),
			key_id: vharness::mem::out_id(p.below(3) as u32, p.below(1000) as u32),
			n_child: p.next() as u32,
			commit: if p.coin() { Some(hex(&gen_commit(&mut p).0)) } else { None },
			mmr_index: if p.coin() { Some(gen_u64(&mut p)) } else { None },
			value: gen_u64(&mut p),
			status: match p.below(5) {
				0 => OutputStatus::Unconfirmed,
				1 => OutputStatus::Unspent,
				2 => OutputStatus::Locked,
				3 => OutputStatus::Spent,
				_ => OutputStatus::Reverted,
			},
			height: gen_u64(&mut p),
			lock_height: gen_u64(&mut p),
			is_coinbase: p.coin(),
			tx_log_entry: if p.coin() { Some(p.next() as u32) } else { None },
		};
		let bytes = gser::ser_vec(&o, gser::ProtocolVersion(1)).map_err(|e| e.to_string())?;
		let o2: OutputData = gser::deserialize(&mut &bytes[..], gser::ProtocolVersion(1), gser::DeserializationMode::default())
			.map_err(|e| e.to_string())?;
		if serde_json::to_value(&o).unwrap() != serde_json::to_value(&o2).unwrap() {
			return Err("OutputData differs after ser/deser".to_string());
		}
		let mut t = TxLogEntry::new(
			vharness::mem::acct_id(p.below(3) as u32),
			match p.below(5) {
				0 => TxLogEntryType::ConfirmedCoinbase,
				1 => TxLogEntryType::TxReceived,
				2 => TxLogEntryType::TxSent,
				3 => TxLogEntryType::TxReceivedCancelled,
				_ => TxLogEntryType::TxSentCancelled,
			},
			p.next() as u32,
		);
		t.amount_credited = gen_u64(&mut p);
		t.amount_debited = gen_u64(&mut p);
		t.num_inputs = p.below(10) as usize;
		t.num_outputs = p.below(10) as usize;
		t.confirmed = p.coin();
		t.ttl_cutoff_height = if p.coin() { Some(gen_u64(&mut p)) } else { None };
		t.kernel_excess = if p.coin() { Some(gen_commit(&mut p)) } else { None };
		t.kernel_lookup_min_height = if p.coin() { Some(gen_u64(&mut p)) } else { None };
		if p.coin() {
			let mut idb = [0u8; 16];
			idb.copy_from_slice(&p.bytes(16));
			t.tx_slate_id = Some(uuid::Uuid::from_bytes(idb));
		}
		let bytes = gser::ser_vec(&t, gser::ProtocolVersion(1)).map_err(|e| e.to_string())?;
		let t2: TxLogEntry = gser::deserialize(&mut &bytes[..], gser::ProtocolVersion(1), gser::DeserializationMode::default())
			.map_err(|e| e.to_string())?;
		if serde_json::to_value(&t).unwrap() != serde_json::to_value(&t2).unwrap() {
			return Err("TxLogEntry differs after ser/deser".to_string());
		}
		Ok::<_, String>(())
	});
	match r {
		Ok(Ok(())) => {}
		Ok(Err(e)) => fails.push(e),
		Err(p) => fails.push(format!("panic {}", p)),
	}
	(json!({}), fails, json!({"wf": true, "known": []}))
}

fn run_case(case: &Value, pools: &Pools) -> (Value, Vec<String>, Value) {
	match case["k"].as_u64().unwrap() {
		1 => run_v4(case, pools),
		2 => run_sp(case, pools),
		3 => run_meta(case, pools),
		4 => run_addr(case, pools),
		_ => run_records(case, pools),
	}
}

fn gen_cases(p: &mut Prng, pools: &Pools, n: u64) -> Vec<Value> {
	let mut cs = vec![];
	for i in 0..n {
		// well-formed slates (the oracle's domain) with the known classes mixed in, and a wild
		// stream that probes the boundary of wf (correspondence only)
		let wild = i % 5 == 4;
		let big = i % 97 == 0;
		let v = gen_v4(
			p,
			pools,
			&GenOpt {
				wild,
				max_sigs: if big { 255 } else { 6 },
				max_coms: if big { 40 } else { 5 },
				proof_den: if big { 8 } else { 4 },
			},
		);
		let mut v = v;
		if !wild {
			// the order the wallet emits: inputs first
			if let Some(cs) = v.coms.as_mut() {
				cs.sort_by_key(|c| c.p.is_some());
			}
		}
		let sender = if p.coin() { Some(p.below(pools.addrs.len() as u64)) } else { None };
		cs.push(json!({"k": 1, "v4": canon_v4(&v), "sender": sender}));
	}
	for _ in 0..(n / 5) {
		let plen = *p.pick(&[0usize, 1, 3, 4, 5, 17, 60, 120]);
		cs.push(json!({
			"k": 2,
			"major": *p.pick(&[1u8, 1, 1, 0, 2, 255]), "minor": *p.pick(&[0u8, 0, 1, 255]),
			"mode": *p.pick(&[0u8, 0, 0, 1]),
			"sender": if p.coin() { Some(p.below(pools.addrs.len() as u64)) } else { None },
			"payload": hex(&p.bytes(plen)),
		}));
	}
	for _ in 0..(n / 10) {
		let nrec = *p.pick(&[0u64, 0, 1, 2, 5]);
		let recips: Vec<u64> = (0..nrec).map(|_| p.below(pools.addrs.len() as u64)).collect();
		let plen = p.below(60) as usize;
		cs.push(json!({
			"k": 3,
			"sender": if p.coin() { Some(p.below(pools.addrs.len() as u64)) } else { None },
			"recipients": recips, "payload": hex(&p.bytes(plen)),
		}));
	}
	for i in 0..pools.addrs.len() {
		cs.push(json!({"k": 4, "addr": i}));
	}
	for _ in 0..(n / 20) {
		cs.push(json!({"k": 5, "seed": p.next()}));
	}
	cs
}

fn main() {
	quiet_panics();
	set_chain(0);
	let out_path = arg("out").expect("--out");
	let mut out = Out::create(&out_path);
	let pools = Pools::new();
	let cases: Vec<Value> = if let Some(replay) = arg("replay") {
		let v: Value = serde_json::from_str(&std::fs::read_to_string(&replay).unwrap()).unwrap();
		if v.get("cases").is_some() {
			v["cases"].as_array().unwrap().clone()
		} else {
			vec![v["case"].clone()]
		}
	} else {
		let mut p = Prng::new(seed_from_env());
		gen_cases(&mut p, &pools, arg_u64("n", 1000))
	};
	let threads = arg_u64("threads", 16) as usize;
	let n = cases.len();
	let chunk = ((n + threads - 1) / threads.max(1)).max(1);
	let mut rows: Vec<Option<Value>> = (0..n).map(|_| None).collect();
	std::thread::scope(|sc| {
		for (cs, rs) in cases.chunks(chunk).zip(rows.chunks_mut(chunk)) {
			sc.spawn(move || {
				set_chain(0);
				let pools = Pools::new();
				for (c, r) in cs.iter().zip(rs.iter_mut()) {
					let (imp, fails, meta) = run_case(c, &pools);
					*r = Some(json!({"case": c, "impl": imp, "oracle": fails, "meta": meta}));
				}
			});
		}
	});
	for (i, r) in rows.into_iter().enumerate() {
		let mut v = r.unwrap();
		v["id"] = json!(i);
		out.line(&v);
	}
	out.finish();
}
